(* C11 - property theorems only.  Each is closed by [exact] of a lemma from Proofs.v and
   followed by Print Assumptions.

   Reading guide.  [ops] is any history: declarations of the module list (scripted modules
   with arbitrary behaviours, shipped modules), of the mode (bare ModList / baseapp.App /
   node App) and of the environment, then any sequence of Start, Stop and environment
   completions [OFire k b] (the continuation received at the k-th module entry is invoked
   with b: any order, any number of times, stale ones included).  [trace ops r] is the
   ordered log of module entries, next() calls and finish() calls of run r (one
   ModList.Start or ModList.Stop call); [run_info ops r = Some (fwd, _)] says run r exists
   and is a Start (fwd = true) or a Stop run.  [at_most_once t]: every next() in t answers an
   earlier, not yet answered entry of the same module; [exactly_once t]: and none is left
   unanswered. *)
From Cell2V Require Import Common.Tac Common.ListX C11.Model C11.Spec C11.Proofs.

(* Master statement: if no module completes more often than it was entered, the trace of every
   run is accepted by the one-at-a-time automaton of Spec.v over the visiting order, no call
   is left half-way, and if moreover every entered module did complete the run is over. *)
Theorem C11_discipline : forall ops r fwd idx,
  run_info ops r = Some (fwd, idx) -> at_most_once (trace ops r) ->
  exists q, arun (Idle (order fwd (nmods_of ops))) (trace ops r) = Some q /\ settled q = true /\
            (exactly_once (trace ops r) -> q = Done).
Proof. exact discipline. Qed.
Print Assumptions C11_discipline.

(* Start: the modules entered are a prefix of the registration order 0,1,2,..; the first one
   is entered first thing, every other one immediately after its predecessor's next(true). *)
Theorem C11_start_order : forall ops r idx,
  run_info ops r = Some (true, idx) -> at_most_once (trace ops r) ->
  in_order (zseq 0 (nmods_of ops)) (trace ops r).
Proof. exact (fun ops r idx => start_stop_order ops r true idx). Qed.
Print Assumptions C11_start_order.

(* The first module that reports failure ends the run: what follows is exactly finish(false). *)
Theorem C11_first_failure_stops : forall ops r fwd idx,
  run_info ops r = Some (fwd, idx) -> at_most_once (trace ops r) -> failure_stops (trace ops r).
Proof. exact first_failure. Qed.
Print Assumptions C11_first_failure_stops.

(* finish is invoked at most once, as the last event, with the conjunction of the outcomes, and
   with true only after every module was entered and succeeded; if every entered module
   completed exactly once it is invoked exactly once. *)
Theorem C11_finish_once : forall ops r fwd idx,
  run_info ops r = Some (fwd, idx) -> at_most_once (trace ops r) ->
  finish_last_with_outcome (order fwd (nmods_of ops)) (trace ops r) /\
  (length (fins (trace ops r)) <= 1)%nat /\
  (exactly_once (trace ops r) -> finished_once (trace ops r)).
Proof. exact finish_once. Qed.
Print Assumptions C11_finish_once.

(* Stop: the same rules over exactly the reverse order n-1,..,1,0. *)
Theorem C11_stop_reverse : forall ops r idx,
  run_info ops r = Some (false, idx) -> at_most_once (trace ops r) ->
  in_order (rev (zseq 0 (nmods_of ops))) (trace ops r) /\
  failure_stops (trace ops r) /\
  finish_last_with_outcome (rev (zseq 0 (nmods_of ops))) (trace ops r) /\
  (length (fins (trace ops r)) <= 1)%nat /\
  (exactly_once (trace ops r) -> finished_once (trace ops r)).
Proof. exact stop_reverse. Qed.
Print Assumptions C11_stop_reverse.

(* ---- what happens otherwise ---- *)

(* a module that was entered and never completes: the run never finishes *)
Theorem C11_stalled_never_finishes : forall ops r fwd idx i P,
  run_info ops r = Some (fwd, idx) -> pending (trace ops r) = Some (i :: P) -> fins (trace ops r) = [].
Proof. exact stalled_no_finish. Qed.
Print Assumptions C11_stalled_never_finishes.

(* whatever the modules do (several next() calls, stale calls, calls after the end): every
   next() produces exactly one more module entry or one more finish() - so each surplus
   next(true) starts a later module early or invokes finish(true) again *)
Theorem C11_accounting : forall ops r fwd idx,
  run_info ops r = Some (fwd, idx) -> accounting (trace ops r).
Proof. exact accounting_all. Qed.
Print Assumptions C11_accounting.

(* ... but even then no module is entered twice in one run and the visiting direction is kept *)
Theorem C11_never_twice_never_backwards : forall ops r fwd idx,
  run_info ops r = Some (fwd, idx) ->
  if fwd then increasing (entered (trace ops r)) else decreasing (entered (trace ops r)).
Proof. exact monotone_all. Qed.
Print Assumptions C11_never_twice_never_backwards.

(* the hypothesis, by counting: in every prefix no module has more completions than entries *)
Theorem C11_hypothesis_counting : forall t, at_most_once t <-> at_most_once_counting t.
Proof. exact hypothesis_iff. Qed.
Print Assumptions C11_hypothesis_counting.

(* the model never runs out of fuel, m.mods[index] is never out of range, nothing hangs *)
Theorem C11_no_artifacts : forall ops x,
  In x (concat (run ops)) -> x <> EOutOfFuel /\ x <> EHang /\ forall r, x <> EIndexPanic r.
Proof. exact no_artifacts. Qed.
Print Assumptions C11_no_artifacts.

(* ---- App.Start / App.Stop ---- *)

(* Start is honoured only in state Prepared, Stop only in state Normal; a refused call changes
   nothing and calls nothing; an honoured one creates exactly one run and leaves the state. *)
Theorem C11_app_guard : forall pre,
  is_app (e_mode (env_of pre)) = true ->
  (s_app (final pre) <> 1 ->
     final (pre ++ [OStart]) = final pre /\ run (pre ++ [OStart]) = run pre ++ [[]]) /\
  (s_app (final pre) <> 3 ->
     final (pre ++ [OStop]) = final pre /\ run (pre ++ [OStop]) = run pre ++ [[]]) /\
  (s_app (final pre) = 1 ->
     s_runs (final pre) = [] /\ length (s_runs (final (pre ++ [OStart]))) = 1%nat /\
     run_info (pre ++ [OStart]) 0 <> None /\ s_app (final (pre ++ [OStart])) <> 1) /\
  (s_app (final pre) = 3 ->
     length (s_runs (final (pre ++ [OStop]))) = S (length (s_runs (final pre))) /\
     s_app (final (pre ++ [OStop])) <> 3).
Proof. exact app_guard. Qed.
Print Assumptions C11_app_guard.

(* over whole histories: at most one start run, whatever the modules do *)
Theorem C11_app_single_start : forall ops,
  is_app (e_mode (env_of ops)) = true -> (n_runs true (s_runs (final ops)) <= 1)%nat.
Proof. exact app_single_start. Qed.
Print Assumptions C11_app_single_start.

(* every stop run (and a current state Normal) is paid for by a distinct finish(true) of the
   start run; without a start run there is no stop run *)
Theorem C11_app_stop_needs_success : forall ops,
  is_app (e_mode (env_of ops)) = true ->
  (forall r idx, run_info ops r = Some (true, idx) ->
     (n_runs false (s_runs (final ops)) + b2n (Z.eqb (s_app (final ops)) 3) <= n_fin_true (trace ops r))%nat) /\
  (n_runs true (s_runs (final ops)) = 0%nat ->
     n_runs false (s_runs (final ops)) = 0%nat /\ s_app (final ops) <> 3).
Proof. exact app_stop_needs_success. Qed.
Print Assumptions C11_app_stop_needs_success.

(* hence, if the modules' Start completes at most once each: at most one stop run *)
Theorem C11_app_single_stop : forall ops r idx,
  is_app (e_mode (env_of ops)) = true ->
  run_info ops r = Some (true, idx) -> at_most_once (trace ops r) ->
  (n_runs false (s_runs (final ops)) <= 1)%nat.
Proof. exact app_single_stop. Qed.
Print Assumptions C11_app_single_stop.

(* once a call is stuck behind the list lock nothing happens any more *)
Theorem C11_after_deadlock : forall pre o,
  s_dead (final pre) = true -> decl (env_of pre) o = env_of pre ->
  final (pre ++ [o]) = final pre /\ run (pre ++ [o]) = run pre ++ [[]].
Proof. exact after_deadlock. Qed.
Print Assumptions C11_after_deadlock.

(* ... and that only ever happens to a request the guard had accepted: the state is Starting or
   Stoping; a bare ModList (no owner callbacks in the model) never gets there *)
Theorem C11_deadlock_only_accepted : forall ops,
  s_dead (final ops) = true ->
  is_app (e_mode (env_of ops)) = true /\ (s_app (final ops) = 2 \/ s_app (final ops) = 4).
Proof. exact deadlock_only_accepted. Qed.
Print Assumptions C11_deadlock_only_accepted.

(* ---- the modules shipped with the framework ---- *)

(* every path of every Start/Stop (as repaired by hooks/C11-fix-*.patch) calls next exactly
   once, with the outcome of the path, and does not panic.  The fault points are the
   parameters: for the cluster module which step fails - etcd.NewWithConfig, StartMember's init,
   fetchNodes, the watch goroutine, registerService, the keep-alive goroutine; Shutdown's
   Delete - in every combination.  Two Stop paths carry a precondition that App.Stop guarantees
   (Stop is only reached after every Start succeeded, see C11_app_stop_needs_success) and that
   a bare ModList.Stop after a failed Start does not: ActorSystemModule.Stop needs a live actor
   system, ClusterModule.Stop needs that its own Start did not fail inside StartMember's init
   (else Shutdown dereferences a nil node).  Without them the real Stop panics before next();
   see C11_stop_preconditions_matter. *)
Theorem C11_builtin_once :
  reports_once (beh_of welcome_start_prog) true /\
  reports_once (beh_of welcome_stop_prog) true /\
  (forall info_ok listen_ok, reports_once (beh_of (actor_start_prog info_ok listen_ok)) (info_ok && listen_ok)) /\
  reports_once (beh_of (actor_stop_prog true)) true /\
  (forall enable new_ok init_ok fetch_ok watch_ok register_ok keepalive_ok,
     reports_once (beh_of (cluster_start_prog enable new_ok init_ok fetch_ok watch_ok register_ok keepalive_ok))
                  (negb enable || (new_ok && init_ok && fetch_ok && register_ok))) /\
  (forall prov delete_ok, reports_once (beh_of (cluster_stop_prog prov false delete_ok)) true).
Proof. exact shipped_once. Qed.
Print Assumptions C11_builtin_once.

(* which step's error StartMember returns; the goroutines' outcomes do not enter *)
Theorem C11_start_member_steps : forall init fetch watch register keepalive,
  failed (start_member init fetch watch register keepalive) = negb (init && fetch && register) /\
  (start_member init fetch watch register keepalive = Some MInit <-> init = false) /\
  (start_member init fetch watch register keepalive = Some MFetch <-> init = true /\ fetch = false) /\
  (start_member init fetch watch register keepalive = Some MRegister <-> init = true /\ fetch = true /\ register = false).
Proof. exact start_member_spec. Qed.
Print Assumptions C11_start_member_steps.

(* frame: a failing watch or keep-alive goroutine changes nothing about what Start reports *)
Theorem C11_cluster_async_faults_frame : forall enable new init fetch watch register keepalive watch' keepalive',
  beh_of (cluster_start_prog enable new init fetch watch register keepalive) =
  beh_of (cluster_start_prog enable new init fetch watch' register keepalive').
Proof. exact cluster_async_frame. Qed.
Print Assumptions C11_cluster_async_faults_frame.

(* the same as they are plugged into the list machine, for every environment (every set of
   declared etcd faults, every address, every mode) *)
Theorem C11_builtin_entry_once : forall e fwd live bound prov half k,
  shipped k = true -> (k = KActor -> fwd = false -> live = true) ->
  (k = KCluster -> fwd = false -> half = false) ->
  exists b, entry_beh e fwd live bound prov half k = Beh [b] false.
Proof. exact shipped_entry_once. Qed.
Print Assumptions C11_builtin_entry_once.

(* on whole histories: in the log of any history (any module list, mode, address, set of etcd
   faults, any Start/Stop/completion sequence, misbehaving scripted modules included) every
   call (run r, module i) of a shipped module has exactly one next() - plus the completions the
   environment itself fired at that call's continuation.  Exempt are only the Stop calls of the
   actor / cluster module entered without their precondition (unclaimed).  This is the clause
   the monitor evaluates on the implementation's log (Corr.builtin_ok). *)
Theorem C11_shipped_calls_once : forall ops,
  shipped_calls_once ops (run ops) (map fst (s_runs (final ops))).
Proof. exact shipped_calls_once_model. Qed.
Print Assumptions C11_shipped_calls_once.

Theorem C11_call_once_monitor_exact : forall ops obs r i,
  call_once_b ops obs r i = true <-> call_once ops obs r i.
Proof. exact call_once_b_iff. Qed.
Print Assumptions C11_call_once_monitor_exact.

(* ---- the monitor run on implementation traces is exactly the statement ---- *)
Theorem C11_monitor_exact : forall ord t,
  run_ok_b ord t = true <->
  (at_most_once t -> exists q, arun (Idle ord) t = Some q /\ settled q = true /\ (exactly_once t -> q = Done)).
Proof. exact run_ok_b_iff. Qed.
Print Assumptions C11_monitor_exact.

Theorem C11_model_passes_monitor : forall ops r fwd idx,
  run_info ops r = Some (fwd, idx) -> run_ok_b (order fwd (nmods_of ops)) (trace ops r) = true.
Proof. exact model_passes_monitor. Qed.
Print Assumptions C11_model_passes_monitor.

(* ---- non-vacuity and refutations of the unrepaired code ---- *)
(* three modules; Start of the 2nd and 3rd and Stop of the 1st complete later: the hypotheses
   hold and the theorems' conclusions are visible *)
Example C11_example_delayed :
  let ops := [OMod (KScript ex_ok ex_later); OMod (KScript ex_later ex_ok); OMod (KScript ex_later ex_ok);
              OStart; OFire 1 true; OFire 2 true; OStop; OFire 5 true] in
  run ops =
    [[]; []; [];
     [EEnter 0 0; ENext 0 0 true; EEnter 0 1];
     [ENext 0 1 true; EEnter 0 2];
     [ENext 0 2 true; EFin 0 true];
     [EEnter 1 2; ENext 1 2 true; EEnter 1 1; ENext 1 1 true; EEnter 1 0];
     [ENext 1 0 true; EFin 1 true]]
  /\ exactly_once (trace ops 0) /\ exactly_once (trace ops 1)
  /\ run_info ops 0 = Some (true, 3) /\ run_info ops 1 = Some (false, -1).
Proof. vm_compute. repeat split. Qed.

(* a failing module in the middle of an App start: finish(false) once, Stop refused afterwards *)
Example C11_example_failure :
  run [OMode (MApp true); OMod (KScript ex_ok ex_ok); OMod (KScript ex_later ex_ok); OMod (KScript ex_ok ex_ok);
       OStart; OFire 1 false; OStop; OStart]
  = [[]; []; []; []; [EEnter 0 0; ENext 0 0 true; EEnter 0 1];
     [ENext 0 1 false; EFin 0 false]; []; []].
Proof. vm_compute. reflexivity. Qed.

(* F5, before the repair: ClusterModule.Start on the StartMember-failure path calls
   next(false) and then next(true) ... *)
Example C11_F5_unrepaired_program :
  beh_of (cluster_start_prog_unrepaired true true false true true true true) = Beh [false; true] false.
Proof. vm_compute. reflexivity. Qed.

(* ... so the list reports failure, then starts the next module anyway, reports success, the
   App becomes Normal and accepts Stop *)
Example C11_F5_unrepaired_consequence :
  run [OMode MNode; OMod (KScript (beh_of (cluster_start_prog_unrepaired true true false true true true true)) ex_ok);
       OMod (KScript ex_ok ex_ok); OStart; OStop]
  = [[]; []; [];
     [EEnter 0 0; ENext 0 0 false; EFin 0 false; ENext 0 0 true; EEnter 0 1; ENext 0 1 true; EFin 0 true];
     [EEnter 1 1; ENext 1 1 true; EEnter 1 0; ENext 1 0 true; EFin 1 true]].
Proof. vm_compute. reflexivity. Qed.

(* the repaired model on the same path *)
Example C11_F5_repaired :
  run [OMode MNode; OEnv ABad true false; OMod KCluster; OMod (KScript ex_ok ex_ok); OStart; OStop]
  = [[]; []; []; []; [EEnter 0 0; ENext 0 0 false; EFin 0 false]; []].
Proof. vm_compute. reflexivity. Qed.

(* second defect found: before the repair ActorSystemModule.Start never called next when the
   remote could not listen (remote.Start panics, ModList.Start swallows the panic) *)
Example C11_actor_listen_unrepaired :
  beh_of (actor_start_prog_unrepaired true false) = Beh [] true
  /\ beh_of (actor_start_prog true false) = Beh [false] false.
Proof. vm_compute. split; reflexivity. Qed.

(* the two Stop preconditions matter: a bare ModList.Stop after a failed Start stalls in the
   shipped module (observed on the real code; outside the App guard) *)
Example C11_stop_preconditions_matter :
  beh_of (actor_stop_prog false) = Beh [] true /\ beh_of (cluster_stop_prog true true true) = Beh [] true /\
  run [OEnv ABad true false; OMod KCluster; OStart; OStop]
  = [[]; []; [EEnter 0 0; ENext 0 0 false; EFin 0 false]; [EEnter 1 0; ERaise 1 0]].
Proof. vm_compute. repeat split. Qed.

(* the etcd fault points in the list machine: registerService's Put fails - the node start-up
   ends with one finish(false), Stop is refused; Shutdown's Delete fails - Stop still reports
   once, with true (the error is logged by the provider and ignored by the module) *)
Example C11_example_etcd_faults :
  run [OMode MNode; OEnv AFree true true; OFault FPut; OMod KWelcome; OMod KCluster; OMod (KScript ex_ok ex_ok); OStart; OStop]
  = [[]; []; []; []; []; []; [EEnter 0 0; ENext 0 0 true; EEnter 0 1; ENext 0 1 false; EFin 0 false]; []] /\
  run [OEnv AFree true true; OFault FDelete; OFault FWatch; OFault FKaStream; OMod KCluster; OStart; OStop; OStop]
  = [[]; []; []; []; []; [EEnter 0 0; ENext 0 0 true; EFin 0 true]; [EEnter 1 0; ENext 1 0 true; EFin 1 true];
     [EEnter 2 0; ENext 2 0 true; EFin 2 true]] /\
  s_prov (final [OEnv AFree true true; OFault FDelete; OMod KCluster; OStart]) = [0] /\
  s_prov (final [OEnv AFree true true; OFault FDelete; OMod KCluster; OStart; OStop]) = [].
Proof. vm_compute. repeat split. Qed.

(* the reference mistake of the completion count: F5's slip made in Stop (report the Shutdown
   error, fall through to the final next(true)).  Stop then reports [false; true]; in a list the
   stop completion runs twice and the modules registered earlier are stopped after the failure
   was reported.  The repository's Stop does not do this (C11_builtin_once); a tree that does is
   rejected by the monitor's per-call count (Spec.shipped_calls_once) with the history
   [OEnv AFree true true; OFault FDelete; OMod KCluster; OStart; OStop] *)
Example C11_stop_fallthrough_mistake :
  beh_of (cluster_stop_prog_fallthrough true false false) = Beh [false; true] false /\
  beh_of (cluster_stop_prog true false false) = Beh [true] false /\
  run [OMod (KScript ex_ok ex_ok); OMod (KScript ex_ok (beh_of (cluster_stop_prog_fallthrough true false false)));
       OStart; OStop]
  = [[]; []; [EEnter 0 0; ENext 0 0 true; EEnter 0 1; ENext 0 1 true; EFin 0 true];
     [EEnter 1 1; ENext 1 1 false; EFin 1 false; ENext 1 1 true; EEnter 1 0; ENext 1 0 true; EFin 1 true]].
Proof. vm_compute. repeat split. Qed.

(* C11_shipped_calls_once is not vacuous: in a node history with a failing deregistration every
   call of every shipped module is claimed (6 calls, each with one next()); after a Start that
   failed inside StartMember's init a bare ModList.Stop is the exempt call *)
Example C11_claimed_calls :
  (let ops := [OMode MNode; OEnv AFree true true; OFault FDelete; OMod KWelcome; OMod KActor; OMod KCluster; OStart; OStop] in
   unclaimed (env_of ops) (map fst (s_runs (final ops))) false [] (concat (run ops)) = [] /\
   map fst (s_runs (final ops)) = [true; false] /\
   caps_of (concat (run ops)) = [(0, 0); (0, 1); (0, 2); (1, 2); (1, 1); (1, 0)]) /\
  (let ops := [OEnv ABad true false; OMod KCluster; OStart; OStop] in
   unclaimed (env_of ops) (map fst (s_runs (final ops))) false [] (concat (run ops)) = [(1, 0)]).
Proof. vm_compute. repeat split. Qed.

(* ---- second life cycles: what survives a Stop ---- *)
(* bare list on a node with a fixed address: start, stop, start again - the remote of the first
   life cycle still holds the port, the second Start fails on its own and reports once - and the
   Stop after that failed Start shuts down the module's own, new system and reports once.  The
   node still publishes the FIRST system, which is shut down (POld false): a Stop that went by
   the published system (actor_stop_prog_published, never in the repository) would panic here
   and also in the first life cycle after a failed listen (nothing published yet) *)
Example C11_second_life_cycle :
  (let ops := [OMode MListNode; OEnv AFixed false false; OMod KWelcome; OMod KActor; OStart; OStop; OStart; OStop] in
   run ops = [[]; []; []; [];
     [EEnter 0 0; ENext 0 0 true; EEnter 0 1; ENext 0 1 true; EFin 0 true];
     [EEnter 1 1; ENext 1 1 true; EEnter 1 0; ENext 1 0 true; EFin 1 true];
     [EEnter 2 0; ENext 2 0 true; EEnter 2 1; ENext 2 1 false; EFin 2 false];
     [EEnter 3 1; ENext 3 1 true; EEnter 3 0; ENext 3 0 true; EFin 3 true]] /\
   s_bound (final ops) = true) /\
  (let pre := [OMode MListNode; OEnv AFixed false false; OMod KWelcome; OMod KActor; OStart; OStop; OStart] in
   s_pub (final pre) = POld false /\ s_live (final pre) = true /\
   beh_of (actor_stop_prog (s_live (final pre))) = Beh [true] false /\
   beh_of (actor_stop_prog_published (s_pub (final pre)) (s_live (final pre))) = Beh [] true) /\
  (let pre := [OMode MListNode; OEnv ABusy false false; OMod KWelcome; OMod KActor; OStart] in
   s_pub (final pre) = PNone /\ s_live (final pre) = true /\
   beh_of (actor_stop_prog_published (s_pub (final pre)) (s_live (final pre))) = Beh [] true /\
   run (pre ++ [OStop]) = [[]; []; []; []; [EEnter 0 0; ENext 0 0 true; EEnter 0 1; ENext 0 1 false; EFin 0 false];
                           [EEnter 1 1; ENext 1 1 true; EEnter 1 0; ENext 1 0 true; EFin 1 true]]).
Proof. vm_compute. repeat split. Qed.

(* ---- requests made from inside the completion callbacks ---- *)
(* Stop requested inside the start callback.  With a module that completes later the callback runs
   outside the list lock: the state is already Normal, the Stop is honoured and the stop run runs
   right there, before the fired continuation returns; a later Stop is refused.  With synchronous
   modules only the callback runs while ModList.Filter holds the list lock: the Stop is honoured
   too and waits for that lock for ever (observed on the real code) - the history is over. *)
Example C11_stop_inside_start_callback :
  run [OMode (MApp true); OCallback true false; OMod (KScript ex_ok ex_ok); OMod (KScript ex_later ex_ok); OStart; OFire 1 true; OStop]
  = [[]; []; []; []; [EEnter 0 0; ENext 0 0 true; EEnter 0 1];
     [ENext 0 1 true; EFin 0 true; EEnter 1 1; ENext 1 1 true; EEnter 1 0; ENext 1 0 true; EFin 1 true]; []] /\
  run [OMode (MApp true); OCallback true false; OMod (KScript ex_ok ex_ok); OMod (KScript ex_ok ex_ok); OStart; OStop]
  = [[]; []; []; []; [EEnter 0 0; ENext 0 0 true; EEnter 0 1; ENext 0 1 true; EFin 0 true; EDeadlock 0]; []] /\
  (* the requests the guards refuse: Start from either callback, Stop from the stop callback *)
  run [OMode (MApp true); OCallback true true; OCallback false false; OMod (KScript ex_ok ex_ok); OStart; OStop; OStart]
  = [[]; []; []; []; [EEnter 0 0; ENext 0 0 true; EFin 0 true]; [EEnter 1 0; ENext 1 0 true; EFin 1 true]; []].
Proof. vm_compute. repeat split. Qed.

(* a module that calls next(true) twice: finish runs twice *)
Example C11_example_double_next :
  run [OMod (KScript (Beh [true; true] false) ex_ok); OMod (KScript ex_ok ex_ok); OStart]
  = [[]; []; [EEnter 0 0; ENext 0 0 true; EEnter 0 1; ENext 0 1 true; EFin 0 true;
              ENext 0 0 true; EFin 0 true]].
Proof. vm_compute. reflexivity. Qed.
