(* C11 - correspondence entry point: executable comparison of the model's events with the
   events observed on the real ModList / App / shipped modules, and the property monitor
   (the statements of Spec.v evaluated on the implementation's own trace, independently of
   the model). *)
From Cell2V Require Import Common.Tac Common.ListX C11.Model C11.Spec.

Definition ev_eqb (a b : ev) : bool :=
  match a, b with
  | EEnter r i, EEnter r' i' => (r =? r') && (i =? i')
  | ENext r i x, ENext r' i' x' => (r =? r') && (i =? i') && Bool.eqb x x'
  | EFin r x, EFin r' x' => (r =? r') && Bool.eqb x x'
  | ERaise r i, ERaise r' i' => (r =? r') && (i =? i')
  | EAbort r i, EAbort r' i' => (r =? r') && (i =? i')
  | EEscape r, EEscape r' => r =? r'
  | EIndexPanic r, EIndexPanic r' => r =? r'
  | EOutOfFuel, EOutOfFuel => true
  | EHang, EHang => true
  | _, _ => false
  end.

Definition case := (list op * list (list ev))%type.

Definition agree (c : case) : bool := list_eqb (list_eqb ev_eqb) (run (fst c)) (snd c).

(* ---- monitor ---- *)
Definition is_artifact (x : ev) : bool :=
  match x with EIndexPanic _ | EOutOfFuel | EHang => true | _ => false end.

(* directions of the runs that were created, from the implementation's own observation:
   a Start/Stop call that produced any event was not refused *)
Fixpoint created (ops : list op) (obs : list (list ev)) : list bool :=
  match ops, obs with
  | OStart :: ops', (_ :: _) :: obs' => true :: created ops' obs'
  | OStop :: ops', (_ :: _) :: obs' => false :: created ops' obs'
  | _ :: ops', _ :: obs' => created ops' obs'
  | _, _ => []
  end.

Fixpoint runs_ok (n : nat) (log : list ev) (r : Z) (dirs : list bool) : bool :=
  match dirs with
  | [] => true
  | d :: ds => run_ok_b (order d n) (proj r log) && runs_ok n log (r + 1) ds
  end.

(* App guards: at most one start run; a stop run only against a finish(true) of the start
   run that has not been used by an earlier stop run *)
Definition fin_true_of (fr : option Z) (x : list ev) : nat :=
  match fr with Some r0 => n_fin_true (proj r0 x) | None => 0%nat end.

Fixpoint guard_ok (fr : option Z) (budget : nat) (nr : Z) (ops : list op) (obs : list (list ev)) : bool :=
  match ops, obs with
  | o :: ops', x :: obs' =>
      match o, x with
      | OStart, _ :: _ =>
          match fr with
          | Some _ => false
          | None => guard_ok (Some nr) (n_fin_true (proj nr x)) (nr + 1) ops' obs'
          end
      | OStop, _ :: _ =>
          match budget with
          | O => false
          | S b => guard_ok fr (b + fin_true_of fr x) (nr + 1) ops' obs'
          end
      | _, _ => guard_ok fr (budget + fin_true_of fr x) nr ops' obs'
      end
  | _, _ => true
  end.

(* shipped modules: one next() per entry (plus what the environment fired at them).
   The Stop paths of the actor and cluster modules carry preconditions (see Props). *)
Definition caps_of (log : list ev) : list (Z * Z) :=
  flat_map (fun x => match x with EEnter r i => [(r, i)] | _ => [] end) log.

(* completions the environment delivered to module i of run r: Fire operations that did
   something (a Fire naming a continuation that does not exist yet is a no-op) *)
Fixpoint fires_to (ops : list op) (obs : list (list ev)) (caps : list (Z * Z)) (r i : Z) : nat :=
  match ops, obs with
  | OFire k _ :: ops', (_ :: _) :: obs' =>
      let hit := if Z.ltb k 0 then false else
                 match nth_error caps (Z.to_nat k) with
                 | Some (r', i') => Z.eqb r r' && Z.eqb i i'
                 | None => false
                 end in
      if hit then S (fires_to ops' obs' caps r i) else fires_to ops' obs' caps r i
  | _ :: ops', _ :: obs' => fires_to ops' obs' caps r i
  | _, _ => 0%nat
  end.

(* Stop of the actor and cluster modules is claimed under the App guard only (strict: App or
   node mode, every run keeps the at-most-once hypothesis, at most one actor module - the
   actor system lives in a package variable) *)
Definition checked (strict fwd : bool) (k : kind) : bool :=
  match k with KScript _ _ => false | KWelcome => true | KActor | KCluster => fwd || strict end.

Fixpoint all_amo (log : list ev) (r : Z) (dirs : list bool) : bool :=
  match dirs with
  | [] => true
  | _ :: ds => (match pending (proj r log) with Some _ => true | None => false end) && all_amo log (r + 1) ds
  end.

Definition n_actors (ms : list kind) : nat :=
  length (filter (fun k => match k with KActor => true | _ => false end) ms).

Fixpoint mods_ok (ops : list op) (obs : list (list ev)) (caps : list (Z * Z)) (strict fwd : bool) (r : Z) (t : list tev)
         (i : Z) (ms : list kind) : bool :=
  match ms with
  | [] => true
  | k :: ms' =>
      (if checked strict fwd k then Nat.eqb (n_next i t) (n_enter i t + fires_to ops obs caps r i) else true)
      && mods_ok ops obs caps strict fwd r t (i + 1) ms'
  end.

Fixpoint builtin_ok (ops : list op) (obs : list (list ev)) (strict : bool) (ms : list kind) (log : list ev) (r : Z) (dirs : list bool) : bool :=
  match dirs with
  | [] => true
  | d :: ds => mods_ok ops obs (caps_of log) strict d r (proj r log) 0 ms && builtin_ok ops obs strict ms log (r + 1) ds
  end.

Definition monitor (c : case) : bool :=
  let '(ops, obs) := c in
  let e := env_of ops in
  let log := concat obs in
  let dirs := created ops obs in
  negb (existsb is_artifact log)
  && Nat.eqb (length obs) (length ops)
  && runs_ok (length (e_mods e)) log 0 dirs
  && (if is_app (e_mode e) then guard_ok None 0 0 ops obs else true)
  && builtin_ok ops obs (is_app (e_mode e) && all_amo log 0 dirs && Nat.leb (n_actors (e_mods e)) 1)
                (e_mods e) log 0 dirs.

Definition disagreeing (cs : list case) : list Z := failing agree cs.
Definition monitor_failing (cs : list case) : list Z := failing monitor cs.
