(* C11 - correspondence entry point: executable comparison of the model's events with the
   events observed on the real ModList / App / shipped modules, and the property monitor
   (the statements of Spec.v evaluated on the implementation's own trace, independently of
   the model). *)
From Cell2V Require Import Common.Tac Common.ListX C11.Model C11.Spec.

Definition ev_eqb (a b : ev) : bool :=
  match a, b with
  | EEnter r i, EEnter r' i' => (r =? r') && (i =? i')
  | ENext r i x, ENext r' i' x' => (r =? r') && (i =? i') && Bool.eqb x x'
  | EFin r x, EFin r' x' => (r =? r') && Bool.eqb x x'
  | ERaise r i, ERaise r' i' => (r =? r') && (i =? i')
  | EAbort r i, EAbort r' i' => (r =? r') && (i =? i')
  | EEscape r, EEscape r' => r =? r'
  | EIndexPanic r, EIndexPanic r' => r =? r'
  | EDeadlock r, EDeadlock r' => r =? r'
  | EOutOfFuel, EOutOfFuel => true
  | EHang, EHang => true
  | _, _ => false
  end.

Definition case := (list op * list (list ev))%type.

Definition agree (c : case) : bool := list_eqb (list_eqb ev_eqb) (run (fst c)) (snd c).

(* ---- monitor ---- *)
Definition is_artifact (x : ev) : bool :=
  match x with EIndexPanic _ | EOutOfFuel | EHang => true | _ => false end.

(* directions of the runs that were created: Spec.created, from the implementation's own
   observation *)
Fixpoint runs_ok (n : nat) (log : list ev) (r : Z) (dirs : list bool) : bool :=
  match dirs with
  | [] => true
  | d :: ds => run_ok_b (order d n) (proj r log) && runs_ok n log (r + 1) ds
  end.

(* App guards: Spec.app_guard_ok - the state machine of App.Start / App.Stop replayed on the
   observation; every request (operation or made inside a completion callback) honoured exactly
   when the state allows it *)

(* shipped modules: Spec.shipped_calls_once, executable - every call (run r, module i) of a
   shipped module reported exactly once (plus what the environment fired at it); the Stop
   calls of the actor and cluster modules entered without their precondition are exempt
   (Spec.unclaimed) *)
Fixpoint mods_ok (ops : list op) (obs : list (list ev)) (un : list (Z * Z)) (r i : Z) (ms : list kind) : bool :=
  match ms with
  | [] => true
  | k :: ms' =>
      (if shipped k && negb (pair_mem r i un) then call_once_b ops obs r i else true)
      && mods_ok ops obs un r (i + 1) ms'
  end.

Fixpoint builtin_ok (ops : list op) (obs : list (list ev)) (un : list (Z * Z)) (ms : list kind) (r : Z) (dirs : list bool) : bool :=
  match dirs with
  | [] => true
  | _ :: ds => mods_ok ops obs un r 0 ms && builtin_ok ops obs un ms (r + 1) ds
  end.

Definition monitor (c : case) : bool :=
  let '(ops, obs) := c in
  let e := env_of ops in
  let log := concat obs in
  negb (existsb is_artifact log)
  && Nat.eqb (length obs) (length ops)
  && match created ops obs with
     | None => false
     | Some dirs =>
         runs_ok (length (e_mods e)) log 0 dirs
         && app_guard_ok ops obs dirs
         && builtin_ok ops obs (unclaimed e dirs false [] log) (e_mods e) 0 dirs
     end.

Definition disagreeing (cs : list case) : list Z := failing agree cs.
Definition monitor_failing (cs : list case) : list Z := failing monitor cs.
