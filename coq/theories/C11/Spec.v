(* C11 - the property, as predicates over the trace of one run (one ModList.Start or
   ModList.Stop call): the ordered module entries, next() invocations and finish()
   invocations of that run.  No proofs in this file. *)
From Cell2V Require Import Common.Tac Common.ListX C11.Model.

Inductive tev :=
| TEnter (i : Z)             (* Start/Stop of module i entered *)
| TNext (i : Z) (b : bool)   (* module i reported completion with b *)
| TFin (b : bool).           (* the completion callback of the run was invoked with b *)

Definition proj_one (r : Z) (x : ev) : list tev :=
  match x with
  | EEnter r' i => if r =? r' then [TEnter i] else []
  | ENext r' i b => if r =? r' then [TNext i b] else []
  | EFin r' b => if r =? r' then [TFin b] else []
  | _ => []
  end.
Definition proj (r : Z) (l : list ev) : list tev := flat_map (proj_one r) l.

(* the trace of run r in the model's execution of a history *)
Definition trace (ops : list op) (r : Z) : list tev := proj r (concat (run ops)).
(* direction (true = Start) and current index of run r *)
Definition run_info (ops : list op) (r : Z) : option (bool * Z) :=
  if r <? 0 then None else nth_error (s_runs (final ops)) (Z.to_nat r).
Definition nmods_of (ops : list op) : nat := length (e_mods (env_of ops)).

(* ---- the hypothesis on modules: every next() answers an earlier entry of that module
   that has not been answered yet ("completes at most once"); [exactly_once]: and no entry is
   left unanswered.  [pend_from p t]: the unanswered entries after t, None if violated. ---- *)
Fixpoint pend_from (p : list Z) (t : list tev) : option (list Z) :=
  match t with
  | [] => Some p
  | TEnter i :: t' => pend_from (i :: p) t'
  | TNext i _ :: t' => if zmem i p then pend_from (remove_first i p) t' else None
  | TFin _ :: t' => pend_from p t'
  end.
Definition pending (t : list tev) : option (list Z) := pend_from [] t.
Definition at_most_once (t : list tev) : Prop := pending t <> None.
Definition exactly_once (t : list tev) : Prop := pending t = Some [].

(* the same hypothesis by counting: in every prefix, no module has more completions than entries *)
Fixpoint n_enter (i : Z) (t : list tev) : nat :=
  match t with
  | [] => 0%nat
  | TEnter j :: t' => ((if Z.eqb i j then 1 else 0) + n_enter i t')%nat
  | _ :: t' => n_enter i t'
  end.
Fixpoint n_next (i : Z) (t : list tev) : nat :=
  match t with
  | [] => 0%nat
  | TNext j _ :: t' => ((if Z.eqb i j then 1 else 0) + n_next i t')%nat
  | _ :: t' => n_next i t'
  end.
Definition at_most_once_counting (t : list tev) : Prop :=
  forall p s, t = p ++ s -> forall i, (n_next i p <= n_enter i p)%nat.

(* ---- visiting order ---- *)
Fixpoint zseq (a : Z) (n : nat) : list Z :=
  match n with O => [] | S n' => a :: zseq (a + 1) n' end.
(* registration order 0,1,..,n-1 for Start, exactly the reverse for Stop *)
Definition order (fwd : bool) (n : nat) : list Z := if fwd then zseq 0 n else rev (zseq 0 n).

Fixpoint entered (t : list tev) : list Z :=
  match t with [] => [] | TEnter i :: t' => i :: entered t' | _ :: t' => entered t' end.
Fixpoint fins (t : list tev) : list bool :=
  match t with [] => [] | TFin b :: t' => b :: fins t' | _ :: t' => fins t' end.
Fixpoint outcomes (t : list tev) : list bool :=
  match t with [] => [] | TNext _ b :: t' => b :: outcomes t' | _ :: t' => outcomes t' end.

Definition adjacent (j i : Z) (l : list Z) : Prop := exists l1 l2, l = l1 ++ j :: i :: l2.

(* modules are entered strictly in the given order, each only immediately after its
   predecessor reported success (the first one: first thing in the run) *)
Definition in_order (ord : list Z) (t : list tev) : Prop :=
  (exists k, entered t = firstn k ord) /\
  (forall p i s, t = p ++ TEnter i :: s ->
     (p = [] /\ exists l, ord = i :: l) \/
     (exists p' j, p = p' ++ [TNext j true] /\ adjacent j i ord)).

(* the first reported failure ends the run: nothing is entered afterwards and the only
   thing that follows is finish(false) *)
Definition failure_stops (t : list tev) : Prop :=
  forall p i s, t = p ++ TNext i false :: s -> s = [TFin false].

(* finish is invoked at most once, it is the last event of the run, its argument is the
   conjunction of the reported outcomes, and success means every module was entered *)
Definition finish_last_with_outcome (ord : list Z) (t : list tev) : Prop :=
  forall p b s, t = p ++ TFin b :: s ->
    s = [] /\ fins p = [] /\ b = forallb (fun x => x) (outcomes p) /\
    (b = true -> entered p = ord /\ length (outcomes p) = length ord).

Definition finished_once (t : list tev) : Prop := exists b, fins t = [b].

(* ---- the same discipline as an automaton (used as executable monitor) ---- *)
Inductive ast := Idle (rest : list Z) | Wait (i : Z) (rest : list Z) | Failed | Done.

Definition astep (q : ast) (x : tev) : option ast :=
  match q, x with
  | Idle (i :: rest), TEnter j => if i =? j then Some (Wait i rest) else None
  | Idle [], TFin true => Some Done
  | Wait i rest, TNext j b => if i =? j then Some (if b then Idle rest else Failed) else None
  | Failed, TFin false => Some Done
  | _, _ => None
  end.

Fixpoint arun (q : ast) (t : list tev) : option ast :=
  match t with
  | [] => Some q
  | x :: t' => match astep q x with Some q' => arun q' t' | None => None end
  end.

Definition conforms (ord : list Z) (t : list tev) : Prop := arun (Idle ord) t <> None.
(* no call is in progress: the run is waiting for a module or is over *)
Definition settled (q : ast) : bool := match q with Wait _ _ | Done => true | _ => false end.

Definition is_done (q : ast) : bool := match q with Done => true | _ => false end.

(* executable form of "at_most_once t -> conforms, settled, and exactly_once t -> finished" *)
Definition run_ok_b (ord : list Z) (t : list tev) : bool :=
  match pending t with
  | None => true
  | Some P =>
      match arun (Idle ord) t with
      | None => false
      | Some q => settled q && (match P with [] => is_done q | _ => true end)
      end
  end.

(* ---- unconditional bookkeeping: every next(true) is followed by exactly one entry or one
   finish(true), every next(false) by exactly one finish(false) ---- *)
Definition accounting (t : list tev) : Prop :=
  (length (entered t) + length (fins t) = 1 + length (outcomes t))%nat.

Fixpoint increasing (l : list Z) : Prop :=
  match l with
  | [] => True
  | x :: l' => (match l' with [] => True | y :: _ => x < y end) /\ increasing l'
  end.
Fixpoint decreasing (l : list Z) : Prop :=
  match l with
  | [] => True
  | x :: l' => (match l' with [] => True | y :: _ => y < x end) /\ decreasing l'
  end.

(* ---- App level ---- *)
Definition n_runs (fwd : bool) (rs : list (bool * Z)) : nat :=
  length (filter (fun x => Bool.eqb (fst x) fwd) rs).
Definition n_fin_true (t : list tev) : nat := length (filter (fun b => b) (fins t)).

Definition kind_at (e : env) (i : Z) : option kind := if i <? 0 then None else nth_error (e_mods e) (Z.to_nat i).
Definition dir_at (dirs : list bool) (r : Z) : option bool := if r <? 0 then None else nth_error dirs (Z.to_nat r).

(* ---- shipped modules ---- *)
Definition reports_once (b : beh) (succ : bool) : Prop := b = Beh [succ] false.
Definition shipped (k : kind) : bool := match k with KScript _ _ => false | _ => true end.

(* On a whole log: every call (run r, module i) of a shipped module completes exactly once.
   What the environment delivers on top (an [OFire] aimed at the continuation such a call
   received) is counted separately: [fires_to]. *)
Definition caps_of (log : list ev) : list (Z * Z) :=
  flat_map (fun x => match x with EEnter r i => [(r, i)] | _ => [] end) log.

(* completions the environment delivered to call (r, i): Fire operations that did something (a
   Fire naming a continuation that does not exist yet is a no-op); obs = one event list per op *)
Fixpoint fires_to (ops : list op) (obs : list (list ev)) (caps : list (Z * Z)) (r i : Z) : nat :=
  match ops, obs with
  | OFire k _ :: ops', (_ :: _) :: obs' =>
      let hit := if Z.ltb k 0 then false else
                 match nth_error caps (Z.to_nat k) with
                 | Some (r', i') => Z.eqb r r' && Z.eqb i i'
                 | None => false
                 end in
      if hit then S (fires_to ops' obs' caps r i) else fires_to ops' obs' caps r i
  | _ :: ops', _ :: obs' => fires_to ops' obs' caps r i
  | _, _ => 0%nat
  end.


(* Two Stop paths carry a precondition that App.Stop guarantees and a bare ModList.Stop does not:
   ActorSystemModule.Stop needs a live actor system, ClusterModule.Stop a provider that is not
   half made (its own Start did not fail inside StartMember's init).  [unclaimed]: the calls
   that were entered without their precondition - the environment state (Model.entry_live,
   entry_half) replayed over the entries of the log itself.  dirs: direction of each run. *)
Definition needs_missing (fwd live : bool) (half : list Z) (i : Z) (k : kind) : bool :=
  match k with
  | KActor => negb fwd && negb live
  | KCluster => negb fwd && zmem i half
  | _ => false
  end.
Fixpoint unclaimed (e : env) (dirs : list bool) (live : bool) (half : list Z) (log : list ev) : list (Z * Z) :=
  match log with
  | [] => []
  | EEnter r i :: log' =>
      match dir_at dirs r, kind_at e i with
      | Some fwd, Some k =>
          (if needs_missing fwd live half i k then [(r, i)] else []) ++
          unclaimed e dirs (entry_live e fwd live k) (entry_half e fwd i half k) log'
      | _, _ => (r, i) :: unclaimed e dirs live half log'
      end
  | _ :: log' => unclaimed e dirs live half log'
  end.
Definition pair_mem (r i : Z) (l : list (Z * Z)) : bool := existsb (fun y => (r =? fst y) && (i =? snd y)) l.

(* call (r, i) reported exactly once (plus what was fired at it) *)
Definition call_once (ops : list op) (obs : list (list ev)) (r i : Z) : Prop :=
  n_next i (proj r (concat obs)) = (n_enter i (proj r (concat obs)) + fires_to ops obs (caps_of (concat obs)) r i)%nat.
Definition call_once_b (ops : list op) (obs : list (list ev)) (r i : Z) : bool :=
  Nat.eqb (n_next i (proj r (concat obs))) (n_enter i (proj r (concat obs)) + fires_to ops obs (caps_of (concat obs)) r i).

(* every call of a shipped module whose precondition held *)
Definition shipped_calls_once (ops : list op) (obs : list (list ev)) (dirs : list bool) : Prop :=
  forall r i fwd k, dir_at dirs r = Some fwd -> kind_at (env_of ops) i = Some k -> shipped k = true ->
    pair_mem r i (unclaimed (env_of ops) dirs false [] (concat obs)) = false -> call_once ops obs r i.

(* ---- runs and App guards on an observed log (one event list per operation) ---- *)
Definition tag_of (x : ev) : option Z :=
  match x with
  | EEnter r _ | ENext r _ _ | EFin r _ | ERaise r _ | EAbort r _ | EEscape r | EIndexPanic r | EDeadlock r => Some r
  | _ => None
  end.
(* the request a run's completion callback makes (true: App.Start), by the run's direction *)
Definition request_of (e : env) (d : bool) : option bool :=
  if is_app (e_mode e) then (if d then e_cbs e else e_cbp e) else None.
(* the request that stands when an operation begins *)
Definition op_request (o : op) : option bool :=
  match o with OStart => Some true | OStop => Some false | _ => None end.

(* directions of the runs of an observation.  A run is created where an event carries the next
   unused run id: as the first thing of an OStart / OStop, or right after a completion callback
   whose declared request it then carries out.  None: run ids that cannot be accounted for. *)
Fixpoint scan_evs (e : env) (evs : list ev) (ctx : option bool) (dirs : list bool) : option (list bool) :=
  match evs with
  | [] => Some dirs
  | x :: evs' =>
      match tag_of x with
      | None => scan_evs e evs' ctx dirs
      | Some r =>
          let nr := Z.of_nat (length dirs) in
          let after (ds : list bool) (c : option bool) :=
            match x with
            | EFin r' _ => match dir_at ds r' with Some d => request_of e d | None => None end
            | _ => c
            end in
          if r =? nr then
            match ctx with
            | Some d => scan_evs e evs' (after (dirs ++ [d]) None) (dirs ++ [d])
            | None => None
            end
          else if (0 <=? r) && (r <? nr) then scan_evs e evs' (after dirs ctx) dirs
          else None
      end
  end.
Fixpoint created_from (e : env) (ops : list op) (obs : list (list ev)) (dirs : list bool) : option (list bool) :=
  match ops, obs with
  | o :: ops', x :: obs' =>
      match scan_evs e x (op_request o) dirs with
      | Some dirs' => created_from e ops' obs' dirs'
      | None => None
      end
  | _, _ => Some dirs
  end.
Definition created (ops : list op) (obs : list (list ev)) : option (list bool) :=
  created_from (env_of ops) ops obs [].

(* The App guards, replayed on the observation.  App.state is recomputed from the events (accepted
   Start -> Starting, the start run's finish(true) -> Normal, accepted Stop -> Stoping, a stop
   run's finish(true) -> Stopped); every request - an OStart / OStop operation, or the request a
   completion callback makes - must be honoured exactly when the state allows it: honoured = the
   next event belongs to a new run, or the call is stuck behind the list lock (EDeadlock). *)
Definition honoured (nr r : Z) (evs : list ev) : bool :=
  match evs with
  | EDeadlock r' :: _ => r =? r'
  | y :: _ => match tag_of y with Some t => t =? nr | None => false end
  | [] => false
  end.
Definition state_after_request (req : bool) : Z := if req then 2 else 4.

Fixpoint guard_evs (e : env) (dirs : list bool) (evs : list ev) (app nr : Z) : option (Z * Z) :=
  match evs with
  | [] => Some (app, nr)
  | x :: evs' =>
      let nr1 := match tag_of x with Some r => if r =? nr then nr + 1 else nr | None => nr end in
      match x with
      | EFin r b =>
          match dir_at dirs r with
          | None => None
          | Some d =>
              let app1 := if b then (if d then 3 else 5) else app in
              match request_of e d with
              | Some req =>
                  if Bool.eqb (honoured nr1 r evs') (accepted app1 req)
                  then guard_evs e dirs evs' (if accepted app1 req then state_after_request req else app1) nr1
                  else None
              | None => guard_evs e dirs evs' app1 nr1
              end
          end
      | _ => guard_evs e dirs evs' app nr1
      end
  end.
Definition is_dead_ev (x : ev) : bool := match x with EDeadlock _ | EHang => true | _ => false end.
Fixpoint guard_ops (e : env) (dirs : list bool) (ops : list op) (obs : list (list ev)) (app nr : Z) : bool :=
  match ops, obs with
  | o :: ops', x :: obs' =>
      let start :=
        match op_request o with
        | Some req =>
            if Bool.eqb (match x with y :: _ => match tag_of y with Some t => t =? nr | None => false end | [] => false end)
                        (accepted app req)
            then Some (if accepted app req then state_after_request req else app)
            else None
        | None => Some app
        end in
      match start with
      | None => false
      | Some app0 =>
          match guard_evs e dirs x app0 nr with
          | None => false
          | Some (app1, nr1) => if existsb is_dead_ev x then true else guard_ops e dirs ops' obs' app1 nr1
          end
      end
  | _, _ => true
  end.
Definition app_guard_ok (ops : list op) (obs : list (list ev)) (dirs : list bool) : bool :=
  let e := env_of ops in
  if is_app (e_mode e) then guard_ops e dirs ops obs (s_app (init e)) 0 else true.

(* data used by the Examples of Props.v *)
Definition ex_ok : beh := Beh [true] false.    (* calls next(true) before returning *)
Definition ex_later : beh := Beh [] false.     (* returns; the environment completes it later *)
