(* C11 - the property, as predicates over the trace of one run (one ModList.Start or
   ModList.Stop call): the ordered module entries, next() invocations and finish()
   invocations of that run.  No proofs in this file. *)
From Cell2V Require Import Common.Tac Common.ListX C11.Model.

Inductive tev :=
| TEnter (i : Z)             (* Start/Stop of module i entered *)
| TNext (i : Z) (b : bool)   (* module i reported completion with b *)
| TFin (b : bool).           (* the completion callback of the run was invoked with b *)

Definition proj_one (r : Z) (x : ev) : list tev :=
  match x with
  | EEnter r' i => if r =? r' then [TEnter i] else []
  | ENext r' i b => if r =? r' then [TNext i b] else []
  | EFin r' b => if r =? r' then [TFin b] else []
  | _ => []
  end.
Definition proj (r : Z) (l : list ev) : list tev := flat_map (proj_one r) l.

(* the trace of run r in the model's execution of a history *)
Definition trace (ops : list op) (r : Z) : list tev := proj r (concat (run ops)).
(* direction (true = Start) and current index of run r *)
Definition run_info (ops : list op) (r : Z) : option (bool * Z) :=
  if r <? 0 then None else nth_error (s_runs (final ops)) (Z.to_nat r).
Definition nmods_of (ops : list op) : nat := length (e_mods (env_of ops)).

(* ---- the hypothesis on modules: every next() answers an earlier entry of that module
   that has not been answered yet ("completes at most once"); [exactly_once]: and no entry is
   left unanswered.  [pend_from p t]: the unanswered entries after t, None if violated. ---- *)
Fixpoint pend_from (p : list Z) (t : list tev) : option (list Z) :=
  match t with
  | [] => Some p
  | TEnter i :: t' => pend_from (i :: p) t'
  | TNext i _ :: t' => if zmem i p then pend_from (remove_first i p) t' else None
  | TFin _ :: t' => pend_from p t'
  end.
Definition pending (t : list tev) : option (list Z) := pend_from [] t.
Definition at_most_once (t : list tev) : Prop := pending t <> None.
Definition exactly_once (t : list tev) : Prop := pending t = Some [].

(* the same hypothesis by counting: in every prefix, no module has more completions than entries *)
Fixpoint n_enter (i : Z) (t : list tev) : nat :=
  match t with
  | [] => 0%nat
  | TEnter j :: t' => ((if Z.eqb i j then 1 else 0) + n_enter i t')%nat
  | _ :: t' => n_enter i t'
  end.
Fixpoint n_next (i : Z) (t : list tev) : nat :=
  match t with
  | [] => 0%nat
  | TNext j _ :: t' => ((if Z.eqb i j then 1 else 0) + n_next i t')%nat
  | _ :: t' => n_next i t'
  end.
Definition at_most_once_counting (t : list tev) : Prop :=
  forall p s, t = p ++ s -> forall i, (n_next i p <= n_enter i p)%nat.

(* ---- visiting order ---- *)
Fixpoint zseq (a : Z) (n : nat) : list Z :=
  match n with O => [] | S n' => a :: zseq (a + 1) n' end.
(* registration order 0,1,..,n-1 for Start, exactly the reverse for Stop *)
Definition order (fwd : bool) (n : nat) : list Z := if fwd then zseq 0 n else rev (zseq 0 n).

Fixpoint entered (t : list tev) : list Z :=
  match t with [] => [] | TEnter i :: t' => i :: entered t' | _ :: t' => entered t' end.
Fixpoint fins (t : list tev) : list bool :=
  match t with [] => [] | TFin b :: t' => b :: fins t' | _ :: t' => fins t' end.
Fixpoint outcomes (t : list tev) : list bool :=
  match t with [] => [] | TNext _ b :: t' => b :: outcomes t' | _ :: t' => outcomes t' end.

Definition adjacent (j i : Z) (l : list Z) : Prop := exists l1 l2, l = l1 ++ j :: i :: l2.

(* modules are entered strictly in the given order, each only immediately after its
   predecessor reported success (the first one: first thing in the run) *)
Definition in_order (ord : list Z) (t : list tev) : Prop :=
  (exists k, entered t = firstn k ord) /\
  (forall p i s, t = p ++ TEnter i :: s ->
     (p = [] /\ exists l, ord = i :: l) \/
     (exists p' j, p = p' ++ [TNext j true] /\ adjacent j i ord)).

(* the first reported failure ends the run: nothing is entered afterwards and the only
   thing that follows is finish(false) *)
Definition failure_stops (t : list tev) : Prop :=
  forall p i s, t = p ++ TNext i false :: s -> s = [TFin false].

(* finish is invoked at most once, it is the last event of the run, its argument is the
   conjunction of the reported outcomes, and success means every module was entered *)
Definition finish_last_with_outcome (ord : list Z) (t : list tev) : Prop :=
  forall p b s, t = p ++ TFin b :: s ->
    s = [] /\ fins p = [] /\ b = forallb (fun x => x) (outcomes p) /\
    (b = true -> entered p = ord /\ length (outcomes p) = length ord).

Definition finished_once (t : list tev) : Prop := exists b, fins t = [b].

(* ---- the same discipline as an automaton (used as executable monitor) ---- *)
Inductive ast := Idle (rest : list Z) | Wait (i : Z) (rest : list Z) | Failed | Done.

Definition astep (q : ast) (x : tev) : option ast :=
  match q, x with
  | Idle (i :: rest), TEnter j => if i =? j then Some (Wait i rest) else None
  | Idle [], TFin true => Some Done
  | Wait i rest, TNext j b => if i =? j then Some (if b then Idle rest else Failed) else None
  | Failed, TFin false => Some Done
  | _, _ => None
  end.

Fixpoint arun (q : ast) (t : list tev) : option ast :=
  match t with
  | [] => Some q
  | x :: t' => match astep q x with Some q' => arun q' t' | None => None end
  end.

Definition conforms (ord : list Z) (t : list tev) : Prop := arun (Idle ord) t <> None.
(* no call is in progress: the run is waiting for a module or is over *)
Definition settled (q : ast) : bool := match q with Wait _ _ | Done => true | _ => false end.

Definition is_done (q : ast) : bool := match q with Done => true | _ => false end.

(* executable form of "at_most_once t -> conforms, settled, and exactly_once t -> finished" *)
Definition run_ok_b (ord : list Z) (t : list tev) : bool :=
  match pending t with
  | None => true
  | Some P =>
      match arun (Idle ord) t with
      | None => false
      | Some q => settled q && (match P with [] => is_done q | _ => true end)
      end
  end.

(* ---- unconditional bookkeeping: every next(true) is followed by exactly one entry or one
   finish(true), every next(false) by exactly one finish(false) ---- *)
Definition accounting (t : list tev) : Prop :=
  (length (entered t) + length (fins t) = 1 + length (outcomes t))%nat.

Fixpoint increasing (l : list Z) : Prop :=
  match l with
  | [] => True
  | x :: l' => (match l' with [] => True | y :: _ => x < y end) /\ increasing l'
  end.
Fixpoint decreasing (l : list Z) : Prop :=
  match l with
  | [] => True
  | x :: l' => (match l' with [] => True | y :: _ => y < x end) /\ decreasing l'
  end.

(* ---- App level ---- *)
Definition n_runs (fwd : bool) (rs : list (bool * Z)) : nat :=
  length (filter (fun x => Bool.eqb (fst x) fwd) rs).
Definition n_fin_true (t : list tev) : nat := length (filter (fun b => b) (fins t)).

(* ---- shipped modules ---- *)
Definition reports_once (b : beh) (succ : bool) : Prop := b = Beh [succ] false.
Definition shipped (k : kind) : bool := match k with KScript _ _ => false | _ => true end.

(* On a whole log: every call (run r, module i) of a shipped module completes exactly once.
   What the environment delivers on top (an [OFire] aimed at the continuation such a call
   received) is counted separately: [fires_to]. *)
Definition caps_of (log : list ev) : list (Z * Z) :=
  flat_map (fun x => match x with EEnter r i => [(r, i)] | _ => [] end) log.

(* completions the environment delivered to call (r, i): Fire operations that did something (a
   Fire naming a continuation that does not exist yet is a no-op); obs = one event list per op *)
Fixpoint fires_to (ops : list op) (obs : list (list ev)) (caps : list (Z * Z)) (r i : Z) : nat :=
  match ops, obs with
  | OFire k _ :: ops', (_ :: _) :: obs' =>
      let hit := if Z.ltb k 0 then false else
                 match nth_error caps (Z.to_nat k) with
                 | Some (r', i') => Z.eqb r r' && Z.eqb i i'
                 | None => false
                 end in
      if hit then S (fires_to ops' obs' caps r i) else fires_to ops' obs' caps r i
  | _ :: ops', _ :: obs' => fires_to ops' obs' caps r i
  | _, _ => 0%nat
  end.

Definition kind_at (e : env) (i : Z) : option kind := if i <? 0 then None else nth_error (e_mods e) (Z.to_nat i).
Definition dir_at (dirs : list bool) (r : Z) : option bool := if r <? 0 then None else nth_error dirs (Z.to_nat r).

(* Two Stop paths carry a precondition that App.Stop guarantees and a bare ModList.Stop does not:
   ActorSystemModule.Stop needs a live actor system, ClusterModule.Stop a provider that is not
   half made (its own Start did not fail inside StartMember's init).  [unclaimed]: the calls
   that were entered without their precondition - the environment state (Model.entry_live,
   entry_half) replayed over the entries of the log itself.  dirs: direction of each run. *)
Definition needs_missing (fwd live : bool) (half : list Z) (i : Z) (k : kind) : bool :=
  match k with
  | KActor => negb fwd && negb live
  | KCluster => negb fwd && zmem i half
  | _ => false
  end.
Fixpoint unclaimed (e : env) (dirs : list bool) (live : bool) (half : list Z) (log : list ev) : list (Z * Z) :=
  match log with
  | [] => []
  | EEnter r i :: log' =>
      match dir_at dirs r, kind_at e i with
      | Some fwd, Some k =>
          (if needs_missing fwd live half i k then [(r, i)] else []) ++
          unclaimed e dirs (entry_live e fwd live k) (entry_half e fwd i half k) log'
      | _, _ => (r, i) :: unclaimed e dirs live half log'
      end
  | _ :: log' => unclaimed e dirs live half log'
  end.
Definition pair_mem (r i : Z) (l : list (Z * Z)) : bool := existsb (fun y => (r =? fst y) && (i =? snd y)) l.

(* call (r, i) reported exactly once (plus what was fired at it) *)
Definition call_once (ops : list op) (obs : list (list ev)) (r i : Z) : Prop :=
  n_next i (proj r (concat obs)) = (n_enter i (proj r (concat obs)) + fires_to ops obs (caps_of (concat obs)) r i)%nat.
Definition call_once_b (ops : list op) (obs : list (list ev)) (r i : Z) : bool :=
  Nat.eqb (n_next i (proj r (concat obs))) (n_enter i (proj r (concat obs)) + fires_to ops obs (caps_of (concat obs)) r i).

(* every call of a shipped module whose precondition held *)
Definition shipped_calls_once (ops : list op) (obs : list (list ev)) (dirs : list bool) : Prop :=
  forall r i fwd k, dir_at dirs r = Some fwd -> kind_at (env_of ops) i = Some k -> shipped k = true ->
    pair_mem r i (unclaimed (env_of ops) dirs false [] (concat obs)) = false -> call_once ops obs r i.

(* data used by the Examples of Props.v *)
Definition ex_ok : beh := Beh [true] false.    (* calls next(true) before returning *)
Definition ex_later : beh := Beh [] false.     (* returns; the environment completes it later *)
