(* C03 - proofs: one invariant of the queue network under every schedule. *)
From Cell2V Require Import Common.Tac Common.ListX Common.AList C03.Model C03.Spec C03.Fifo.

Lemma aget_aset_dec {V} (k k2 : Z) (v : V) m :
  aget k2 (aset k v m) = if Z.eqb k2 k then Some v else aget k2 m.
Proof.
  destruct (Z.eqb_spec k2 k).
  - subst. apply aget_aset_same.
  - apply aget_aset_other. exact n.
Qed.

Lemma lookup_aset m k v j : lookup (aset k v m) j = if Z.eqb j k then v else lookup m j.
Proof. unfold lookup. rewrite aget_aset_dec. destruct (Z.eqb j k); reflexivity. Qed.

Lemma lookup_enq m k x j : lookup (enq m k x) j = if Z.eqb j k then lookup m k ++ [x] else lookup m j.
Proof. unfold enq. apply lookup_aset. Qed.

Lemma proj_app i c a b : proj i c (a ++ b) = proj i c a ++ proj i c b.
Proof. unfold proj. apply filter_app. Qed.

Lemma proj_cons i c x l : proj i c (x :: l) = proj i c [x] ++ proj i c l.
Proof. change (x :: l) with ([x] ++ l). apply proj_app. Qed.

Lemma proj_other_iss i c x : it_iss x <> i -> proj i c [x] = [].
Proof. intro N. unfold proj. simpl. destruct (Z.eqb_spec (it_iss x) i); [contradiction | reflexivity]. Qed.

Lemma proj_other_conn i c x : it_conn x <> c -> proj i c [x] = [].
Proof.
  intro N. unfold proj. simpl. destruct (Z.eqb_spec (it_conn x) c); [contradiction|].
  rewrite andb_false_r. reflexivity.
Qed.

(* the issuers the order theorem speaks about: all of them on the repaired code; all but the
   front on the code as found *)
Definition covered (fixed : bool) (i : Z) : Prop := fixed = true \/ i <> front.

Record Inv (fixed : bool) (logs : qmap) (s : st) : Prop := {
  inv_order : forall i c, covered fixed i ->
    proj i c (lookup (got s) c) ++ proj i c (lookup (chs s) c) ++ proj i c (mbox s)
      ++ proj i c (lookup (pend s) i) = proj i c (lookup logs i);
  inv_owned : forall i x, In x (lookup (pend s) i) -> it_iss x = i;
  inv_mbox : fixed = true -> forall x, In x (mbox s) -> it_iss x <> front
}.

Lemma inv_start fixed logs : owned_logs logs -> Inv fixed logs (start logs).
Proof.
  intro O. constructor; simpl.
  - intros i c _. reflexivity.
  - exact O.
  - intros _ x [].
Qed.

Lemma inv_step fixed logs s l : Inv fixed logs s -> Inv fixed logs (step fixed s l).
Proof.
  intros [IO IW IM]. destruct l as [j| |c0]; simpl.
  - (* an issuer issues its next item *)
    destruct (lookup (pend s) j) as [|x r] eqn:P; [constructor; assumption|].
    assert (XJ : it_iss x = j) by (apply IW; rewrite P; left; reflexivity).
    assert (OW' : forall i y, In y (lookup (aset j r (pend s)) i) -> it_iss y = i).
    { intros i y. rewrite lookup_aset. destruct (Z.eqb_spec i j).
      - subst i. intro H. apply IW. rewrite P. right. exact H.
      - apply IW. }
    destruct (direct fixed x) eqn:D.
    + (* straight into the send queue of its connection *)
      unfold direct in D. apply andb_true_iff in D. destruct D as [DF DK].
      apply Z.eqb_eq in DF.
      constructor; simpl; [|exact OW'|exact IM].
      intros i c CV. specialize (IO i c CV). rewrite lookup_enq, lookup_aset.
      destruct (Z.eqb_spec i j) as [EI|NI].
      * subst i. rewrite P in IO. rewrite proj_cons in IO.
        assert (FX : fixed = true).
        { destruct CV as [CV|CV]; [exact CV | congruence]. }
        assert (MB : proj j c (mbox s) = []).
        { clear - IM FX XJ DF. specialize (IM FX). induction (mbox s) as [|y m IH]; [reflexivity|].
          rewrite proj_cons, IH; [|intros z Z1; apply IM; right; exact Z1].
          rewrite proj_other_iss; [reflexivity|]. specialize (IM y (or_introl eq_refl)). congruence. }
        rewrite MB in *. cbn [app] in IO |- *.
        destruct (Z.eqb_spec c (it_conn x)) as [EC|NC].
        -- subst c. rewrite proj_app, <- IO, <- !app_assoc. reflexivity.
        -- rewrite proj_other_conn in IO; [exact IO | congruence].
      * assert (PX : proj i c [x] = []) by (apply proj_other_iss; congruence).
        destruct (Z.eqb_spec c (it_conn x)); [|exact IO].
        subst c. rewrite proj_app, PX, app_nil_r. exact IO.
    + (* through the front's mailbox *)
      constructor; simpl; [|exact OW'|].
      * intros i c CV. specialize (IO i c CV). rewrite lookup_aset, proj_app.
        destruct (Z.eqb_spec i j) as [EI|NI].
        -- subst i. rewrite P in IO. rewrite proj_cons in IO. rewrite <- IO, <- !app_assoc. reflexivity.
        -- rewrite proj_other_iss, app_nil_r; [exact IO | congruence].
      * intros FX y H. apply in_app_iff in H. destruct H as [H|[H|[]]]; [apply IM; assumption|].
        subst y. unfold direct in D. rewrite FX in D. simpl in D. rewrite andb_true_r in D.
        apply Z.eqb_neq in D. exact D.
  - (* the front processes the head of its mailbox *)
    destruct (mbox s) as [|x r] eqn:M; [constructor; try assumption; rewrite M; assumption|].
    constructor; simpl; [|exact IW|].
    + intros i c CV. specialize (IO i c CV). rewrite proj_cons in IO. rewrite lookup_enq.
      destruct (Z.eqb_spec c (it_conn x)) as [EC|NC].
      * subst c. rewrite proj_app, <- IO, <- !app_assoc. reflexivity.
      * rewrite proj_other_conn in IO; [exact IO | congruence].
    + intros FX y H. apply (IM FX). right. exact H.
  - (* the writer of connection c0 sends the head of its queue *)
    destruct (lookup (chs s) c0) as [|x r] eqn:C; [constructor; assumption|].
    constructor; simpl; [|exact IW|exact IM].
    intros i c CV. specialize (IO i c CV). rewrite lookup_enq, lookup_aset.
    destruct (Z.eqb_spec c c0) as [EC|NC]; [|exact IO].
    subst c. rewrite C in IO. rewrite proj_cons in IO. rewrite proj_app, <- IO, <- !app_assoc. reflexivity.
Qed.

Lemma inv_run fixed logs sched : forall s, Inv fixed logs s -> Inv fixed logs (run_sched fixed s sched).
Proof.
  induction sched as [|l r IH]; intros s I; simpl; [exact I|].
  apply IH. apply inv_step. exact I.
Qed.

(* ---------- the theorems ---------- *)

Theorem order_invariant fixed logs sched i c :
  owned_logs logs -> covered fixed i ->
  let s := run_sched fixed (start logs) sched in
  proj i c (lookup (got s) c) ++ proj i c (lookup (chs s) c) ++ proj i c (mbox s)
    ++ proj i c (lookup (pend s) i) = proj i c (lookup logs i).
Proof.
  intros O CV s. apply (inv_order _ _ _ (inv_run fixed logs sched _ (inv_start fixed logs O))). exact CV.
Qed.

Theorem order_prefix fixed logs sched i c :
  owned_logs logs -> covered fixed i ->
  exists rest, proj i c (lookup logs i) =
               proj i c (lookup (got (run_sched fixed (start logs) sched)) c) ++ rest.
Proof.
  intros O CV. eexists. symmetry. apply (order_invariant fixed logs sched i c O CV).
Qed.

Theorem order_complete fixed logs sched i c :
  owned_logs logs -> covered fixed i ->
  drained (run_sched fixed (start logs) sched) ->
  proj i c (lookup (got (run_sched fixed (start logs) sched)) c) = proj i c (lookup logs i).
Proof.
  intros O CV [D1 [D2 D3]]. assert (H := order_invariant fixed logs sched i c O CV). simpl in H.
  rewrite D1, D2, D3 in H. simpl in H. rewrite app_nil_r in H. exact H.
Qed.

(* ---------- "before" transfers through projections ---------- *)

Lemma filter_split_app {A} (P : A -> bool) l : forall u v,
  filter P l = u ++ v -> exists l1 l2, l = l1 ++ l2 /\ filter P l1 = u /\ filter P l2 = v.
Proof.
  induction l as [|a r IH]; intros u v H; simpl in H.
  - symmetry in H. apply app_eq_nil in H. destruct H. subst. exists [], []. auto.
  - destruct (P a) eqn:PA.
    + destruct u as [|b u'].
      * simpl in H. exists [], (a :: r). simpl. rewrite PA. auto.
      * simpl in H. inv H. destruct (IH u' v H2) as [l1 [l2 [E [F1 F2]]]].
        exists (b :: l1), l2. simpl. rewrite PA, F1. subst. auto.
    + destruct (IH u v H) as [l1 [l2 [E [F1 F2]]]].
      exists (a :: l1), l2. simpl. rewrite PA. subst. auto.
Qed.

Lemma filter_split_cons {A} (P : A -> bool) l x v :
  filter P l = x :: v -> exists l1 l2, l = l1 ++ x :: l2 /\ filter P l2 = v.
Proof.
  induction l as [|a r IH]; simpl; intro H; [discriminate|].
  destruct (P a) eqn:PA.
  - inv H. exists [], r. auto.
  - destruct (IH H) as [l1 [l2 [E F]]]. exists (a :: l1), l2. subst. auto.
Qed.

Lemma before_filter_elim (P : item -> bool) x y l : before x y (filter P l) -> before x y l.
Proof.
  intros [a [b [c H]]].
  destruct (filter_split_app P l a (x :: b ++ y :: c) H) as [l1 [l2 [E [_ F2]]]].
  destruct (filter_split_cons P l2 x _ F2) as [m1 [m2 [E2 F3]]].
  destruct (filter_split_app P m2 b (y :: c) F3) as [n1 [n2 [E3 [_ F4]]]].
  destruct (filter_split_cons P n2 y _ F4) as [p1 [p2 [E4 _]]].
  subst. exists (l1 ++ m1), (n1 ++ p1), p2. repeat (rewrite <- app_assoc; simpl). reflexivity.
Qed.

Lemma before_filter_intro (P : item -> bool) x y l :
  before x y l -> P x = true -> P y = true -> before x y (filter P l).
Proof.
  intros [a [b [c H]]] PX PY. subst l.
  exists (filter P a), (filter P b), (filter P c).
  rewrite filter_app. simpl. rewrite PX, filter_app. simpl. rewrite PY. reflexivity.
Qed.

Theorem issued_before_arrives_before fixed logs sched i c x y :
  owned_logs logs -> covered fixed i ->
  drained (run_sched fixed (start logs) sched) ->
  it_iss x = i -> it_conn x = c -> it_iss y = i -> it_conn y = c ->
  before x y (lookup logs i) ->
  before x y (lookup (got (run_sched fixed (start logs) sched)) c).
Proof.
  intros O CV D X1 X2 Y1 Y2 B.
  apply (before_filter_elim (fun z => Z.eqb (it_iss z) i && Z.eqb (it_conn z) c)).
  fold (proj i c (lookup (got (run_sched fixed (start logs) sched)) c)).
  rewrite (order_complete fixed logs sched i c O CV D).
  apply before_filter_intro; [exact B| |]; rewrite ?X1, ?X2, ?Y1, ?Y2, !Z.eqb_refl; reflexivity.
Qed.

(* the harness's issue logs satisfy the theorem's hypothesis *)
Lemma issue_logs_owned ops : owned_logs (issue_logs ops).
Proof.
  intros i x. unfold issue_logs, lookup. simpl.
  destruct (Z.eqb_spec i 0); [subst|destruct (Z.eqb_spec i 1); [subst|destruct (Z.eqb_spec i 2);
    [subst|destruct (Z.eqb_spec i 3); [subst|simpl; tauto]]]];
    unfold issue_log; intro H; apply filter_In in H; destruct H as [_ H]; apply Z.eqb_eq in H; exact H.
Qed.

(* the code as found: the front's own push, issued before its response, arrives after it *)
Definition f8_log : qmap := [(0, [mkItem 0 1 KPush 1 0 0; mkItem 0 1 KResp 1 0 0])].
Definition f8_sched : list label := [LIssue 0; LIssue 0; LProcess; LWrite 1; LWrite 1].

Lemma frontlocal_unfixed_refuted :
  owned_logs f8_log /\
  lookup (got (run_sched false (start f8_log) f8_sched)) 1 = [mkItem 0 1 KResp 1 0 0; mkItem 0 1 KPush 1 0 0] /\
  proj 0 1 (lookup (got (run_sched false (start f8_log) f8_sched)) 1) <> proj 0 1 (lookup f8_log 0).
Proof.
  split; [|split].
  - intros i x. unfold f8_log, lookup. simpl. destruct (Z.eqb_spec i 0); [subst|simpl; tauto].
    intros [H|[H|[]]]; subst x; reflexivity.
  - vm_compute. reflexivity.
  - vm_compute. discriminate.
Qed.

Lemma backend_order fixed logs sched i c :
  owned_logs logs -> i <> front ->
  drained (run_sched fixed (start logs) sched) ->
  proj i c (lookup (got (run_sched fixed (start logs) sched)) c) = proj i c (lookup logs i).
Proof. intros O N. exact (order_complete fixed logs sched i c O (or_intror N)). Qed.

Lemma frontlocal_order logs sched c :
  owned_logs logs ->
  drained (run_sched true (start logs) sched) ->
  proj front c (lookup (got (run_sched true (start logs) sched)) c) = proj front c (lookup logs front).
Proof. intros O. exact (order_complete true logs sched front c O (or_introl eq_refl)). Qed.

(* the issue log of an issuer, restricted to a connection, is the restriction of everything issued *)
Lemma proj_issue_log ops i c : proj i c (issue_log ops i) = proj i c (issue_from [] [] ops).
Proof.
  unfold issue_log, proj. induction (issue_from [] [] ops) as [|x r IH]; simpl; [reflexivity|].
  destruct (Z.eqb (it_iss x) i) eqn:E; simpl; [rewrite E|]; rewrite IH; reflexivity.
Qed.

(* what [Spec.accepts] compares request by request is the restriction of the order theorem *)
Lemma proj3_proj i c t l : proj3 i c t l = filter (fun x => Z.eqb (it_tag x) t) (proj i c l).
Proof.
  unfold proj3, proj. induction l as [|x r IH]; simpl; [reflexivity|].
  destruct (Z.eqb (it_iss x) i && Z.eqb (it_conn x) c); simpl; [destruct (Z.eqb (it_tag x) t)|]; rewrite IH; reflexivity.
Qed.

Lemma order_per_request fixed logs sched i c t :
  owned_logs logs -> covered fixed i ->
  drained (run_sched fixed (start logs) sched) ->
  proj3 i c t (lookup (got (run_sched fixed (start logs) sched)) c) = proj3 i c t (lookup logs i).
Proof. intros O CV D. rewrite !proj3_proj, (order_complete fixed logs sched i c O CV D). reflexivity. Qed.

(* ---------- sizes (and any other payload data) do not influence the order ---------- *)

Section Relabel.
  Variable h : item -> item.
  Hypothesis h_iss : forall x, it_iss (h x) = it_iss x.
  Hypothesis h_conn : forall x, it_conn (h x) = it_conn x.
  Hypothesis h_kind : forall x, it_kind (h x) = it_kind x.

  Definition mapq (m : qmap) : qmap := map (fun kv => (fst kv, map h (snd kv))) m.

  Definition map_st (s : st) : st :=
    mkSt (mapq (pend s)) (map h (mbox s)) (mapq (chs s)) (mapq (got s)).

  Lemma lookup_mapq k m : lookup (mapq m) k = map h (lookup m k).
  Proof.
    unfold lookup. induction m as [|[k0 v0] r IH]; simpl; [reflexivity|].
    destruct (Z.eqb k k0); [reflexivity | exact IH].
  Qed.

  Lemma aset_mapq k v m : aset k (map h v) (mapq m) = mapq (aset k v m).
  Proof.
    induction m as [|[k0 v0] r IH]; simpl; [reflexivity|].
    destruct (Z.ltb k k0); [reflexivity|]. destruct (Z.eqb k k0); [reflexivity|].
    simpl. rewrite IH. reflexivity.
  Qed.

  Lemma enq_mapq m k x : enq (mapq m) k (h x) = mapq (enq m k x).
  Proof. unfold enq. rewrite lookup_mapq, <- aset_mapq, map_app. reflexivity. Qed.

  Lemma direct_h fixed x : direct fixed (h x) = direct fixed x.
  Proof. unfold direct. rewrite h_iss, h_kind. reflexivity. Qed.

  Lemma step_map fixed s l : step fixed (map_st s) l = map_st (step fixed s l).
  Proof.
    destruct l as [i| |c]; simpl.
    - rewrite lookup_mapq. destruct (lookup (pend s) i) as [|x r]; simpl; [reflexivity|].
      rewrite direct_h. destruct (direct fixed x); unfold map_st; simpl.
      + rewrite h_conn, enq_mapq, aset_mapq. reflexivity.
      + rewrite aset_mapq, map_app. reflexivity.
    - destruct (mbox s) as [|x r]; simpl; [reflexivity|].
      unfold map_st. simpl. rewrite h_conn, enq_mapq. reflexivity.
    - rewrite lookup_mapq. destruct (lookup (chs s) c) as [|x r]; simpl; [reflexivity|].
      unfold map_st. simpl. rewrite enq_mapq, aset_mapq. reflexivity.
  Qed.

  Lemma run_map fixed sched : forall s,
    run_sched fixed (map_st s) sched = map_st (run_sched fixed s sched).
  Proof.
    induction sched as [|l r IH]; intro s; simpl; [reflexivity|].
    rewrite step_map. apply IH.
  Qed.
End Relabel.

(* give every item the size [f] says *)
Definition resize (f : item -> Z) (x : item) : item :=
  mkItem (it_iss x) (it_conn x) (it_kind x) (it_tag x) (it_seq x) (f x).

Theorem size_independent fixed logs sched (f : item -> Z) :
  run_sched fixed (start (mapq (resize f) logs)) sched =
  map_st (resize f) (run_sched fixed (start logs) sched).
Proof.
  change (start (mapq (resize f) logs)) with (map_st (resize f) (start logs)).
  apply run_map; intro x; reflexivity.
Qed.

(* ---------- when a handler completes, and closed connections among the targets ---------- *)

(* the same request, completing within the handler's own turn (false) or in a later one (true) *)
Definition set_later (b : bool) (o : op) : op :=
  match o with
  | OSend c ty n1 n2 tag pads rpad mode targets _ kick fill sess => OSend c ty n1 n2 tag pads rpad mode targets b kick fill sess
  | _ => o
  end.

Lemma later_irrelevant b ops : forall cs dead,
  issue_from cs dead (map (set_later b) ops) = issue_from cs dead ops.
Proof.
  induction ops as [|o r IH]; intros cs dead; simpl; [reflexivity|].
  assert (C : conn_step cs (set_later b o) = conn_step cs o) by (destruct o; reflexivity).
  assert (D : dead_step cs dead (set_later b o) = dead_step cs dead o) by (destruct o; reflexivity).
  rewrite C, D, IH. f_equal. destruct o; reflexivity.
Qed.

(* listing connections that get nothing (closed ones) among the targets of a multi-target push
   changes nothing for any connection that does: it is sent every push, in order *)
Lemma pushes_listed_closed i tag pads (keep : Z -> bool) targets from count c :
  keep c = true ->
  filter (fun x => Z.eqb (it_conn x) c) (pushes i tag pads (filter keep targets) from count) =
  filter (fun x => Z.eqb (it_conn x) c) (pushes i tag pads targets from count).
Proof.
  intro K. unfold pushes. induction (zseq from count) as [|q r IH]; simpl; [reflexivity|].
  rewrite !filter_app, IH. clear IH. f_equal.
  induction targets as [|t ts IHt]; simpl; [reflexivity|].
  destruct (keep t) eqn:E; simpl.
  - destruct (Z.eqb t c); rewrite IHt; reflexivity.
  - destruct (Z.eqb_spec t c); [congruence|]. exact IHt.
Qed.

(* a kicked connection is sent nothing that is issued from the kick on *)
Lemma pushes_not_listed i tag pads targets from count c :
  ~ In c targets ->
  filter (fun x => Z.eqb (it_conn x) c) (pushes i tag pads targets from count) = [].
Proof.
  intro N. unfold pushes. induction (zseq from count) as [|q r IH]; simpl; [reflexivity|].
  rewrite filter_app, IH, app_nil_r. clear IH.
  induction targets as [|t ts IHt]; simpl; [reflexivity|].
  destruct (Z.eqb_spec t c); [subst; exfalso; apply N; left; reflexivity|].
  apply IHt. intro H. apply N. right. exact H.
Qed.

(* ---------- rooms of any size, and session traffic ---------- *)

(* ids nobody ever had, anywhere in the id list of a multi-target push, are skipped: what is
   served is the live ones among the listed connections, in listing order *)
Lemma served_app keep a b : served keep (a ++ b) = served keep a ++ served keep b.
Proof. unfold served. apply flat_map_app. Qed.

Lemma served_none keep (l : list Z) : served keep (map (fun _ => None) l) = [].
Proof. induction l as [|x r IH]; simpl; [reflexivity | exact IH]. Qed.

Lemma served_some keep targets : served keep (map Some targets) = filter keep targets.
Proof.
  induction targets as [|t r IH]; simpl; [reflexivity|].
  destruct (keep t); simpl; rewrite IH; reflexivity.
Qed.

Lemma served_id_list keep fill targets : served keep (id_list fill targets) = filter keep targets.
Proof. unfold id_list. rewrite served_app, served_none, served_some. reflexivity. Qed.

(* the same request naming k never-added ids before its targets *)
Definition set_fill (k : Z) (o : op) : op :=
  match o with
  | OSend c ty n1 n2 tag pads rpad mode targets later kick _ sess => OSend c ty n1 n2 tag pads rpad mode targets later kick k sess
  | _ => o
  end.

Lemma fill_irrelevant k ops : forall cs dead,
  issue_from cs dead (map (set_fill k) ops) = issue_from cs dead ops.
Proof.
  induction ops as [|o r IH]; intros cs dead; simpl; [reflexivity|].
  assert (C : conn_step cs (set_fill k o) = conn_step cs o) by (destruct o; reflexivity).
  assert (D : dead_step cs dead (set_fill k o) = dead_step cs dead o) by (destruct o; reflexivity).
  rewrite C, IH. f_equal; [|rewrite D; reflexivity].
  destruct o as [c0 slow|c0 ms|c0 v| |c0 ty n1 n2 tag pads rpad mode targets later kick fill sess]; try reflexivity.
  cbn [set_fill]. rewrite !served_id_list.
  change (dead_step cs dead (OSend c0 ty n1 n2 tag pads rpad mode targets later kick k sess))
    with (dead_step cs dead (OSend c0 ty n1 n2 tag pads rpad mode targets later kick fill sess)).
  reflexivity.
Qed.

(* what the multi-target pushes of a request are sent to: the live ones among its targets *)
Lemma issue_targets keep fill targets i tag pads from count :
  pushes i tag pads (served keep (id_list fill targets)) from count =
  pushes i tag pads (filter keep targets) from count.
Proof. rewrite served_id_list. reflexivity. Qed.

(* the same request whose handler touches its session as [k] says *)
Definition set_sess (k : Z) (o : op) : op :=
  match o with
  | OSend c ty n1 n2 tag pads rpad mode targets later kick fill _ => OSend c ty n1 n2 tag pads rpad mode targets later kick fill k
  | _ => o
  end.

Lemma sess_irrelevant k ops : forall cs dead,
  issue_from cs dead (map (set_sess k) ops) = issue_from cs dead ops.
Proof.
  induction ops as [|o r IH]; intros cs dead; simpl; [reflexivity|].
  assert (C : conn_step cs (set_sess k o) = conn_step cs o) by (destruct o; reflexivity).
  assert (D : dead_step cs dead (set_sess k o) = dead_step cs dead o) by (destruct o; reflexivity).
  rewrite C, D, IH. f_equal. destruct o; reflexivity.
Qed.

(* whatever else travels through the same queues - session synchronisation, pushes to other
   connections, other issuers' items - : two networks whose issuer i issues the same items to
   connection c deliver the same sequence of them to c, under any two schedules *)
Lemma other_traffic_harmless fixed logs logs' sched sched' i c :
  owned_logs logs -> owned_logs logs' -> covered fixed i ->
  drained (run_sched fixed (start logs) sched) ->
  drained (run_sched fixed (start logs') sched') ->
  proj i c (lookup logs i) = proj i c (lookup logs' i) ->
  proj i c (lookup (got (run_sched fixed (start logs) sched)) c) =
  proj i c (lookup (got (run_sched fixed (start logs') sched')) c).
Proof.
  intros O O' CV D D' E.
  rewrite (order_complete fixed logs sched i c O CV D), (order_complete fixed logs' sched' i c O' CV D').
  exact E.
Qed.
