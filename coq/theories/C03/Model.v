(* C03 - model of the path of pushes and responses from the issuing services to a client:
   a network of queues driven by an arbitrary schedule.  No proofs in this file.

   Go -> model:
     handler code issuing app.PushMessageById / completing its request      [pend i]: what issuer i
                                                   still has to issue, in program order
     impls/utils.go pushMessageByIds -> RequestEx(front, "sys.pushmsg")     [LIssue i]: the item is
       and Service.Response(...) of a forwarded request                     appended to the front's
       (both: Context.Send to the front's PID, same sender goroutine)       mailbox [mbox]
     actorex/mailbox: one consumer, user queue FIFO; builtin/system.go      [LProcess]: head of [mbox]
       PushMsg -> ClientSessions.PushMsg -> session.Push, resp. the relay   is appended to the send
       callback -> session.ResponseMID: chSend <- packet                    queue [chs c] of its connection
     pomelonet session.go write(): single goroutine draining chSend         [LWrite c]: head of [chs c]
                                                                            reaches the client [got c]
     the front-end's OWN handlers (issuer = front): the response is written to the session
       synchronously (handler.go Process); pushes - REPAIRED code, hooks/C03-fix-local-push-order.patch -
       as well ([direct]); in the code as found ([fixed] = false) they went through the front's
       own mailbox.

   What is NOT in the model (measured by the harness instead): a full chSend / chanTask blocks
   the producer, which resumes in order; the mailbox smoothing pause; TCP. *)
From Cell2V Require Import Common.Tac Common.ListX Common.AList.

Inductive kind := KPush | KResp | KErr
| KEmpty.   (* a push whose message has only default-valued fields: zero bytes on the wire under the
               protobuf client serializer ("{}" under JSON); it identifies nothing at the client *)

(* it_size: the payload padding in bytes - pure data for the queue network (the order theorems
   hold for all sizes: Props.C03_order_size_independent), compared at the client *)
Record item := mkItem { it_iss : Z; it_conn : Z; it_kind : kind; it_tag : Z; it_seq : Z; it_size : Z }.

Inductive label := LIssue (i : Z) | LProcess | LWrite (c : Z).

Definition qmap := alist (list item).

Definition lookup (m : qmap) (k : Z) : list item :=
  match aget k m with Some l => l | None => [] end.

Definition enq (m : qmap) (k : Z) (x : item) : qmap := aset k (lookup m k ++ [x]) m.

Record st := mkSt { pend : qmap; mbox : list item; chs : qmap; got : qmap }.

Definition front : Z := 0.

Definition is_push (k : kind) : bool := match k with KPush | KEmpty => true | _ => false end.

(* written by the issuer straight into the connection's send queue? *)
Definition direct (fixed : bool) (x : item) : bool :=
  Z.eqb (it_iss x) front && (fixed || negb (is_push (it_kind x))).

Definition step (fixed : bool) (s : st) (l : label) : st :=
  match l with
  | LIssue i =>
      match lookup (pend s) i with
      | [] => s
      | x :: r =>
          if direct fixed x
          then mkSt (aset i r (pend s)) (mbox s) (enq (chs s) (it_conn x) x) (got s)
          else mkSt (aset i r (pend s)) (mbox s ++ [x]) (chs s) (got s)
      end
  | LProcess =>
      match mbox s with
      | [] => s
      | x :: r => mkSt (pend s) r (enq (chs s) (it_conn x) x) (got s)
      end
  | LWrite c =>
      match lookup (chs s) c with
      | [] => s
      | x :: r => mkSt (pend s) (mbox s) (aset c r (chs s)) (enq (got s) c x)
      end
  end.

Definition run_sched (fixed : bool) (s : st) (sched : list label) : st :=
  fold_left (step fixed) sched s.

Definition start (logs : qmap) : st := mkSt logs [] [] [].

(* ---------- the harness: what its handlers issue ---------- *)

Inductive op :=
| OConn (c slow : Z)                       (* connect; slow: the client pauses that many us per message *)
| OStall (c ms : Z)                        (* the client stops reading for ms milliseconds from now *)
| OKey (c v : Z)                           (* set the routing key of c (acknowledged before the next op) *)
| OProto                                   (* the case runs with the protobuf client serializer (anywhere in the list) *)
| OSend (c ty n1 n2 tag : Z) (pads : list Z) (rpad mode : Z) (targets : list Z) (later : bool) (kick : Z)
        (fill sess : Z).
    (* pipelined request: n1 pushes, the response, n2 pushes.  Push number q is padded with
       [pad_at pads q] bytes (pads is repeated cyclically: sizes vary WITHIN one handler's issue
       sequence; a negative entry = a message without content), the response with rpad bytes.  mode 0: each push goes to the
       requester (PushMessageById); mode 1: to the connected ones among [targets]
       (PushMessageByIds); mode 2: broadcast through a channel holding them (Channel.PushMessage).
       later: the handler returns without completing and issues the whole sequence (n1 pushes, the
       completion, n2 pushes) in a LATER turn of its service - the issue order is the same, when
       the handler completes is no part of it.
       kick <> 0: before anything else the handler kicks connection [kick] (another, connected
       one) - the front-end closes it at once but still holds its session when the pushes that
       list it are handled; it gets none of them, every other target all of them.
       fill: the id list of every multi-target push (mode 1 / 2) names [fill] NEVER-ADDED connection
       ids before [targets] (a room of hundreds: the listed connections stand at positions
       fill, fill+1, ... of a list of fill + length targets ids) - the front-end has no session for
       them and skips them ([id_list] / [served] below; Props.C03_target_count_irrelevant).
       sess = kind + 4 * place: the handler touches its session (kind 1: Set without PushSession,
       2: Set + PushSession, 3: Bind without PushSession; place 0: first thing, 1: between the n1
       pushes and the completion, 2: right after the completion).  Session synchronisation is
       traffic between the services that is addressed to no connection: no part of what is issued
       to the clients (Props.C03_session_traffic_irrelevant, C03_other_traffic_harmless). *)

Inductive ev :=
| EPush (inst tag seq ctr cnt size : Z)    (* cnt consecutive pushes seq.., issue counters ctr.., all padded with size bytes *)
| EResp (inst tag ctr size : Z)
| EErr                                     (* error response (no payload) *)
| EEmpty                                   (* a push without content *)
| EOther.

Fixpoint zseq_from (from : Z) (fuel : nat) : list Z :=
  match fuel with O => [] | S f => from :: zseq_from (from + 1) f end.

Definition zseq (from count : Z) : list Z := zseq_from from (Z.to_nat count).

Definition pad_at (pads : list Z) (q : Z) : Z :=
  match pads with
  | [] => 0
  | _ => nth (Z.to_nat (q mod Z.of_nat (length pads))) pads 0
  end.

(* count pushes numbered from.., each to every target (one item per target, in listing order) *)
Definition pushes (i tag : Z) (pads targets : list Z) (from count : Z) : list item :=
  flat_map (fun q => map (fun t => mkItem i t (if Z.ltb (pad_at pads q) 0 then KEmpty else KPush) tag q (pad_at pads q))
                         targets) (zseq from count).

(* the id list of a multi-target push: [fill] ids nobody ever had (None), then the listed ones *)
Definition id_list (fill : Z) (targets : list Z) : list (option Z) :=
  map (fun _ => None) (zseq 0 fill) ++ map Some targets.

(* the connections among the ids the front-end has a live session for, in listing order
   (impls/sessions.go PushMsg: `if session == nil { continue }`) *)
Definition served (keep : Z -> bool) (ids : list (option Z)) : list Z :=
  flat_map (fun o => match o with Some t => if keep t then [t] else [] | None => [] end) ids.

Definition script (i c tag n1 n2 : Z) (pads : list Z) (rpad : Z) (targets : list Z) : list item :=
  pushes i tag pads targets 0 n1 ++ [mkItem i c KResp tag 0 rpad] ++ pushes i tag pads targets n1 n2.

(* routing of the harness node: gate is the front itself, room has one instance (3), chat is
   routed by the connection's key (1 / 2), anything else has no target *)
Definition target (ty key : Z) : option Z :=
  if Z.eqb ty 0 then Some 0
  else if Z.eqb ty 2 then Some 3
  else if Z.eqb ty 1 then (if Z.eqb key 1 || Z.eqb key 2 then Some key else None)
  else None.

(* connected connections with their routing key *)
Definition conn_step (cs : alist Z) (o : op) : alist Z :=
  match o with
  | OConn c _ => match aget c cs with None => aset c 0 cs | Some _ => cs end
  | OKey c v => match aget c cs with Some _ => aset c v cs | None => cs end
  | OStall _ _ | OProto | OSend _ _ _ _ _ _ _ _ _ _ _ _ _ => cs
  end.

Definition connected (cs : alist Z) (c : Z) : bool :=
  match aget c cs with Some _ => true | None => false end.

Definition conns_of (ops : list op) : alist Z := fold_left conn_step ops [].

(* connected and not closed by a kick *)
Definition alive (cs : alist Z) (dead : list Z) (c : Z) : bool :=
  connected cs c && negb (existsb (Z.eqb c) dead).

(* the connection a request's handler kicks, if the handler runs and the kick means anything *)
Definition kicked (cs : alist Z) (dead : list Z) (o : op) : option Z :=
  match o with
  | OSend c ty _ _ _ _ _ _ _ _ kick _ _ =>
      match aget c cs with
      | Some key =>
          match target ty key with
          | Some _ => if alive cs dead c && alive cs dead kick && negb (Z.eqb kick c) then Some kick else None
          | None => None
          end
      | None => None
      end
  | _ => None
  end.

Definition dead_step (cs : alist Z) (dead : list Z) (o : op) : list Z :=
  match kicked cs dead o with Some k => k :: dead | None => dead end.

(* everything the issuers issue, grouped by issuer, in the order of the client operations *)
Fixpoint issue_from (cs : alist Z) (dead : list Z) (ops : list op) : list item :=
  match ops with
  | [] => []
  | o :: r =>
      (match o with
       | OSend c ty n1 n2 tag pads rpad mode targets _ _ fill _ =>
           if alive cs dead c then
             match aget c cs with
             | Some key =>
                 match target ty key with
                 | Some i => script i c tag n1 n2 pads rpad
                               (if Z.eqb mode 0 then [c] else served (alive cs (dead_step cs dead o)) (id_list fill targets))
                 | None => [mkItem front c KErr 0 0 0]     (* no target: the front answers an error *)
                 end
             | None => []
             end
           else []
       | _ => []
       end) ++ issue_from (conn_step cs o) (dead_step cs dead o) r
  end.

Definition issue_log (ops : list op) (i : Z) : list item :=
  filter (fun x => Z.eqb (it_iss x) i) (issue_from [] [] ops).

Definition issue_logs (ops : list op) : qmap :=
  map (fun i => (i, issue_log ops i)) [0; 1; 2; 3].

(* arrival sequence of one connection, expanded from the run-length encoding *)
Definition expand (c : Z) (e : ev) : list item :=
  match e with
  | EPush i tag s _ cnt sz => map (fun q => mkItem i c KPush tag q sz) (zseq s cnt)
  | EResp i tag _ sz => [mkItem i c KResp tag 0 sz]
  | EErr => [mkItem front c KErr 0 0 0]
  | EEmpty => [mkItem (-2) c KEmpty 0 0 0]
  | EOther => [mkItem (-1) c KErr 0 0 0]
  end.

Definition arrivals (c : Z) (evs : list ev) : list item := flat_map (expand c) evs.

(* issue counters of one issuer's items, in arrival order (error responses carry none) *)
Definition counters (i : Z) (evs : list ev) : list Z :=
  flat_map (fun e => match e with
                     | EPush j _ _ ctr cnt _ => if Z.eqb j i then zseq ctr cnt else []
                     | EResp j _ ctr _ => if Z.eqb j i then [ctr] else []
                     | _ => []
                     end) evs.
