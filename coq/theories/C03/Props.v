(* C03 - property theorems only.  Each is closed by [exact] of a lemma from Proofs.v / Fifo.v
   and followed by Print Assumptions.

   [logs] gives, for ANY number of issuers (keys), what each issues and in which order
   (items: issuer, connection, push/response, tag, position).  [sched] is ANY schedule of the
   queue network (an issuer issues its next item / the front processes the head of its mailbox /
   the writer of a connection sends the head of its queue).  [proj i c l] = the items of issuer
   i for connection c in l.  [fixed]: the repaired code (front-local pushes delivered directly);
   [covered fixed i] = the repaired code, or any issuer other than the front. *)
From Cell2V Require Import Common.Tac Common.ListX Common.AList C03.Model C03.Spec C03.Fifo C03.Proofs.

(* At every moment of every schedule, what a client has received from issuer i is a prefix of
   what i issued for it, in issue order ... *)
Theorem C03_order_prefix : forall fixed logs sched i c,
  owned_logs logs -> (fixed = true \/ i <> front) ->
  exists rest, proj i c (lookup logs i) =
               proj i c (lookup (got (run_sched fixed (start logs) sched)) c) ++ rest.
Proof. exact order_prefix. Qed.
Print Assumptions C03_order_prefix.

(* ... and once everything is delivered it is exactly that: for back-end issuers on the code
   as found and as repaired ... *)
Theorem C03_backend_order : forall fixed logs sched i c,
  owned_logs logs -> i <> front ->
  drained (run_sched fixed (start logs) sched) ->
  proj i c (lookup (got (run_sched fixed (start logs) sched)) c) = proj i c (lookup logs i).
Proof. exact backend_order. Qed.
Print Assumptions C03_backend_order.

(* ... and for the front-end service's own handlers on the repaired code. *)
Theorem C03_frontlocal_order : forall logs sched c,
  owned_logs logs ->
  drained (run_sched true (start logs) sched) ->
  proj front c (lookup (got (run_sched true (start logs) sched)) c) = proj front c (lookup logs front).
Proof. exact frontlocal_order. Qed.
Print Assumptions C03_frontlocal_order.

(* On the code as found (F8) the front-local statement is false: [push; response] arrives as
   [response; push]. *)
Theorem C03_frontlocal_unfixed_refuted :
  owned_logs f8_log /\
  lookup (got (run_sched false (start f8_log) f8_sched)) 1 = [mkItem 0 1 KResp 1 0 0; mkItem 0 1 KPush 1 0 0] /\
  proj 0 1 (lookup (got (run_sched false (start f8_log) f8_sched)) 1) <> proj 0 1 (lookup f8_log 0).
Proof. exact frontlocal_unfixed_refuted. Qed.
Print Assumptions C03_frontlocal_unfixed_refuted.

(* The same, request by request (what the harness compares: an issuer serves the requests of
   different connections in an order the history does not fix, so arrivals are matched per
   issuer, connection and request tag, and the order across requests by the issue counters). *)
Theorem C03_order_per_request : forall fixed logs sched i c t,
  owned_logs logs -> (fixed = true \/ i <> front) ->
  drained (run_sched fixed (start logs) sched) ->
  proj3 i c t (lookup (got (run_sched fixed (start logs) sched)) c) = proj3 i c t (lookup logs i).
Proof. exact order_per_request. Qed.
Print Assumptions C03_order_per_request.

(* The full invariant: received, queued for the socket, in the front's mailbox, not yet
   issued - concatenated in that order - is the issue log, at every moment. *)
Theorem C03_order_invariant : forall fixed logs sched i c,
  owned_logs logs -> (fixed = true \/ i <> front) ->
  let s := run_sched fixed (start logs) sched in
  proj i c (lookup (got s) c) ++ proj i c (lookup (chs s) c) ++ proj i c (mbox s)
    ++ proj i c (lookup (pend s) i) = proj i c (lookup logs i).
Proof. exact order_invariant. Qed.
Print Assumptions C03_order_invariant.

(* Pushes never overtake each other, and a push issued before the handler completes arrives
   before the response: anything issued earlier arrives earlier. *)
Theorem C03_issued_before_arrives_before : forall fixed logs sched i c x y,
  owned_logs logs -> (fixed = true \/ i <> front) ->
  drained (run_sched fixed (start logs) sched) ->
  it_iss x = i -> it_conn x = c -> it_iss y = i -> it_conn y = c ->
  before x y (lookup logs i) ->
  before x y (lookup (got (run_sched fixed (start logs) sched)) c).
Proof. exact issued_before_arrives_before. Qed.
Print Assumptions C03_issued_before_arrives_before.

(* Sizes are pure data: run the network on the same logs with every item's size replaced by an
   arbitrary function of the item, and every queue of every reachable state is the original one
   with the sizes replaced - the order in which items are issued, processed, written and received
   does not depend on their sizes (mixing tiny and huge pushes / responses changes nothing). *)
Theorem C03_order_size_independent : forall fixed logs sched (f : item -> Z),
  run_sched fixed (start (mapq (resize f) logs)) sched =
  map_st (resize f) (run_sched fixed (start logs) sched).
Proof. exact size_independent. Qed.
Print Assumptions C03_order_size_independent.

(* The stage library: any merge of any number of senders keeps every sender's subsequence ... *)
Theorem C03_merge_preserves : forall (A : Type) (sender : A -> Z) src out,
  Merge src out -> owned sender src -> forall k, from sender k out = src k.
Proof. exact @merge_proj. Qed.
Print Assumptions C03_merge_preserves.

(* ... and so does the composition merge -> one-for-one FIFO stage -> split by connection. *)
Theorem C03_stages_compose : forall (A B : Type) (sa : A -> Z) (sb cb : B -> Z) (g : A -> B),
  (forall x, sb (g x) = sa x) ->
  forall src box k c, Merge src box -> owned sa src ->
  from sb k (from cb c (map g box)) = from cb c (map g (src k)).
Proof. exact @compose_proj. Qed.
Print Assumptions C03_stages_compose.

(* the issue logs of the harness meet the hypothesis of the order theorems *)
Theorem C03_harness_logs_owned : forall ops, owned_logs (issue_logs ops).
Proof. exact issue_logs_owned. Qed.
Print Assumptions C03_harness_logs_owned.

(* WHEN a handler completes is no part of the issue order: a request whose handler returns first
   and issues its pushes and its completion in a later turn of its service (asynchronous
   completion) issues exactly what it would issue completing at once - so every order theorem
   above speaks about both, and a push issued before the completion arrives before the response,
   one issued after it after it, whichever turn they were issued in. *)
Theorem C03_completion_turn_irrelevant : forall b ops cs dead,
  issue_from cs dead (map (set_later b) ops) = issue_from cs dead ops.
Proof. exact later_irrelevant. Qed.
Print Assumptions C03_completion_turn_irrelevant.

(* Multi-target pushes: connections that get nothing (closed by a kick but still listed, or never
   connected) among the targets change nothing for any connection that does - it is sent every
   push of the sequence, in order, wherever the others stand in the list ... *)
Theorem C03_closed_targets_harmless : forall i tag pads (keep : Z -> bool) targets from count c,
  keep c = true ->
  filter (fun x => Z.eqb (it_conn x) c) (pushes i tag pads (filter keep targets) from count) =
  filter (fun x => Z.eqb (it_conn x) c) (pushes i tag pads targets from count).
Proof. exact pushes_listed_closed. Qed.
Print Assumptions C03_closed_targets_harmless.

(* ... and a connection that is not among them is sent none. *)
Theorem C03_untargeted_gets_nothing : forall i tag pads targets from count c,
  ~ In c targets ->
  filter (fun x => Z.eqb (it_conn x) c) (pushes i tag pads targets from count) = [].
Proof. exact pushes_not_listed. Qed.
Print Assumptions C03_untargeted_gets_nothing.

(* Rooms of any size: a multi-target push whose id list names k never-added connection ids before
   the listed connections (so that those stand at positions k, k+1, ... of a list of hundreds) is
   served to exactly the live ones among the listed connections, in listing order ... *)
Theorem C03_served_ids : forall (keep : Z -> bool) fill targets,
  served keep (id_list fill targets) = filter keep targets.
Proof. exact served_id_list. Qed.
Print Assumptions C03_served_ids.

(* ... so how MANY ids a push names, and at which position of the list a connection stands, is no
   part of what is issued to it: every order theorem above speaks about rooms of 1, 128, 129 or
   300 ids alike. *)
Theorem C03_target_count_irrelevant : forall k ops cs dead,
  issue_from cs dead (map (set_fill k) ops) = issue_from cs dead ops.
Proof. exact fill_irrelevant. Qed.
Print Assumptions C03_target_count_irrelevant.

(* What a handler does to its SESSION (Set without PushSession, Set + PushSession, Bind - before
   the pushes, before or after the completion) is no part of the issue order either: the items
   issued to the clients are the same, so they arrive in the same order ... *)
Theorem C03_session_traffic_irrelevant : forall k ops cs dead,
  issue_from cs dead (map (set_sess k) ops) = issue_from cs dead ops.
Proof. exact sess_irrelevant. Qed.
Print Assumptions C03_session_traffic_irrelevant.

(* ... whatever else travels through the same mailbox and queues (session synchronisation
   messages, pushes to other connections, other issuers'
   items): two networks whose issuer i issues the same items to connection c deliver the same
   sequence of them to c, under any two schedules. *)
Theorem C03_other_traffic_harmless : forall fixed logs logs' sched sched' i c,
  owned_logs logs -> owned_logs logs' -> (fixed = true \/ i <> front) ->
  drained (run_sched fixed (start logs) sched) ->
  drained (run_sched fixed (start logs') sched') ->
  proj i c (lookup logs i) = proj i c (lookup logs' i) ->
  proj i c (lookup (got (run_sched fixed (start logs) sched)) c) =
  proj i c (lookup (got (run_sched fixed (start logs') sched')) c).
Proof. exact other_traffic_harmless. Qed.
Print Assumptions C03_other_traffic_harmless.

(* non-vacuity: room-1 pushes to a list of 130 ids - 128 never-added ones, then connections 1 and
   2 (positions 128 and 129) - after dirtying its session without pushing it: both are sent the push
   before the response and the one after it *)
Example C03_example_room :
  issue_from [] [] [OConn 1 0; OConn 2 0; OSend 1 2 1 1 7 [] 0 1 [1; 2] false 0 128 1]
  = [mkItem 3 1 KPush 7 0 0; mkItem 3 2 KPush 7 0 0; mkItem 3 1 KResp 7 0 0; mkItem 3 1 KPush 7 1 0; mkItem 3 2 KPush 7 1 0].
Proof. vm_compute. reflexivity. Qed.

(* non-vacuity: room-1 kicks connection 2 and pushes to [2; 1; 3] from a later turn: 1 and 3 are
   sent both pushes around the response, 2 nothing; 2's later request is not served *)
Example C03_example_kick :
  issue_from [] [] [OConn 1 0; OConn 2 0; OConn 3 0; OSend 1 2 1 1 7 [] 0 1 [2; 1; 3] true 2 0 0; OSend 2 0 1 0 8 [] 0 0 [] false 0 0 0]
  = [mkItem 3 1 KPush 7 0 0; mkItem 3 3 KPush 7 0 0; mkItem 3 1 KResp 7 0 0; mkItem 3 1 KPush 7 1 0; mkItem 3 3 KPush 7 1 0].
Proof. vm_compute. reflexivity. Qed.

(* non-vacuity: three issuers, two connections, a schedule that interleaves them and drains *)
Example C03_example :
  let logs := [(0, [mkItem 0 1 KPush 1 0 0; mkItem 0 1 KResp 1 0 0]);
               (1, [mkItem 1 1 KPush 2 0 0; mkItem 1 2 KPush 3 0 0; mkItem 1 1 KResp 2 0 0]);
               (3, [mkItem 3 2 KPush 4 0 0; mkItem 3 2 KPush 4 1 0])] in
  let s := run_sched true (start logs)
             [LIssue 1; LIssue 3; LIssue 0; LIssue 1; LProcess; LIssue 3; LProcess; LWrite 1; LIssue 1;
              LProcess; LIssue 0; LProcess; LProcess; LWrite 2; LWrite 1; LWrite 2; LWrite 1; LWrite 2; LWrite 1] in
  mbox s = [] /\ pend s = [(0, []); (1, []); (3, [])] /\ chs s = [(1, []); (2, [])] /\
  got s = [(1, [mkItem 0 1 KPush 1 0 0; mkItem 1 1 KPush 2 0 0; mkItem 0 1 KResp 1 0 0; mkItem 1 1 KResp 2 0 0]);
           (2, [mkItem 3 2 KPush 4 0 0; mkItem 1 2 KPush 3 0 0; mkItem 3 2 KPush 4 1 0])].
Proof. vm_compute. repeat split; reflexivity. Qed.
