(* C03 - the property: per issuer and connection, arrival order = issue order.  No proofs. *)
From Cell2V Require Import Common.Tac Common.ListX Common.AList C03.Model.

(* items of issuer i addressed to connection c *)
Definition proj (i c : Z) (l : list item) : list item :=
  filter (fun x => Z.eqb (it_iss x) i && Z.eqb (it_conn x) c) l.

(* everything has been delivered *)
Definition drained (s : st) : Prop :=
  mbox s = [] /\ (forall i, lookup (pend s) i = []) /\ (forall c, lookup (chs s) c = []).

(* every item of log i names i as its issuer *)
Definition owned_logs (logs : qmap) : Prop :=
  forall i x, In x (lookup logs i) -> it_iss x = i.

(* x was issued / arrived before y *)
Definition before (x y : item) (l : list item) : Prop :=
  exists a b c, l = a ++ x :: b ++ y :: c.

(* ---------- executable checks on observed arrival sequences ---------- *)

Definition kind_eqb (a b : kind) : bool :=
  match a, b with KPush, KPush | KResp, KResp | KErr, KErr | KEmpty, KEmpty => true | _, _ => false end.

Definition item_eqb (a b : item) : bool :=
  Z.eqb (it_iss a) (it_iss b) && Z.eqb (it_conn a) (it_conn b) && kind_eqb (it_kind a) (it_kind b)
  && Z.eqb (it_tag a) (it_tag b) && Z.eqb (it_seq a) (it_seq b) && Z.eqb (it_size a) (it_size b).

(* never decreasing: the copies of one push delivered to a connection listed several times in a
   multi-target push carry the same counter; distinct items of one issuer never do *)
Fixpoint increasing (l : list Z) : bool :=
  match l with
  | a :: ((b :: _) as r) => Z.leb a b && increasing r
  | _ => true
  end.

Definition issuers : list Z := [0; 1; 2; 3].

(* tags of the requests of a history (0 = the front's error responses) *)
Definition tags_of (ops : list op) : list Z :=
  0 :: flat_map (fun o => match o with OSend _ _ _ _ tag _ _ _ _ _ _ _ _ => [tag] | _ => [] end) ops.

Definition proj3 (i c t : Z) (l : list item) : list item :=
  filter (fun x => Z.eqb (it_iss x) i && Z.eqb (it_conn x) c && Z.eqb (it_tag x) t) l.

(* Acceptance of an observed arrival sequence.  An issuer serves the requests of DIFFERENT
   connections in an order the history does not determine, and with multi-target pushes the
   items it sends to one connection stem from requests of several connections; so the arrivals
   are compared with the issue log request by request (per issuer, connection and request tag:
   exactly the issued items, in issue order; nothing else arrived), and the order ACROSS the
   requests of one issuer is checked against the issue counters ([in_issue_order] below:
   arrival order = issue order iff the counters increase). *)
Definition accepts (ops : list op) (obs : list (Z * list ev)) : bool :=
  let issued := issue_from [] [] ops in
  (* pushes without content cannot be attributed at the client: they are matched by number only
     (the length test below), the attributable items request by request *)
  let known := filter (fun x => negb (kind_eqb (it_kind x) KEmpty)) issued in
  let tags := tags_of ops in
  list_eqb Z.eqb (map fst obs) (map fst (conns_of ops))
  && forallb (fun ce =>
       let c := fst ce in
       let arr := arrivals c (snd ce) in
       Nat.eqb (length arr) (length (filter (fun x => Z.eqb (it_conn x) c) issued))
       && forallb (fun i => forallb (fun t =>
            list_eqb item_eqb (proj3 i c t arr) (proj3 i c t known)) tags) issuers) obs.

(* the order property alone, read off the issue counters the items carry: per connection and
   issuer the counters never decrease on arrival (pushes never overtake each other, a push
   issued before the response arrives before it) *)
Definition in_issue_order (obs : list (Z * list ev)) : bool :=
  forallb (fun ce => forallb (fun i => increasing (counters i (snd ce))) issuers) obs.
