(* C03 - the property: per issuer and connection, arrival order = issue order.  No proofs. *)
From Cell2V Require Import Common.Tac Common.ListX Common.AList C03.Model.

(* items of issuer i addressed to connection c *)
Definition proj (i c : Z) (l : list item) : list item :=
  filter (fun x => Z.eqb (it_iss x) i && Z.eqb (it_conn x) c) l.

(* everything has been delivered *)
Definition drained (s : st) : Prop :=
  mbox s = [] /\ (forall i, lookup (pend s) i = []) /\ (forall c, lookup (chs s) c = []).

(* every item of log i names i as its issuer *)
Definition owned_logs (logs : qmap) : Prop :=
  forall i x, In x (lookup logs i) -> it_iss x = i.

(* x was issued / arrived before y *)
Definition before (x y : item) (l : list item) : Prop :=
  exists a b c, l = a ++ x :: b ++ y :: c.

(* ---------- executable checks on observed arrival sequences ---------- *)

Definition kind_eqb (a b : kind) : bool :=
  match a, b with KPush, KPush | KResp, KResp | KErr, KErr => true | _, _ => false end.

Definition item_eqb (a b : item) : bool :=
  Z.eqb (it_iss a) (it_iss b) && Z.eqb (it_conn a) (it_conn b) && kind_eqb (it_kind a) (it_kind b)
  && Z.eqb (it_tag a) (it_tag b) && Z.eqb (it_seq a) (it_seq b).

Fixpoint increasing (l : list Z) : bool :=
  match l with
  | a :: ((b :: _) as r) => Z.ltb a b && increasing r
  | _ => true
  end.

Definition issuers : list Z := [0; 1; 2; 3].

(* the acceptance condition of theorem C03_order at a drained state, for the harness's issue
   logs: every issuer's arrivals on every connection are exactly what it issued for it, in
   order; nothing else arrived *)
Definition accepts (ops : list op) (obs : list (Z * list ev)) : bool :=
  let issued := issue_from [] ops in     (* proj i c issued = proj i c (issue_log ops i), see Proofs.proj_issue_log *)
  list_eqb Z.eqb (map fst obs) (map fst (conns_of ops))
  && forallb (fun ce =>
       let arr := arrivals (fst ce) (snd ce) in
       forallb (fun x => zmem (it_iss x) issuers) arr
       && forallb (fun i => list_eqb item_eqb (proj i (fst ce) arr) (proj i (fst ce) issued)) issuers) obs.

(* the order property alone, read off the issue counters the items carry: per connection and
   issuer the counters arrive strictly increasing (pushes never overtake each other, a push
   issued before the response arrives before it) *)
Definition in_issue_order (obs : list (Z * list ev)) : bool :=
  forallb (fun ce => forallb (fun i => increasing (counters i (snd ce))) issuers) obs.
