(* C03 - correspondence entry point.  The arrival order across issuers is not determined (any
   merge is allowed), so the comparison with the model is acceptance: [agree] = the conclusion
   of theorem C03_order for the harness's issue logs; [monitor] = the order property read off
   the issue counters alone. *)
From Cell2V Require Import Common.Tac Common.ListX Common.AList C03.Model C03.Spec.

Definition obs := list (Z * list ev).
Definition case := (list op * obs)%type.

Definition agree (c : case) : bool := accepts (fst c) (snd c).
Definition monitor (c : case) : bool := in_issue_order (snd c) && accepts (fst c) (snd c).

Definition disagreeing (cs : list case) : list Z := failing agree cs.
Definition monitor_failing (cs : list case) : list Z := failing monitor cs.

(* what the model expects per connection and issuer (for the replay report) *)
Definition expected (ops : list op) : list (Z * list (Z * list item)) :=
  map (fun kv => (fst kv, map (fun i => (i, proj i (fst kv) (issue_log ops i))) issuers)) (conns_of ops).
