(* C03 - a small library about order-preserving stages.

   [Merge sender src out]: [out] is ANY interleaving of the sources [src k] (k ranges over
   all integers: any number of senders), each consumed front to back.
   merge_proj        every sender's subsequence of a merge is exactly its source
   stage_proj        a FIFO stage that emits one output per input, in order ([map g]), and keeps
                     the sender, commutes with projection
   demux_proj        splitting a stream by a second key (the connection) commutes as well
   compose_proj      merge, then stage, then demultiplex: still the sender's own order *)
From Cell2V Require Import Common.Tac.

Section Fifo.
  Context {A : Type}.
  Variable sender : A -> Z.

  Definition upd (src : Z -> list A) (k : Z) (l : list A) : Z -> list A :=
    fun j => if Z.eqb j k then l else src j.

  Inductive Merge : (Z -> list A) -> list A -> Prop :=
  | m_done : forall src, (forall k, src k = []) -> Merge src []
  | m_take : forall src k x r out,
      src k = x :: r -> Merge (upd src k r) out -> Merge src (x :: out).

  Definition from (k : Z) (l : list A) : list A := filter (fun x => Z.eqb (sender x) k) l.

  Definition owned (src : Z -> list A) : Prop := forall k x, In x (src k) -> sender x = k.

  Lemma owned_upd src k x r : owned src -> src k = x :: r -> owned (upd src k r).
  Proof.
    intros O E j y. unfold upd. destruct (Z.eqb_spec j k).
    - subst. intro H. apply O. rewrite E. right. exact H.
    - apply O.
  Qed.

  Theorem merge_proj src out : Merge src out -> owned src -> forall k, from k out = src k.
  Proof.
    induction 1 as [src E|src k0 x r out E M IH]; intros O k.
    - rewrite E. reflexivity.
    - specialize (IH (owned_upd _ _ _ _ O E) k). unfold from in *. simpl.
      assert (S : sender x = k0) by (apply O; rewrite E; left; reflexivity).
      rewrite S. unfold upd in IH. destruct (Z.eqb_spec k0 k).
      + subst. rewrite Z.eqb_refl in IH. rewrite IH, E. reflexivity.
      + destruct (Z.eqb_spec k k0); [congruence|]. exact IH.
  Qed.
End Fifo.

Section Stage.
  Context {A B : Type}.
  Variable sa : A -> Z.
  Variable sb : B -> Z.
  Variable g : A -> B.
  Hypothesis keeps : forall x, sb (g x) = sa x.

  Theorem stage_proj k l : from sb k (map g l) = map g (from sa k l).
  Proof.
    unfold from. induction l as [|x r IH]; simpl; [reflexivity|].
    rewrite keeps. destruct (Z.eqb (sa x) k); simpl; rewrite IH; reflexivity.
  Qed.
End Stage.

Section Demux.
  Context {A : Type}.
  Variable sender : A -> Z.
  Variable conn : A -> Z.

  Theorem demux_proj k c l :
    from sender k (from conn c l) = from conn c (from sender k l).
  Proof.
    unfold from. induction l as [|x r IH]; simpl; [reflexivity|].
    destruct (Z.eqb (conn x) c) eqn:C; destruct (Z.eqb (sender x) k) eqn:S; simpl;
      rewrite ?C, ?S, IH; reflexivity.
  Qed.
End Demux.

Section Compose.
  Context {A B : Type}.
  Variable sa : A -> Z.
  Variable sb : B -> Z.
  Variable cb : B -> Z.
  Variable g : A -> B.
  Hypothesis keeps : forall x, sb (g x) = sa x.

  (* senders -> merged mailbox -> one-for-one processing -> per-connection queue *)
  Theorem compose_proj src box k c :
    Merge src box -> owned sa src ->
    from sb k (from cb c (map g box)) = from cb c (map g (src k)).
  Proof.
    intros M O. rewrite demux_proj. f_equal. rewrite (stage_proj sa sb g keeps).
    rewrite (merge_proj sa src box M O). reflexivity.
  Qed.
End Compose.
