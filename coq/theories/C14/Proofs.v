(* C14 - proofs.  Structure:
     1. trace functions and append ([quiet] events, [app_split])
     2. the state/trace invariant [Inv]: per timer [TI] (creation data, one queue entry iff
        token Queued, InCb iff the owner is inside its callback, Canceled flag <-> cancelled in
        the trace, timing of the outstanding expiry, callback/arming accounting), [Absent] for
        ids not yet allocated; frame lemmas
     3. preservation of [Inv] by every primitive (create, cancel, begin_at, ret, fire_check,
        fire_send) and hence by every step and step list
     4. [shape]: what a step can emit; [Good] (the trace clauses of Spec.v) preserved by every step
     5. corollaries for all step lists, progress lemmas, n-fold firing, panic = early return *)
From Cell2V Require Import Common.Tac Common.ListX Common.AList C14.Model C14.Spec.

(* ================= trace functions and append ================= *)
Definition ev_key (x : ev) : option Z :=
  match x with
  | ECreate k _ _ _ _ | ECancel k | EQueued k | ECb k _ _ | ERet k _ | EArm k _ => Some k
  | EStop => None
  end.
Definition quiet (k : Z) (e : list ev) : Prop := forall x, In x e -> ev_key x <> Some k.

Lemma quiet_nil k : quiet k [].
Proof. intros x []. Qed.
Lemma quiet_cons k x e : ev_key x <> Some k -> quiet k e -> quiet k (x :: e).
Proof. intros H Q y [<-|I]; auto. Qed.
Lemma quiet_inv k x e : quiet k (x :: e) -> ev_key x <> Some k /\ quiet k e.
Proof. intro Q. split; [apply Q; left; reflexivity | intros y I; apply Q; right; exact I]. Qed.

Lemma creation_app k tr e :
  creation k (tr ++ e) = match creation k tr with Some x => Some x | None => creation k e end.
Proof.
  induction tr as [|x r IH]; cbn [app creation]; [reflexivity|].
  destruct x; try exact IH. destruct (Z.eqb k k0); [reflexivity | exact IH].
Qed.

Lemma count_create_app k tr e : count_create k (tr ++ e) = count_create k tr + count_create k e.
Proof.
  induction tr as [|x r IH]; cbn [app count_create]; [lia|]. destruct x; try exact IH. rewrite IH. lia.
Qed.

Lemma count_cb_app k tr e : count_cb k (tr ++ e) = count_cb k tr + count_cb k e.
Proof.
  induction tr as [|x r IH]; cbn [app count_cb]; [lia|]. destruct x; try exact IH. rewrite IH. lia.
Qed.

Lemma arms_app k tr e : arms k (tr ++ e) = arms k tr + arms k e.
Proof.
  induction tr as [|x r IH]; cbn [app arms]; [lia|]. destruct x; try exact IH; rewrite IH; lia.
Qed.

Lemma last_arm_from_app k tr e : forall acc,
  last_arm_from k acc (tr ++ e) = last_arm_from k (last_arm_from k acc tr) e.
Proof.
  induction tr as [|x r IH]; intro acc; cbn [app last_arm_from]; [reflexivity|].
  destruct x; apply IH.
Qed.
Lemma last_arm_app k tr e : last_arm k (tr ++ e) = last_arm_from k (last_arm k tr) e.
Proof. apply last_arm_from_app. Qed.

Lemma creation_quiet k e : quiet k e -> creation k e = None.
Proof.
  induction e as [|x r IH]; intro Q; [reflexivity|]. apply quiet_inv in Q. destruct Q as [N Q].
  destruct x; cbn [creation]; auto. cbn in N.
  destruct (Z.eqb_spec k k0); [subst; congruence | auto].
Qed.
Lemma count_create_quiet k e : quiet k e -> count_create k e = 0.
Proof.
  induction e as [|x r IH]; intro Q; [reflexivity|]. apply quiet_inv in Q. destruct Q as [N Q].
  destruct x; cbn [count_create]; auto. cbn in N.
  destruct (Z.eqb_spec k k0); [subst; congruence | rewrite IH by exact Q; lia].
Qed.
Lemma count_cb_quiet k e : quiet k e -> count_cb k e = 0.
Proof.
  induction e as [|x r IH]; intro Q; [reflexivity|]. apply quiet_inv in Q. destruct Q as [N Q].
  destruct x; cbn [count_cb]; auto. cbn in N.
  destruct (Z.eqb_spec k k0); [subst; congruence | rewrite IH by exact Q; lia].
Qed.
Lemma arms_quiet k e : quiet k e -> arms k e = 0.
Proof.
  induction e as [|x r IH]; intro Q; [reflexivity|]. apply quiet_inv in Q. destruct Q as [N Q].
  destruct x; cbn [arms]; auto; cbn in N;
    (destruct (Z.eqb_spec k k0); [subst; congruence | rewrite IH by exact Q; lia]).
Qed.
Lemma last_arm_from_quiet k e : quiet k e -> forall acc, last_arm_from k acc e = acc.
Proof.
  induction e as [|x r IH]; intros Q acc; [reflexivity|]. apply quiet_inv in Q. destruct Q as [N Q].
  destruct x; cbn [last_arm_from]; auto; cbn in N;
    (destruct (Z.eqb_spec k k0); [subst; congruence | auto]).
Qed.

(* where an element of [tr ++ e] sits *)
Lemma app_split {A} (tr e t1 t2 : list A) x :
  tr ++ e = t1 ++ x :: t2 ->
  (exists m, tr = t1 ++ x :: m /\ t2 = m ++ e) \/ (exists e1, e = e1 ++ x :: t2 /\ t1 = tr ++ e1).
Proof.
  revert t1. induction tr as [|y r IH]; intros t1 E; cbn [app] in E.
  - right. exists t1. split; [exact E | reflexivity].
  - destruct t1 as [|z t1]; cbn [app] in E.
    + inv E. left. exists r. split; reflexivity.
    + inv E. destruct (IH _ H1) as [[m [E1 E2]]|[e1 [E1 E2]]].
      * left. exists m. subst. split; reflexivity.
      * right. exists e1. subst. split; reflexivity.
Qed.

Lemma created_in_app_l k tr e : created_in k tr -> created_in k (tr ++ e).
Proof. intros (c & d & r & a & I). exists c, d, r, a. apply in_or_app. left. exact I. Qed.

Lemma created_in_cons k x r :
  created_in k (x :: r) <-> (exists c d rp a, x = ECreate k c d rp a) \/ created_in k r.
Proof.
  split.
  - intros (c & d & rp & a & [E|I]); [left; exists c, d, rp, a; exact E | right; exists c, d, rp, a; exact I].
  - intros [(c & d & rp & a & E)|(c & d & rp & a & I)]; exists c, d, rp, a; [left; exact E | right; exact I].
Qed.

Lemma created_in_creation k tr : created_in k tr <-> creation k tr <> None.
Proof.
  induction tr as [|x r IH].
  - split; [intros (c & d & rp & a & []) | intro H; cbn in H; congruence].
  - rewrite created_in_cons, IH. destruct x; cbn [creation];
      try (split; [intros [(c9 & d9 & rp9 & a9 & E9)|H9]; [discriminate | exact H9] | intro H9; right; exact H9]).
    destruct (Z.eqb_spec k k0).
    + subst. split; [discriminate | intros _; left; exists clk, d, rep, a; reflexivity].
    + split; [intros [(c & d' & rp & a' & E)|H]; [inv E; congruence | exact H] | intro H; right; exact H].
Qed.

Lemma cancelled_in_app_l k tr e : cancelled_in k tr -> cancelled_in k (tr ++ e).
Proof.
  intros (t1 & t2 & E & C). exists t1, (t2 ++ e). split; [|exact C].
  subst. rewrite <- app_assoc. reflexivity.
Qed.

Lemma cancelled_in_snoc k tr : created_in k tr -> cancelled_in k (tr ++ [ECancel k]).
Proof. intro C. exists tr, []. split; [reflexivity | exact C]. Qed.

Lemma cancelled_in_quiet k tr e : quiet k e -> cancelled_in k (tr ++ e) -> cancelled_in k tr.
Proof.
  intros Q (t1 & t2 & E & C). apply app_split in E. destruct E as [[m [E1 E2]]|[e1 [E1 E2]]].
  - exists t1, m. split; assumption.
  - exfalso. apply (Q (ECancel k)); [|reflexivity]. subst e. apply in_or_app. right. left. reflexivity.
Qed.

Lemma in_quiet k e x : quiet k e -> In x e -> ev_key x <> Some k.
Proof. intros Q I. apply Q. exact I. Qed.

(* ================= the invariant ================= *)
Definition cur_key (s : st) : option Z := match cur s with Some (k, _) => Some k | None => None end.

Definition timing (s : st) (tr : list ev) (k : Z) (t : timer) : Prop :=
  match t_tok t with
  | Pending dl => exists t0, last_arm k tr = Some t0 /\ dl = t0 + t_dur t
  | Firing | Queued => exists t0, last_arm k tr = Some t0 /\ t0 + t_dur t <= clock s
  | InCb | Dead => True
  end.

Record TI (s : st) (tr : list ev) (k : Z) (t : timer) : Prop := mkTI {
  ti_creation : exists c0 rp, creation k tr = Some (c0, t_dur t, rp, t_args t)
                              /\ t_period t = (if rp then t_dur t else 0);
  ti_unique : count_create k tr = 1;
  ti_queue : zcount k (queue s) = qcount (t_tok t);
  ti_cur : t_tok t = InCb <-> cur_key s = Some k;
  ti_cancel_sound : t_canceled t = true -> cancelled_in k tr /\ (forall dl, t_tok t <> Pending dl);
  ti_cancel_complete : cancelled_in k tr \/ t_reg t = false -> t_canceled t = true \/ t_tok t = Dead;
  ti_timing : timing s tr k t;
  ti_le : count_cb k tr + live (t_tok t) <= arms k tr;
  ti_eq : t_canceled t = false -> running s = true -> count_cb k tr + live (t_tok t) = arms k tr;
  ti_oneshot : (0 <? t_period t) = false -> arms k tr = 1 }.

Record Absent (s : st) (tr : list ev) (k : Z) : Prop := mkAbs {
  ab_creation : creation k tr = None;
  ab_unique : count_create k tr = 0;
  ab_queue : zcount k (queue s) = 0%nat;
  ab_cur : cur_key s <> Some k;
  ab_cb : count_cb k tr = 0;
  ab_arms : arms k tr = 0 }.

Definition Inv (s : st) (tr : list ev) : Prop :=
  0 <= next s /\
  forall k, match aget k (objs s) with
            | Some t => TI s tr k t /\ 0 <= k < next s
            | None => Absent s tr k
            end.

Lemma inv_init : Inv init [].
Proof. split; [cbn; lia|]. intro k. cbn. constructor; cbn; try reflexivity. discriminate. Qed.

Lemma inv_some s tr k t : Inv s tr -> aget k (objs s) = Some t -> TI s tr k t /\ 0 <= k < next s.
Proof. intros [_ H] E. specialize (H k). rewrite E in H. exact H. Qed.
Lemma inv_none s tr k : Inv s tr -> aget k (objs s) = None -> Absent s tr k.
Proof. intros [_ H] E. specialize (H k). rewrite E in H. exact H. Qed.
Lemma inv_fresh s tr : Inv s tr -> aget (next s) (objs s) = None.
Proof.
  intro I. destruct (aget (next s) (objs s)) as [t|] eqn:E; [|reflexivity].
  destruct (inv_some _ _ _ _ I E) as [_ R]. lia.
Qed.

(* a step that does not concern timer k *)
Lemma TI_frame s s' tr e k t :
  TI s tr k t -> quiet k e ->
  zcount k (queue s') = zcount k (queue s) ->
  (cur_key s' = Some k <-> cur_key s = Some k) ->
  clock s <= clock s' -> (running s' = true -> running s = true) ->
  TI s' (tr ++ e) k t.
Proof.
  intros T Q Hq Hc Hk Hr. destruct T.
  constructor.
  - destruct ti_creation0 as (c0 & rp & E & P). exists c0, rp. rewrite creation_app, E. auto.
  - rewrite count_create_app, (count_create_quiet k e Q). lia.
  - congruence.
  - rewrite Hc. exact ti_cur0.
  - intro C. destruct (ti_cancel_sound0 C) as [A B]. split; [apply cancelled_in_app_l; exact A | exact B].
  - intros [C|R]; apply ti_cancel_complete0; [left; eapply cancelled_in_quiet; eauto | right; exact R].
  - unfold timing in *. rewrite last_arm_app, (last_arm_from_quiet k e Q).
    destruct (t_tok t); auto; destruct ti_timing0 as (t0 & A & B); exists t0; split; auto; lia.
  - rewrite count_cb_app, arms_app, (count_cb_quiet k e Q), (arms_quiet k e Q). lia.
  - intros C R. rewrite count_cb_app, arms_app, (count_cb_quiet k e Q), (arms_quiet k e Q).
    specialize (ti_eq0 C (Hr R)). lia.
  - intro O. rewrite arms_app, (arms_quiet k e Q). specialize (ti_oneshot0 O). lia.
Qed.

Lemma Absent_frame s s' tr e k :
  Absent s tr k -> quiet k e ->
  zcount k (queue s') = zcount k (queue s) ->
  (cur_key s' = Some k -> cur_key s = Some k) ->
  Absent s' (tr ++ e) k.
Proof.
  intros A Q Hq Hc. destruct A. constructor.
  - rewrite creation_app, ab_creation0. apply creation_quiet. exact Q.
  - rewrite count_create_app, (count_create_quiet k e Q). lia.
  - congruence.
  - intro C. apply ab_cur0. auto.
  - rewrite count_cb_app, (count_cb_quiet k e Q). lia.
  - rewrite arms_app, (arms_quiet k e Q). lia.
Qed.

(* Inv is preserved when only timer k0 (if any), the queue entries of k0, the clock and the
   owner's position inside the same callback change *)
Lemma inv_frame s s' tr e k0 :
  Inv s tr ->
  next s <= next s' ->
  (forall k, k <> k0 -> aget k (objs s') = aget k (objs s)) ->
  (forall k, k <> k0 -> quiet k e) ->
  (forall k, k <> k0 -> zcount k (queue s') = zcount k (queue s)) ->
  (forall k, k <> k0 -> (cur_key s' = Some k <-> cur_key s = Some k)) ->
  clock s <= clock s' -> (running s' = true -> running s = true) ->
  match aget k0 (objs s') with
  | Some t => TI s' (tr ++ e) k0 t /\ 0 <= k0 < next s'
  | None => Absent s' (tr ++ e) k0
  end ->
  Inv s' (tr ++ e).
Proof.
  intros I Hn Ho He Hq Hc Hk Hr H0. split; [destruct I; lia|].
  intro k. destruct (Z.eq_dec k k0) as [->|N]; [exact H0|].
  rewrite (Ho _ N). destruct (aget k (objs s)) as [t|] eqn:E.
  - destruct (inv_some _ _ _ _ I E) as [T R]. split; [|lia].
    eapply TI_frame; eauto.
  - apply Absent_frame with (s := s); auto; [eapply inv_none; eauto|]. intro C. apply (Hc _ N). exact C.
Qed.

(* ================= preservation, primitive by primitive ================= *)
Ltac trace_simp :=
  rewrite ?creation_app, ?count_create_app, ?count_cb_app, ?arms_app, ?last_arm_app;
  cbn [creation count_create count_cb arms last_arm_from];
  rewrite ?Z.eqb_refl.

Ltac quiet_tac :=
  repeat (apply quiet_cons; [cbn; congruence|]); apply quiet_nil.

Lemma not_cancelled_fresh k tr e :
  creation k tr = None -> ~ In (ECancel k) e -> ~ cancelled_in k (tr ++ e).
Proof.
  intros C N (t1 & t2 & E & Cr). apply app_split in E. destruct E as [[m [E1 E2]]|[e1 [E1 E2]]].
  - assert (X : created_in k tr) by (subst tr; apply created_in_app_l; exact Cr).
    apply created_in_creation in X. congruence.
  - apply N. subst e. apply in_or_app. right. left. reflexivity.
Qed.

Lemma inv_create s tr d rep a p :
  Inv s tr -> Inv (fst (create s d rep a p)) (tr ++ snd (create s d rep a p)).
Proof.
  intro I. pose proof (inv_none _ _ _ I (inv_fresh _ _ I)) as A. destruct A.
  unfold create. cbn [fst snd].
  apply inv_frame with (s := s) (k0 := next s); cbn [next objs queue clock running cur_key cur]; auto; try lia.
  - intros k N. apply aget_aset_other. exact N.
  - intros k N. quiet_tac.
  - intros; unfold cur_key; cbn; tauto.
  - rewrite aget_aset_same. split; [|destruct I; lia].
    constructor; cbn [t_dur t_period t_args t_prog t_canceled t_reg t_tok queue clock running qcount live].
    + exists (clock s), rep. trace_simp. rewrite ab_creation0. auto.
    + trace_simp. lia.
    + exact ab_queue0.
    + split; [discriminate | intro C; exfalso; apply ab_cur0; exact C].
    + discriminate.
    + intros [C|C]; [|discriminate]. exfalso. revert C. apply not_cancelled_fresh; [exact ab_creation0|].
      intros [E|[]]. discriminate.
    + unfold timing. cbn [t_tok t_dur]. exists (clock s). trace_simp. auto.
    + trace_simp. lia.
    + intros _ _. trace_simp. lia.
    + intros _. trace_simp. lia.
Qed.

Lemma TI_fields s s' tr k t :
  queue s' = queue s -> cur_key s' = cur_key s -> clock s' = clock s -> running s' = running s ->
  TI s tr k t -> TI s' tr k t.
Proof.
  intros Hq Hc Hk Hr T. destruct T. constructor; auto.
  - rewrite Hq. exact ti_queue0.
  - rewrite Hc. exact ti_cur0.
  - unfold timing in *. rewrite Hk. exact ti_timing0.
  - rewrite Hr. exact ti_eq0.
Qed.

Lemma TI_created s tr k t : TI s tr k t -> created_in k tr.
Proof.
  intro T. destruct (ti_creation _ _ _ _ T) as (c0 & rp & E & _).
  apply created_in_creation. congruence.
Qed.

(* the owner calls Cancel(k) on an existing timer *)
Lemma TI_cancel s tr k t :
  TI s tr k t ->
  TI s (tr ++ [ECancel k]) k (if t_reg t then set_cancel t else t).
Proof.
  intro T. pose proof (TI_created _ _ _ _ T) as Cr. destruct T.
  assert (CI : cancelled_in k (tr ++ [ECancel k])) by (apply cancelled_in_snoc; exact Cr).
  destruct (t_reg t) eqn:R.
  - constructor; cbn [set_cancel t_dur t_period t_args t_prog t_canceled t_reg t_tok].
    + destruct ti_creation0 as (c0 & rp & E & P). exists c0, rp. trace_simp. rewrite E. auto.
    + trace_simp. lia.
    + rewrite ti_queue0. destruct (t_tok t); reflexivity.
    + rewrite <- ti_cur0. destruct (t_tok t); split; congruence.
    + intros _. split; [exact CI|]. intros dl. destruct (t_tok t); discriminate.
    + intros _. left. reflexivity.
    + unfold timing in *. cbn [set_cancel t_tok t_dur]. trace_simp. destruct (t_tok t); auto.
    + trace_simp. destruct (t_tok t); cbn [live] in *; lia.
    + discriminate.
    + intro O. trace_simp. specialize (ti_oneshot0 O). lia.
  - constructor.
    + destruct ti_creation0 as (c0 & rp & E & P). exists c0, rp. trace_simp. rewrite E. auto.
    + trace_simp. lia.
    + exact ti_queue0.
    + exact ti_cur0.
    + intro C. destruct (ti_cancel_sound0 C) as [A B]. split; [exact CI | exact B].
    + intros _. apply ti_cancel_complete0. right. reflexivity.
    + unfold timing in *. trace_simp. exact ti_timing0.
    + trace_simp. lia.
    + intros C Rn. trace_simp. specialize (ti_eq0 C Rn). lia.
    + intro O. trace_simp. specialize (ti_oneshot0 O). lia.
Qed.

Lemma inv_cancel s tr k :
  Inv s tr -> Inv (fst (cancel s k)) (tr ++ snd (cancel s k)).
Proof.
  intro I. unfold cancel. cbn [fst snd].
  destruct (aget k (objs s)) as [t|] eqn:E.
  - destruct (inv_some _ _ _ _ I E) as [T R]. apply TI_cancel in T.
    destruct (t_reg t) eqn:Rg.
    + apply inv_frame with (s := s) (k0 := k);
        [exact I | cbn; lia | | | | | cbn; lia | cbn; tauto | ]; unfold put, with_objs.
      * intros j N. apply aget_aset_other. exact N.
      * intros j N. quiet_tac.
      * intros; reflexivity.
      * intros; unfold cur_key; cbn; tauto.
      * cbn [objs next]. rewrite aget_aset_same. split; [|exact R].
        eapply TI_fields; [| | | |exact T]; reflexivity.
    + apply inv_frame with (s := s) (k0 := k);
        [exact I | lia | | | | | lia | tauto | ].
      * intros; reflexivity.
      * intros j N. quiet_tac.
      * intros; reflexivity.
      * intros; tauto.
      * rewrite E. split; [exact T | exact R].
  - apply inv_frame with (s := s) (k0 := k);
      [exact I | lia | | | | | lia | tauto | ].
    + intros; reflexivity.
    + intros j N. quiet_tac.
    + intros; reflexivity.
    + intros; tauto.
    + rewrite E. destruct (inv_none _ _ _ I E). constructor; trace_simp; rewrite ?ab_creation0; auto; try lia.
Qed.

Lemma cancelled_in_noc k tr e : ~ In (ECancel k) e -> cancelled_in k (tr ++ e) -> cancelled_in k tr.
Proof.
  intros N (t1 & t2 & E & C). apply app_split in E. destruct E as [[m [E1 E2]]|[e1 [E1 E2]]].
  - exists t1, m. split; assumption.
  - exfalso. apply N. subst e. apply in_or_app. right. left. reflexivity.
Qed.

Lemma zmem_zcount k q : zmem k q = true -> (0 < zcount k q)%nat.
Proof. intro H. apply zcount_In. apply zmem_In. exact H. Qed.

Lemma queued_timer s tr k :
  Inv s tr -> zmem k (queue s) = true ->
  exists t, aget k (objs s) = Some t /\ t_tok t = Queued /\ zcount k (queue s) = 1%nat.
Proof.
  intros I M. apply zmem_zcount in M.
  destruct (aget k (objs s)) as [t|] eqn:E.
  - destruct (inv_some _ _ _ _ I E) as [T _]. pose proof (ti_queue _ _ _ _ T) as Q.
    exists t. destruct (t_tok t); cbn [qcount] in Q; try lia. auto.
  - pose proof (ab_queue _ _ _ (inv_none _ _ _ I E)). lia.
Qed.

Lemma inv_begin s tr k :
  Inv s tr -> Inv (fst (begin_at s k)) (tr ++ snd (begin_at s k)).
Proof.
  intro I. unfold begin_at.
  destruct (cur s) as [c|] eqn:Cu; [cbn [fst snd]; rewrite app_nil_r; exact I|].
  destruct (zmem k (queue s)) eqn:M; [|cbn [fst snd]; rewrite app_nil_r; exact I].
  destruct (queued_timer _ _ _ I M) as (t & E & Q & Z1). rewrite E.
  destruct (inv_some _ _ _ _ I E) as [T R].
  assert (CK : cur_key s = None) by (unfold cur_key; rewrite Cu; reflexivity).
  destruct (t_canceled t) eqn:Ca; cbn [fst snd].
  - apply inv_frame with (s := s) (k0 := k);
      [exact I | cbn; lia | | | | | cbn; lia | cbn; tauto | ]; unfold put, with_objs, with_queue.
    + intros j N. apply aget_aset_other. exact N.
    + intros j N. quiet_tac.
    + intros j N. cbn [queue]. apply zcount_remove_first_other. exact N.
    + intros; unfold cur_key; cbn; tauto.
    + cbn [objs next]. rewrite aget_aset_same. split; [|exact R]. destruct T.
      constructor; cbn [set_tok t_dur t_period t_args t_prog t_canceled t_reg t_tok queue clock running].
      * destruct ti_creation0 as (c0 & rp & E1 & P). exists c0, rp. trace_simp. rewrite E1. auto.
      * trace_simp. lia.
      * rewrite zcount_remove_first_same, Z1. reflexivity.
      * split; [discriminate|]. unfold cur_key. cbn [cur]. rewrite Cu. discriminate.
      * intros _. split; [|discriminate]. apply cancelled_in_app_l. apply ti_cancel_sound0. exact Ca.
      * intros _. right. reflexivity.
      * exact Logic.I.
      * trace_simp. cbn [live]. rewrite Q in ti_le0. cbn [live] in ti_le0. lia.
      * congruence.
      * intro O. trace_simp. specialize (ti_oneshot0 O). lia.
  - apply inv_frame with (s := s) (k0 := k);
      [exact I | cbn; lia | | | | | cbn; lia | cbn; tauto | ]; unfold put, with_objs, with_queue, with_cur.
    + intros j N. apply aget_aset_other. exact N.
    + intros j N. quiet_tac.
    + intros j N. cbn [queue]. apply zcount_remove_first_other. exact N.
    + intros j N. unfold cur_key. cbn [cur]. rewrite Cu. split; [intro H; inv H; congruence | discriminate].
    + cbn [objs next]. rewrite aget_aset_same. split; [|exact R]. destruct T.
      assert (NC : ~ cancelled_in k tr).
      { intro C. destruct ti_cancel_complete0 as [X|X]; [left; exact C | congruence | congruence]. }
      constructor; cbn [set_tok t_dur t_period t_args t_prog t_canceled t_reg t_tok queue clock running].
      * destruct ti_creation0 as (c0 & rp & E1 & P). exists c0, rp. trace_simp. rewrite E1. auto.
      * trace_simp. lia.
      * rewrite zcount_remove_first_same, Z1. reflexivity.
      * split; reflexivity.
      * congruence.
      * intros [C|C].
        -- exfalso. apply NC. eapply cancelled_in_noc; [|exact C]. intros [X|[]]. discriminate.
        -- destruct ti_cancel_complete0 as [X|X]; [right; exact C | congruence | congruence].
      * exact Logic.I.
      * trace_simp. cbn [live]. rewrite Q in ti_le0. cbn [live] in ti_le0. lia.
      * intros _ Rn. trace_simp. cbn [live]. specialize (ti_eq0 Ca Rn). rewrite Q in ti_eq0. cbn [live] in ti_eq0. lia.
      * intro O. trace_simp. specialize (ti_oneshot0 O). lia.
Qed.

Lemma in_cb_timer s tr k :
  Inv s tr -> cur_key s = Some k ->
  exists t, aget k (objs s) = Some t /\ t_tok t = InCb.
Proof.
  intros I C. destruct (aget k (objs s)) as [t|] eqn:E.
  - destruct (inv_some _ _ _ _ I E) as [T _]. exists t. split; [reflexivity|]. apply (ti_cur _ _ _ _ T). exact C.
  - exfalso. apply (ab_cur _ _ _ (inv_none _ _ _ I E)). exact C.
Qed.

Lemma inv_ret s tr k pan :
  Inv s tr -> cur_key s = Some k -> Inv (fst (ret s k pan)) (tr ++ snd (ret s k pan)).
Proof.
  intros I CK. destruct (in_cb_timer _ _ _ I CK) as (t & E & Q).
  destruct (inv_some _ _ _ _ I E) as [T R].
  unfold ret. rewrite E.
  assert (HC : forall j, j <> k -> (None = Some j <-> cur_key s = Some j)).
  { intros j N. rewrite CK. split; [discriminate | intro H; inv H; congruence]. }
  destruct (t_canceled t) eqn:Ca; [|destruct (0 <? t_period t) eqn:Pe]; cbn [fst snd].
  - apply inv_frame with (s := s) (k0 := k);
      [exact I | cbn; lia | | | | | cbn; lia | cbn; tauto | ]; unfold put, with_objs, with_cur.
    + intros j N. apply aget_aset_other. exact N.
    + intros j N. quiet_tac.
    + intros; reflexivity.
    + intros j N. unfold cur_key at 1. cbn [cur]. apply HC. exact N.
    + cbn [objs next]. rewrite aget_aset_same. split; [|exact R]. destruct T.
      constructor; cbn [set_tok t_dur t_period t_args t_prog t_canceled t_reg t_tok queue clock running].
      * destruct ti_creation0 as (c0 & rp & E1 & P). exists c0, rp. trace_simp. rewrite E1. auto.
      * trace_simp. lia.
      * rewrite ti_queue0, Q. reflexivity.
      * split; discriminate.
      * intros _. split; [|discriminate]. apply cancelled_in_app_l. apply ti_cancel_sound0. exact Ca.
      * intros _. right. reflexivity.
      * exact Logic.I.
      * trace_simp. cbn [live]. rewrite Q in ti_le0. cbn [live] in ti_le0. lia.
      * congruence.
      * intro O. trace_simp. specialize (ti_oneshot0 O). lia.
  - apply inv_frame with (s := s) (k0 := k);
      [exact I | cbn; lia | | | | | cbn; lia | cbn; tauto | ]; unfold put, with_objs, with_cur.
    + intros j N. apply aget_aset_other. exact N.
    + intros j N. quiet_tac.
    + intros; reflexivity.
    + intros j N. unfold cur_key at 1. cbn [cur]. apply HC. exact N.
    + cbn [objs next]. rewrite aget_aset_same. split; [|exact R]. destruct T.
      assert (NC : ~ cancelled_in k tr).
      { intro C. destruct ti_cancel_complete0 as [X|X]; [left; exact C | congruence | congruence]. }
      constructor; cbn [set_tok t_dur t_period t_args t_prog t_canceled t_reg t_tok queue clock running].
      * destruct ti_creation0 as (c0 & rp & E1 & P). exists c0, rp. trace_simp. rewrite E1. auto.
      * trace_simp. lia.
      * rewrite ti_queue0, Q. reflexivity.
      * split; discriminate.
      * congruence.
      * intros [C|C].
        -- exfalso. apply NC. eapply cancelled_in_noc; [|exact C]. intros [X|[X|[]]]; discriminate.
        -- destruct ti_cancel_complete0 as [X|X]; [right; exact C | congruence | congruence].
      * unfold timing. cbn [set_tok t_tok t_dur]. exists (clock s). trace_simp. split; [reflexivity|].
        destruct ti_creation0 as (c0 & rp & E1 & P). destruct rp; lia.
      * trace_simp. cbn [live]. rewrite Q in ti_le0. cbn [live] in ti_le0. lia.
      * intros _ Rn. trace_simp. cbn [live]. specialize (ti_eq0 Ca Rn). rewrite Q in ti_eq0. cbn [live] in ti_eq0. lia.
      * congruence.
  - apply inv_frame with (s := s) (k0 := k);
      [exact I | cbn; lia | | | | | cbn; lia | cbn; tauto | ]; unfold put, with_objs, with_cur.
    + intros j N. apply aget_aset_other. exact N.
    + intros j N. quiet_tac.
    + intros; reflexivity.
    + intros j N. unfold cur_key at 1. cbn [cur]. apply HC. exact N.
    + cbn [objs next]. rewrite aget_aset_same. split; [|exact R]. destruct T.
      constructor; cbn [set_unreg set_tok t_dur t_period t_args t_prog t_canceled t_reg t_tok queue clock running].
      * destruct ti_creation0 as (c0 & rp & E1 & P). exists c0, rp. trace_simp. rewrite E1. auto.
      * trace_simp. lia.
      * rewrite ti_queue0, Q. reflexivity.
      * split; discriminate.
      * congruence.
      * intros _. right. reflexivity.
      * exact Logic.I.
      * trace_simp. cbn [live]. rewrite Q in ti_le0. cbn [live] in ti_le0. lia.
      * intros _ Rn. trace_simp. cbn [live]. specialize (ti_eq0 Ca Rn). rewrite Q in ti_eq0. cbn [live] in ti_eq0. lia.
      * intro O. trace_simp. specialize (ti_oneshot0 O). lia.
Qed.

Lemma inv_fire_check s tr k :
  Inv s tr -> Inv (fst (fire_check s k)) (tr ++ snd (fire_check s k)).
Proof.
  intro I. unfold fire_check.
  destruct (aget k (objs s)) as [t|] eqn:E; [|cbn [fst snd]; rewrite app_nil_r; exact I].
  destruct (t_tok t) as [dl| | | |] eqn:Q; try (cbn [fst snd]; rewrite app_nil_r; exact I).
  destruct (dl <=? clock s) eqn:D; [|cbn [fst snd]; rewrite app_nil_r; exact I].
  destruct (inv_some _ _ _ _ I E) as [T R].
  destruct (t_canceled t) eqn:Ca.
  { exfalso. destruct (ti_cancel_sound _ _ _ _ T Ca) as [_ X]. apply (X dl). exact Q. }
  destruct (running s) eqn:Rn; cbn [fst snd].
  - apply inv_frame with (s := s) (k0 := k);
      [exact I | cbn; lia | | | | | cbn; lia | cbn; tauto | ]; unfold put, with_objs.
    + intros j N. apply aget_aset_other. exact N.
    + intros j N. quiet_tac.
    + intros; reflexivity.
    + intros; unfold cur_key; cbn; tauto.
    + cbn [objs next]. rewrite aget_aset_same. split; [|exact R]. destruct T.
      constructor; cbn [set_tok t_dur t_period t_args t_prog t_canceled t_reg t_tok queue clock running].
      * destruct ti_creation0 as (c0 & rp & E1 & P). exists c0, rp. trace_simp. rewrite E1. auto.
      * trace_simp. lia.
      * rewrite ti_queue0, Q. reflexivity.
      * unfold cur_key in *. cbn [cur]. rewrite <- ti_cur0, Q. split; discriminate.
      * congruence.
      * intros [C|C]; [rewrite app_nil_r in C|];
          (destruct ti_cancel_complete0 as [X|X]; [auto | congruence | congruence]).
      * unfold timing in *. cbn [set_tok t_tok t_dur clock]. rewrite Q in ti_timing0.
        destruct ti_timing0 as (t0 & A & B). exists t0. trace_simp. split; [exact A | lia].
      * trace_simp. cbn [live]. rewrite Q in ti_le0. cbn [live] in ti_le0. lia.
      * intros _ Rn'. trace_simp. cbn [live]. specialize (ti_eq0 Ca Rn'). rewrite Q in ti_eq0. cbn [live] in ti_eq0. lia.
      * intro O. trace_simp. specialize (ti_oneshot0 O). lia.
  - apply inv_frame with (s := s) (k0 := k);
      [exact I | cbn; lia | | | | | cbn; lia | cbn; tauto | ]; unfold put, with_objs.
    + intros j N. apply aget_aset_other. exact N.
    + intros j N. quiet_tac.
    + intros; reflexivity.
    + intros; unfold cur_key; cbn; tauto.
    + cbn [objs next]. rewrite aget_aset_same. split; [|exact R]. destruct T.
      constructor; cbn [set_tok t_dur t_period t_args t_prog t_canceled t_reg t_tok queue clock running].
      * destruct ti_creation0 as (c0 & rp & E1 & P). exists c0, rp. trace_simp. rewrite E1. auto.
      * trace_simp. lia.
      * rewrite ti_queue0, Q. reflexivity.
      * unfold cur_key in *. cbn [cur]. rewrite <- ti_cur0, Q. split; discriminate.
      * congruence.
      * intros _. right. reflexivity.
      * exact Logic.I.
      * trace_simp. cbn [live]. rewrite Q in ti_le0. cbn [live] in ti_le0. lia.
      * congruence.
      * intro O. trace_simp. specialize (ti_oneshot0 O). lia.
Qed.

Lemma inv_fire_send s tr k :
  Inv s tr -> Inv (fst (fire_send s k)) (tr ++ snd (fire_send s k)).
Proof.
  intro I. unfold fire_send.
  destruct (aget k (objs s)) as [t|] eqn:E; [|cbn [fst snd]; rewrite app_nil_r; exact I].
  destruct (t_tok t) eqn:Q; try (cbn [fst snd]; rewrite app_nil_r; exact I).
  destruct (Z.of_nat (length (queue s)) <? qcap) eqn:D; [|cbn [fst snd]; rewrite app_nil_r; exact I].
  destruct (inv_some _ _ _ _ I E) as [T R]. cbn [fst snd].
  apply inv_frame with (s := s) (k0 := k);
    [exact I | cbn; lia | | | | | cbn; lia | cbn; tauto | ]; unfold put, with_objs, with_queue.
  - intros j N. apply aget_aset_other. exact N.
  - intros j N. quiet_tac.
  - intros j N. cbn [queue]. rewrite zcount_app. cbn [zcount].
    destruct (Z.eqb_spec j k); [congruence | lia].
  - intros; unfold cur_key; cbn; tauto.
  - cbn [objs next]. rewrite aget_aset_same. split; [|exact R]. destruct T.
    constructor; cbn [set_tok t_dur t_period t_args t_prog t_canceled t_reg t_tok queue clock running].
    + destruct ti_creation0 as (c0 & rp & E1 & P). exists c0, rp. trace_simp. rewrite E1. auto.
    + trace_simp. lia.
    + rewrite zcount_app, ti_queue0, Q. cbn [zcount qcount]. rewrite Z.eqb_refl. reflexivity.
    + unfold cur_key in *. cbn [cur]. rewrite <- ti_cur0, Q. split; discriminate.
    + intro C. destruct (ti_cancel_sound0 C) as [A B]. split; [apply cancelled_in_app_l; exact A | discriminate].
    + intros [C|C].
      * apply cancelled_in_noc in C; [|intros [X|[]]; discriminate].
        destruct ti_cancel_complete0 as [X|X]; [auto | auto | congruence].
      * destruct ti_cancel_complete0 as [X|X]; [auto | auto | congruence].
    + unfold timing in *. cbn [set_tok t_tok t_dur clock]. rewrite Q in ti_timing0.
      destruct ti_timing0 as (t0 & A & B). exists t0. trace_simp. split; [exact A | lia].
    + trace_simp. cbn [live]. rewrite Q in ti_le0. cbn [live] in ti_le0. lia.
    + intros Ca Rn'. trace_simp. cbn [live]. specialize (ti_eq0 Ca Rn'). rewrite Q in ti_eq0. cbn [live] in ti_eq0. lia.
    + intro O. trace_simp. specialize (ti_oneshot0 O). lia.
Qed.

Lemma inv_ext s s' tr :
  Inv s tr -> next s' = next s -> objs s' = objs s -> queue s' = queue s ->
  cur_key s' = cur_key s -> clock s <= clock s' -> (running s' = true -> running s = true) ->
  Inv s' tr.
Proof.
  intros I Hn Ho Hq Hc Hk Hr. split; [destruct I; lia|]. intro k. rewrite Ho.
  destruct (aget k (objs s)) as [t|] eqn:E.
  - destruct (inv_some _ _ _ _ I E) as [T R]. split; [|lia].
    rewrite <- (app_nil_r tr). apply TI_frame with (s := s); auto.
    + apply quiet_nil.
    + rewrite Hq. reflexivity.
    + rewrite Hc. tauto.
  - rewrite <- (app_nil_r tr). apply Absent_frame with (s := s); auto.
    + eapply inv_none; eauto.
    + apply quiet_nil.
    + rewrite Hq. reflexivity.
    + rewrite Hc. tauto.
Qed.

Lemma inv_cb_step s tr :
  Inv s tr -> Inv (fst (cb_step s)) (tr ++ snd (cb_step s)).
Proof.
  intro I. unfold cb_step. destruct (cur s) as [[k acts]|] eqn:Cu;
    [|cbn [fst snd]; rewrite app_nil_r; exact I].
  assert (CK : cur_key s = Some k) by (unfold cur_key; rewrite Cu; reflexivity).
  assert (W : forall r, Inv (with_cur s (Some (k, r))) tr).
  { intro r. apply inv_ext with (s := s); auto; try reflexivity; try lia. }
  destruct acts as [|[|j|d rep a p|] r].
  - apply inv_ret; assumption.
  - apply inv_cancel. apply W.
  - apply inv_cancel. apply W.
  - apply inv_create. apply W.
  - apply inv_ret; assumption.
Qed.

Lemma inv_step s tr x : Inv s tr -> Inv (fst (step s x)) (tr ++ snd (step s x)).
Proof.
  intro I. destruct x as [d rep a p|k| |k| | |dt|k|k]; cbn [step].
  - apply inv_create. exact I.
  - apply inv_cancel. exact I.
  - cbn [fst snd]. apply inv_frame with (s := s) (k0 := -1);
      [exact I | cbn; lia | | | | | cbn; lia | cbn; congruence | ].
    + intros; reflexivity.
    + intros j N. quiet_tac.
    + intros; reflexivity.
    + intros; unfold cur_key; cbn; tauto.
    + cbn [objs]. destruct (aget (-1) (objs s)) as [t|] eqn:E.
      * destruct (inv_some _ _ _ _ I E) as [_ R]. lia.
      * apply Absent_frame with (s := s); [eapply inv_none; eauto | quiet_tac | reflexivity | auto].
  - apply inv_begin. exact I.
  - destruct (queue s) as [|k q]; [cbn [fst snd]; rewrite app_nil_r; exact I | apply inv_begin; exact I].
  - apply inv_cb_step. exact I.
  - cbn [fst snd]. rewrite app_nil_r. apply inv_ext with (s := s); auto; cbn; lia.
  - apply inv_fire_check. exact I.
  - apply inv_fire_send. exact I.
Qed.

Lemma run_from_app xs : forall s ys,
  run_from s (xs ++ ys) =
  (fst (run_from (fst (run_from s xs)) ys),
   snd (run_from s xs) ++ snd (run_from (fst (run_from s xs)) ys)).
Proof.
  induction xs as [|x r IH]; intros s ys; cbn [app run_from].
  - cbn [fst snd app]. destruct (run_from s ys); reflexivity.
  - destruct (step s x) as [s1 e1]. rewrite IH.
    destruct (run_from s1 r) as [s2 e2]. cbn [fst snd].
    destruct (run_from s2 ys) as [s3 e3]. cbn [fst snd]. rewrite app_assoc. reflexivity.
Qed.

Lemma inv_run_from xs : forall s tr,
  Inv s tr -> Inv (fst (run_from s xs)) (tr ++ snd (run_from s xs)).
Proof.
  induction xs as [|x r IH]; intros s tr I; cbn [run_from].
  - cbn [fst snd]. rewrite app_nil_r. exact I.
  - pose proof (inv_step s tr x I) as I1. destruct (step s x) as [s1 e1]. cbn [fst snd] in I1.
    specialize (IH s1 _ I1). destruct (run_from s1 r) as [s2 e2]. cbn [fst snd] in *.
    rewrite app_assoc. exact IH.
Qed.

Lemma inv_reachable xs : Inv (final xs) (trace xs).
Proof. apply (inv_run_from xs init [] inv_init). Qed.

(* ================= what a step can emit ================= *)
Inductive shape (s : st) : list ev -> Prop :=
| sh_nil : shape s []
| sh_create k c d rep a : shape s [ECreate k c d rep a]
| sh_cancel k : shape s [ECancel k]
| sh_stop : shape s [EStop]
| sh_queued k : shape s [EQueued k]
| sh_cb k t : cur s = None -> zmem k (queue s) = true -> aget k (objs s) = Some t ->
              t_canceled t = false -> shape s [ECb k (clock s) (t_args t)]
| sh_ret k p t : cur_key s = Some k -> aget k (objs s) = Some t ->
                 (t_canceled t = true \/ (0 <? t_period t) = false) -> shape s [ERet k p]
| sh_rearm k p t : cur_key s = Some k -> aget k (objs s) = Some t ->
                   t_canceled t = false -> (0 <? t_period t) = true ->
                   shape s [ERet k p; EArm k (clock s)]
| sh_ret_none k p : cur_key s = Some k -> aget k (objs s) = None -> shape s [ERet k p].

Lemma shape_begin s k : shape s (snd (begin_at s k)).
Proof.
  unfold begin_at. destruct (cur s) eqn:Cu; [constructor|].
  destruct (zmem k (queue s)) eqn:M; [|constructor].
  destruct (aget k (objs s)) as [t|] eqn:E; [|constructor].
  destruct (t_canceled t) eqn:Ca; cbn [snd]; [constructor | apply sh_cb; assumption].
Qed.

Lemma shape_ret s k p : cur_key s = Some k -> shape s (snd (ret s k p)).
Proof.
  intro CK. unfold ret. destruct (aget k (objs s)) as [t|] eqn:E; [|apply sh_ret_none; assumption].
  destruct (t_canceled t) eqn:Ca; [cbn [snd]; eapply sh_ret; eauto|].
  destruct (0 <? t_period t) eqn:Pe; cbn [snd]; [eapply sh_rearm; eauto | eapply sh_ret; eauto].
Qed.

Lemma shape_step s x : shape s (snd (step s x)).
Proof.
  destruct x as [d rep a p|k| |k| | |dt|k|k]; cbn [step].
  - constructor.
  - constructor.
  - constructor.
  - apply shape_begin.
  - destruct (queue s); [constructor | apply shape_begin].
  - unfold cb_step. destruct (cur s) as [[k acts]|] eqn:Cu; [|constructor].
    assert (CK : cur_key s = Some k) by (unfold cur_key; rewrite Cu; reflexivity).
    destruct acts as [|[|j|d rep a p|] r]; try constructor; apply shape_ret; exact CK.
  - constructor.
  - unfold fire_check. destruct (aget k (objs s)) as [t|]; [|constructor].
    destruct (t_tok t); try constructor. destruct (_ <=? _); [|constructor].
    destruct (t_canceled t); [constructor|]. destruct (running s); constructor.
  - unfold fire_send. destruct (aget k (objs s)) as [t|]; [|constructor].
    destruct (t_tok t); try constructor. destruct (_ <? _); constructor.
Qed.

(* ================= the trace properties are preserved by every step ================= *)
Definition Good (tr : list ev) : Prop :=
  never_after_cancel tr /\ never_early_with_args tr /\ repeat_rearms tr.

Lemma good_nil : Good [].
Proof.
  split; [|split].
  - intros k t1 t2 E. destruct t1; discriminate.
  - intros k c a t1 t2 E. destruct t1; discriminate.
  - intros k p t1 t2 clk d rep a E. destruct t1; discriminate.
Qed.

Lemma split1 {A} (e1 t2 : list A) x y : e1 ++ x :: t2 = [y] -> e1 = [] /\ x = y /\ t2 = [].
Proof. destruct e1 as [|z [|w r]]; cbn; intro E; inv E; auto. Qed.

Lemma split2 {A} (e1 t2 : list A) x y z :
  e1 ++ x :: t2 = [y; z] -> (e1 = [] /\ x = y /\ t2 = [z]) \/ (e1 = [y] /\ x = z /\ t2 = []).
Proof. destruct e1 as [|a [|b [|c r]]]; cbn; intro E; inv E; auto. Qed.

Lemma no_cb_app k a b : no_cb k a -> no_cb k b -> no_cb k (a ++ b).
Proof. intros A B c x I. apply in_app_or in I. destruct I; [eapply A | eapply B]; eauto. Qed.
Lemma no_arm_app k a b : no_arm k a -> no_arm k b -> no_arm k (a ++ b).
Proof. intros A B c I. apply in_app_or in I. destruct I; [eapply A | eapply B]; eauto. Qed.

(* a timer that is cancelled or whose token is dead produces neither callback nor re-arm *)
Lemma shape_silent s tr e k t :
  Inv s tr -> shape s e -> aget k (objs s) = Some t ->
  t_canceled t = true \/ t_tok t = Dead -> no_cb k e /\ no_arm k e.
Proof.
  intros I Sh E D. destruct (inv_some _ _ _ _ I E) as [T _].
  destruct Sh as [|k' c d rep a|k'| |k'|k' t' Cu M E' Ca|k' p t' CK E' X|k' p t' CK E' Ca Pe|k' p CK E'];
    try (split; [intros c0 a0 H | intros c0 H]; cbn in H; intuition discriminate).
  - split; [|intros c0 H; cbn in H; intuition discriminate].
    intros c0 a0 [H|[]]. inv H. rewrite E in E'. inv E'.
    destruct (queued_timer _ _ _ I M) as (t2 & E2 & Q & _). rewrite E in E2. inv E2.
    destruct D; congruence.
  - split; [intros c0 a0 H; cbn in H; intuition discriminate|].
    intros c0 [H|[H|[]]]; [discriminate|]. inv H. rewrite E in E'. inv E'.
    destruct (in_cb_timer _ _ _ I CK) as (t2 & E2 & Q). rewrite E in E2. inv E2.
    destruct D; congruence.
Qed.

Lemma good_step s tr e : Inv s tr -> Good tr -> shape s e -> Good (tr ++ e).
Proof.
  intros I (G1 & G2 & G3) Sh. split; [|split].
  - (* never after cancel *)
    intros k t1 t2 E Cr. apply app_split in E. destruct E as [[m [E1 E2]]|[e1 [E1 E2]]].
    + destruct (G1 _ _ _ E1 Cr) as [A B]. subst t2.
      assert (CI : cancelled_in k tr) by (exists t1, m; split; assumption).
      destruct (aget k (objs s)) as [t|] eqn:Ek.
      * destruct (inv_some _ _ _ _ I Ek) as [T _].
        destruct (shape_silent _ _ _ _ _ I Sh Ek (ti_cancel_complete _ _ _ _ T (or_introl CI))) as [A2 B2].
        split; [apply no_cb_app | apply no_arm_app]; assumption.
      * exfalso. pose proof (ab_creation _ _ _ (inv_none _ _ _ I Ek)) as X.
        assert (C2 : created_in k tr) by (subst tr; apply created_in_app_l; exact Cr).
        apply created_in_creation in C2. congruence.
    + symmetry in E1. destruct Sh; try (destruct e1 as [|? [|? ?]]; cbn in E1; inv E1; fail).
      * apply split1 in E1. destruct E1 as (_ & _ & ->). split; [intros c a [] | intros c []].
      * apply split2 in E1. destruct E1 as [(_ & X & _)|(_ & X & _)]; discriminate.
  - (* never early, with the args of creation *)
    intros k c a t1 t2 E. apply app_split in E. destruct E as [[m [E1 E2]]|[e1 [E1 E2]]].
    + eapply G2; eauto.
    + symmetry in E1. destruct Sh as [|k' c' d rep a'|k'| |k'|k' t' Cu M E' Ca|k' p t' CK E' X|k' p t' CK E' Ca Pe|k' p CK E'];
        try (destruct e1 as [|? [|? ?]]; cbn in E1; inv E1; fail).
      * apply split1 in E1. destruct E1 as (-> & X & _). inv X. rewrite app_nil_r.
        destruct (queued_timer _ _ _ I M) as (t2' & E2 & Q & _). rewrite E' in E2. inv E2.
        destruct (inv_some _ _ _ _ I E') as [T _].
        destruct (ti_creation _ _ _ _ T) as (c0 & rp & Ec & _).
        pose proof (ti_timing _ _ _ _ T) as Tm. unfold timing in Tm. rewrite Q in Tm.
        destruct Tm as (t0 & A & B). exists c0, (t_dur t2'), rp, t0. auto.
      * apply split2 in E1. destruct E1 as [(_ & X & _)|(_ & X & _)]; discriminate.
  - (* re-arm after every completed callback *)
    intros k p t1 t2 clk d rep a E Cre Rep NCan. apply app_split in E.
    destruct E as [[m [E1 E2]]|[e1 [E1 E2]]].
    + destruct (G3 _ _ _ _ _ _ _ _ E1 Cre Rep NCan) as (c & t3 & ->). subst t2.
      exists c, (t3 ++ e). reflexivity.
    + symmetry in E1. destruct Sh as [|k' c' d' rep' a'|k'| |k'|k' t' Cu M E' Ca|k' p' t' CK E' X|k' p' t' CK E' Ca Pe|k' p' CK E'];
        try (destruct e1 as [|? [|? ?]]; cbn in E1; inv E1; fail).
      * exfalso. apply split1 in E1. destruct E1 as (-> & X1 & _). inv X1. rewrite app_nil_r in *.
        destruct (inv_some _ _ _ _ I E') as [T _].
        destruct X as [X|X].
        -- apply NCan. apply (ti_cancel_sound _ _ _ _ T X).
        -- destruct (ti_creation _ _ _ _ T) as (c0 & rp & Ec & P). rewrite Ec in Cre. inv Cre.
           unfold repeating in Rep. destruct rep; cbn in Rep; [|discriminate]. rewrite P in X. congruence.
      * apply split2 in E1. destruct E1 as [(-> & X1 & ->)|(_ & X1 & _)]; [|discriminate].
        inv X1. eauto.
      * exfalso. destruct (in_cb_timer _ _ _ I CK) as (tq & Eq & _). congruence.
Qed.

Lemma good_run_from xs : forall s tr,
  Inv s tr -> Good tr -> Good (tr ++ snd (run_from s xs)).
Proof.
  induction xs as [|x r IH]; intros s tr I G; cbn [run_from].
  - cbn [snd]. rewrite app_nil_r. exact G.
  - pose proof (inv_step s tr x I) as I1. pose proof (good_step s tr _ I G (shape_step s x)) as G1.
    destruct (step s x) as [s1 e1]. cbn [fst snd] in *.
    specialize (IH s1 _ I1 G1). destruct (run_from s1 r) as [s2 e2]. cbn [snd] in *.
    rewrite app_assoc. exact IH.
Qed.

Lemma good_trace xs : Good (trace xs).
Proof. apply (good_run_from xs init [] inv_init good_nil). Qed.

(* ================= consequences for every step list ================= *)
Lemma never_after_cancel_all xs : never_after_cancel (trace xs).
Proof. apply good_trace. Qed.
Lemma never_early_all xs : never_early_with_args (trace xs).
Proof. apply good_trace. Qed.
Lemma repeat_rearms_all xs : repeat_rearms (trace xs).
Proof. apply good_trace. Qed.

Lemma upper_all xs : as_often_as_asked_upper (trace xs).
Proof.
  intro k. pose proof (inv_reachable xs) as I.
  destruct (aget k (objs (final xs))) as [t|] eqn:E.
  - destruct (inv_some _ _ _ _ I E) as [T _]. split.
    + pose proof (ti_le _ _ _ _ T). destruct (t_tok t); cbn [live] in *; lia.
    + intros clk d rep a C R. apply (ti_oneshot _ _ _ _ T).
      destruct (ti_creation _ _ _ _ T) as (c0 & rp & Ec & P). rewrite Ec in C. inv C.
      rewrite P. unfold repeating in R. destruct rep; cbn in R; [exact R | reflexivity].
  - destruct (inv_none _ _ _ I E). split; [lia|]. intros. congruence.
Qed.

Lemma ids_unique_all xs : ids_unique (trace xs).
Proof.
  intro k. pose proof (inv_reachable xs) as I.
  destruct (aget k (objs (final xs))) as [t|] eqn:E.
  - destruct (inv_some _ _ _ _ I E) as [T _]. rewrite (ti_unique _ _ _ _ T). lia.
  - rewrite (ab_unique _ _ _ (inv_none _ _ _ I E)). lia.
Qed.

(* Mgr.running is still true unless Stop was called *)
Lemma running_begin s k : running (fst (begin_at s k)) = running s.
Proof.
  unfold begin_at. destruct (cur s); [reflexivity|]. destruct (zmem k (queue s)); [|reflexivity].
  destruct (aget k (objs s)) as [t|]; [destruct (t_canceled t)|]; reflexivity.
Qed.

Lemma running_step s x : running (fst (step s x)) = running s \/ In EStop (snd (step s x)).
Proof.
  destruct x as [d rep a p|k| |k| | |dt|k|k]; cbn [step].
  - left. reflexivity.
  - left. unfold cancel. cbn [fst]. destruct (aget k (objs s)) as [t|]; [destruct (t_reg t)|]; reflexivity.
  - right. left. reflexivity.
  - left. apply running_begin.
  - left. destruct (queue s) as [|k q]; [reflexivity | apply running_begin].
  - left. unfold cb_step. destruct (cur s) as [[k acts]|]; [|reflexivity].
    assert (R : forall p, running (fst (ret s k p)) = running s).
    { intro p. unfold ret. destruct (aget k (objs s)) as [t|]; [|reflexivity].
      destruct (t_canceled t); [reflexivity|]. destruct (0 <? t_period t); reflexivity. }
    destruct acts as [|[|j|d rep a p|] r]; auto; unfold cancel; cbn [fst with_cur objs];
      try reflexivity.
    + destruct (aget k (objs s)) as [t|]; [destruct (t_reg t)|]; reflexivity.
    + destruct (aget j (objs s)) as [t|]; [destruct (t_reg t)|]; reflexivity.
  - left. reflexivity.
  - left. unfold fire_check. destruct (aget k (objs s)) as [t|]; [|reflexivity].
    destruct (t_tok t); try reflexivity. destruct (_ <=? _); [|reflexivity].
    destruct (t_canceled t); [reflexivity|]. destruct (running s) eqn:Rn; cbn; exact Rn.
  - left. unfold fire_send. destruct (aget k (objs s)) as [t|]; [|reflexivity].
    destruct (t_tok t); try reflexivity. destruct (_ <? _); reflexivity.
Qed.

Lemma running_run_from xs : forall s,
  running (fst (run_from s xs)) = running s \/ In EStop (snd (run_from s xs)).
Proof.
  induction xs as [|x r IH]; intro s; cbn [run_from]; [left; reflexivity|].
  pose proof (running_step s x) as R. destruct (step s x) as [s1 e1]. cbn [fst snd] in R.
  specialize (IH s1). destruct (run_from s1 r) as [s2 e2]. cbn [fst snd] in *.
  destruct R as [R|R]; [|right; apply in_or_app; left; exact R].
  destruct IH as [H|H]; [left; congruence | right; apply in_or_app; right; exact H].
Qed.

Lemma exact_count xs k t :
  aget k (objs (final xs)) = Some t -> ~ cancelled_in k (trace xs) -> ~ In EStop (trace xs) ->
  count_cb k (trace xs) + live (t_tok t) = arms k (trace xs).
Proof.
  intros E NC NS. destruct (inv_some _ _ _ _ (inv_reachable xs) E) as [T _].
  apply (ti_eq _ _ _ _ T).
  - destruct (t_canceled t) eqn:Ca; [|reflexivity]. exfalso. apply NC. apply (ti_cancel_sound _ _ _ _ T Ca).
  - destruct (running_run_from xs init) as [R|R]; [exact R | contradiction].
Qed.

(* ================= progress: enabled steps do what they should ================= *)
Lemma fire_check_ok s k t dl :
  aget k (objs s) = Some t -> t_tok t = Pending dl -> dl <= clock s ->
  t_canceled t = false -> running s = true ->
  fire_check s k = (put s k (set_tok Firing t), []).
Proof.
  intros E Q D Ca Rn. unfold fire_check. rewrite E, Q, Ca, Rn.
  destruct (Z.leb_spec dl (clock s)); [reflexivity | lia].
Qed.

Lemma fire_send_ok s k t :
  aget k (objs s) = Some t -> t_tok t = Firing -> Z.of_nat (length (queue s)) < qcap ->
  fire_send s k = (put (with_queue s (queue s ++ [k])) k (set_tok Queued t), [EQueued k]).
Proof.
  intros E Q L. unfold fire_send. rewrite E, Q.
  destruct (Z.ltb_spec (Z.of_nat (length (queue s))) qcap); [reflexivity | lia].
Qed.

Lemma begin_ok s k t :
  cur s = None -> zmem k (queue s) = true -> aget k (objs s) = Some t -> t_canceled t = false ->
  begin_at s k =
    (with_cur (put (with_queue s (remove_first k (queue s))) k (set_tok InCb t)) (Some (k, t_prog t)),
     [ECb k (clock s) (t_args t)]).
Proof. intros Cu M E Ca. unfold begin_at. rewrite Cu, M, E, Ca. reflexivity. Qed.

Lemma remove_first_snoc k q : zcount k q = 0%nat -> remove_first k (q ++ [k]) = q.
Proof.
  induction q as [|y r IH]; cbn [app remove_first zcount]; intro Z0.
  - rewrite Z.eqb_refl. reflexivity.
  - destruct (Z.eqb k y); [lia|]. rewrite IH by lia. reflexivity.
Qed.

Lemma zmem_snoc k q : zmem k (q ++ [k]) = true.
Proof. apply zmem_In. apply in_or_app. right. left. reflexivity. Qed.

Lemma aset_aset {V} k (v v' : V) m : aset k v (aset k v' m) = aset k v m.
Proof.
  induction m as [|[k' w] r IH]; cbn [aset].
  - rewrite Z.ltb_irrefl, Z.eqb_refl. reflexivity.
  - destruct (Z.ltb_spec k k'); cbn [aset].
    + rewrite Z.ltb_irrefl, Z.eqb_refl. reflexivity.
    + destruct (Z.eqb_spec k k'); cbn [aset].
      * rewrite Z.ltb_irrefl, Z.eqb_refl. reflexivity.
      * destruct (Z.ltb_spec k k'); [lia|]. destruct (Z.eqb_spec k k'); [contradiction|].
        rewrite IH. reflexivity.
Qed.

(* time passes, the runtime fires the armed timer k, the owner receives the expiry and calls
   Do: the callback is invoked, at a clock not before the deadline, with the creation args *)
Lemma fire_and_begin s tr k t dl dt :
  Inv s tr -> cur s = None -> running s = true -> Z.of_nat (length (queue s)) < qcap ->
  aget k (objs s) = Some t -> t_canceled t = false -> t_tok t = Pending dl ->
  dl <= clock s + Z.max 0 dt ->
  run_from s [SAdvance dt; SFireCheck k; SFireSend k; SBegin k] =
    (mkS (clock s + Z.max 0 dt) (running s) (next s) (aset k (set_tok InCb t) (objs s)) (queue s)
         (Some (k, t_prog t)),
     [EQueued k; ECb k (clock s + Z.max 0 dt) (t_args t)]).
Proof.
  intros I Cu Rn L E Ca Q D.
  destruct (inv_some _ _ _ _ I E) as [T _]. pose proof (ti_queue _ _ _ _ T) as Zq.
  rewrite Q in Zq. cbn [qcount] in Zq.
  cbn [run_from step].
  set (s1 := mkS (clock s + Z.max 0 dt) (running s) (next s) (objs s) (queue s) (cur s)).
  rewrite (fire_check_ok s1 k t dl) by (cbn; auto).
  set (s2 := put s1 k (set_tok Firing t)).
  rewrite (fire_send_ok s2 k (set_tok Firing t))
    by (cbn [s2 s1 put with_objs objs queue]; auto; apply aget_aset_same).
  set (s3 := put (with_queue s2 (queue s2 ++ [k])) k (set_tok Queued (set_tok Firing t))).
  rewrite (begin_ok s3 k (set_tok Queued (set_tok Firing t))).
  2: exact Cu.
  2: { cbn [s3 s2 s1 put with_objs with_queue queue]. apply zmem_snoc. }
  2: { cbn [s3 put with_objs objs]. apply aget_aset_same. }
  2: exact Ca.
  subst s3 s2 s1. unfold with_cur, put, with_queue, with_objs.
  cbn [objs queue cur clock running next set_tok
       t_dur t_period t_args t_prog t_canceled t_reg t_tok].
  rewrite !aset_aset, (remove_first_snoc _ _ Zq). reflexivity.
Qed.

(* ---- a live repeating timer fires again and again ---- *)
Lemma ret_rearm s k t pan :
  aget k (objs s) = Some t -> t_canceled t = false -> 0 < t_period t ->
  ret s k pan = (put (with_cur s None) k (set_tok (Pending (clock s + t_period t)) t),
                 [ERet k pan; EArm k (clock s)]).
Proof.
  intros E Ca P. unfold ret. rewrite E, Ca.
  destruct (Z.ltb_spec 0 (t_period t)); [reflexivity | lia].
Qed.

Lemma idle_cb n : forall s, cur s = None -> run_from s (repeat SCbStep n) = (s, []).
Proof.
  induction n as [|n IH]; intros s Cu; cbn [repeat run_from]; [reflexivity|].
  cbn [step]. unfold cb_step. rewrite Cu. rewrite (IH s Cu). reflexivity.
Qed.

Lemma cb_loop k n : forall s tr acts t,
  Inv s tr -> cur s = Some (k, acts) -> (length acts <= n)%nat -> keeps k acts ->
  aget k (objs s) = Some t -> t_canceled t = false -> 0 < t_period t ->
  cur (fst (run_from s (repeat SCbStep (S n)))) = None /\
  aget k (objs (fst (run_from s (repeat SCbStep (S n))))) =
    Some (set_tok (Pending (clock s + t_period t)) t) /\
  running (fst (run_from s (repeat SCbStep (S n)))) = running s /\
  queue (fst (run_from s (repeat SCbStep (S n)))) = queue s /\
  clock (fst (run_from s (repeat SCbStep (S n)))) = clock s /\
  count_cb k (snd (run_from s (repeat SCbStep (S n)))) = 0.
Proof.
  induction n as [|n IH]; intros s tr acts t I Cu Ln Kp E Ca P.
  - destruct acts; [|cbn in Ln; lia].
    cbn [repeat run_from step]. unfold cb_step. rewrite Cu, (ret_rearm _ _ _ _ E Ca P).
    cbn [fst snd put with_cur with_objs objs cur running queue clock app count_cb].
    rewrite aget_aset_same. auto 10.
  - assert (Fin : forall pan,
      cb_step s = ret s k pan ->
      cur (fst (run_from s (repeat SCbStep (S (S n))))) = None /\
      aget k (objs (fst (run_from s (repeat SCbStep (S (S n)))))) =
        Some (set_tok (Pending (clock s + t_period t)) t) /\
      running (fst (run_from s (repeat SCbStep (S (S n))))) = running s /\
      queue (fst (run_from s (repeat SCbStep (S (S n))))) = queue s /\
      clock (fst (run_from s (repeat SCbStep (S (S n))))) = clock s /\
      count_cb k (snd (run_from s (repeat SCbStep (S (S n))))) = 0).
    { intros pan H. change (repeat SCbStep (S (S n))) with (SCbStep :: repeat SCbStep (S n)).
      cbn [run_from step]. rewrite H, (ret_rearm _ _ _ _ E Ca P).
      rewrite idle_cb by reflexivity.
      cbn [fst snd put with_cur with_objs objs cur running queue clock app count_cb].
      rewrite aget_aset_same. auto 10. }
    assert (Go : forall s1 e1 r,
      cb_step s = (s1, e1) -> cur s1 = Some (k, r) -> (length r <= n)%nat -> keeps k r ->
      aget k (objs s1) = Some t -> running s1 = running s -> queue s1 = queue s ->
      clock s1 = clock s -> count_cb k e1 = 0 ->
      cur (fst (run_from s (repeat SCbStep (S (S n))))) = None /\
      aget k (objs (fst (run_from s (repeat SCbStep (S (S n)))))) =
        Some (set_tok (Pending (clock s + t_period t)) t) /\
      running (fst (run_from s (repeat SCbStep (S (S n))))) = running s /\
      queue (fst (run_from s (repeat SCbStep (S (S n))))) = queue s /\
      clock (fst (run_from s (repeat SCbStep (S (S n))))) = clock s /\
      count_cb k (snd (run_from s (repeat SCbStep (S (S n))))) = 0).
    { intros s1 e1 r H Cu1 Lr Kr E1 Rn1 Q1 C1 Z1.
      change (repeat SCbStep (S (S n))) with (SCbStep :: repeat SCbStep (S n)).
      cbn [run_from step]. rewrite H.
      pose proof (inv_cb_step s tr I) as I1. rewrite H in I1. cbn [fst snd] in I1.
      destruct (IH s1 _ r t I1 Cu1 Lr Kr E1 Ca P) as (A1 & A2 & A3 & A4 & A5 & A6).
      destruct (run_from s1 (repeat SCbStep (S n))) as [s2 e2]. cbn [fst snd] in *.
      rewrite count_cb_app, C1 in *. repeat split; try congruence. lia. }
    destruct acts as [|a r]; [apply (Fin false); unfold cb_step; rewrite Cu; reflexivity|].
    assert (Kr : keeps k r) by (intros x Hx; apply Kp; right; exact Hx).
    cbn [length] in Ln.
    destruct a as [|j|d rep a p|].
    + exfalso. destruct (Kp ACancelSelf (or_introl eq_refl)) as [X _]. congruence.
    + assert (N : j <> k).
      { intro X. subst j. destruct (Kp (ACancel k) (or_introl eq_refl)) as [_ X]. congruence. }
      eapply Go with (r := r); [unfold cb_step; rewrite Cu; reflexivity | | lia | exact Kr | | | | | ];
        unfold cancel; cbn [fst snd with_cur objs cur].
      * destruct (aget j (objs s)) as [tj|]; [destruct (t_reg tj)|]; reflexivity.
      * destruct (aget j (objs s)) as [tj|]; [destruct (t_reg tj)|]; cbn [put with_objs objs]; auto.
        rewrite aget_aset_other by congruence. exact E.
      * destruct (aget j (objs s)) as [tj|]; [destruct (t_reg tj)|]; reflexivity.
      * destruct (aget j (objs s)) as [tj|]; [destruct (t_reg tj)|]; reflexivity.
      * destruct (aget j (objs s)) as [tj|]; [destruct (t_reg tj)|]; reflexivity.
      * cbn [count_cb]. reflexivity.
    + destruct (inv_some _ _ _ _ I E) as [_ Rk].
      eapply Go with (r := r); [unfold cb_step; rewrite Cu; reflexivity | | lia | exact Kr | | | | | ];
        unfold create; cbn [fst snd with_cur objs cur next running queue clock count_cb]; try reflexivity.
      rewrite aget_aset_other by lia. exact E.
    + apply (Fin true). unfold cb_step. rewrite Cu. reflexivity.
Qed.

Lemma cycle_once s tr k d p t :
  Inv s tr -> CyclePre s k d p t ->
  exists t',
    CyclePre (fst (run_from s (cycle k d (length p)))) k d p t' /\
    count_cb k (snd (run_from s (cycle k d (length p)))) = 1.
Proof.
  intros I [Cu Rn Cap E Ca Pe Po Pr Kp (dl & Q & D)].
  unfold cycle. rewrite run_from_app.
  assert (M : Z.max 0 d = d) by lia.
  rewrite (fire_and_begin s tr k t dl d I Cu Rn Cap E Ca Q) by lia.
  pose proof (inv_run_from [SAdvance d; SFireCheck k; SFireSend k; SBegin k] s tr I) as I4.
  rewrite (fire_and_begin s tr k t dl d I Cu Rn Cap E Ca Q) in I4 by lia.
  cbn [fst snd] in *. rewrite M in *.
  set (s4 := mkS (clock s + d) (running s) (next s) (aset k (set_tok InCb t) (objs s)) (queue s)
                 (Some (k, t_prog t))) in *.
  destruct (cb_loop k (length p) s4 _ (t_prog t) (set_tok InCb t) I4) as (A1 & A2 & A3 & A4 & A5 & A6);
    try reflexivity.
  - rewrite Pr. lia.
  - rewrite Pr. exact Kp.
  - cbn [s4 objs]. apply aget_aset_same.
  - exact Ca.
  - cbn [set_tok t_period]. lia.
  - exists (set_tok (Pending (clock s4 + t_period (set_tok InCb t))) (set_tok InCb t)). split.
    + constructor; auto.
      * rewrite A3. exact Rn.
      * rewrite A4. exact Cap.
      * eexists. split; [reflexivity|]. rewrite A5. cbn [set_tok t_period]. lia.
    + rewrite count_cb_app, A6. cbn [count_cb]. rewrite Z.eqb_refl. lia.
Qed.

Lemma cycles_count m : forall s tr k d p t,
  Inv s tr -> CyclePre s k d p t ->
  count_cb k (snd (run_from s (cycles m k d (length p)))) = Z.of_nat m.
Proof.
  induction m as [|m IH]; intros s tr k d p t I P; [reflexivity|].
  cbn [cycles]. rewrite run_from_app. cbn [snd].
  destruct (cycle_once s tr k d p t I P) as (t' & P' & C).
  pose proof (inv_run_from (cycle k d (length p)) s tr I) as I'.
  rewrite count_cb_app, C, (IH _ _ k d p t' I' P'). lia.
Qed.

Lemma trace_app xs ys : trace (xs ++ ys) = trace xs ++ snd (run_from (final xs) ys).
Proof. unfold trace, final. rewrite run_from_app. reflexivity. Qed.

Lemma repeat_fires_n xs k d t m :
  CyclePre (final xs) k d (t_prog t) t ->
  count_cb k (trace (xs ++ cycles m k d (length (t_prog t)))) = count_cb k (trace xs) + Z.of_nat m.
Proof.
  intro P. rewrite trace_app, count_cb_app.
  rewrite (cycles_count m _ _ k d (t_prog t) t (inv_reachable xs) P). reflexivity.
Qed.

Lemma fire_then_do xs k t dl dt :
  cur (final xs) = None -> running (final xs) = true ->
  Z.of_nat (length (queue (final xs))) < qcap ->
  aget k (objs (final xs)) = Some t -> t_canceled t = false -> t_tok t = Pending dl ->
  dl <= clock (final xs) + Z.max 0 dt ->
  trace (xs ++ [SAdvance dt; SFireCheck k; SFireSend k; SBegin k]) =
  trace xs ++ [EQueued k; ECb k (clock (final xs) + Z.max 0 dt) (t_args t)].
Proof.
  intros Cu Rn Cap E Ca Q D. rewrite trace_app.
  rewrite (fire_and_begin _ _ k t dl dt (inv_reachable xs) Cu Rn Cap E Ca Q D). reflexivity.
Qed.

Lemma queued_do xs k t :
  cur (final xs) = None -> aget k (objs (final xs)) = Some t -> t_tok t = Queued ->
  t_canceled t = false ->
  trace (xs ++ [SBegin k]) = trace xs ++ [ECb k (clock (final xs)) (t_args t)].
Proof.
  intros Cu E Q Ca. rewrite trace_app. cbn [run_from step].
  destruct (inv_some _ _ _ _ (inv_reachable xs) E) as [T _].
  pose proof (ti_queue _ _ _ _ T) as Zq. rewrite Q in Zq. cbn [qcount] in Zq.
  assert (M : zmem k (queue (final xs)) = true).
  { apply zmem_In. apply zcount_In. lia. }
  rewrite (begin_ok _ k t Cu M E Ca). reflexivity.
Qed.

(* ---- a panic is an early return: same state, nothing else touched ---- *)
Lemma ret_frame s k pan :
  (forall j, j <> k -> aget j (objs (fst (ret s k pan))) = aget j (objs s)) /\
  queue (fst (ret s k pan)) = queue s /\ running (fst (ret s k pan)) = running s /\
  clock (fst (ret s k pan)) = clock s /\ next (fst (ret s k pan)) = next s /\
  cur (fst (ret s k pan)) = None.
Proof.
  unfold ret. destruct (aget k (objs s)) as [t|]; [|cbn; auto 10].
  destruct (t_canceled t); [|destruct (0 <? t_period t)];
    cbn [fst put with_cur with_objs objs queue running clock next cur];
    (split; [intros j N; apply aget_aset_other; exact N | auto 10]).
Qed.

Lemma panic_is_return s k r :
  cur s = Some (k, APanic :: r) ->
  fst (cb_step s) = fst (cb_step (with_cur s (Some (k, [])))) /\
  snd (cb_step s) = map (fun e => match e with ERet j _ => ERet j true | x => x end)
                        (snd (cb_step (with_cur s (Some (k, []))))) /\
  (forall j, j <> k -> aget j (objs (fst (cb_step s))) = aget j (objs s)) /\
  queue (fst (cb_step s)) = queue s /\ running (fst (cb_step s)) = running s /\
  clock (fst (cb_step s)) = clock s /\ next (fst (cb_step s)) = next s /\
  cur (fst (cb_step s)) = None.
Proof.
  intro Cu. unfold cb_step. rewrite Cu. cbn [with_cur cur].
  split; [|split; [|apply ret_frame]].
  - unfold ret. cbn [with_cur objs clock]. destruct (aget k (objs s)) as [t|]; [|reflexivity].
    destruct (t_canceled t); [|destruct (0 <? t_period t)]; reflexivity.
  - unfold ret. cbn [with_cur objs clock]. destruct (aget k (objs s)) as [t|]; [|reflexivity].
    destruct (t_canceled t); [|destruct (0 <? t_period t)]; reflexivity.
Qed.

(* ---- callbacks are started by the owner's Do only ---- *)
Lemma cb_only_from_do s x k c a :
  In (ECb k c a) (snd (step s x)) ->
  (x = SBegin k \/ (x = SDoNext /\ hd_error (queue s) = Some k)) /\ cur s = None /\ c = clock s.
Proof.
  assert (B : forall j, In (ECb k c a) (snd (begin_at s j)) -> j = k /\ cur s = None /\ c = clock s).
  { intro j. unfold begin_at. destruct (cur s); [intros []|].
    destruct (zmem j (queue s)); [|intros []]. destruct (aget j (objs s)) as [t|]; [|intros []].
    destruct (t_canceled t); [intros []|]. intros [H|[]]. inv H. auto. }
  assert (R : forall j p, ~ In (ECb k c a) (snd (ret s j p))).
  { intros j p. unfold ret. destruct (aget j (objs s)) as [t|]; [|intros [H|[]]; discriminate].
    destruct (t_canceled t); [|destruct (0 <? t_period t)]; cbn [snd]; intros H; cbn in H; intuition discriminate. }
  destruct x as [d rep a' p|j| |j| | |dt|j|j]; cbn [step].
  - intros [H|[]]. discriminate.
  - intros [H|[]]. discriminate.
  - intros [H|[]]. discriminate.
  - intro H. destruct (B _ H) as (-> & Cu & C). auto.
  - destruct (queue s) as [|j q] eqn:Q; [intros []|]. intro H. destruct (B _ H) as (-> & Cu & C). auto.
  - unfold cb_step. destruct (cur s) as [[j acts]|]; [|intros []].
    destruct acts as [|[|i|d rep a' p|] r]; intro H; try (exfalso; eapply R; exact H);
      cbn in H; intuition discriminate.
  - intros [].
  - unfold fire_check. destruct (aget j (objs s)) as [t|]; [|intros []].
    destruct (t_tok t); try (intros []). destruct (_ <=? _); [|intros []].
    destruct (t_canceled t); [intros []|]. destruct (running s); intros [].
  - unfold fire_send. destruct (aget j (objs s)) as [t|]; [|intros []].
    destruct (t_tok t); try (intros []). destruct (_ <? _); [|intros []]. intros [H|[]]. discriminate.
Qed.

(* ---- the harness' logical ops are step lists: every theorem above applies to them ---- *)
Lemma ops_trace_steps ops : forall s, ops_trace s ops = snd (run_from s (steps_of s ops)).
Proof.
  induction ops as [|o r IH]; intro s; cbn [ops_trace steps_of]; [reflexivity|].
  rewrite run_from_app. cbn [snd]. rewrite IH. reflexivity.
Qed.

Lemma exec_from_obs ops : forall s tr,
  exec_from s tr ops =
  match ops with
  | [] => []
  | o :: r => obs_of o tr (snd (run_from s (compile s o)))
              :: exec_from (fst (run_from s (compile s o))) (tr ++ snd (run_from s (compile s o))) r
  end.
Proof. destruct ops as [|o r]; intros s tr; cbn [exec_from]; [reflexivity|]. destruct (run_from s (compile s o)); reflexivity. Qed.

Lemma one_token xs k :
  zcount k (queue (final xs)) =
  match aget k (objs (final xs)) with Some t => qcount (t_tok t) | None => 0%nat end.
Proof.
  pose proof (inv_reachable xs) as I. destruct (aget k (objs (final xs))) as [t|] eqn:E.
  - destruct (inv_some _ _ _ _ I E) as [T _]. apply (ti_queue _ _ _ _ T).
  - apply (ab_queue _ _ _ (inv_none _ _ _ I E)).
Qed.

Lemma ops_are_steps ops : ops_trace init ops = trace (steps_of init ops).
Proof. apply ops_trace_steps. Qed.

(* ---- non-vacuity witnesses ---- *)
Lemma keeps_example : keeps 0 [ACreate 1 false 3 []; APanic].
Proof. intros a [<-|[<-|[]]]; split; discriminate. Qed.

Lemma cyclepre_example :
  exists t, CyclePre (final [SCreate 2 true 7 [ACreate 1 false 3 []; APanic]]) 0 2
                     [ACreate 1 false 3 []; APanic] t
            /\ t_prog t = [ACreate 1 false 3 []; APanic].
Proof.
  eexists. split; [constructor; try reflexivity|reflexivity].
  - exact keeps_example.
  - exists 2. split; [reflexivity | cbn; lia].
Qed.

Lemma oneshot_once xs k clk d rep a :
  creation k (trace xs) = Some (clk, d, rep, a) -> repeating d rep = false ->
  count_cb k (trace xs) <= 1.
Proof.
  intros C R. destruct (upper_all xs k) as [U O]. rewrite (O _ _ _ _ C R) in U. exact U.
Qed.

Lemma args_as_created xs k c a t1 t2 :
  trace xs = t1 ++ ECb k c a :: t2 -> exists clk d rep, creation k t1 = Some (clk, d, rep, a).
Proof.
  intro E. destruct (never_early_all xs _ _ _ _ _ E) as (clk & d & rep & t0 & C & _).
  exists clk, d, rep. exact C.
Qed.
