(* C14 - proofs.  Structure:
     1. trace functions and append ([quiet] events, [app_split])
     2. the state/trace invariant [Inv]: per timer [TI] (creation data, one queue entry iff
        token Queued, InCb iff the owner is inside its callback, Canceled flag <-> cancelled in
        the trace, timing of the outstanding expiry, callback/arming accounting), [Absent] for
        ids not yet allocated; frame lemmas
     3. preservation of [Inv] by every primitive (create, cancel, begin_at, ret, fire_check,
        fire_send) and hence by every step and step list
     4. [shape]: what a step can emit; [Good] (the trace clauses of Spec.v) preserved by every step
     5. corollaries for all step lists, progress lemmas, n-fold firing, panic = early return *)
From Cell2V Require Import Common.Tac Common.ListX Common.AList C14.Model C14.Spec.

(* ================= trace functions and append ================= *)
Definition ev_key (x : ev) : option Z :=
  match x with
  | ECreate k _ _ _ _ | ECancel k | EQueued k | ECb k _ _ | ERet k _ | EArm k _ => Some k
  | EStop | EStart | EClose | ELoopEnd => None
  end.
Definition quiet (k : Z) (e : list ev) : Prop := forall x, In x e -> ev_key x <> Some k.

Lemma quiet_nil k : quiet k [].
Proof. intros x []. Qed.
Lemma quiet_cons k x e : ev_key x <> Some k -> quiet k e -> quiet k (x :: e).
Proof. intros H Q y [<-|I]; auto. Qed.
Lemma quiet_inv k x e : quiet k (x :: e) -> ev_key x <> Some k /\ quiet k e.
Proof. intro Q. split; [apply Q; left; reflexivity | intros y I; apply Q; right; exact I]. Qed.

Lemma creation_app k tr e :
  creation k (tr ++ e) = match creation k tr with Some x => Some x | None => creation k e end.
Proof.
  induction tr as [|x r IH]; cbn [app creation]; [reflexivity|].
  destruct x; try exact IH. destruct (Z.eqb k k0); [reflexivity | exact IH].
Qed.

Lemma count_create_app k tr e : count_create k (tr ++ e) = count_create k tr + count_create k e.
Proof.
  induction tr as [|x r IH]; cbn [app count_create]; [lia|]. destruct x; try exact IH. rewrite IH. lia.
Qed.

Lemma count_cb_app k tr e : count_cb k (tr ++ e) = count_cb k tr + count_cb k e.
Proof.
  induction tr as [|x r IH]; cbn [app count_cb]; [lia|]. destruct x; try exact IH. rewrite IH. lia.
Qed.

Lemma arms_app k tr e : arms k (tr ++ e) = arms k tr + arms k e.
Proof.
  induction tr as [|x r IH]; cbn [app arms]; [lia|]. destruct x; try exact IH; rewrite IH; lia.
Qed.

Lemma last_arm_from_app k tr e : forall acc,
  last_arm_from k acc (tr ++ e) = last_arm_from k (last_arm_from k acc tr) e.
Proof.
  induction tr as [|x r IH]; intro acc; cbn [app last_arm_from]; [reflexivity|].
  destruct x; apply IH.
Qed.
Lemma last_arm_app k tr e : last_arm k (tr ++ e) = last_arm_from k (last_arm k tr) e.
Proof. apply last_arm_from_app. Qed.

Lemma creation_quiet k e : quiet k e -> creation k e = None.
Proof.
  induction e as [|x r IH]; intro Q; [reflexivity|]. apply quiet_inv in Q. destruct Q as [N Q].
  destruct x; cbn [creation]; auto. cbn in N.
  destruct (Z.eqb_spec k k0); [subst; congruence | auto].
Qed.
Lemma count_create_quiet k e : quiet k e -> count_create k e = 0.
Proof.
  induction e as [|x r IH]; intro Q; [reflexivity|]. apply quiet_inv in Q. destruct Q as [N Q].
  destruct x; cbn [count_create]; auto. cbn in N.
  destruct (Z.eqb_spec k k0); [subst; congruence | rewrite IH by exact Q; lia].
Qed.
Lemma count_cb_quiet k e : quiet k e -> count_cb k e = 0.
Proof.
  induction e as [|x r IH]; intro Q; [reflexivity|]. apply quiet_inv in Q. destruct Q as [N Q].
  destruct x; cbn [count_cb]; auto. cbn in N.
  destruct (Z.eqb_spec k k0); [subst; congruence | rewrite IH by exact Q; lia].
Qed.
Lemma arms_quiet k e : quiet k e -> arms k e = 0.
Proof.
  induction e as [|x r IH]; intro Q; [reflexivity|]. apply quiet_inv in Q. destruct Q as [N Q].
  destruct x; cbn [arms]; auto; cbn in N;
    (destruct (Z.eqb_spec k k0); [subst; congruence | rewrite IH by exact Q; lia]).
Qed.
Lemma last_arm_from_quiet k e : quiet k e -> forall acc, last_arm_from k acc e = acc.
Proof.
  induction e as [|x r IH]; intros Q acc; [reflexivity|]. apply quiet_inv in Q. destruct Q as [N Q].
  destruct x; cbn [last_arm_from]; auto; cbn in N;
    (destruct (Z.eqb_spec k k0); [subst; congruence | auto]).
Qed.

(* where an element of [tr ++ e] sits *)
Lemma app_split {A} (tr e t1 t2 : list A) x :
  tr ++ e = t1 ++ x :: t2 ->
  (exists m, tr = t1 ++ x :: m /\ t2 = m ++ e) \/ (exists e1, e = e1 ++ x :: t2 /\ t1 = tr ++ e1).
Proof.
  revert t1. induction tr as [|y r IH]; intros t1 E; cbn [app] in E.
  - right. exists t1. split; [exact E | reflexivity].
  - destruct t1 as [|z t1]; cbn [app] in E.
    + inv E. left. exists r. split; reflexivity.
    + inv E. destruct (IH _ H1) as [[m [E1 E2]]|[e1 [E1 E2]]].
      * left. exists m. subst. split; reflexivity.
      * right. exists e1. subst. split; reflexivity.
Qed.

Lemma created_in_app_l k tr e : created_in k tr -> created_in k (tr ++ e).
Proof. intros (c & d & r & a & I). exists c, d, r, a. apply in_or_app. left. exact I. Qed.

Lemma created_in_cons k x r :
  created_in k (x :: r) <-> (exists c d rp a, x = ECreate k c d rp a) \/ created_in k r.
Proof.
  split.
  - intros (c & d & rp & a & [E|I]); [left; exists c, d, rp, a; exact E | right; exists c, d, rp, a; exact I].
  - intros [(c & d & rp & a & E)|(c & d & rp & a & I)]; exists c, d, rp, a; [left; exact E | right; exact I].
Qed.

Lemma created_in_creation k tr : created_in k tr <-> creation k tr <> None.
Proof.
  induction tr as [|x r IH].
  - split; [intros (c & d & rp & a & []) | intro H; cbn in H; congruence].
  - rewrite created_in_cons, IH. destruct x; cbn [creation];
      try (split; [intros [(c9 & d9 & rp9 & a9 & E9)|H9]; [discriminate | exact H9] | intro H9; right; exact H9]).
    destruct (Z.eqb_spec k k0).
    + subst. split; [discriminate | intros _; left; exists clk, d, rep, a; reflexivity].
    + split; [intros [(c & d' & rp & a' & E)|H]; [inv E; congruence | exact H] | intro H; right; exact H].
Qed.

Lemma cancelled_in_app_l k tr e : cancelled_in k tr -> cancelled_in k (tr ++ e).
Proof.
  intros (t1 & t2 & E & C). exists t1, (t2 ++ e). split; [|exact C].
  subst. rewrite <- app_assoc. reflexivity.
Qed.

Lemma cancelled_in_snoc k tr : created_in k tr -> cancelled_in k (tr ++ [ECancel k]).
Proof. intro C. exists tr, []. split; [reflexivity | exact C]. Qed.

Lemma cancelled_in_quiet k tr e : quiet k e -> cancelled_in k (tr ++ e) -> cancelled_in k tr.
Proof.
  intros Q (t1 & t2 & E & C). apply app_split in E. destruct E as [[m [E1 E2]]|[e1 [E1 E2]]].
  - exists t1, m. split; assumption.
  - exfalso. apply (Q (ECancel k)); [|reflexivity]. subst e. apply in_or_app. right. left. reflexivity.
Qed.

Lemma in_quiet k e x : quiet k e -> In x e -> ev_key x <> Some k.
Proof. intros Q I. apply Q. exact I. Qed.

(* ================= the invariant ================= *)
Definition cur_key (s : st) : option Z := match cur s with Some (k, _) => Some k | None => None end.

Definition timing (s : st) (tr : list ev) (k : Z) (t : timer) : Prop :=
  match t_tok t with
  | Pending dl => exists t0, last_arm k tr = Some t0 /\ dl = t0 + t_dur t
  | Firing | Queued => exists t0, last_arm k tr = Some t0 /\ t0 + t_dur t <= clock s
  | InCb | Dead => True
  end.

Record TI (s : st) (tr : list ev) (k : Z) (t : timer) : Prop := mkTI {
  ti_creation : exists c0 rp, creation k tr = Some (c0, t_dur t, rp, t_args t)
                              /\ t_period t = (if rp then t_dur t else 0);
  ti_unique : count_create k tr = 1;
  ti_queue : zcount k (queue s) = qcount (t_tok t);
  ti_cur : t_tok t = InCb <-> cur_key s = Some k;
  ti_cancel_sound : t_canceled t = true -> cancelled_in k tr /\ (forall dl, t_tok t <> Pending dl);
  ti_cancel_complete : cancelled_in k tr \/ t_reg t = false -> t_canceled t = true \/ t_tok t = Dead;
  ti_timing : timing s tr k t;
  ti_le : count_cb k tr + live (t_tok t) <= arms k tr;
  ti_eq : t_canceled t = false -> running s = true -> count_cb k tr + live (t_tok t) = arms k tr;
  ti_oneshot : (0 <? t_period t) = false -> arms k tr = 1 }.

Record Absent (s : st) (tr : list ev) (k : Z) : Prop := mkAbs {
  ab_creation : creation k tr = None;
  ab_unique : count_create k tr = 0;
  ab_queue : zcount k (queue s) = 0%nat;
  ab_cur : cur_key s <> Some k;
  ab_cb : count_cb k tr = 0;
  ab_arms : arms k tr = 0 }.

Definition Inv (s : st) (tr : list ev) : Prop :=
  0 <= next s /\
  forall k, match aget k (objs s) with
            | Some t => TI s tr k t /\ 0 <= k < next s
            | None => Absent s tr k
            end.

Lemma inv_init : Inv init [].
Proof. split; [cbn; lia|]. intro k. cbn. constructor; cbn; try reflexivity. discriminate. Qed.

Lemma inv_some s tr k t : Inv s tr -> aget k (objs s) = Some t -> TI s tr k t /\ 0 <= k < next s.
Proof. intros [_ H] E. specialize (H k). rewrite E in H. exact H. Qed.
Lemma inv_none s tr k : Inv s tr -> aget k (objs s) = None -> Absent s tr k.
Proof. intros [_ H] E. specialize (H k). rewrite E in H. exact H. Qed.
Lemma inv_fresh s tr : Inv s tr -> aget (next s) (objs s) = None.
Proof.
  intro I. destruct (aget (next s) (objs s)) as [t|] eqn:E; [|reflexivity].
  destruct (inv_some _ _ _ _ I E) as [_ R]. lia.
Qed.

(* a step that does not concern timer k *)
Lemma TI_frame s s' tr e k t :
  TI s tr k t -> quiet k e ->
  zcount k (queue s') = zcount k (queue s) ->
  (cur_key s' = Some k <-> cur_key s = Some k) ->
  clock s <= clock s' -> (running s' = true -> running s = true) ->
  TI s' (tr ++ e) k t.
Proof.
  intros T Q Hq Hc Hk Hr. destruct T.
  constructor.
  - destruct ti_creation0 as (c0 & rp & E & P). exists c0, rp. rewrite creation_app, E. auto.
  - rewrite count_create_app, (count_create_quiet k e Q). lia.
  - congruence.
  - rewrite Hc. exact ti_cur0.
  - intro C. destruct (ti_cancel_sound0 C) as [A B]. split; [apply cancelled_in_app_l; exact A | exact B].
  - intros [C|R]; apply ti_cancel_complete0; [left; eapply cancelled_in_quiet; eauto | right; exact R].
  - unfold timing in *. rewrite last_arm_app, (last_arm_from_quiet k e Q).
    destruct (t_tok t); auto; destruct ti_timing0 as (t0 & A & B); exists t0; split; auto; lia.
  - rewrite count_cb_app, arms_app, (count_cb_quiet k e Q), (arms_quiet k e Q). lia.
  - intros C R. rewrite count_cb_app, arms_app, (count_cb_quiet k e Q), (arms_quiet k e Q).
    specialize (ti_eq0 C (Hr R)). lia.
  - intro O. rewrite arms_app, (arms_quiet k e Q). specialize (ti_oneshot0 O). lia.
Qed.

Lemma Absent_frame s s' tr e k :
  Absent s tr k -> quiet k e ->
  zcount k (queue s') = zcount k (queue s) ->
  (cur_key s' = Some k -> cur_key s = Some k) ->
  Absent s' (tr ++ e) k.
Proof.
  intros A Q Hq Hc. destruct A. constructor.
  - rewrite creation_app, ab_creation0. apply creation_quiet. exact Q.
  - rewrite count_create_app, (count_create_quiet k e Q). lia.
  - congruence.
  - intro C. apply ab_cur0. auto.
  - rewrite count_cb_app, (count_cb_quiet k e Q). lia.
  - rewrite arms_app, (arms_quiet k e Q). lia.
Qed.

(* Inv is preserved when only timer k0 (if any), the queue entries of k0, the clock and the
   owner's position inside the same callback change *)
Lemma inv_frame s s' tr e k0 :
  Inv s tr ->
  next s <= next s' ->
  (forall k, k <> k0 -> aget k (objs s') = aget k (objs s)) ->
  (forall k, k <> k0 -> quiet k e) ->
  (forall k, k <> k0 -> zcount k (queue s') = zcount k (queue s)) ->
  (forall k, k <> k0 -> (cur_key s' = Some k <-> cur_key s = Some k)) ->
  clock s <= clock s' -> (running s' = true -> running s = true) ->
  match aget k0 (objs s') with
  | Some t => TI s' (tr ++ e) k0 t /\ 0 <= k0 < next s'
  | None => Absent s' (tr ++ e) k0
  end ->
  Inv s' (tr ++ e).
Proof.
  intros I Hn Ho He Hq Hc Hk Hr H0. split; [destruct I; lia|].
  intro k. destruct (Z.eq_dec k k0) as [->|N]; [exact H0|].
  rewrite (Ho _ N). destruct (aget k (objs s)) as [t|] eqn:E.
  - destruct (inv_some _ _ _ _ I E) as [T R]. split; [|lia].
    eapply TI_frame; eauto.
  - apply Absent_frame with (s := s); auto; [eapply inv_none; eauto|]. intro C. apply (Hc _ N). exact C.
Qed.

(* ================= preservation, primitive by primitive ================= *)
Ltac trace_simp :=
  rewrite ?creation_app, ?count_create_app, ?count_cb_app, ?arms_app, ?last_arm_app;
  cbn [creation count_create count_cb arms last_arm_from];
  rewrite ?Z.eqb_refl.

Ltac quiet_tac :=
  repeat (apply quiet_cons; [cbn; congruence|]); apply quiet_nil.

Lemma not_cancelled_fresh k tr e :
  creation k tr = None -> ~ In (ECancel k) e -> ~ cancelled_in k (tr ++ e).
Proof.
  intros C N (t1 & t2 & E & Cr). apply app_split in E. destruct E as [[m [E1 E2]]|[e1 [E1 E2]]].
  - assert (X : created_in k tr) by (subst tr; apply created_in_app_l; exact Cr).
    apply created_in_creation in X. congruence.
  - apply N. subst e. apply in_or_app. right. left. reflexivity.
Qed.

Lemma inv_create s tr d rep a p :
  Inv s tr -> Inv (fst (create s d rep a p)) (tr ++ snd (create s d rep a p)).
Proof.
  intro I. pose proof (inv_none _ _ _ I (inv_fresh _ _ I)) as A. destruct A.
  unfold create. cbn [fst snd].
  apply inv_frame with (s := s) (k0 := next s); cbn [next objs queue clock running cur_key cur]; auto; try lia.
  - intros k N. apply aget_aset_other. exact N.
  - intros k N. quiet_tac.
  - intros; unfold cur_key; cbn; tauto.
  - rewrite aget_aset_same. split; [|destruct I; lia].
    constructor; cbn [t_dur t_period t_args t_prog t_canceled t_reg t_tok queue clock running qcount live].
    + exists (clock s), rep. trace_simp. rewrite ab_creation0. auto.
    + trace_simp. lia.
    + exact ab_queue0.
    + split; [discriminate | intro C; exfalso; apply ab_cur0; exact C].
    + discriminate.
    + intros [C|C]; [|discriminate]. exfalso. revert C. apply not_cancelled_fresh; [exact ab_creation0|].
      intros [E|[]]. discriminate.
    + unfold timing. cbn [t_tok t_dur]. exists (clock s). trace_simp. auto.
    + trace_simp. lia.
    + intros _ _. trace_simp. lia.
    + intros _. trace_simp. lia.
Qed.

Lemma TI_fields s s' tr k t :
  queue s' = queue s -> cur_key s' = cur_key s -> clock s' = clock s -> running s' = running s ->
  TI s tr k t -> TI s' tr k t.
Proof.
  intros Hq Hc Hk Hr T. destruct T. constructor; auto.
  - rewrite Hq. exact ti_queue0.
  - rewrite Hc. exact ti_cur0.
  - unfold timing in *. rewrite Hk. exact ti_timing0.
  - rewrite Hr. exact ti_eq0.
Qed.

Lemma TI_created s tr k t : TI s tr k t -> created_in k tr.
Proof.
  intro T. destruct (ti_creation _ _ _ _ T) as (c0 & rp & E & _).
  apply created_in_creation. congruence.
Qed.

(* the owner calls Cancel(k) on an existing timer *)
Lemma TI_cancel s tr k t :
  TI s tr k t ->
  TI s (tr ++ [ECancel k]) k (if t_reg t then set_cancel t else t).
Proof.
  intro T. pose proof (TI_created _ _ _ _ T) as Cr. destruct T.
  assert (CI : cancelled_in k (tr ++ [ECancel k])) by (apply cancelled_in_snoc; exact Cr).
  destruct (t_reg t) eqn:R.
  - constructor; cbn [set_cancel t_dur t_period t_args t_prog t_canceled t_reg t_tok].
    + destruct ti_creation0 as (c0 & rp & E & P). exists c0, rp. trace_simp. rewrite E. auto.
    + trace_simp. lia.
    + rewrite ti_queue0. destruct (t_tok t); reflexivity.
    + rewrite <- ti_cur0. destruct (t_tok t); split; congruence.
    + intros _. split; [exact CI|]. intros dl. destruct (t_tok t); discriminate.
    + intros _. left. reflexivity.
    + unfold timing in *. cbn [set_cancel t_tok t_dur]. trace_simp. destruct (t_tok t); auto.
    + trace_simp. destruct (t_tok t); cbn [live] in *; lia.
    + discriminate.
    + intro O. trace_simp. specialize (ti_oneshot0 O). lia.
  - constructor.
    + destruct ti_creation0 as (c0 & rp & E & P). exists c0, rp. trace_simp. rewrite E. auto.
    + trace_simp. lia.
    + exact ti_queue0.
    + exact ti_cur0.
    + intro C. destruct (ti_cancel_sound0 C) as [A B]. split; [exact CI | exact B].
    + intros _. apply ti_cancel_complete0. right. reflexivity.
    + unfold timing in *. trace_simp. exact ti_timing0.
    + trace_simp. lia.
    + intros C Rn. trace_simp. specialize (ti_eq0 C Rn). lia.
    + intro O. trace_simp. specialize (ti_oneshot0 O). lia.
Qed.

Lemma inv_cancel s tr k :
  Inv s tr -> Inv (fst (cancel s k)) (tr ++ snd (cancel s k)).
Proof.
  intro I. unfold cancel. cbn [fst snd].
  destruct (aget k (objs s)) as [t|] eqn:E.
  - destruct (inv_some _ _ _ _ I E) as [T R]. apply TI_cancel in T.
    destruct (t_reg t) eqn:Rg.
    + apply inv_frame with (s := s) (k0 := k);
        [exact I | cbn; lia | | | | | cbn; lia | cbn; tauto | ]; unfold put, with_objs.
      * intros j N. apply aget_aset_other. exact N.
      * intros j N. quiet_tac.
      * intros; reflexivity.
      * intros; unfold cur_key; cbn; tauto.
      * cbn [objs next]. rewrite aget_aset_same. split; [|exact R].
        eapply TI_fields; [| | | |exact T]; reflexivity.
    + apply inv_frame with (s := s) (k0 := k);
        [exact I | lia | | | | | lia | tauto | ].
      * intros; reflexivity.
      * intros j N. quiet_tac.
      * intros; reflexivity.
      * intros; tauto.
      * rewrite E. split; [exact T | exact R].
  - apply inv_frame with (s := s) (k0 := k);
      [exact I | lia | | | | | lia | tauto | ].
    + intros; reflexivity.
    + intros j N. quiet_tac.
    + intros; reflexivity.
    + intros; tauto.
    + rewrite E. destruct (inv_none _ _ _ I E). constructor; trace_simp; rewrite ?ab_creation0; auto; try lia.
Qed.

Lemma cancelled_in_noc k tr e : ~ In (ECancel k) e -> cancelled_in k (tr ++ e) -> cancelled_in k tr.
Proof.
  intros N (t1 & t2 & E & C). apply app_split in E. destruct E as [[m [E1 E2]]|[e1 [E1 E2]]].
  - exists t1, m. split; assumption.
  - exfalso. apply N. subst e. apply in_or_app. right. left. reflexivity.
Qed.

Lemma zmem_zcount k q : zmem k q = true -> (0 < zcount k q)%nat.
Proof. intro H. apply zcount_In. apply zmem_In. exact H. Qed.

Lemma queued_timer s tr k :
  Inv s tr -> zmem k (queue s) = true ->
  exists t, aget k (objs s) = Some t /\ t_tok t = Queued /\ zcount k (queue s) = 1%nat.
Proof.
  intros I M. apply zmem_zcount in M.
  destruct (aget k (objs s)) as [t|] eqn:E.
  - destruct (inv_some _ _ _ _ I E) as [T _]. pose proof (ti_queue _ _ _ _ T) as Q.
    exists t. destruct (t_tok t); cbn [qcount] in Q; try lia. auto.
  - pose proof (ab_queue _ _ _ (inv_none _ _ _ I E)). lia.
Qed.

Lemma inv_begin s tr k :
  Inv s tr -> Inv (fst (begin_at s k)) (tr ++ snd (begin_at s k)).
Proof.
  intro I. unfold begin_at.
  destruct (cur s) as [c|] eqn:Cu; [cbn [fst snd]; rewrite app_nil_r; exact I|].
  destruct (drains (life_of s)) eqn:Dr; cbn [negb]; [|cbn [fst snd]; rewrite app_nil_r; exact I].
  destruct (zmem k (queue s)) eqn:M; [|cbn [fst snd]; rewrite app_nil_r; exact I].
  destruct (queued_timer _ _ _ I M) as (t & E & Q & Z1). rewrite E.
  destruct (inv_some _ _ _ _ I E) as [T R].
  assert (CK : cur_key s = None) by (unfold cur_key; rewrite Cu; reflexivity).
  destruct (t_canceled t) eqn:Ca; cbn [fst snd].
  - apply inv_frame with (s := s) (k0 := k);
      [exact I | cbn; lia | | | | | cbn; lia | cbn; tauto | ]; unfold put, with_objs, with_queue, dequeue.
    + intros j N. apply aget_aset_other. exact N.
    + intros j N. quiet_tac.
    + intros j N. cbn [queue]. apply zcount_remove_first_other. exact N.
    + intros; unfold cur_key; cbn; tauto.
    + cbn [objs next]. rewrite aget_aset_same. split; [|exact R]. destruct T.
      constructor; cbn [set_tok t_dur t_period t_args t_prog t_canceled t_reg t_tok queue clock running].
      * destruct ti_creation0 as (c0 & rp & E1 & P). exists c0, rp. trace_simp. rewrite E1. auto.
      * trace_simp. lia.
      * rewrite zcount_remove_first_same, Z1. reflexivity.
      * split; [discriminate|]. unfold cur_key. cbn [cur]. rewrite Cu. discriminate.
      * intros _. split; [|discriminate]. apply cancelled_in_app_l. apply ti_cancel_sound0. exact Ca.
      * intros _. right. reflexivity.
      * exact Logic.I.
      * trace_simp. cbn [live]. rewrite Q in ti_le0. cbn [live] in ti_le0. lia.
      * congruence.
      * intro O. trace_simp. specialize (ti_oneshot0 O). lia.
  - apply inv_frame with (s := s) (k0 := k);
      [exact I | cbn; lia | | | | | cbn; lia | cbn; tauto | ]; unfold put, with_objs, with_queue, with_cur, dequeue.
    + intros j N. apply aget_aset_other. exact N.
    + intros j N. quiet_tac.
    + intros j N. cbn [queue]. apply zcount_remove_first_other. exact N.
    + intros j N. unfold cur_key. cbn [cur]. rewrite Cu. split; [intro H; inv H; congruence | discriminate].
    + cbn [objs next]. rewrite aget_aset_same. split; [|exact R]. destruct T.
      assert (NC : ~ cancelled_in k tr).
      { intro C. destruct ti_cancel_complete0 as [X|X]; [left; exact C | congruence | congruence]. }
      constructor; cbn [set_tok t_dur t_period t_args t_prog t_canceled t_reg t_tok queue clock running].
      * destruct ti_creation0 as (c0 & rp & E1 & P). exists c0, rp. trace_simp. rewrite E1. auto.
      * trace_simp. lia.
      * rewrite zcount_remove_first_same, Z1. reflexivity.
      * split; reflexivity.
      * congruence.
      * intros [C|C].
        -- exfalso. apply NC. eapply cancelled_in_noc; [|exact C]. intros [X|[]]. discriminate.
        -- destruct ti_cancel_complete0 as [X|X]; [right; exact C | congruence | congruence].
      * exact Logic.I.
      * trace_simp. cbn [live]. rewrite Q in ti_le0. cbn [live] in ti_le0. lia.
      * intros _ Rn. trace_simp. cbn [live]. specialize (ti_eq0 Ca Rn). rewrite Q in ti_eq0. cbn [live] in ti_eq0. lia.
      * intro O. trace_simp. specialize (ti_oneshot0 O). lia.
Qed.

Lemma in_cb_timer s tr k :
  Inv s tr -> cur_key s = Some k ->
  exists t, aget k (objs s) = Some t /\ t_tok t = InCb.
Proof.
  intros I C. destruct (aget k (objs s)) as [t|] eqn:E.
  - destruct (inv_some _ _ _ _ I E) as [T _]. exists t. split; [reflexivity|]. apply (ti_cur _ _ _ _ T). exact C.
  - exfalso. apply (ab_cur _ _ _ (inv_none _ _ _ I E)). exact C.
Qed.

Lemma inv_ret s tr k pan :
  Inv s tr -> cur_key s = Some k -> Inv (fst (ret s k pan)) (tr ++ snd (ret s k pan)).
Proof.
  intros I CK. destruct (in_cb_timer _ _ _ I CK) as (t & E & Q).
  destruct (inv_some _ _ _ _ I E) as [T R].
  unfold ret. rewrite E.
  assert (HC : forall j, j <> k -> (None = Some j <-> cur_key s = Some j)).
  { intros j N. rewrite CK. split; [discriminate | intro H; inv H; congruence]. }
  destruct (t_canceled t) eqn:Ca; [|destruct (0 <? t_period t) eqn:Pe]; cbn [fst snd].
  - apply inv_frame with (s := s) (k0 := k);
      [exact I | cbn; lia | | | | | cbn; lia | cbn; tauto | ]; unfold put, with_objs, with_cur.
    + intros j N. apply aget_aset_other. exact N.
    + intros j N. quiet_tac.
    + intros; reflexivity.
    + intros j N. unfold cur_key at 1. cbn [cur]. apply HC. exact N.
    + cbn [objs next]. rewrite aget_aset_same. split; [|exact R]. destruct T.
      constructor; cbn [set_tok t_dur t_period t_args t_prog t_canceled t_reg t_tok queue clock running].
      * destruct ti_creation0 as (c0 & rp & E1 & P). exists c0, rp. trace_simp. rewrite E1. auto.
      * trace_simp. lia.
      * rewrite ti_queue0, Q. reflexivity.
      * split; discriminate.
      * intros _. split; [|discriminate]. apply cancelled_in_app_l. apply ti_cancel_sound0. exact Ca.
      * intros _. right. reflexivity.
      * exact Logic.I.
      * trace_simp. cbn [live]. rewrite Q in ti_le0. cbn [live] in ti_le0. lia.
      * congruence.
      * intro O. trace_simp. specialize (ti_oneshot0 O). lia.
  - apply inv_frame with (s := s) (k0 := k);
      [exact I | cbn; lia | | | | | cbn; lia | cbn; tauto | ]; unfold put, with_objs, with_cur.
    + intros j N. apply aget_aset_other. exact N.
    + intros j N. quiet_tac.
    + intros; reflexivity.
    + intros j N. unfold cur_key at 1. cbn [cur]. apply HC. exact N.
    + cbn [objs next]. rewrite aget_aset_same. split; [|exact R]. destruct T.
      assert (NC : ~ cancelled_in k tr).
      { intro C. destruct ti_cancel_complete0 as [X|X]; [left; exact C | congruence | congruence]. }
      constructor; cbn [set_tok t_dur t_period t_args t_prog t_canceled t_reg t_tok queue clock running].
      * destruct ti_creation0 as (c0 & rp & E1 & P). exists c0, rp. trace_simp. rewrite E1. auto.
      * trace_simp. lia.
      * rewrite ti_queue0, Q. reflexivity.
      * split; discriminate.
      * congruence.
      * intros [C|C].
        -- exfalso. apply NC. eapply cancelled_in_noc; [|exact C]. intros [X|[X|[]]]; discriminate.
        -- destruct ti_cancel_complete0 as [X|X]; [right; exact C | congruence | congruence].
      * unfold timing. cbn [set_tok t_tok t_dur]. exists (clock s). trace_simp. split; [reflexivity|].
        destruct ti_creation0 as (c0 & rp & E1 & P). destruct rp; lia.
      * trace_simp. cbn [live]. rewrite Q in ti_le0. cbn [live] in ti_le0. lia.
      * intros _ Rn. trace_simp. cbn [live]. specialize (ti_eq0 Ca Rn). rewrite Q in ti_eq0. cbn [live] in ti_eq0. lia.
      * congruence.
  - apply inv_frame with (s := s) (k0 := k);
      [exact I | cbn; lia | | | | | cbn; lia | cbn; tauto | ]; unfold put, with_objs, with_cur.
    + intros j N. apply aget_aset_other. exact N.
    + intros j N. quiet_tac.
    + intros; reflexivity.
    + intros j N. unfold cur_key at 1. cbn [cur]. apply HC. exact N.
    + cbn [objs next]. rewrite aget_aset_same. split; [|exact R]. destruct T.
      constructor; cbn [set_unreg set_tok t_dur t_period t_args t_prog t_canceled t_reg t_tok queue clock running].
      * destruct ti_creation0 as (c0 & rp & E1 & P). exists c0, rp. trace_simp. rewrite E1. auto.
      * trace_simp. lia.
      * rewrite ti_queue0, Q. reflexivity.
      * split; discriminate.
      * congruence.
      * intros _. right. reflexivity.
      * exact Logic.I.
      * trace_simp. cbn [live]. rewrite Q in ti_le0. cbn [live] in ti_le0. lia.
      * intros _ Rn. trace_simp. cbn [live]. specialize (ti_eq0 Ca Rn). rewrite Q in ti_eq0. cbn [live] in ti_eq0. lia.
      * intro O. trace_simp. specialize (ti_oneshot0 O). lia.
Qed.

Lemma inv_fire_check s tr k :
  Inv s tr -> Inv (fst (fire_check s k)) (tr ++ snd (fire_check s k)).
Proof.
  intro I. unfold fire_check.
  destruct (aget k (objs s)) as [t|] eqn:E; [|cbn [fst snd]; rewrite app_nil_r; exact I].
  destruct (t_tok t) as [dl| | | |] eqn:Q; try (cbn [fst snd]; rewrite app_nil_r; exact I).
  destruct (dl <=? clock s) eqn:D; [|cbn [fst snd]; rewrite app_nil_r; exact I].
  destruct (inv_some _ _ _ _ I E) as [T R].
  destruct (t_canceled t) eqn:Ca.
  { exfalso. destruct (ti_cancel_sound _ _ _ _ T Ca) as [_ X]. apply (X dl). exact Q. }
  destruct (running s) eqn:Rn; cbn [fst snd].
  - apply inv_frame with (s := s) (k0 := k);
      [exact I | cbn; lia | | | | | cbn; lia | cbn; tauto | ]; unfold put, with_objs.
    + intros j N. apply aget_aset_other. exact N.
    + intros j N. quiet_tac.
    + intros; reflexivity.
    + intros; unfold cur_key; cbn; tauto.
    + cbn [objs next]. rewrite aget_aset_same. split; [|exact R]. destruct T.
      constructor; cbn [set_tok t_dur t_period t_args t_prog t_canceled t_reg t_tok queue clock running].
      * destruct ti_creation0 as (c0 & rp & E1 & P). exists c0, rp. trace_simp. rewrite E1. auto.
      * trace_simp. lia.
      * rewrite ti_queue0, Q. reflexivity.
      * unfold cur_key in *. cbn [cur]. rewrite <- ti_cur0, Q. split; discriminate.
      * congruence.
      * intros [C|C]; [rewrite app_nil_r in C|];
          (destruct ti_cancel_complete0 as [X|X]; [auto | congruence | congruence]).
      * unfold timing in *. cbn [set_tok t_tok t_dur clock]. rewrite Q in ti_timing0.
        destruct ti_timing0 as (t0 & A & B). exists t0. trace_simp. split; [exact A | lia].
      * trace_simp. cbn [live]. rewrite Q in ti_le0. cbn [live] in ti_le0. lia.
      * intros _ Rn'. trace_simp. cbn [live]. specialize (ti_eq0 Ca Rn'). rewrite Q in ti_eq0. cbn [live] in ti_eq0. lia.
      * intro O. trace_simp. specialize (ti_oneshot0 O). lia.
  - apply inv_frame with (s := s) (k0 := k);
      [exact I | cbn; lia | | | | | cbn; lia | cbn; tauto | ]; unfold put, with_objs.
    + intros j N. apply aget_aset_other. exact N.
    + intros j N. quiet_tac.
    + intros; reflexivity.
    + intros; unfold cur_key; cbn; tauto.
    + cbn [objs next]. rewrite aget_aset_same. split; [|exact R]. destruct T.
      constructor; cbn [set_tok t_dur t_period t_args t_prog t_canceled t_reg t_tok queue clock running].
      * destruct ti_creation0 as (c0 & rp & E1 & P). exists c0, rp. trace_simp. rewrite E1. auto.
      * trace_simp. lia.
      * rewrite ti_queue0, Q. reflexivity.
      * unfold cur_key in *. cbn [cur]. rewrite <- ti_cur0, Q. split; discriminate.
      * congruence.
      * intros _. right. reflexivity.
      * exact Logic.I.
      * trace_simp. cbn [live]. rewrite Q in ti_le0. cbn [live] in ti_le0. lia.
      * congruence.
      * intro O. trace_simp. specialize (ti_oneshot0 O). lia.
Qed.

Lemma inv_fire_send s tr k :
  Inv s tr -> Inv (fst (fire_send s k)) (tr ++ snd (fire_send s k)).
Proof.
  intro I. unfold fire_send.
  destruct (aget k (objs s)) as [t|] eqn:E; [|cbn [fst snd]; rewrite app_nil_r; exact I].
  destruct (t_tok t) eqn:Q; try (cbn [fst snd]; rewrite app_nil_r; exact I).
  destruct (Z.of_nat (length (queue s) - recvd s) <? qcap) eqn:D; [|cbn [fst snd]; rewrite app_nil_r; exact I].
  destruct (inv_some _ _ _ _ I E) as [T R]. cbn [fst snd].
  apply inv_frame with (s := s) (k0 := k);
    [exact I | cbn; lia | | | | | cbn; lia | cbn; tauto | ]; unfold put, with_objs, with_queue.
  - intros j N. apply aget_aset_other. exact N.
  - intros j N. quiet_tac.
  - intros j N. cbn [queue]. rewrite zcount_app. cbn [zcount].
    destruct (Z.eqb_spec j k); [congruence | lia].
  - intros; unfold cur_key; cbn; tauto.
  - cbn [objs next]. rewrite aget_aset_same. split; [|exact R]. destruct T.
    constructor; cbn [set_tok t_dur t_period t_args t_prog t_canceled t_reg t_tok queue clock running].
    + destruct ti_creation0 as (c0 & rp & E1 & P). exists c0, rp. trace_simp. rewrite E1. auto.
    + trace_simp. lia.
    + rewrite zcount_app, ti_queue0, Q. cbn [zcount qcount]. rewrite Z.eqb_refl. reflexivity.
    + unfold cur_key in *. cbn [cur]. rewrite <- ti_cur0, Q. split; discriminate.
    + intro C. destruct (ti_cancel_sound0 C) as [A B]. split; [apply cancelled_in_app_l; exact A | discriminate].
    + intros [C|C].
      * apply cancelled_in_noc in C; [|intros [X|[]]; discriminate].
        destruct ti_cancel_complete0 as [X|X]; [auto | auto | congruence].
      * destruct ti_cancel_complete0 as [X|X]; [auto | auto | congruence].
    + unfold timing in *. cbn [set_tok t_tok t_dur clock]. rewrite Q in ti_timing0.
      destruct ti_timing0 as (t0 & A & B). exists t0. trace_simp. split; [exact A | lia].
    + trace_simp. cbn [live]. rewrite Q in ti_le0. cbn [live] in ti_le0. lia.
    + intros Ca Rn'. trace_simp. cbn [live]. specialize (ti_eq0 Ca Rn'). rewrite Q in ti_eq0. cbn [live] in ti_eq0. lia.
    + intro O. trace_simp. specialize (ti_oneshot0 O). lia.
Qed.

Lemma inv_ext s s' tr :
  Inv s tr -> next s' = next s -> objs s' = objs s -> queue s' = queue s ->
  cur_key s' = cur_key s -> clock s <= clock s' -> (running s' = true -> running s = true) ->
  Inv s' tr.
Proof.
  intros I Hn Ho Hq Hc Hk Hr. split; [destruct I; lia|]. intro k. rewrite Ho.
  destruct (aget k (objs s)) as [t|] eqn:E.
  - destruct (inv_some _ _ _ _ I E) as [T R]. split; [|lia].
    rewrite <- (app_nil_r tr). apply TI_frame with (s := s); auto.
    + apply quiet_nil.
    + rewrite Hq. reflexivity.
    + rewrite Hc. tauto.
  - rewrite <- (app_nil_r tr). apply Absent_frame with (s := s); auto.
    + eapply inv_none; eauto.
    + apply quiet_nil.
    + rewrite Hq. reflexivity.
    + rewrite Hc. tauto.
Qed.

(* events that concern no timer leave every per-timer fact alone *)
Lemma inv_quiet_events s s' tr e :
  Inv s tr -> (forall k, quiet k e) ->
  next s' = next s -> objs s' = objs s -> queue s' = queue s ->
  cur_key s' = cur_key s -> clock s <= clock s' -> (running s' = true -> running s = true) ->
  Inv s' (tr ++ e).
Proof.
  intros I Q Hn Ho Hq Hc Hk Hr. split; [destruct I; lia|]. intro k. rewrite Ho.
  destruct (aget k (objs s)) as [t|] eqn:E.
  - destruct (inv_some _ _ _ _ I E) as [T R]. split; [|lia].
    apply TI_frame with (s := s); auto.
    + rewrite Hq. reflexivity.
    + rewrite Hc. tauto.
  - apply Absent_frame with (s := s); auto.
    + eapply inv_none; eauto.
    + rewrite Hq. reflexivity.
    + rewrite Hc. tauto.
Qed.

Lemma inv_mgr_stop s tr : Inv s tr -> Inv (fst (mgr_stop s)) (tr ++ snd (mgr_stop s)).
Proof.
  intro I. unfold mgr_stop. cbn [fst snd].
  apply inv_quiet_events with (s := s);
    [exact I | intro k; quiet_tac | reflexivity | reflexivity | reflexivity | reflexivity | cbn; lia | cbn; discriminate].
Qed.

Lemma inv_svc_close s tr : Inv s tr -> Inv (fst (svc_close s)) (tr ++ snd (svc_close s)).
Proof.
  intro I. unfold svc_close. destruct (life_of s); cbn [fst snd]; try (rewrite app_nil_r; exact I).
  apply inv_quiet_events with (s := s);
    [exact I | intro k; quiet_tac | reflexivity | reflexivity | reflexivity | reflexivity | cbn; lia | cbn; tauto].
Qed.

Lemma inv_svc_start s tr : Inv s tr -> Inv (fst (svc_start s)) (tr ++ snd (svc_start s)).
Proof.
  intro I. unfold svc_start. destruct (life_of s); cbn [fst snd]; try (rewrite app_nil_r; exact I).
  apply inv_quiet_events with (s := s);
    [exact I | intro k; quiet_tac | reflexivity | reflexivity | reflexivity | reflexivity | cbn; lia | cbn; tauto].
Qed.

Lemma inv_loop_end s tr : Inv s tr -> Inv (fst (loop_end s)) (tr ++ snd (loop_end s)).
Proof.
  intro I. unfold loop_end. destruct (life_of s); destruct (cur s) eqn:Cu; cbn [fst snd];
    try (rewrite app_nil_r; exact I).
  apply inv_quiet_events with (s := s);
    [exact I | intro k; quiet_tac | reflexivity | reflexivity | reflexivity | reflexivity | cbn; lia | cbn; tauto].
Qed.

Lemma svc_stop_eq s :
  svc_stop s = (fst (svc_close (fst (mgr_stop s))), snd (mgr_stop s) ++ snd (svc_close (fst (mgr_stop s)))).
Proof. unfold svc_stop. destruct (mgr_stop s) as [s1 e1]. cbn [fst snd]. destruct (svc_close s1); reflexivity. Qed.

Lemma svc_stop_events s : snd (svc_stop s) = [EStop] \/ snd (svc_stop s) = [EStop; EClose].
Proof.
  rewrite svc_stop_eq. unfold mgr_stop, svc_close. cbn [fst snd with_running life_of].
  destruct (life_of s); cbn [snd app]; auto.
Qed.

Lemma inv_svc_stop s tr : Inv s tr -> Inv (fst (svc_stop s)) (tr ++ snd (svc_stop s)).
Proof.
  intro I. rewrite svc_stop_eq. cbn [fst snd]. rewrite app_assoc.
  apply inv_svc_close. apply inv_mgr_stop. exact I.
Qed.

Lemma inv_cb_step s tr :
  Inv s tr -> Inv (fst (cb_step s)) (tr ++ snd (cb_step s)).
Proof.
  intro I. unfold cb_step. destruct (cur s) as [[k acts]|] eqn:Cu;
    [|cbn [fst snd]; rewrite app_nil_r; exact I].
  assert (CK : cur_key s = Some k) by (unfold cur_key; rewrite Cu; reflexivity).
  assert (W : forall r, Inv (with_cur s (Some (k, r))) tr).
  { intro r. apply inv_ext with (s := s); auto; try reflexivity; try lia. }
  destruct acts as [|[|j|d rep a p| |] r].
  - apply inv_ret; assumption.
  - apply inv_cancel. apply W.
  - apply inv_cancel. apply W.
  - apply inv_create. apply W.
  - apply inv_ret; assumption.
  - apply inv_svc_stop. apply W.
Qed.

Lemma inv_step s tr x : Inv s tr -> Inv (fst (step s x)) (tr ++ snd (step s x)).
Proof.
  intro I. destruct x as [d rep a p|k| |k| | |dt|k|k| | | | ]; cbn [step].
  - apply inv_create. exact I.
  - apply inv_cancel. exact I.
  - apply inv_mgr_stop. exact I.
  - apply inv_begin. exact I.
  - destruct (queue s) as [|k q]; [cbn [fst snd]; rewrite app_nil_r; exact I | apply inv_begin; exact I].
  - apply inv_cb_step. exact I.
  - cbn [fst snd]. rewrite app_nil_r. apply inv_ext with (s := s); auto; cbn; lia.
  - apply inv_fire_check. exact I.
  - apply inv_fire_send. exact I.
  - unfold recv. destruct (drains (life_of s) && (recvd s <? length (queue s))%nat);
      cbn [fst snd]; rewrite app_nil_r; [|exact I].
    apply inv_ext with (s := s); auto; cbn; lia.
  - apply inv_svc_start. exact I.
  - apply inv_svc_close. exact I.
  - apply inv_loop_end. exact I.
Qed.

Lemma run_from_app xs : forall s ys,
  run_from s (xs ++ ys) =
  (fst (run_from (fst (run_from s xs)) ys),
   snd (run_from s xs) ++ snd (run_from (fst (run_from s xs)) ys)).
Proof.
  induction xs as [|x r IH]; intros s ys; cbn [app run_from].
  - cbn [fst snd app]. destruct (run_from s ys); reflexivity.
  - destruct (step s x) as [s1 e1]. rewrite IH.
    destruct (run_from s1 r) as [s2 e2]. cbn [fst snd].
    destruct (run_from s2 ys) as [s3 e3]. cbn [fst snd]. rewrite app_assoc. reflexivity.
Qed.

Lemma inv_run_from xs : forall s tr,
  Inv s tr -> Inv (fst (run_from s xs)) (tr ++ snd (run_from s xs)).
Proof.
  induction xs as [|x r IH]; intros s tr I; cbn [run_from].
  - cbn [fst snd]. rewrite app_nil_r. exact I.
  - pose proof (inv_step s tr x I) as I1. destruct (step s x) as [s1 e1]. cbn [fst snd] in I1.
    specialize (IH s1 _ I1). destruct (run_from s1 r) as [s2 e2]. cbn [fst snd] in *.
    rewrite app_assoc. exact IH.
Qed.

Lemma inv_reachable xs : Inv (final xs) (trace xs).
Proof. apply (inv_run_from xs init [] inv_init). Qed.

(* ================= what a step can emit ================= *)
Inductive shape (s : st) : list ev -> Prop :=
| sh_nil : shape s []
| sh_create k c d rep a : shape s [ECreate k c d rep a]
| sh_cancel k : shape s [ECancel k]
| sh_stop : shape s [EStop]
| sh_queued k : shape s [EQueued k]
| sh_cb k t : cur s = None -> zmem k (queue s) = true -> aget k (objs s) = Some t ->
              t_canceled t = false -> shape s [ECb k (clock s) (t_args t)]
| sh_ret k p t : cur_key s = Some k -> aget k (objs s) = Some t ->
                 (t_canceled t = true \/ (0 <? t_period t) = false) -> shape s [ERet k p]
| sh_rearm k p t : cur_key s = Some k -> aget k (objs s) = Some t ->
                   t_canceled t = false -> (0 <? t_period t) = true ->
                   shape s [ERet k p; EArm k (clock s)]
| sh_ret_none k p : cur_key s = Some k -> aget k (objs s) = None -> shape s [ERet k p]
| sh_start : shape s [EStart]
| sh_close : shape s [EClose]
| sh_loopend : shape s [ELoopEnd]
| sh_stopclose : shape s [EStop; EClose].

Lemma shape_begin s k : shape s (snd (begin_at s k)).
Proof.
  unfold begin_at. destruct (cur s) eqn:Cu; [constructor|].
  destruct (drains (life_of s)); cbn [negb]; [|constructor].
  destruct (zmem k (queue s)) eqn:M; [|constructor].
  destruct (aget k (objs s)) as [t|] eqn:E; [|constructor].
  destruct (t_canceled t) eqn:Ca; cbn [snd]; [constructor | apply sh_cb; assumption].
Qed.

Lemma shape_ret s k p : cur_key s = Some k -> shape s (snd (ret s k p)).
Proof.
  intro CK. unfold ret. destruct (aget k (objs s)) as [t|] eqn:E; [|apply sh_ret_none; assumption].
  destruct (t_canceled t) eqn:Ca; [cbn [snd]; eapply sh_ret; eauto|].
  destruct (0 <? t_period t) eqn:Pe; cbn [snd]; [eapply sh_rearm; eauto | eapply sh_ret; eauto].
Qed.

Lemma shape_step s x : shape s (snd (step s x)).
Proof.
  destruct x as [d rep a p|k| |k| | |dt|k|k| | | | ]; cbn [step].
  - constructor.
  - constructor.
  - constructor.
  - apply shape_begin.
  - destruct (queue s); [constructor | apply shape_begin].
  - unfold cb_step. destruct (cur s) as [[k acts]|] eqn:Cu; [|constructor].
    assert (CK : cur_key s = Some k) by (unfold cur_key; rewrite Cu; reflexivity).
    destruct acts as [|[|j|d rep a p| |] r]; try constructor; try (apply shape_ret; exact CK).
    unfold svc_stop, mgr_stop, svc_close. cbn [with_running with_cur life_of].
    destruct (life_of s); cbn [snd app]; constructor.
  - constructor.
  - unfold fire_check. destruct (aget k (objs s)) as [t|]; [|constructor].
    destruct (t_tok t); try constructor. destruct (_ <=? _); [|constructor].
    destruct (t_canceled t); [constructor|]. destruct (running s); constructor.
  - unfold fire_send. destruct (aget k (objs s)) as [t|]; [|constructor].
    destruct (t_tok t); try constructor. destruct (_ <? _); constructor.
  - unfold recv. destruct (_ && _); constructor.
  - unfold svc_start. destruct (life_of s); constructor.
  - unfold svc_close. destruct (life_of s); constructor.
  - unfold loop_end. destruct (life_of s); destruct (cur s); constructor.
Qed.

(* ================= the trace properties are preserved by every step ================= *)
Definition Good (tr : list ev) : Prop :=
  never_after_cancel tr /\ never_early_with_args tr /\ repeat_rearms tr.

Lemma good_nil : Good [].
Proof.
  split; [|split].
  - intros k t1 t2 E. destruct t1; discriminate.
  - intros k c a t1 t2 E. destruct t1; discriminate.
  - intros k p t1 t2 clk d rep a E. destruct t1; discriminate.
Qed.

Lemma split1 {A} (e1 t2 : list A) x y : e1 ++ x :: t2 = [y] -> e1 = [] /\ x = y /\ t2 = [].
Proof. destruct e1 as [|z [|w r]]; cbn; intro E; inv E; auto. Qed.

Lemma split2 {A} (e1 t2 : list A) x y z :
  e1 ++ x :: t2 = [y; z] -> (e1 = [] /\ x = y /\ t2 = [z]) \/ (e1 = [y] /\ x = z /\ t2 = []).
Proof. destruct e1 as [|a [|b [|c r]]]; cbn; intro E; inv E; auto. Qed.

Lemma no_cb_app k a b : no_cb k a -> no_cb k b -> no_cb k (a ++ b).
Proof. intros A B c x I. apply in_app_or in I. destruct I; [eapply A | eapply B]; eauto. Qed.
Lemma no_arm_app k a b : no_arm k a -> no_arm k b -> no_arm k (a ++ b).
Proof. intros A B c I. apply in_app_or in I. destruct I; [eapply A | eapply B]; eauto. Qed.

(* a timer that is cancelled or whose token is dead produces neither callback nor re-arm *)
Lemma shape_silent s tr e k t :
  Inv s tr -> shape s e -> aget k (objs s) = Some t ->
  t_canceled t = true \/ t_tok t = Dead -> no_cb k e /\ no_arm k e.
Proof.
  intros I Sh E D. destruct (inv_some _ _ _ _ I E) as [T _].
  destruct Sh as [|k' c d rep a|k'| |k'|k' t' Cu M E' Ca|k' p t' CK E' X|k' p t' CK E' Ca Pe|k' p CK E'| | | | ];
    try (split; [intros c0 a0 H | intros c0 H]; cbn in H; intuition discriminate).
  - split; [|intros c0 H; cbn in H; intuition discriminate].
    intros c0 a0 [H|[]]. inv H. rewrite E in E'. inv E'.
    destruct (queued_timer _ _ _ I M) as (t2 & E2 & Q & _). rewrite E in E2. inv E2.
    destruct D; congruence.
  - split; [intros c0 a0 H; cbn in H; intuition discriminate|].
    intros c0 [H|[H|[]]]; [discriminate|]. inv H. rewrite E in E'. inv E'.
    destruct (in_cb_timer _ _ _ I CK) as (t2 & E2 & Q). rewrite E in E2. inv E2.
    destruct D; congruence.
Qed.

Lemma good_step s tr e : Inv s tr -> Good tr -> shape s e -> Good (tr ++ e).
Proof.
  intros I (G1 & G2 & G3) Sh. split; [|split].
  - (* never after cancel *)
    intros k t1 t2 E Cr. apply app_split in E. destruct E as [[m [E1 E2]]|[e1 [E1 E2]]].
    + destruct (G1 _ _ _ E1 Cr) as [A B]. subst t2.
      assert (CI : cancelled_in k tr) by (exists t1, m; split; assumption).
      destruct (aget k (objs s)) as [t|] eqn:Ek.
      * destruct (inv_some _ _ _ _ I Ek) as [T _].
        destruct (shape_silent _ _ _ _ _ I Sh Ek (ti_cancel_complete _ _ _ _ T (or_introl CI))) as [A2 B2].
        split; [apply no_cb_app | apply no_arm_app]; assumption.
      * exfalso. pose proof (ab_creation _ _ _ (inv_none _ _ _ I Ek)) as X.
        assert (C2 : created_in k tr) by (subst tr; apply created_in_app_l; exact Cr).
        apply created_in_creation in C2. congruence.
    + symmetry in E1. destruct Sh; try (destruct e1 as [|? [|? ?]]; cbn in E1; inv E1; fail).
      * apply split1 in E1. destruct E1 as (_ & _ & ->). split; [intros c a [] | intros c []].
      * apply split2 in E1. destruct E1 as [(_ & X & _)|(_ & X & _)]; discriminate.
      * apply split2 in E1. destruct E1 as [(_ & X & _)|(_ & X & _)]; discriminate.
  - (* never early, with the args of creation *)
    intros k c a t1 t2 E. apply app_split in E. destruct E as [[m [E1 E2]]|[e1 [E1 E2]]].
    + eapply G2; eauto.
    + symmetry in E1. destruct Sh as [|k' c' d rep a'|k'| |k'|k' t' Cu M E' Ca|k' p t' CK E' X|k' p t' CK E' Ca Pe|k' p CK E'| | | | ];
        try (destruct e1 as [|? [|? ?]]; cbn in E1; inv E1; fail).
      * apply split1 in E1. destruct E1 as (-> & X & _). inv X. rewrite app_nil_r.
        destruct (queued_timer _ _ _ I M) as (t2' & E2 & Q & _). rewrite E' in E2. inv E2.
        destruct (inv_some _ _ _ _ I E') as [T _].
        destruct (ti_creation _ _ _ _ T) as (c0 & rp & Ec & _).
        pose proof (ti_timing _ _ _ _ T) as Tm. unfold timing in Tm. rewrite Q in Tm.
        destruct Tm as (t0 & A & B). exists c0, (t_dur t2'), rp, t0. auto.
      * apply split2 in E1. destruct E1 as [(_ & X & _)|(_ & X & _)]; discriminate.
      * apply split2 in E1. destruct E1 as [(_ & X & _)|(_ & X & _)]; discriminate.
  - (* re-arm after every completed callback *)
    intros k p t1 t2 clk d rep a E Cre Rep NCan. apply app_split in E.
    destruct E as [[m [E1 E2]]|[e1 [E1 E2]]].
    + destruct (G3 _ _ _ _ _ _ _ _ E1 Cre Rep NCan) as (c & t3 & ->). subst t2.
      exists c, (t3 ++ e). reflexivity.
    + symmetry in E1. destruct Sh as [|k' c' d' rep' a'|k'| |k'|k' t' Cu M E' Ca|k' p' t' CK E' X|k' p' t' CK E' Ca Pe|k' p' CK E'| | | | ];
        try (destruct e1 as [|? [|? ?]]; cbn in E1; inv E1; fail).
      * exfalso. apply split1 in E1. destruct E1 as (-> & X1 & _). inv X1. rewrite app_nil_r in *.
        destruct (inv_some _ _ _ _ I E') as [T _].
        destruct X as [X|X].
        -- apply NCan. apply (ti_cancel_sound _ _ _ _ T X).
        -- destruct (ti_creation _ _ _ _ T) as (c0 & rp & Ec & P). rewrite Ec in Cre. inv Cre.
           unfold repeating in Rep. destruct rep; cbn in Rep; [|discriminate]. rewrite P in X. congruence.
      * apply split2 in E1. destruct E1 as [(-> & X1 & ->)|(_ & X1 & _)]; [|discriminate].
        inv X1. eauto.
      * exfalso. destruct (in_cb_timer _ _ _ I CK) as (tq & Eq & _). congruence.
      * apply split2 in E1. destruct E1 as [(_ & X & _)|(_ & X & _)]; discriminate.
Qed.

Lemma good_run_from xs : forall s tr,
  Inv s tr -> Good tr -> Good (tr ++ snd (run_from s xs)).
Proof.
  induction xs as [|x r IH]; intros s tr I G; cbn [run_from].
  - cbn [snd]. rewrite app_nil_r. exact G.
  - pose proof (inv_step s tr x I) as I1. pose proof (good_step s tr _ I G (shape_step s x)) as G1.
    destruct (step s x) as [s1 e1]. cbn [fst snd] in *.
    specialize (IH s1 _ I1 G1). destruct (run_from s1 r) as [s2 e2]. cbn [snd] in *.
    rewrite app_assoc. exact IH.
Qed.

Lemma good_trace xs : Good (trace xs).
Proof. apply (good_run_from xs init [] inv_init good_nil). Qed.

(* ================= consequences for every step list ================= *)
Lemma never_after_cancel_all xs : never_after_cancel (trace xs).
Proof. apply good_trace. Qed.
Lemma never_early_all xs : never_early_with_args (trace xs).
Proof. apply good_trace. Qed.
Lemma repeat_rearms_all xs : repeat_rearms (trace xs).
Proof. apply good_trace. Qed.

Lemma upper_all xs : as_often_as_asked_upper (trace xs).
Proof.
  intro k. pose proof (inv_reachable xs) as I.
  destruct (aget k (objs (final xs))) as [t|] eqn:E.
  - destruct (inv_some _ _ _ _ I E) as [T _]. split.
    + pose proof (ti_le _ _ _ _ T). destruct (t_tok t); cbn [live] in *; lia.
    + intros clk d rep a C R. apply (ti_oneshot _ _ _ _ T).
      destruct (ti_creation _ _ _ _ T) as (c0 & rp & Ec & P). rewrite Ec in C. inv C.
      rewrite P. unfold repeating in R. destruct rep; cbn in R; [exact R | reflexivity].
  - destruct (inv_none _ _ _ I E). split; [lia|]. intros. congruence.
Qed.

Lemma ids_unique_all xs : ids_unique (trace xs).
Proof.
  intro k. pose proof (inv_reachable xs) as I.
  destruct (aget k (objs (final xs))) as [t|] eqn:E.
  - destruct (inv_some _ _ _ _ I E) as [T _]. rewrite (ti_unique _ _ _ _ T). lia.
  - rewrite (ab_unique _ _ _ (inv_none _ _ _ I E)). lia.
Qed.

(* Mgr.running is still true unless Stop was called *)
Lemma running_begin s k : running (fst (begin_at s k)) = running s.
Proof.
  unfold begin_at. destruct (cur s); [reflexivity|].
  destruct (drains (life_of s)); cbn [negb]; [|reflexivity]. destruct (zmem k (queue s)); [|reflexivity].
  destruct (aget k (objs s)) as [t|]; [destruct (t_canceled t)|]; reflexivity.
Qed.

Lemma running_step s x : running (fst (step s x)) = running s \/ In EStop (snd (step s x)).
Proof.
  destruct x as [d rep a p|k| |k| | |dt|k|k| | | | ]; cbn [step].
  - left. reflexivity.
  - left. unfold cancel. cbn [fst]. destruct (aget k (objs s)) as [t|]; [destruct (t_reg t)|]; reflexivity.
  - right. left. reflexivity.
  - left. apply running_begin.
  - left. destruct (queue s) as [|k q]; [reflexivity | apply running_begin].
  - unfold cb_step. destruct (cur s) as [[k acts]|]; [|left; reflexivity].
    assert (R : forall p, running (fst (ret s k p)) = running s).
    { intro p. unfold ret. destruct (aget k (objs s)) as [t|]; [|reflexivity].
      destruct (t_canceled t); [reflexivity|]. destruct (0 <? t_period t); reflexivity. }
    destruct acts as [|[|j|d rep a p| |] r]; auto.
    + left. unfold cancel. cbn [fst with_cur objs].
      destruct (aget k (objs s)) as [t|]; [destruct (t_reg t)|]; reflexivity.
    + left. unfold cancel. cbn [fst with_cur objs].
      destruct (aget j (objs s)) as [t|]; [destruct (t_reg t)|]; reflexivity.
    + right. rewrite svc_stop_eq. cbn [snd mgr_stop]. left. reflexivity.
  - left. reflexivity.
  - left. unfold fire_check. destruct (aget k (objs s)) as [t|]; [|reflexivity].
    destruct (t_tok t); try reflexivity. destruct (_ <=? _); [|reflexivity].
    destruct (t_canceled t); [reflexivity|]. destruct (running s) eqn:Rn; cbn; exact Rn.
  - left. unfold fire_send. destruct (aget k (objs s)) as [t|]; [|reflexivity].
    destruct (t_tok t); try reflexivity. destruct (_ <? _); reflexivity.
  - left. unfold recv. destruct (_ && _); reflexivity.
  - left. unfold svc_start. destruct (life_of s); reflexivity.
  - left. unfold svc_close. destruct (life_of s); reflexivity.
  - left. unfold loop_end. destruct (life_of s); destruct (cur s); reflexivity.
Qed.

Lemma running_run_from xs : forall s,
  running (fst (run_from s xs)) = running s \/ In EStop (snd (run_from s xs)).
Proof.
  induction xs as [|x r IH]; intro s; cbn [run_from]; [left; reflexivity|].
  pose proof (running_step s x) as R. destruct (step s x) as [s1 e1]. cbn [fst snd] in R.
  specialize (IH s1). destruct (run_from s1 r) as [s2 e2]. cbn [fst snd] in *.
  destruct R as [R|R]; [|right; apply in_or_app; left; exact R].
  destruct IH as [H|H]; [left; congruence | right; apply in_or_app; right; exact H].
Qed.

Lemma exact_count xs k t :
  aget k (objs (final xs)) = Some t -> ~ cancelled_in k (trace xs) -> ~ In EStop (trace xs) ->
  count_cb k (trace xs) + live (t_tok t) = arms k (trace xs).
Proof.
  intros E NC NS. destruct (inv_some _ _ _ _ (inv_reachable xs) E) as [T _].
  apply (ti_eq _ _ _ _ T).
  - destruct (t_canceled t) eqn:Ca; [|reflexivity]. exfalso. apply NC. apply (ti_cancel_sound _ _ _ _ T Ca).
  - destruct (running_run_from xs init) as [R|R]; [exact R | contradiction].
Qed.

(* ================= progress: enabled steps do what they should ================= *)
Lemma fire_check_ok s k t dl :
  aget k (objs s) = Some t -> t_tok t = Pending dl -> dl <= clock s ->
  t_canceled t = false -> running s = true ->
  fire_check s k = (put s k (set_tok Firing t), []).
Proof.
  intros E Q D Ca Rn. unfold fire_check. rewrite E, Q, Ca, Rn.
  destruct (Z.leb_spec dl (clock s)); [reflexivity | lia].
Qed.

Lemma fire_send_ok s k t :
  aget k (objs s) = Some t -> t_tok t = Firing -> Z.of_nat (length (queue s) - recvd s) < qcap ->
  fire_send s k = (put (with_queue s (queue s ++ [k])) k (set_tok Queued t), [EQueued k]).
Proof.
  intros E Q L. unfold fire_send. rewrite E, Q.
  destruct (Z.ltb_spec (Z.of_nat (length (queue s) - recvd s)) qcap); [reflexivity | lia].
Qed.

Lemma begin_ok s k t :
  cur s = None -> drains (life_of s) = true ->
  zmem k (queue s) = true -> aget k (objs s) = Some t -> t_canceled t = false ->
  begin_at s k =
    (with_cur (put (dequeue s k) k (set_tok InCb t)) (Some (k, t_prog t)),
     [ECb k (clock s) (t_args t)]).
Proof. intros Cu Dr M E Ca. unfold begin_at. rewrite Cu, Dr, M, E, Ca. reflexivity. Qed.

Lemma remove_first_snoc k q : zcount k q = 0%nat -> remove_first k (q ++ [k]) = q.
Proof.
  induction q as [|y r IH]; cbn [app remove_first zcount]; intro Z0.
  - rewrite Z.eqb_refl. reflexivity.
  - destruct (Z.eqb k y); [lia|]. rewrite IH by lia. reflexivity.
Qed.

Lemma zmem_snoc k q : zmem k (q ++ [k]) = true.
Proof. apply zmem_In. apply in_or_app. right. left. reflexivity. Qed.

Lemma aset_aset {V} k (v v' : V) m : aset k v (aset k v' m) = aset k v m.
Proof.
  induction m as [|[k' w] r IH]; cbn [aset].
  - rewrite Z.ltb_irrefl, Z.eqb_refl. reflexivity.
  - destruct (Z.ltb_spec k k'); cbn [aset].
    + rewrite Z.ltb_irrefl, Z.eqb_refl. reflexivity.
    + destruct (Z.eqb_spec k k'); cbn [aset].
      * rewrite Z.ltb_irrefl, Z.eqb_refl. reflexivity.
      * destruct (Z.ltb_spec k k'); [lia|]. destruct (Z.eqb_spec k k'); [contradiction|].
        rewrite IH. reflexivity.
Qed.

(* time passes, the runtime fires the armed timer k, the owner receives the expiry and calls
   Do: the callback is invoked, at a clock not before the deadline, with the creation args *)
Lemma fire_and_begin s tr k t dl dt :
  Inv s tr -> cur s = None -> running s = true -> drains (life_of s) = true ->
  Z.of_nat (length (queue s)) < qcap ->
  aget k (objs s) = Some t -> t_canceled t = false -> t_tok t = Pending dl ->
  dl <= clock s + Z.max 0 dt ->
  run_from s [SAdvance dt; SFireCheck k; SFireSend k; SBegin k] =
    (mkS (clock s + Z.max 0 dt) (running s) (next s) (aset k (set_tok InCb t) (objs s)) (queue s)
         (Some (k, t_prog t)) (pred (recvd s)) (life_of s),
     [EQueued k; ECb k (clock s + Z.max 0 dt) (t_args t)]).
Proof.
  intros I Cu Rn Dr L E Ca Q D.
  destruct (inv_some _ _ _ _ I E) as [T _]. pose proof (ti_queue _ _ _ _ T) as Zq.
  rewrite Q in Zq. cbn [qcount] in Zq.
  cbn [run_from step].
  set (s1 := mkS (clock s + Z.max 0 dt) (running s) (next s) (objs s) (queue s) (cur s) (recvd s) (life_of s)).
  rewrite (fire_check_ok s1 k t dl) by (cbn; auto).
  set (s2 := put s1 k (set_tok Firing t)).
  rewrite (fire_send_ok s2 k (set_tok Firing t))
    by (cbn [s2 s1 put with_objs objs queue recvd]; auto; try apply aget_aset_same; lia).
  set (s3 := put (with_queue s2 (queue s2 ++ [k])) k (set_tok Queued (set_tok Firing t))).
  rewrite (begin_ok s3 k (set_tok Queued (set_tok Firing t))).
  2: exact Cu.
  2: exact Dr.
  2: { cbn [s3 s2 s1 put with_objs with_queue queue]. apply zmem_snoc. }
  2: { cbn [s3 put with_objs objs]. apply aget_aset_same. }
  2: exact Ca.
  subst s3 s2 s1. unfold with_cur, put, with_queue, with_objs, dequeue.
  cbn [objs queue cur clock running next recvd life_of set_tok
       t_dur t_period t_args t_prog t_canceled t_reg t_tok].
  rewrite !aset_aset, (remove_first_snoc _ _ Zq). reflexivity.
Qed.

(* ---- a live repeating timer fires again and again ---- *)
Lemma ret_rearm s k t pan :
  aget k (objs s) = Some t -> t_canceled t = false -> 0 < t_period t ->
  ret s k pan = (put (with_cur s None) k (set_tok (Pending (clock s + t_period t)) t),
                 [ERet k pan; EArm k (clock s)]).
Proof.
  intros E Ca P. unfold ret. rewrite E, Ca.
  destruct (Z.ltb_spec 0 (t_period t)); [reflexivity | lia].
Qed.

Lemma idle_cb n : forall s, cur s = None -> run_from s (repeat SCbStep n) = (s, []).
Proof.
  induction n as [|n IH]; intros s Cu; cbn [repeat run_from]; [reflexivity|].
  cbn [step]. unfold cb_step. rewrite Cu. rewrite (IH s Cu). reflexivity.
Qed.

Definition cb_done (s s' : st) (e : list ev) (k : Z) (t : timer) : Prop :=
  cur s' = None /\
  aget k (objs s') = Some (set_tok (Pending (clock s + t_period t)) t) /\
  running s' = running s /\ queue s' = queue s /\ clock s' = clock s /\ life_of s' = life_of s /\
  count_cb k e = 0.

Lemma cb_loop k n : forall s tr acts t,
  Inv s tr -> cur s = Some (k, acts) -> (length acts <= n)%nat -> keeps k acts ->
  aget k (objs s) = Some t -> t_canceled t = false -> 0 < t_period t ->
  cb_done s (fst (run_from s (repeat SCbStep (S n)))) (snd (run_from s (repeat SCbStep (S n)))) k t.
Proof.
  induction n as [|n IH]; intros s tr acts t I Cu Ln Kp E Ca P; unfold cb_done.
  - destruct acts; [|cbn in Ln; lia].
    cbn [repeat run_from step]. unfold cb_step. rewrite Cu, (ret_rearm _ _ _ _ E Ca P).
    cbn [fst snd put with_cur with_objs objs cur running queue clock life_of app count_cb].
    rewrite aget_aset_same. auto 10.
  - assert (Fin : forall pan,
      cb_step s = ret s k pan ->
      cb_done s (fst (run_from s (repeat SCbStep (S (S n))))) (snd (run_from s (repeat SCbStep (S (S n))))) k t).
    { intros pan H. change (repeat SCbStep (S (S n))) with (SCbStep :: repeat SCbStep (S n)).
      cbn [run_from step]. rewrite H, (ret_rearm _ _ _ _ E Ca P).
      rewrite idle_cb by reflexivity. unfold cb_done.
      cbn [fst snd put with_cur with_objs objs cur running queue clock life_of app count_cb].
      rewrite aget_aset_same. auto 10. }
    assert (Go : forall s1 e1 r,
      cb_step s = (s1, e1) -> cur s1 = Some (k, r) -> (length r <= n)%nat -> keeps k r ->
      aget k (objs s1) = Some t -> running s1 = running s -> queue s1 = queue s ->
      clock s1 = clock s -> life_of s1 = life_of s -> count_cb k e1 = 0 ->
      cb_done s (fst (run_from s (repeat SCbStep (S (S n))))) (snd (run_from s (repeat SCbStep (S (S n))))) k t).
    { intros s1 e1 r H Cu1 Lr Kr E1 Rn1 Q1 C1 L1 Z1.
      change (repeat SCbStep (S (S n))) with (SCbStep :: repeat SCbStep (S n)).
      cbn [run_from step]. rewrite H.
      pose proof (inv_cb_step s tr I) as I1. rewrite H in I1. cbn [fst snd] in I1.
      destruct (IH s1 _ r t I1 Cu1 Lr Kr E1 Ca P) as (A1 & A2 & A3 & A4 & A5 & A6 & A7).
      destruct (run_from s1 (repeat SCbStep (S n))) as [s2 e2]. cbn [fst snd] in *.
      unfold cb_done. rewrite count_cb_app, C1 in *. repeat split; try congruence. lia. }
    fold (cb_done s (fst (run_from s (repeat SCbStep (S (S n))))) (snd (run_from s (repeat SCbStep (S (S n))))) k t).
    destruct acts as [|a r]; [apply (Fin false); unfold cb_step; rewrite Cu; reflexivity|].
    assert (Kr : keeps k r) by (intros x Hx; apply Kp; right; exact Hx).
    cbn [length] in Ln.
    destruct a as [|j|d rep a p| |].
    + exfalso. destruct (Kp ACancelSelf (or_introl eq_refl)) as [X _]. congruence.
    + assert (N : j <> k).
      { intro X. subst j. destruct (Kp (ACancel k) (or_introl eq_refl)) as (_ & X & _). congruence. }
      eapply Go with (r := r); [unfold cb_step; rewrite Cu; reflexivity | | lia | exact Kr | | | | | | ];
        unfold cancel; cbn [fst snd with_cur objs cur].
      * destruct (aget j (objs s)) as [tj|]; [destruct (t_reg tj)|]; reflexivity.
      * destruct (aget j (objs s)) as [tj|]; [destruct (t_reg tj)|]; cbn [put with_objs objs]; auto.
        rewrite aget_aset_other by congruence. exact E.
      * destruct (aget j (objs s)) as [tj|]; [destruct (t_reg tj)|]; reflexivity.
      * destruct (aget j (objs s)) as [tj|]; [destruct (t_reg tj)|]; reflexivity.
      * destruct (aget j (objs s)) as [tj|]; [destruct (t_reg tj)|]; reflexivity.
      * destruct (aget j (objs s)) as [tj|]; [destruct (t_reg tj)|]; reflexivity.
      * cbn [count_cb]. reflexivity.
    + destruct (inv_some _ _ _ _ I E) as [_ Rk].
      eapply Go with (r := r); [unfold cb_step; rewrite Cu; reflexivity | | lia | exact Kr | | | | | | ];
        unfold create; cbn [fst snd with_cur objs cur next running queue clock life_of count_cb]; try reflexivity.
      rewrite aget_aset_other by lia. exact E.
    + apply (Fin true). unfold cb_step. rewrite Cu. reflexivity.
    + exfalso. destruct (Kp AStop (or_introl eq_refl)) as (_ & _ & X). congruence.
Qed.

(* the callback of a live repeating timer k has been entered on a live loop: finishing it leaves
   k armed for the next period - the situation CyclePre describes *)
Lemma finish_cycle s tr k d p t :
  Inv s tr -> cur s = Some (k, p) -> running s = true -> life_of s = LUp ->
  Z.of_nat (length (queue s)) < qcap ->
  aget k (objs s) = Some t -> t_canceled t = false -> t_period t = d -> 0 < d ->
  t_prog t = p -> keeps k p ->
  exists t',
    CyclePre (fst (run_from s (repeat SCbStep (S (length p))))) k d p t' /\
    count_cb k (snd (run_from s (repeat SCbStep (S (length p))))) = 0.
Proof.
  intros I Cu Rn Up Cap E Ca Pe Po Pr Kp.
  destruct (cb_loop k (length p) s tr p t I Cu (le_n _) Kp E Ca) as (A1 & A2 & A3 & A4 & A5 & A6 & A7);
    [lia|].
  exists (set_tok (Pending (clock s + t_period t)) t). split; [|exact A7].
  constructor; auto.
  - rewrite A3. exact Rn.
  - rewrite A6. exact Up.
  - rewrite A4. exact Cap.
  - eexists. split; [reflexivity|]. rewrite A5. lia.
Qed.

Lemma cycle_once s tr k d p t :
  Inv s tr -> CyclePre s k d p t ->
  exists t',
    CyclePre (fst (run_from s (cycle k d (length p)))) k d p t' /\
    count_cb k (snd (run_from s (cycle k d (length p)))) = 1.
Proof.
  intros I [Cu Rn Up Cap E Ca Pe Po Pr Kp (dl & Q & D)].
  unfold cycle. rewrite run_from_app.
  assert (M : Z.max 0 d = d) by lia.
  assert (Dr : drains (life_of s) = true) by (rewrite Up; reflexivity).
  rewrite (fire_and_begin s tr k t dl d I Cu Rn Dr Cap E Ca Q) by lia.
  pose proof (inv_run_from [SAdvance d; SFireCheck k; SFireSend k; SBegin k] s tr I) as I4.
  rewrite (fire_and_begin s tr k t dl d I Cu Rn Dr Cap E Ca Q) in I4 by lia.
  cbn [fst snd] in *. rewrite M in *.
  set (s4 := mkS (clock s + d) (running s) (next s) (aset k (set_tok InCb t) (objs s)) (queue s)
                 (Some (k, t_prog t)) (pred (recvd s)) (life_of s)) in *.
  destruct (finish_cycle s4 _ k d p (set_tok InCb t) I4) as (t' & P' & C'); try reflexivity; auto.
  - cbn [s4 cur]. rewrite Pr. reflexivity.
  - cbn [s4 objs]. apply aget_aset_same.
  - exists t'. split; [exact P'|]. rewrite count_cb_app, C'. cbn [count_cb]. rewrite Z.eqb_refl. lia.
Qed.

Lemma cycles_count m : forall s tr k d p t,
  Inv s tr -> CyclePre s k d p t ->
  count_cb k (snd (run_from s (cycles m k d (length p)))) = Z.of_nat m.
Proof.
  induction m as [|m IH]; intros s tr k d p t I P; [reflexivity|].
  cbn [cycles]. rewrite run_from_app. cbn [snd].
  destruct (cycle_once s tr k d p t I P) as (t' & P' & C).
  pose proof (inv_run_from (cycle k d (length p)) s tr I) as I'.
  rewrite count_cb_app, C, (IH _ _ k d p t' I' P'). lia.
Qed.

Lemma trace_app xs ys : trace (xs ++ ys) = trace xs ++ snd (run_from (final xs) ys).
Proof. unfold trace, final. rewrite run_from_app. reflexivity. Qed.

Lemma repeat_fires_n xs k d t m :
  CyclePre (final xs) k d (t_prog t) t ->
  count_cb k (trace (xs ++ cycles m k d (length (t_prog t)))) = count_cb k (trace xs) + Z.of_nat m.
Proof.
  intro P. rewrite trace_app, count_cb_app.
  rewrite (cycles_count m _ _ k d (t_prog t) t (inv_reachable xs) P). reflexivity.
Qed.

Lemma fire_then_do xs k t dl dt :
  cur (final xs) = None -> running (final xs) = true -> drains (life_of (final xs)) = true ->
  Z.of_nat (length (queue (final xs))) < qcap ->
  aget k (objs (final xs)) = Some t -> t_canceled t = false -> t_tok t = Pending dl ->
  dl <= clock (final xs) + Z.max 0 dt ->
  trace (xs ++ [SAdvance dt; SFireCheck k; SFireSend k; SBegin k]) =
  trace xs ++ [EQueued k; ECb k (clock (final xs) + Z.max 0 dt) (t_args t)].
Proof.
  intros Cu Rn Dr Cap E Ca Q D. rewrite trace_app.
  rewrite (fire_and_begin _ _ k t dl dt (inv_reachable xs) Cu Rn Dr Cap E Ca Q D). reflexivity.
Qed.

Lemma queued_do xs k t :
  cur (final xs) = None -> drains (life_of (final xs)) = true ->
  aget k (objs (final xs)) = Some t -> t_tok t = Queued ->
  t_canceled t = false ->
  trace (xs ++ [SBegin k]) = trace xs ++ [ECb k (clock (final xs)) (t_args t)].
Proof.
  intros Cu Dr E Q Ca. rewrite trace_app. cbn [run_from step].
  destruct (inv_some _ _ _ _ (inv_reachable xs) E) as [T _].
  pose proof (ti_queue _ _ _ _ T) as Zq. rewrite Q in Zq. cbn [qcount] in Zq.
  assert (M : zmem k (queue (final xs)) = true).
  { apply zmem_In. apply zcount_In. lia. }
  rewrite (begin_ok _ k t Cu Dr M E Ca). reflexivity.
Qed.

(* ---- a panic is an early return: same state, nothing else touched ---- *)
Lemma ret_frame s k pan :
  (forall j, j <> k -> aget j (objs (fst (ret s k pan))) = aget j (objs s)) /\
  queue (fst (ret s k pan)) = queue s /\ running (fst (ret s k pan)) = running s /\
  clock (fst (ret s k pan)) = clock s /\ next (fst (ret s k pan)) = next s /\
  cur (fst (ret s k pan)) = None.
Proof.
  unfold ret. destruct (aget k (objs s)) as [t|]; [|cbn; auto 10].
  destruct (t_canceled t); [|destruct (0 <? t_period t)];
    cbn [fst put with_cur with_objs objs queue running clock next cur];
    (split; [intros j N; apply aget_aset_other; exact N | auto 10]).
Qed.

Lemma panic_is_return s k r :
  cur s = Some (k, APanic :: r) ->
  fst (cb_step s) = fst (cb_step (with_cur s (Some (k, [])))) /\
  snd (cb_step s) = map (fun e => match e with ERet j _ => ERet j true | x => x end)
                        (snd (cb_step (with_cur s (Some (k, []))))) /\
  (forall j, j <> k -> aget j (objs (fst (cb_step s))) = aget j (objs s)) /\
  queue (fst (cb_step s)) = queue s /\ running (fst (cb_step s)) = running s /\
  clock (fst (cb_step s)) = clock s /\ next (fst (cb_step s)) = next s /\
  cur (fst (cb_step s)) = None.
Proof.
  intro Cu. unfold cb_step. rewrite Cu. cbn [with_cur cur].
  split; [|split; [|apply ret_frame]].
  - unfold ret. cbn [with_cur objs clock]. destruct (aget k (objs s)) as [t|]; [|reflexivity].
    destruct (t_canceled t); [|destruct (0 <? t_period t)]; reflexivity.
  - unfold ret. cbn [with_cur objs clock]. destruct (aget k (objs s)) as [t|]; [|reflexivity].
    destruct (t_canceled t); [|destruct (0 <? t_period t)]; reflexivity.
Qed.

(* ---- callbacks are started by the owner's Do only ---- *)
Lemma cb_only_from_do s x k c a :
  In (ECb k c a) (snd (step s x)) ->
  (x = SBegin k \/ (x = SDoNext /\ hd_error (queue s) = Some k)) /\ cur s = None /\ c = clock s /\
  drains (life_of s) = true.
Proof.
  assert (B : forall j, In (ECb k c a) (snd (begin_at s j)) ->
                        j = k /\ cur s = None /\ c = clock s /\ drains (life_of s) = true).
  { intro j. unfold begin_at. destruct (cur s); [intros []|].
    destruct (drains (life_of s)); cbn [negb]; [|intros []].
    destruct (zmem j (queue s)); [|intros []]. destruct (aget j (objs s)) as [t|]; [|intros []].
    destruct (t_canceled t); [intros []|]. intros [H|[]]. inv H. auto. }
  assert (R : forall j p, ~ In (ECb k c a) (snd (ret s j p))).
  { intros j p. unfold ret. destruct (aget j (objs s)) as [t|]; [|intros [H|[]]; discriminate].
    destruct (t_canceled t); [|destruct (0 <? t_period t)]; cbn [snd]; intros H; cbn in H; intuition discriminate. }
  destruct x as [d rep a' p|j| |j| | |dt|j|j| | | | ]; cbn [step].
  - intros [H|[]]. discriminate.
  - intros [H|[]]. discriminate.
  - intros [H|[]]. discriminate.
  - intro H. destruct (B _ H) as (-> & Cu & C & Dr). auto.
  - destruct (queue s) as [|j q] eqn:Q; [intros []|]. intro H. destruct (B _ H) as (-> & Cu & C & Dr). auto 6.
  - unfold cb_step. destruct (cur s) as [[j acts]|]; [|intros []].
    destruct acts as [|[|i|d rep a' p| |] r]; intro H; try (exfalso; eapply R; exact H);
      try (cbn in H; intuition discriminate).
    destruct (svc_stop_events (with_cur s (Some (j, r)))) as [X|X]; rewrite X in H; cbn in H;
      intuition discriminate.
  - intros [].
  - unfold fire_check. destruct (aget j (objs s)) as [t|]; [|intros []].
    destruct (t_tok t); try (intros []). destruct (_ <=? _); [|intros []].
    destruct (t_canceled t); [intros []|]. destruct (running s); intros [].
  - unfold fire_send. destruct (aget j (objs s)) as [t|]; [|intros []].
    destruct (t_tok t); try (intros []). destruct (_ <? _); [|intros []]. intros [H|[]]. discriminate.
  - unfold recv. destruct (_ && _); intros [].
  - unfold svc_start. destruct (life_of s); cbn; intuition discriminate.
  - unfold svc_close. destruct (life_of s); cbn; intuition discriminate.
  - unfold loop_end. destruct (life_of s); destruct (cur s); cbn; intuition discriminate.
Qed.

(* ---- the harness' logical ops are step lists: every theorem above applies to them ---- *)
Lemma ops_trace_steps ops : forall s bs, ops_trace s ops bs = snd (run_from s (steps_of s ops bs)).
Proof.
  induction ops as [|o r IH]; intros s bs; cbn [ops_trace steps_of]; [reflexivity|].
  rewrite run_from_app. cbn [snd]. rewrite IH. reflexivity.
Qed.

Lemma exec_from_obs ops : forall s tr bs,
  exec_from s tr ops bs =
  match ops with
  | [] => []
  | o :: r => obs_of o (hint bs) tr (snd (run_from s (compile s o (hint bs))))
              :: exec_from (fst (run_from s (compile s o (hint bs))))
                           (tr ++ snd (run_from s (compile s o (hint bs)))) r (tl bs)
  end.
Proof.
  destruct ops as [|o r]; intros s tr bs; cbn [exec_from]; [reflexivity|].
  destruct (run_from s (compile s o (hint bs))); reflexivity.
Qed.

Lemma one_token xs k :
  zcount k (queue (final xs)) =
  match aget k (objs (final xs)) with Some t => qcount (t_tok t) | None => 0%nat end.
Proof.
  pose proof (inv_reachable xs) as I. destruct (aget k (objs (final xs))) as [t|] eqn:E.
  - destruct (inv_some _ _ _ _ I E) as [T _]. apply (ti_queue _ _ _ _ T).
  - apply (ab_queue _ _ _ (inv_none _ _ _ I E)).
Qed.

Lemma ops_are_steps ops bs :
  start_trace ops ++ ops_trace (start_state ops) ops bs =
  trace (pre_steps ops ++ steps_of (start_state ops) ops bs).
Proof.
  unfold trace, start_trace, start_state. rewrite run_from_app. cbn [snd].
  rewrite ops_trace_steps. reflexivity.
Qed.

(* ---- non-vacuity witnesses ---- *)
Lemma keeps_example : keeps 0 [ACreate 1 false 3 []; APanic].
Proof. intros a [<-|[<-|[]]]; repeat split; discriminate. Qed.

Lemma cyclepre_example :
  exists t, CyclePre (final [SStart; SCreate 2 true 7 [ACreate 1 false 3 []; APanic]]) 0 2
                     [ACreate 1 false 3 []; APanic] t
            /\ t_prog t = [ACreate 1 false 3 []; APanic].
Proof.
  eexists. split; [constructor; try reflexivity|reflexivity].
  - exact keeps_example.
  - exists 2. split; [reflexivity | cbn; lia].
Qed.

Lemma oneshot_once xs k clk d rep a :
  creation k (trace xs) = Some (clk, d, rep, a) -> repeating d rep = false ->
  count_cb k (trace xs) <= 1.
Proof.
  intros C R. destruct (upper_all xs k) as [U O]. rewrite (O _ _ _ _ C R) in U. exact U.
Qed.

Lemma args_as_created xs k c a t1 t2 :
  trace xs = t1 ++ ECb k c a :: t2 -> exists clk d rep, creation k t1 = Some (clk, d, rep, a).
Proof.
  intro E. destruct (never_early_all xs _ _ _ _ _ E) as (clk & d & rep & t0 & C & _).
  exists clk, d, rep. exact C.
Qed.

(* ====================================================================================
   The executable monitor accepts the model's own observations, for every op list.
   ==================================================================================== *)

(* ---- list / alist helpers ---- *)
Lemma length_aset_new {V} k (v : V) m : aget k m = None -> length (aset k v m) = S (length m).
Proof.
  induction m as [|[k' w] r IH]; cbn [aget aset length]; intro N; [reflexivity|].
  destruct (Z.eqb_spec k k'); [discriminate|].
  destruct (Z.ltb k k'); cbn [length]; [reflexivity|]. rewrite IH by exact N. reflexivity.
Qed.

Lemma length_aset_old {V} k (v w0 : V) m :
  sorted m -> aget k m = Some w0 -> length (aset k v m) = length m.
Proof.
  induction m as [|[k' w] r IH]; cbn [aget aset length]; intros S N; [discriminate|].
  cbn [sorted] in S. destruct S as [L S].
  destruct (Z.eqb_spec k k').
  - subst. rewrite Z.ltb_irrefl. reflexivity.
  - destruct (Z.ltb_spec k k'); cbn [length].
    + exfalso. rewrite (lb_not_in k r) in N; [discriminate|]. eapply lb_trans; eauto.
    + rewrite IH; auto.
Qed.

Lemma lb_not_key {V} k (m : alist V) : lb k m -> ~ In k (map fst m).
Proof.
  induction m as [|[k' v] r IH]; cbn [lb map fst In]; [tauto|]. intros [L1 L2] [E|I]; [lia | exact (IH L2 I)].
Qed.

Lemma pending_keys_in m k : In k (map fst (pending m)) -> In k (map fst m).
Proof.
  induction m as [|[k' t] r IH]; cbn [pending map fst In]; [tauto|].
  destruct (t_tok t); try destruct (t_dur t <? far); cbn [map fst In]; intuition.
Qed.

Lemma pending_nodup m : sorted m -> NoDup (map fst (pending m)).
Proof.
  induction m as [|[k t] r IH]; cbn [sorted pending map]; [constructor|]. intros [L S].
  destruct (t_tok t); auto. destruct (t_dur t <? far); auto. cbn [map fst]. constructor; [|auto].
  intro I. apply pending_keys_in in I. exact (lb_not_key _ _ L I).
Qed.

Lemma pending_spec m k dl :
  In (k, dl) (pending m) -> sorted m -> exists t, aget k m = Some t /\ t_tok t = Pending dl.
Proof.
  induction m as [|[k' t] r IH]; cbn [pending sorted]; [intros []|]. intros I [L S].
  assert (Rest : In (k, dl) (pending r) -> exists t0, aget k ((k', t) :: r) = Some t0 /\ t_tok t0 = Pending dl).
  { intro I2. destruct (IH I2 S) as (t0 & E & Q). exists t0. split; [|exact Q]. cbn [aget].
    destruct (Z.eqb_spec k k'); [|exact E]. subst. rewrite (lb_not_in _ _ L) in E. discriminate. }
  destruct (t_tok t) eqn:Q; auto. destruct (t_dur t <? far); auto. destruct I as [E|I]; [|auto].
  inv E. exists t. cbn [aget]. rewrite Z.eqb_refl. auto.
Qed.

Lemma subseq_In {A} (l ks : list A) x : subseq l ks -> In x l -> In x ks.
Proof.
  induction 1 as [ks|s y ks H IH|s y ks H IH]; cbn [In]; [tauto | intuition | intuition].
Qed.

Lemma subseq_NoDup {A} (l ks : list A) : subseq l ks -> NoDup ks -> NoDup l.
Proof.
  induction 1 as [ks|s y ks H IH|s y ks H IH]; intro N; [constructor | inv N; auto |].
  inv N. constructor; [|auto]. intro I. apply H2. eapply subseq_In; eauto.
Qed.

Lemma subseq_app2 {A} (a b c d : list A) : subseq a c -> subseq b d -> subseq (a ++ b) (c ++ d).
Proof.
  induction 1 as [l| |]; intro H2; cbn [app].
  - induction l; cbn [app]; [exact H2 | constructor; assumption].
  - constructor. auto.
  - apply subseq_take. auto.
Qed.

Lemma zcount_le1_NoDup l : (forall k, (zcount k l <= 1)%nat) -> NoDup l.
Proof.
  induction l as [|x r IH]; intro H; [constructor|]. constructor.
  - intro I. apply zcount_In in I. specialize (H x). cbn [zcount] in H. rewrite Z.eqb_refl in H. lia.
  - apply IH. intro k. specialize (H k). cbn [zcount] in H. lia.
Qed.

Lemma zinsert_In x y l : In x (zinsert y l) <-> x = y \/ In x l.
Proof.
  induction l as [|z r IH]; cbn [zinsert In]; [intuition|].
  destruct (y <=? z); cbn [In]; [intuition | rewrite IH; intuition].
Qed.

Lemma zinsert_NoDup y l : ~ In y l -> NoDup l -> NoDup (zinsert y l).
Proof.
  induction l as [|z r IH]; cbn [zinsert]; intros N D; [constructor; [tauto | constructor]|].
  destruct (y <=? z); [constructor; assumption|]. inv D. constructor.
  - rewrite zinsert_In. cbn [In] in N. intuition.
  - apply IH; [cbn [In] in N; tauto | assumption].
Qed.

Lemma zsort_In x l : In x (zsort l) <-> In x l.
Proof.
  induction l as [|y r IH]; cbn [zsort fold_right In]; [tauto|].
  fold (zsort r). rewrite zinsert_In, IH. intuition.
Qed.

Lemma zsort_NoDup l : NoDup l -> NoDup (zsort l).
Proof.
  induction 1 as [|y r N D IH]; cbn [zsort fold_right]; [constructor|]. fold (zsort r).
  apply zinsert_NoDup; [rewrite zsort_In; exact N | exact IH].
Qed.

Lemma nodupb_of_subseq l ks : subseq l ks -> NoDup ks -> nodupb l = true.
Proof. intros S N. apply nodupb_NoDup. eapply subseq_NoDup; eauto. Qed.

Lemma count_cb_nonneg k tr : 0 <= count_cb k tr.
Proof. induction tr as [|x r IH]; cbn [count_cb]; [lia|]. destruct x; try exact IH. destruct (Z.eqb k k0); lia. Qed.

Definition nocb (e : list ev) : Prop := forall k c a, ~ In (ECb k c a) e.

Lemma cbrecs_nocb e : nocb e -> forall tr, cbrecs tr e = [].
Proof.
  induction e as [|x r IH]; intros N tr; [reflexivity|].
  assert (N2 : nocb r) by (intros k c a I; apply (N k c a); right; exact I).
  destruct x; cbn [cbrecs]; try (apply IH; exact N2).
  exfalso. apply (N k clk a). left. reflexivity.
Qed.

Lemma cbrecs_app e1 : forall tr e2, cbrecs tr (e1 ++ e2) = cbrecs tr e1 ++ cbrecs (tr ++ e1) e2.
Proof.
  induction e1 as [|x r IH]; intros tr e2; cbn [app cbrecs]; [rewrite app_nil_r; reflexivity|].
  destruct x; cbn [cbrecs app]; rewrite IH, <- app_assoc; reflexivity.
Qed.

Lemma nocb_app a b : nocb a -> nocb b -> nocb (a ++ b).
Proof. intros A B k c x I. apply in_app_or in I. destruct I; [eapply A | eapply B]; eauto. Qed.

Lemma queued_of_app a b : queued_of (a ++ b) = queued_of a ++ queued_of b.
Proof. induction a as [|x r IH]; cbn [app queued_of]; [reflexivity|]. destruct x; cbn [app]; rewrite IH; reflexivity. Qed.

Lemma m_cbs_app l1 : forall m l2,
  m_cbs m (l1 ++ l2) =
  (fst (m_cbs m l1) && fst (m_cbs (snd (m_cbs m l1)) l2), snd (m_cbs (snd (m_cbs m l1)) l2)).
Proof.
  induction l1 as [|r t IH]; intros m l2; cbn [app m_cbs].
  - cbn [fst snd andb]. destruct (m_cbs m l2); reflexivity.
  - destruct (m_cb m r) as [b m1]. rewrite IH. destruct (m_cbs m1 t) as [b2 m2]. cbn [fst snd].
    destruct (m_cbs m2 l2) as [b3 m3]. cbn [fst snd]. rewrite andb_assoc. reflexivity.
Qed.

(* ---- steps other than create keep the set of timers and their fixed fields ---- *)
Definition same_keys (s s' : st) : Prop :=
  forall k, (aget k (objs s) = None -> aget k (objs s') = None) /\
            (forall t, aget k (objs s) = Some t ->
               exists t', aget k (objs s') = Some t' /\ t_prog t' = t_prog t /\ t_period t' = t_period t).
Definition quiet_upd (s s' : st) : Prop :=
  same_keys s s' /\ next s' = next s /\ (sorted (objs s) -> sorted (objs s')).

Lemma qu_same s s' : objs s' = objs s -> next s' = next s -> quiet_upd s s'.
Proof.
  intros Ho Hn. split; [|split; [exact Hn | rewrite Ho; auto]].
  intro k. rewrite Ho. split; [auto | intros t E; exists t; auto].
Qed.

Lemma qu_put s s1 k t t1 :
  objs s1 = objs s -> next s1 = next s -> aget k (objs s) = Some t ->
  t_prog t1 = t_prog t -> t_period t1 = t_period t -> quiet_upd s (put s1 k t1).
Proof.
  intros Ho Hn E P1 P2. unfold put, with_objs. split; [|split]; cbn [objs next].
  - intro j. cbn [objs]. rewrite Ho. destruct (Z.eq_dec j k) as [->|N].
    + rewrite aget_aset_same. split; [congruence|]. intros t0 E0. rewrite E in E0. inv E0. eauto.
    + rewrite aget_aset_other by exact N. split; [auto | intros t0 E0; exists t0; auto].
  - exact Hn.
  - rewrite Ho. apply sorted_aset.
Qed.

Lemma qu_trans s1 s2 s3 : quiet_upd s1 s2 -> quiet_upd s2 s3 -> quiet_upd s1 s3.
Proof.
  intros (K1 & N1 & S1) (K2 & N2 & S2). split; [|split; [congruence | auto]].
  intro k. destruct (K1 k) as [A1 B1]. destruct (K2 k) as [A2 B2]. split; [auto|].
  intros t E. destruct (B1 t E) as (t' & E' & P1 & P2). destruct (B2 t' E') as (t'' & E'' & Q1 & Q2).
  exists t''. repeat split; congruence.
Qed.

Lemma qu_cancel s k : quiet_upd s (fst (cancel s k)).
Proof.
  unfold cancel. cbn [fst]. destruct (aget k (objs s)) as [t|] eqn:E; [|apply qu_same; reflexivity].
  destruct (t_reg t); [|apply qu_same; reflexivity].
  eapply qu_put; eauto.
Qed.

Lemma qu_begin s k : quiet_upd s (fst (begin_at s k)).
Proof.
  unfold begin_at. destruct (cur s); [apply qu_same; reflexivity|].
  destruct (drains (life_of s)); cbn [negb]; [|apply qu_same; reflexivity].
  destruct (zmem k (queue s)); [|apply qu_same; reflexivity].
  destruct (aget k (objs s)) as [t|] eqn:E; [|apply qu_same; reflexivity].
  destruct (t_canceled t); cbn [fst].
  - eapply qu_put; eauto.
  - eapply qu_trans; [eapply (qu_put s (with_queue s (remove_first k (queue s))) k t (set_tok InCb t)); eauto|].
    apply qu_same; reflexivity.
Qed.

Lemma qu_ret s k p : quiet_upd s (fst (ret s k p)).
Proof.
  unfold ret. destruct (aget k (objs s)) as [t|] eqn:E; [|apply qu_same; reflexivity].
  destruct (t_canceled t); [|destruct (0 <? t_period t)]; cbn [fst]; eapply qu_put; eauto.
Qed.

Lemma qu_fire_check s k : quiet_upd s (fst (fire_check s k)).
Proof.
  unfold fire_check. destruct (aget k (objs s)) as [t|] eqn:E; [|apply qu_same; reflexivity].
  destruct (t_tok t); try (apply qu_same; reflexivity).
  destruct (_ <=? _); [|apply qu_same; reflexivity].
  destruct (t_canceled t); [|destruct (running s)]; cbn [fst]; eapply qu_put; eauto.
Qed.

Lemma qu_fire_send s k : quiet_upd s (fst (fire_send s k)).
Proof.
  unfold fire_send. destruct (aget k (objs s)) as [t|] eqn:E; [|apply qu_same; reflexivity].
  destruct (t_tok t); try (apply qu_same; reflexivity).
  destruct (_ <? _); [|apply qu_same; reflexivity]. cbn [fst]. eapply qu_put; eauto.
Qed.

Lemma objs_svc_stop s : objs (fst (svc_stop s)) = objs s /\ next (fst (svc_stop s)) = next s.
Proof.
  rewrite svc_stop_eq. unfold mgr_stop, svc_close. cbn [fst with_running life_of].
  destruct (life_of s); cbn; auto.
Qed.

Lemma qu_svc_stop s : quiet_upd s (fst (svc_stop s)).
Proof. destruct (objs_svc_stop s). apply qu_same; assumption. Qed.

Lemma sorted_step s x : sorted (objs s) -> sorted (objs (fst (step s x))).
Proof.
  intro S. destruct x as [d rep a p|k| |k| | |dt|k|k| | | | ]; cbn [step].
  - cbn. apply sorted_aset. exact S.
  - apply (qu_cancel s k). exact S.
  - exact S.
  - apply (qu_begin s k). exact S.
  - destruct (queue s) as [|k q]; [exact S | apply (qu_begin s k); exact S].
  - unfold cb_step. destruct (cur s) as [[k acts]|]; [|exact S].
    destruct acts as [|[|j|d rep a p| |] r].
    + apply (qu_ret s k false). exact S.
    + apply (qu_cancel (with_cur s (Some (k, r))) k). exact S.
    + apply (qu_cancel (with_cur s (Some (k, r))) j). exact S.
    + cbn. apply sorted_aset. exact S.
    + apply (qu_ret s k true). exact S.
    + apply (qu_svc_stop (with_cur s (Some (k, r)))). exact S.
  - exact S.
  - apply (qu_fire_check s k). exact S.
  - apply (qu_fire_send s k). exact S.
  - unfold recv. destruct (_ && _); exact S.
  - unfold svc_start. destruct (life_of s); exact S.
  - unfold svc_close. destruct (life_of s); exact S.
  - unfold loop_end. destruct (life_of s); destruct (cur s); exact S.
Qed.

Lemma sorted_run_from xs : forall s, sorted (objs s) -> sorted (objs (fst (run_from s xs))).
Proof.
  induction xs as [|x r IH]; intros s S; cbn [run_from]; [exact S|].
  pose proof (sorted_step s x S) as S1. destruct (step s x) as [s1 e1]. cbn [fst] in S1.
  specialize (IH s1 S1). destruct (run_from s1 r) as [s2 e2]. exact IH.
Qed.

(* ---- the monitor's state is a projection of (model state, trace) ---- *)
Definition RI (tr : list ev) (k : Z) (t : timer) (i : minfo) : Prop :=
  m_prog i = t_prog t /\ m_count i = count_cb k tr /\
  (m_cancelled i = true -> cancelled_in k tr) /\ m_rep i = (0 <? t_period t).

Definition Rel (s : st) (tr : list ev) (m : mstate) : Prop :=
  sorted m /\ Z.of_nat (length m) = next s /\
  forall k, match aget k m, aget k (objs s) with
            | Some i, Some t => RI tr k t i
            | None, None => True
            | _, _ => False
            end.

Lemma rel_init : Rel init [] [].
Proof. split; [exact Logic.I|]. split; [reflexivity|]. intro k. exact Logic.I. Qed.

Lemma count_cb_nocb k e : nocb e -> count_cb k e = 0.
Proof.
  induction e as [|x r IH]; intro N; [reflexivity|].
  assert (N2 : nocb r) by (intros j c a I; apply (N j c a); right; exact I).
  destruct x; cbn [count_cb]; auto. exfalso. apply (N k0 clk a). left. reflexivity.
Qed.

Lemma rel_quiet s s' tr e m :
  Rel s tr m -> quiet_upd s s' -> nocb e -> Rel s' (tr ++ e) m.
Proof.
  intros (S & L & H) (K & N & _) NC. split; [exact S|]. split; [congruence|].
  intro k. specialize (H k). destruct (K k) as [A B].
  destruct (aget k m) as [i|]; destruct (aget k (objs s)) as [t|] eqn:E; try contradiction.
  - destruct (B t eq_refl) as (t' & E' & P1 & P2). rewrite E'.
    destruct H as (H1 & H2 & H3 & H4). repeat split.
    + congruence.
    + rewrite count_cb_app, (count_cb_nocb k e NC). lia.
    + intro C. apply cancelled_in_app_l. auto.
    + congruence.
  - rewrite (A eq_refl). exact Logic.I.
Qed.

Lemma rel_get s tr m k i :
  Rel s tr m -> aget k m = Some i -> exists t, aget k (objs s) = Some t /\ RI tr k t i.
Proof.
  intros (_ & _ & H) E. specialize (H k). rewrite E in H.
  destruct (aget k (objs s)) as [t|]; [eauto | contradiction].
Qed.

Lemma rel_get' s tr m k t :
  Rel s tr m -> aget k (objs s) = Some t -> exists i, aget k m = Some i /\ RI tr k t i.
Proof.
  intros (_ & _ & H) E. specialize (H k). rewrite E in H.
  destruct (aget k m) as [i|]; [eauto | contradiction].
Qed.

Lemma rel_none s tr m k : Rel s tr m -> aget k (objs s) = None -> aget k m = None.
Proof.
  intros (_ & _ & H) E. specialize (H k). rewrite E in H.
  destruct (aget k m); [contradiction | reflexivity].
Qed.

(* replacing the monitor's record of an existing timer *)
Lemma rel_update s tr m k i i' :
  Rel s tr m -> aget k m = Some i ->
  (forall t, aget k (objs s) = Some t -> RI tr k t i') ->
  Rel s tr (aset k i' m).
Proof.
  intros (S & L & H) E U. split; [apply sorted_aset; exact S|].
  split; [rewrite (length_aset_old _ _ _ _ S E); exact L|].
  intro j. destruct (Z.eq_dec j k) as [->|N].
  - rewrite aget_aset_same. specialize (H k). rewrite E in H.
    destruct (aget k (objs s)) as [t|]; [auto | contradiction].
  - rewrite aget_aset_other by exact N. apply H.
Qed.

Lemma rel_create s tr m d rep a p :
  Inv s tr -> Rel s tr m ->
  Rel (fst (create s d rep a p)) (tr ++ snd (create s d rep a p)) (m_create m d rep p).
Proof.
  intros I (S & L & H). pose proof (inv_fresh _ _ I) as F.
  pose proof (rel_none _ _ _ _ (conj S (conj L H)) F) as Fm.
  destruct (inv_none _ _ _ I F) as [_ _ _ _ Cb _].
  unfold create, m_create, m_next. cbn [fst snd]. rewrite L.
  split; [apply sorted_aset; exact S|].
  split; [cbn [next]; rewrite (length_aset_new _ _ _ Fm); lia|].
  intro k. cbn [objs]. destruct (Z.eq_dec k (next s)) as [->|N].
  - rewrite !aget_aset_same. repeat split; cbn [m_prog m_count m_cancelled m_rep t_prog t_period].
    + rewrite count_cb_app, Cb. reflexivity.
    + discriminate.
    + unfold repeating. destruct rep; reflexivity.
  - rewrite !aget_aset_other by exact N. specialize (H k).
    destruct (aget k m) as [i|]; destruct (aget k (objs s)) as [t|]; auto.
    destruct H as (H1 & H2 & H3 & H4). repeat split; auto.
    + rewrite count_cb_app. cbn [count_cb]. lia.
    + intro C. apply cancelled_in_app_l. auto.
Qed.

Lemma rel_cancel s tr m k :
  Inv s tr -> Rel s tr m ->
  Rel (fst (cancel s k)) (tr ++ snd (cancel s k)) (m_cancel m k).
Proof.
  intros I R.
  assert (R1 : Rel (fst (cancel s k)) (tr ++ [ECancel k]) m).
  { apply rel_quiet with (s := s); [exact R | apply qu_cancel |].
    intros j c a [X|[]]. discriminate. }
  change (snd (cancel s k)) with [ECancel k].
  unfold m_cancel. destruct (aget k m) as [i|] eqn:E; [|exact R1].
  apply rel_update with (i := i); [exact R1 | exact E|].
  intros t' E'. destruct (rel_get _ _ _ _ _ R1 E) as (t2 & E2 & (H1 & H2 & H3 & H4)).
  rewrite E' in E2. inv E2. repeat split; auto. intros _.
  destruct (rel_get _ _ _ _ _ R E) as (t0 & E0 & _).
  apply cancelled_in_snoc. eapply TI_created. apply (inv_some _ _ _ _ I E0).
Qed.

Lemma rel_ext s s' tr m : objs s' = objs s -> next s' = next s -> Rel s tr m -> Rel s' tr m.
Proof. intros Ho Hn (S & L & H). split; [exact S|]. split; [congruence|]. rewrite Ho. exact H. Qed.

Lemma cur_cancel s k : cur (fst (cancel s k)) = cur s.
Proof. unfold cancel. cbn [fst]. destruct (aget k (objs s)) as [t|]; [destruct (t_reg t)|]; reflexivity. Qed.

Lemma nocb_ret s k p : nocb (snd (ret s k p)).
Proof.
  unfold ret. destruct (aget k (objs s)) as [t|]; [|intros j c a [X|[]]; discriminate].
  destruct (t_canceled t); [|destruct (0 <? t_period t)]; cbn [snd]; intros j c a X; cbn in X;
    intuition discriminate.
Qed.

Lemma cur_ret s k p : cur (fst (ret s k p)) = None.
Proof. apply ret_frame. Qed.

(* running the callback program in the model = running it in the monitor *)
Lemma prog_loop k n : forall s tr m acts,
  Inv s tr -> Rel s tr m -> cur s = Some (k, acts) -> (length acts <= n)%nat ->
  cur (fst (run_from s (repeat SCbStep (S n)))) = None /\
  Rel (fst (run_from s (repeat SCbStep (S n)))) (tr ++ snd (run_from s (repeat SCbStep (S n))))
      (m_prog_run m k acts) /\
  nocb (snd (run_from s (repeat SCbStep (S n)))).
Proof.
  induction n as [|n IH]; intros s tr m acts I R Cu Ln.
  - destruct acts; [|cbn in Ln; lia].
    cbn [repeat run_from step]. unfold cb_step. rewrite Cu.
    pose proof (cur_ret s k false) as C. pose proof (nocb_ret s k false) as N.
    pose proof (rel_quiet s _ tr _ m R (qu_ret s k false) N) as R1.
    destruct (ret s k false) as [s1 e1]. cbn [fst snd] in *. rewrite app_nil_r. auto.
  - assert (Fin : forall pan, cb_step s = ret s k pan -> forall m0, m0 = m ->
      cur (fst (run_from s (repeat SCbStep (S (S n))))) = None /\
      Rel (fst (run_from s (repeat SCbStep (S (S n)))))
          (tr ++ snd (run_from s (repeat SCbStep (S (S n))))) m0 /\
      nocb (snd (run_from s (repeat SCbStep (S (S n)))))).
    { intros pan H m0 ->. change (repeat SCbStep (S (S n))) with (SCbStep :: repeat SCbStep (S n)).
      cbn [run_from step]. rewrite H.
      pose proof (cur_ret s k pan) as C. pose proof (nocb_ret s k pan) as N.
      pose proof (rel_quiet s _ tr _ m R (qu_ret s k pan) N) as R1.
      destruct (ret s k pan) as [s1 e1]. cbn [fst snd] in *.
      rewrite (idle_cb (S n) s1 C). cbn [fst snd]. rewrite app_nil_r. auto. }
    assert (Go : forall s1 e1 r m1,
      cb_step s = (s1, e1) -> cur s1 = Some (k, r) -> (length r <= n)%nat ->
      Rel s1 (tr ++ e1) m1 -> nocb e1 ->
      cur (fst (run_from s (repeat SCbStep (S (S n))))) = None /\
      Rel (fst (run_from s (repeat SCbStep (S (S n)))))
          (tr ++ snd (run_from s (repeat SCbStep (S (S n))))) (m_prog_run m1 k r) /\
      nocb (snd (run_from s (repeat SCbStep (S (S n)))))).
    { intros s1 e1 r m1 H Cu1 Lr R1 N1.
      change (repeat SCbStep (S (S n))) with (SCbStep :: repeat SCbStep (S n)).
      cbn [run_from step]. rewrite H.
      pose proof (inv_cb_step s tr I) as I1. rewrite H in I1. cbn [fst snd] in I1.
      destruct (IH s1 _ m1 r I1 R1 Cu1 Lr) as (A1 & A2 & A3).
      destruct (run_from s1 (repeat SCbStep (S n))) as [s2 e2]. cbn [fst snd] in *.
      rewrite app_assoc. split; [exact A1|]. split; [exact A2 | apply nocb_app; assumption]. }
    destruct acts as [|a r]; [apply (Fin false); [unfold cb_step; rewrite Cu|]; reflexivity|].
    cbn [length] in Ln.
    assert (W : Inv (with_cur s (Some (k, r))) tr).
    { apply inv_ext with (s := s); auto; try reflexivity; try lia.
      unfold cur_key. cbn [with_cur cur]. rewrite Cu. reflexivity. }
    assert (RW : Rel (with_cur s (Some (k, r))) tr m) by (apply rel_ext with (s := s); auto).
    destruct a as [|j|d rep a p| |]; cbn [m_prog_run].
    + eapply Go; [unfold cb_step; rewrite Cu; apply surjective_pairing | | lia | |].
      * rewrite cur_cancel. reflexivity.
      * apply rel_cancel; assumption.
      * intros j c a [X|[]]. discriminate.
    + eapply Go; [unfold cb_step; rewrite Cu; apply surjective_pairing | | lia | |].
      * rewrite cur_cancel. reflexivity.
      * apply rel_cancel; assumption.
      * intros j' c a [X|[]]. discriminate.
    + eapply Go; [unfold cb_step; rewrite Cu; apply surjective_pairing | | lia | |].
      * reflexivity.
      * apply rel_create; assumption.
      * intros j' c a' [X|[]]. discriminate.
    + apply (Fin true); [unfold cb_step; rewrite Cu|]; reflexivity.
    + assert (NS : nocb (snd (svc_stop (with_cur s (Some (k, r)))))).
      { intros j c a H. destruct (svc_stop_events (with_cur s (Some (k, r)))) as [X|X]; rewrite X in H;
          cbn in H; intuition discriminate. }
      eapply Go; [unfold cb_step; rewrite Cu; apply surjective_pairing | | lia | | exact NS].
      * rewrite svc_stop_eq. unfold mgr_stop, svc_close. cbn [fst with_running with_cur life_of cur].
        destruct (life_of s); reflexivity.
      * apply rel_quiet with (s := with_cur s (Some (k, r))); [exact RW | apply qu_svc_stop | exact NS].
Qed.

Lemma begin_cases s k :
  cur s = None ->
  (snd (begin_at s k) = [] /\ cur (fst (begin_at s k)) = None) \/
  (exists t, drains (life_of s) = true /\ zmem k (queue s) = true /\ aget k (objs s) = Some t /\
             t_canceled t = false).
Proof.
  intro Cu. unfold begin_at. rewrite Cu.
  destruct (drains (life_of s)) eqn:Dr; cbn [negb]; [|left; auto].
  destruct (zmem k (queue s)) eqn:M; [|left; auto].
  destruct (aget k (objs s)) as [t|] eqn:E; [|left; cbn; auto].
  destruct (t_canceled t) eqn:Ca; [left; cbn; auto | right; eauto].
Qed.

Definition the_rec (k : Z) (tr : list ev) : cbrec := CbRec k (count_cb k tr + 1) true false false true.

Lemma rel_count s s' tr m k i c a :
  Rel s tr m -> quiet_upd s s' -> aget k m = Some i ->
  Rel s' (tr ++ [ECb k c a]) (aset k (mkM (m_rep i) (m_prog i) (m_cancelled i) (m_count i + 1)) m).
Proof.
  intros (S & L & H) (K & N & _) Ei. split; [apply sorted_aset; exact S|].
  split; [rewrite (length_aset_old _ _ _ _ S Ei); congruence|].
  intro j. pose proof (H j) as Hj. destruct (K j) as [A B]. destruct (Z.eq_dec j k) as [->|Nk].
  - rewrite aget_aset_same. rewrite Ei in Hj.
    destruct (aget k (objs s)) as [t|] eqn:E; [|contradiction].
    destruct (B t eq_refl) as (t' & E' & P1 & P2). rewrite E'.
    destruct Hj as (G1 & G2 & G3 & G4). repeat split; cbn [m_prog m_count m_cancelled m_rep].
    + congruence.
    + rewrite count_cb_app. cbn [count_cb]. rewrite Z.eqb_refl. lia.
    + intro C. apply cancelled_in_app_l. auto.
    + congruence.
  - rewrite aget_aset_other by exact Nk.
    destruct (aget j m) as [ij|]; destruct (aget j (objs s)) as [tj|] eqn:Ej; try contradiction.
    + destruct (B tj eq_refl) as (t' & E' & P1 & P2). rewrite E'.
      destruct Hj as (G1 & G2 & G3 & G4). repeat split.
      * congruence.
      * rewrite count_cb_app. cbn [count_cb]. destruct (Z.eqb_spec j k); [contradiction | lia].
      * intro C. apply cancelled_in_app_l. auto.
      * congruence.
    + rewrite (A eq_refl). exact Logic.I.
Qed.

(* one "Do k": either no callback (monitor state unchanged) or exactly the callback of k,
   which the monitor accepts *)
Lemma do_segment s tr m k n :
  Inv s tr -> Rel s tr m -> cur s = None ->
  (forall i, aget k m = Some i -> (length (m_prog i) <= n)%nat) ->
  cur (fst (run_from s (SBegin k :: repeat SCbStep (S n)))) = None /\
  ((cbrecs tr (snd (run_from s (SBegin k :: repeat SCbStep (S n)))) = [] /\
    Rel (fst (run_from s (SBegin k :: repeat SCbStep (S n))))
        (tr ++ snd (run_from s (SBegin k :: repeat SCbStep (S n)))) m) \/
   (exists m', cbrecs tr (snd (run_from s (SBegin k :: repeat SCbStep (S n)))) = [the_rec k tr] /\
               m_cb m (the_rec k tr) = (true, m') /\
               Rel (fst (run_from s (SBegin k :: repeat SCbStep (S n))))
                   (tr ++ snd (run_from s (SBegin k :: repeat SCbStep (S n)))) m')).
Proof.
  intros I R Cu Ln. cbn [run_from step].
  destruct (begin_cases s k Cu) as [[E0 C0]|(t & Dr & M & E & Ca)].
  - pose proof (rel_quiet s _ tr (snd (begin_at s k)) m R (qu_begin s k)) as R1. rewrite E0 in R1.
    destruct (begin_at s k) as [s1 e1]. cbn [fst snd] in *. subst e1.
    rewrite (idle_cb (S n) s1 C0). cbn [fst snd app]. split; [exact C0|]. left.
    split; [reflexivity | apply R1; intros j c a []].
  - destruct (queued_timer _ _ _ I M) as (t2 & E2 & Q & _). rewrite E in E2. inv E2.
    destruct (inv_some _ _ _ _ I E) as [T _].
    destruct (rel_get' _ _ _ _ _ R E) as (i & Ei & (H1 & H2 & H3 & H4)).
    pose proof (inv_begin s tr k I) as I1. pose proof (qu_begin s k) as Q1.
    rewrite (begin_ok s k t2 Cu Dr M E Ca) in *. cbn [fst snd] in I1, Q1.
    set (s1 := with_cur (put (dequeue s k) k (set_tok InCb t2)) (Some (k, t_prog t2))) in *.
    pose proof (rel_count s s1 tr m k i (clock s) (t_args t2) R Q1 Ei) as R1.
    set (m1 := aset k (mkM (m_rep i) (m_prog i) (m_cancelled i) (m_count i + 1)) m) in *.
    assert (Ln1 : (length (t_prog t2) <= n)%nat) by (rewrite <- H1; apply Ln; exact Ei).
    destruct (prog_loop k n s1 _ m1 (t_prog t2) I1 R1 eq_refl Ln1) as (A1 & A2 & A3).
    destruct (run_from s1 (repeat SCbStep (S n))) as [s2 e2]. cbn [fst snd] in *.
    split; [exact A1|]. right. exists (m_prog_run m1 k (m_prog i)). split; [|split].
    + cbn [app cbrecs]. rewrite (cbrecs_nocb e2 A3). reflexivity.
    + unfold the_rec, m_cb. rewrite Ei.
      assert (NCan : m_cancelled i = false).
      { destruct (m_cancelled i) eqn:X; [|reflexivity]. exfalso.
        destruct (ti_cancel_complete _ _ _ _ T (or_introl (H3 eq_refl))); congruence. }
      assert (Once : m_rep i || (m_count i =? 0) = true).
      { destruct (m_rep i) eqn:X; [reflexivity|]. cbn [orb].
        pose proof (ti_oneshot _ _ _ _ T) as O. rewrite <- H4 in O. specialize (O eq_refl).
        pose proof (ti_le _ _ _ _ T) as Le. rewrite Q in Le. cbn [live] in Le.
        pose proof (count_cb_nonneg k tr). lia. }
      f_equal. rewrite NCan, Once, H2, Z.eqb_refl. reflexivity.
    + rewrite H1. rewrite <- app_assoc in A2. exact A2.
Qed.

(* the program of an existing timer never changes *)
Lemma prog_stable_step s tr x k t :
  Inv s tr -> aget k (objs s) = Some t ->
  exists t', aget k (objs (fst (step s x))) = Some t' /\ t_prog t' = t_prog t.
Proof.
  intros I E.
  assert (Q : forall s', quiet_upd s s' -> exists t', aget k (objs s') = Some t' /\ t_prog t' = t_prog t).
  { intros s' (K & _ & _). destruct (K k) as [_ B]. destruct (B t E) as (t' & E' & P & _). eauto. }
  assert (C : forall s0 d rep a p, objs s0 = objs s -> next s0 = next s ->
              exists t', aget k (objs (fst (create s0 d rep a p))) = Some t' /\ t_prog t' = t_prog t).
  { intros s0 d rep a p Ho Hn. unfold create. cbn [fst objs]. rewrite Ho, Hn.
    destruct (inv_some _ _ _ _ I E) as [_ Rk]. rewrite aget_aset_other by lia. eauto. }
  destruct x as [d rep a p|j| |j| | |dt|j|j| | | | ]; cbn [step].
  - apply C; reflexivity.
  - apply Q, qu_cancel.
  - cbn [fst objs]. eauto.
  - apply Q, qu_begin.
  - destruct (queue s) as [|j q]; [cbn [fst]; eauto | apply Q, qu_begin].
  - unfold cb_step. destruct (cur s) as [[j acts]|]; [|cbn [fst]; eauto].
    destruct acts as [|[|i|d rep a p| |] r].
    + apply Q, qu_ret.
    + apply Q. eapply qu_trans; [|apply qu_cancel]. apply qu_same; reflexivity.
    + apply Q. eapply qu_trans; [|apply qu_cancel]. apply qu_same; reflexivity.
    + apply C; reflexivity.
    + apply Q, qu_ret.
    + apply Q. eapply qu_trans; [|apply qu_svc_stop]. apply qu_same; reflexivity.
  - cbn [fst objs]. eauto.
  - apply Q, qu_fire_check.
  - apply Q, qu_fire_send.
  - unfold recv. destruct (_ && _); cbn [fst objs]; eauto.
  - unfold svc_start. destruct (life_of s); cbn [fst objs with_life]; eauto.
  - unfold svc_close. destruct (life_of s); cbn [fst objs with_life]; eauto.
  - unfold loop_end. destruct (life_of s); destruct (cur s); cbn [fst objs with_life]; eauto.
Qed.

Lemma prog_stable_run xs : forall s tr k t,
  Inv s tr -> aget k (objs s) = Some t ->
  exists t', aget k (objs (fst (run_from s xs))) = Some t' /\ t_prog t' = t_prog t.
Proof.
  induction xs as [|x r IH]; intros s tr k t I E; cbn [run_from]; [cbn [fst]; eauto|].
  destruct (prog_stable_step s tr x k t I E) as (t1 & E1 & P1).
  pose proof (inv_step s tr x I) as I1. destruct (step s x) as [s1 e1]. cbn [fst snd] in *.
  destruct (IH s1 _ k t1 I1 E1) as (t2 & E2 & P2). destruct (run_from s1 r) as [s2 e2]. cbn [fst] in *.
  exists t2. split; [exact E2 | congruence].
Qed.

(* "Do" of every key of ks in turn *)
Definition seg (nlen : Z -> nat) (k : Z) : list step_t := SBegin k :: repeat SCbStep (S (nlen k)).

Lemma doall_loop nlen ks : forall s tr m,
  Inv s tr -> Rel s tr m -> cur s = None ->
  (forall k, In k ks -> exists t, aget k (objs s) = Some t /\ (length (t_prog t) <= nlen k)%nat) ->
  cur (fst (run_from s (flat_map (seg nlen) ks))) = None /\
  exists m', m_cbs m (cbrecs tr (snd (run_from s (flat_map (seg nlen) ks)))) = (true, m') /\
             Rel (fst (run_from s (flat_map (seg nlen) ks)))
                 (tr ++ snd (run_from s (flat_map (seg nlen) ks))) m' /\
             subseq (map rec_key (cbrecs tr (snd (run_from s (flat_map (seg nlen) ks))))) ks.
Proof.
  induction ks as [|k ks IH]; intros s tr m I R Cu P; cbn [flat_map].
  - cbn [run_from fst snd cbrecs m_cbs map]. rewrite app_nil_r. split; [exact Cu|].
    exists m. split; [reflexivity|]. split; [exact R | constructor].
  - rewrite run_from_app. cbn [fst snd].
    assert (Ln : forall i, aget k m = Some i -> (length (m_prog i) <= nlen k)%nat).
    { intros i Ei. destruct (P k (or_introl eq_refl)) as (t & E & L).
      destruct (rel_get _ _ _ _ _ R Ei) as (t' & E' & (H1 & _)). rewrite E in E'. inv E'. congruence. }
    pose proof (inv_run_from (seg nlen k) s tr I) as I1.
    assert (P1 : forall j, In j ks -> exists t, aget j (objs (fst (run_from s (seg nlen k)))) = Some t
                                              /\ (length (t_prog t) <= nlen j)%nat).
    { intros j Hj. destruct (P j (or_intror Hj)) as (t & E & L).
      destruct (prog_stable_run (seg nlen k) s tr j t I E) as (t' & E' & Pt). exists t'. split; [exact E' | congruence]. }
    destruct (do_segment s tr m k (nlen k) I R Cu Ln) as (C1 & D). unfold seg in *.
    set (r1 := run_from s (SBegin k :: repeat SCbStep (S (nlen k)))) in *.
    rewrite cbrecs_app, m_cbs_app, map_app.
    destruct D as [(Z0 & R1)|(m1 & Z1 & B1 & R1)].
    + destruct (IH (fst r1) _ m I1 R1 C1 P1) as (C2 & m' & A1 & A2 & A3).
      split; [exact C2|]. exists m'. rewrite Z0. cbn [m_cbs fst snd andb map app].
      rewrite A1. cbn [fst snd]. split; [reflexivity|]. split; [rewrite app_assoc; exact A2|].
      constructor. exact A3.
    + destruct (IH (fst r1) _ m1 I1 R1 C1 P1) as (C2 & m' & A1 & A2 & A3).
      split; [exact C2|]. exists m'. rewrite Z1. cbn [m_cbs]. rewrite B1. cbn [fst snd andb map app].
      rewrite A1. cbn [fst snd]. split; [reflexivity|]. split; [rewrite app_assoc; exact A2|].
      unfold the_rec at 1. cbn [rec_key]. apply subseq_take. exact A3.
Qed.

(* ---- Settle: the runtime fires every armed timer ---- *)
Lemma fc_facts s k :
  snd (fire_check s k) = [] /\ cur (fst (fire_check s k)) = cur s /\
  (forall j, j <> k -> aget j (objs (fst (fire_check s k))) = aget j (objs s)).
Proof.
  unfold fire_check. destruct (aget k (objs s)) as [t|]; [|cbn; auto].
  destruct (t_tok t); try (cbn; auto; fail). destruct (_ <=? _); [|cbn; auto].
  destruct (t_canceled t); [|destruct (running s)]; cbn [fst snd put with_objs objs cur];
    (split; [reflexivity|]; split; [reflexivity|]; intros j N; apply aget_aset_other; exact N).
Qed.

Lemma fs_facts s k :
  (snd (fire_send s k) = [] \/ snd (fire_send s k) = [EQueued k]) /\
  cur (fst (fire_send s k)) = cur s /\
  (forall j, j <> k -> aget j (objs (fst (fire_send s k))) = aget j (objs s)).
Proof.
  unfold fire_send. destruct (aget k (objs s)) as [t|]; [|cbn; auto].
  destruct (t_tok t); try (cbn; auto; fail). destruct (_ <? _); [|cbn; auto].
  cbn [fst snd put with_objs with_queue objs cur].
  split; [auto|]. split; [reflexivity|]. intros j N. apply aget_aset_other. exact N.
Qed.

Definition pairf (rc : bool) (k : Z) : list step_t :=
  SFireCheck k :: SFireSend k :: (if rc then [SRecv] else []).

Lemma recv_facts s :
  snd (recv s) = [] /\ objs (fst (recv s)) = objs s /\
  next (fst (recv s)) = next s /\ cur (fst (recv s)) = cur s.
Proof. unfold recv. destruct (_ && _); cbn; auto. Qed.

Lemma pending_not_cancelled s tr m k t dl :
  Inv s tr -> Rel s tr m -> aget k (objs s) = Some t -> t_tok t = Pending dl ->
  exists i, aget k m = Some i /\ m_cancelled i = false.
Proof.
  intros I R E Q. destruct (rel_get' _ _ _ _ _ R E) as (i & Ei & (_ & _ & H3 & _)).
  exists i. split; [exact Ei|]. destruct (m_cancelled i) eqn:X; [|reflexivity]. exfalso.
  destruct (inv_some _ _ _ _ I E) as [T _].
  destruct (ti_cancel_complete _ _ _ _ T (or_introl (H3 eq_refl))) as [C|C]; [|congruence].
  destruct (ti_cancel_sound _ _ _ _ T C) as [_ N]. exact (N dl Q).
Qed.

(* an optional receive after the send changes nothing the monitor or the invariant look at *)
Lemma recv_opt_ok (rc : bool) s tr m :
  Inv s tr -> Rel s tr m ->
  let r := run_from s (if rc then [SRecv] else []) in
  snd r = [] /\ Inv (fst r) tr /\ Rel (fst r) tr m /\ objs (fst r) = objs s /\ cur (fst r) = cur s.
Proof.
  intros I R. destruct rc; cbn [run_from step fst snd]; [|auto 10].
  destruct (recv_facts s) as (V1 & V2 & V3 & V4).
  pose proof (inv_step s tr SRecv I) as I3. cbn [step] in I3.
  destruct (recv s) as [s' e']. cbn [fst snd] in *. subst e'. rewrite app_nil_r in *.
  split; [reflexivity|]. split; [exact I3|]. split; [apply rel_ext with (s := s); auto | auto].
Qed.

Lemma settle_loop (rc : bool) ks : forall s tr m,
  Inv s tr -> Rel s tr m -> NoDup ks ->
  (forall k, In k ks -> exists t dl, aget k (objs s) = Some t /\ t_tok t = Pending dl) ->
  cur (fst (run_from s (flat_map (pairf rc) ks))) = cur s /\
  Rel (fst (run_from s (flat_map (pairf rc) ks))) (tr ++ snd (run_from s (flat_map (pairf rc) ks))) m /\
  nocb (snd (run_from s (flat_map (pairf rc) ks))) /\
  subseq (queued_of (snd (run_from s (flat_map (pairf rc) ks)))) ks /\
  (forall k, In k (queued_of (snd (run_from s (flat_map (pairf rc) ks)))) ->
     exists i, aget k m = Some i /\ m_cancelled i = false).
Proof.
  induction ks as [|k ks IH]; intros s tr m I R ND P; cbn [flat_map].
  - cbn [run_from fst snd queued_of]. rewrite app_nil_r.
    split; [reflexivity|]. split; [exact R|]. split; [intros j c a []|].
    split; [constructor | intros j []].
  - inv ND. destruct (P k (or_introl eq_refl)) as (t & dl & E & Q).
    destruct (pending_not_cancelled _ _ _ _ _ _ I R E Q) as (i & Ei & NC).
    change (pairf rc k ++ flat_map (pairf rc) ks)
      with (SFireCheck k :: SFireSend k :: ((if rc then [SRecv] else []) ++ flat_map (pairf rc) ks)).
    cbn [run_from step].
    destruct (fc_facts s k) as (F1 & F2 & F3).
    pose proof (inv_fire_check s tr k I) as I1.
    pose proof (rel_quiet s _ tr (snd (fire_check s k)) m R (qu_fire_check s k)) as R1.
    destruct (fire_check s k) as [s1 e1]. cbn [fst snd] in *. subst e1.
    rewrite app_nil_r in *. specialize (R1 (fun j c a (X : In _ []) => X)).
    destruct (fs_facts s1 k) as (G1 & G2 & G3).
    pose proof (inv_fire_send s1 tr k I1) as I2.
    pose proof (rel_quiet s1 _ tr (snd (fire_send s1 k)) m R1 (qu_fire_send s1 k)) as R2.
    destruct (fire_send s1 k) as [s2 e2]. cbn [fst snd] in *.
    assert (N2 : nocb e2) by (destruct G1 as [->| ->]; intros j c a X; cbn in X; intuition discriminate).
    specialize (R2 N2).
    rewrite run_from_app.
    destruct (recv_opt_ok rc s2 (tr ++ e2) m I2 R2) as (V1 & I3 & R3 & V2 & V4).
    destruct (run_from s2 (if rc then [SRecv] else [])) as [s2' e2']. cbn [fst snd] in *. subst e2'.
    assert (P2 : forall j, In j ks -> exists t dl, aget j (objs s2') = Some t /\ t_tok t = Pending dl).
    { intros j Hj. assert (j <> k) by (intro; subst; contradiction).
      rewrite V2, G3, F3 by assumption. apply P. right. exact Hj. }
    destruct (IH s2' _ m I3 R3 H2 P2) as (A1 & A2 & A3 & A4 & A5).
    destruct (run_from s2' (flat_map (pairf rc) ks)) as [s3 e3]. cbn [fst snd app] in *.
    split; [congruence|]. split; [rewrite app_assoc; exact A2|].
    split; [apply nocb_app; assumption|]. rewrite queued_of_app.
    destruct G1 as [->| ->]; cbn [queued_of app].
    + split; [constructor; exact A4 | exact A5].
    + split; [apply subseq_take; exact A4|]. intros j [<-|Hj]; [eauto | auto].
Qed.

Lemma queue_nodup s tr : Inv s tr -> NoDup (queue s).
Proof.
  intro I. apply zcount_le1_NoDup. intro k. destruct (aget k (objs s)) as [t|] eqn:E.
  - destruct (inv_some _ _ _ _ I E) as [T _]. rewrite (ti_queue _ _ _ _ T). destruct (t_tok t); cbn; lia.
  - rewrite (ab_queue _ _ _ (inv_none _ _ _ I E)). lia.
Qed.

(* Settle (rc = true: the owner receives all the time) and Wait (rc = false: nobody receives) *)
Definition settle_gen (rc : bool) (s : st) (g : Z) : list step_t :=
  let pk := pending (objs s) in
  SAdvance (fold_right Z.max (clock s) (map snd pk) - clock s)
    :: flat_map (pairf rc) (map fst pk) ++ [SAdvance g].

Lemma settle_steps_gen s g : settle_steps s g = settle_gen true s g.
Proof. reflexivity. Qed.
Lemma wait_steps_gen s g : wait_steps s g = settle_gen false s g.
Proof. reflexivity. Qed.

Lemma settle_gen_ok (rc : bool) s tr m g :
  Inv s tr -> Rel s tr m -> sorted (objs s) ->
  cur (fst (run_from s (settle_gen rc s g))) = cur s /\
  Rel (fst (run_from s (settle_gen rc s g))) (tr ++ snd (run_from s (settle_gen rc s g))) m /\
  nocb (snd (run_from s (settle_gen rc s g))) /\
  m_queued_ok m (queued_of (snd (run_from s (settle_gen rc s g)))) = true.
Proof.
  intros I R S. unfold settle_gen.
  set (ks := map fst (pending (objs s))).
  set (a := fold_right Z.max (clock s) (map snd (pending (objs s))) - clock s).
  cbn [run_from step].
  set (s1 := mkS (clock s + Z.max 0 a) (running s) (next s) (objs s) (queue s) (cur s) (recvd s) (life_of s)).
  assert (I1 : Inv s1 tr).
  { pose proof (inv_step s tr (SAdvance a) I) as X. cbn [step fst snd] in X. rewrite app_nil_r in X. exact X. }
  assert (R1 : Rel s1 tr m) by (apply rel_ext with (s := s); auto).
  assert (P : forall k, In k ks -> exists t dl, aget k (objs s1) = Some t /\ t_tok t = Pending dl).
  { intros k Hk. apply in_map_iff in Hk. destruct Hk as ([k' dl] & <- & Hk).
    destruct (pending_spec _ _ _ Hk S) as (t & E & Q). exists t, dl. auto. }
  rewrite run_from_app.
  destruct (settle_loop rc ks s1 tr m I1 R1 (pending_nodup _ S) P) as (A1 & A2 & A3 & A4 & A5).
  pose proof (inv_run_from (flat_map (pairf rc) ks) s1 tr I1) as I2.
  destruct (run_from s1 (flat_map (pairf rc) ks)) as [s2 e2]. cbn [fst snd run_from step app] in *.
  rewrite !app_nil_r. split; [exact A1|]. split; [apply rel_ext with (s := s2); auto|].
  split; [exact A3|]. unfold m_queued_ok. apply andb_true_iff. split.
  - apply (nodupb_of_subseq _ ks A4). apply pending_nodup. exact S.
  - apply forallb_forall. intros k Hk. destruct (A5 k Hk) as (i & Ei & NC). rewrite Ei, NC. reflexivity.
Qed.

Lemma settle_ok s tr m g :
  Inv s tr -> Rel s tr m -> sorted (objs s) ->
  cur (fst (run_from s (settle_steps s g))) = cur s /\
  Rel (fst (run_from s (settle_steps s g))) (tr ++ snd (run_from s (settle_steps s g))) m /\
  nocb (snd (run_from s (settle_steps s g))) /\
  m_queued_ok m (queued_of (snd (run_from s (settle_steps s g)))) = true.
Proof. rewrite settle_steps_gen. apply settle_gen_ok. Qed.

Lemma wait_ok s tr m g :
  Inv s tr -> Rel s tr m -> sorted (objs s) ->
  cur (fst (run_from s (wait_steps s g))) = cur s /\
  Rel (fst (run_from s (wait_steps s g))) (tr ++ snd (run_from s (wait_steps s g))) m /\
  nocb (snd (run_from s (wait_steps s g))) /\
  m_queued_ok m (queued_of (snd (run_from s (wait_steps s g)))) = true.
Proof. rewrite wait_steps_gen. apply settle_gen_ok. Qed.

Lemma prog_len_bound s tr m k :
  Rel s tr m -> forall i, aget k m = Some i -> (length (m_prog i) <= prog_len s k)%nat.
Proof.
  intros R i Ei. destruct (rel_get _ _ _ _ _ R Ei) as (t & E & (H1 & _)).
  unfold prog_len. rewrite E, H1. lia.
Qed.

Lemma create_n_ok d rep a n : forall s tr m,
  Inv s tr -> Rel s tr m ->
  Rel (fst (run_from s (repeat (SCreate d rep a []) n)))
      (tr ++ snd (run_from s (repeat (SCreate d rep a []) n))) (m_create_n n m d rep) /\
  cur (fst (run_from s (repeat (SCreate d rep a []) n))) = cur s.
Proof.
  induction n as [|n IH]; intros s tr m I R; cbn [repeat run_from m_create_n].
  - cbn [fst snd]. rewrite app_nil_r. auto.
  - cbn [step]. pose proof (inv_create s tr d rep a [] I) as I1.
    pose proof (rel_create s tr m d rep a [] I R) as R1.
    assert (C1 : cur (fst (create s d rep a [])) = cur s) by reflexivity.
    destruct (create s d rep a []) as [s1 e1]. cbn [fst snd] in *.
    destruct (IH s1 _ _ I1 R1) as (A1 & A2).
    destruct (run_from s1 (repeat (SCreate d rep a []) n)) as [s2 e2]. cbn [fst snd] in *.
    rewrite app_assoc. split; [exact A1 | congruence].
Qed.

(* ---- a released loop: the observed schedule is followed ---- *)

(* steps of the runtime and the clock: no callback, nothing the monitor looks at *)
Definition rt (x : step_t) : bool :=
  match x with SAdvance _ | SFireCheck _ | SFireSend _ => true | _ => false end.

Lemma rt_run_ok xs : forall s tr m,
  forallb rt xs = true -> Inv s tr -> Rel s tr m ->
  cur (fst (run_from s xs)) = cur s /\
  Rel (fst (run_from s xs)) (tr ++ snd (run_from s xs)) m /\
  nocb (snd (run_from s xs)).
Proof.
  induction xs as [|x r IH]; intros s tr m F I R; cbn [run_from].
  - cbn [fst snd]. rewrite app_nil_r. split; [reflexivity|]. split; [exact R | intros k c a []].
  - cbn [forallb] in F. apply andb_true_iff in F. destruct F as [Fx Fr].
    pose proof (inv_step s tr x I) as I1.
    assert (X : cur (fst (step s x)) = cur s /\ quiet_upd s (fst (step s x)) /\ nocb (snd (step s x))).
    { destruct x; try discriminate; cbn [step].
      - split; [reflexivity|]. split; [apply qu_same; reflexivity | intros k c a []].
      - destruct (fc_facts s k) as (F1 & F2 & _). split; [exact F2|]. split; [apply qu_fire_check|].
        rewrite F1. intros j c a [].
      - destruct (fs_facts s k) as (F1 & F2 & _). split; [exact F2|]. split; [apply qu_fire_send|].
        destruct F1 as [->| ->]; intros j c a H; cbn in H; intuition discriminate. }
    destruct X as (X1 & X2 & X3).
    pose proof (rel_quiet s _ tr _ m R X2 X3) as R1.
    destruct (step s x) as [s1 e1]. cbn [fst snd] in *.
    destruct (IH s1 _ m Fr I1 R1) as (A1 & A2 & A3).
    destruct (run_from s1 r) as [s2 e2]. cbn [fst snd] in *.
    split; [congruence|]. split; [rewrite app_assoc; exact A2 | apply nocb_app; assumption].
Qed.

Lemma deliver_rt s k : forallb rt (deliver s k) = true.
Proof.
  unfold deliver. destruct (aget k (objs s)) as [t|]; [|reflexivity].
  destruct (t_tok t); try reflexivity. destruct (t_dur t <? far); reflexivity.
Qed.

Lemma delivers_rt s l : forallb rt (flat_map (deliver s) l) = true.
Proof.
  induction l as [|k r IH]; cbn [flat_map]; [reflexivity|].
  rewrite forallb_app, deliver_rt, IH. reflexivity.
Qed.

(* accepted callback records, and the monitor state they lead to *)
Definition accepted (s : st) (tr e : list ev) (m : mstate) : Prop :=
  exists m', m_cbs m (cbrecs tr e) = (true, m') /\ Rel s (tr ++ e) m'.

Lemma accepted_nocb s tr e m : Rel s (tr ++ e) m -> nocb e -> accepted s tr e m.
Proof. intros R N. exists m. rewrite (cbrecs_nocb e N). split; [reflexivity | exact R]. Qed.

Lemma accepted_app s tr e1 e2 m m1 :
  m_cbs m (cbrecs tr e1) = (true, m1) -> accepted s (tr ++ e1) e2 m1 -> accepted s tr (e1 ++ e2) m.
Proof.
  intros A (m2 & B & R). exists m2. rewrite cbrecs_app, m_cbs_app, A. cbn [fst snd].
  rewrite B. cbn [fst snd andb]. split; [reflexivity|]. rewrite app_assoc. exact R.
Qed.

Lemma follow_ok l : forall s tr m,
  Inv s tr -> Rel s tr m -> cur s = None ->
  cur (fst (run_from s (follow s l))) = None /\
  accepted (fst (run_from s (follow s l))) tr (snd (run_from s (follow s l))) m.
Proof.
  induction l as [|k r IH]; intros s tr m I R Cu; cbn [follow].
  - cbn [run_from fst snd]. split; [exact Cu|]. apply accepted_nocb; [rewrite app_nil_r; exact R | intros j c a []].
  - set (D := flat_map (deliver s) (k :: r)).
    rewrite !run_from_app. cbn [fst snd].
    destruct (rt_run_ok D s tr m (delivers_rt s (k :: r)) I R) as (C1 & R1 & N1).
    pose proof (inv_run_from D s tr I) as I1.
    destruct (run_from s D) as [s1 e1]. cbn [fst snd] in *.
    unfold do_steps.
    destruct (do_segment s1 (tr ++ e1) m k (prog_len s k) I1 R1 (eq_trans C1 Cu) (prog_len_bound s tr m k R))
      as (C2 & Dd).
    pose proof (inv_run_from (SBegin k :: repeat SCbStep (S (prog_len s k))) s1 _ I1) as I2.
    destruct (run_from s1 (SBegin k :: repeat SCbStep (S (prog_len s k)))) as [s2 e2]. cbn [fst snd] in *.
    assert (A12 : exists m2, m_cbs m (cbrecs tr (e1 ++ e2)) = (true, m2) /\ Rel s2 ((tr ++ e1) ++ e2) m2).
    { rewrite cbrecs_app, (cbrecs_nocb e1 N1). cbn [app].
      destruct Dd as [(Z0 & R2)|(m1 & Z1 & B1 & R2)].
      - exists m. rewrite Z0. split; [reflexivity | exact R2].
      - exists m1. rewrite Z1. cbn [m_cbs]. rewrite B1. split; [reflexivity | exact R2]. }
    destruct A12 as (m2 & B2 & R2).
    rewrite <- app_assoc in I2.
    destruct (IH s2 (tr ++ e1 ++ e2) m2 I2) as (C3 & A3); [rewrite app_assoc; exact R2 | exact C2|].
    destruct (run_from s2 (follow s2 r)) as [s3 e3]. cbn [fst snd] in *.
    split; [exact C3|]. eapply accepted_app; [exact B2|]. exact A3.
Qed.

(* Do of everything that is queued, in creation order *)
Lemma doall_ok s tr m :
  Inv s tr -> Rel s tr m -> cur s = None ->
  let xs := flat_map (do_steps s) (zsort (queue s)) in
  cur (fst (run_from s xs)) = None /\
  exists m', m_cbs m (cbrecs tr (snd (run_from s xs))) = (true, m') /\
             Rel (fst (run_from s xs)) (tr ++ snd (run_from s xs)) m' /\
             nodupb (map rec_key (cbrecs tr (snd (run_from s xs)))) = true.
Proof.
  intros I R Cu xs. subst xs.
  change (flat_map (do_steps s) (zsort (queue s))) with (flat_map (seg (prog_len s)) (zsort (queue s))).
  assert (P : forall k, In k (zsort (queue s)) ->
              exists t, aget k (objs s) = Some t /\ (length (t_prog t) <= prog_len s k)%nat).
  { intros k Hk. apply (proj1 (zsort_In k (queue s))) in Hk. apply (proj2 (zmem_In k (queue s))) in Hk.
    destruct (queued_timer _ _ _ I Hk) as (t & E & _). exists t. split; [exact E|].
    unfold prog_len. rewrite E. lia. }
  destruct (doall_loop (prog_len s) (zsort (queue s)) s tr m I R Cu P) as (C1 & m' & A1 & A2 & A3).
  split; [exact C1|]. exists m'. split; [exact A1|]. split; [exact A2|].
  apply (nodupb_of_subseq _ _ A3 (zsort_NoDup _ (queue_nodup _ _ I))).
Qed.

(* steps that only move the owner through its life cycle (or stop the manager) *)
Lemma life_step_ok s tr m x :
  x = SStart \/ x = SClose \/ x = SLoopEnd \/ x = SStop ->
  Inv s tr -> Rel s tr m ->
  cur (fst (step s x)) = cur s /\ Rel (fst (step s x)) (tr ++ snd (step s x)) m /\ nocb (snd (step s x)) /\
  objs (fst (step s x)) = objs s.
Proof.
  intros X I R.
  assert (G : cur (fst (step s x)) = cur s /\ objs (fst (step s x)) = objs s /\
              next (fst (step s x)) = next s /\ nocb (snd (step s x))).
  { assert (Fin : forall (s' : st) (e : list ev),
              cur s' = cur s -> objs s' = objs s -> next s' = next s ->
              (forall y, In y e -> y = EStart \/ y = EClose \/ y = ELoopEnd \/ y = EStop) ->
              cur s' = cur s /\ objs s' = objs s /\ next s' = next s /\ nocb e).
    { intros s' e H1 H2 H3 H4. repeat (split; [assumption|]).
      intros k c a H. destruct (H4 _ H) as [Y|[Y|[Y|Y]]]; discriminate. }
    destruct X as [->|[->|[->| ->]]]; cbn [step].
    - unfold svc_start. destruct (life_of s); cbn [fst snd]; apply Fin; try reflexivity;
        intros y Hy; cbn in Hy; intuition.
    - unfold svc_close. destruct (life_of s); cbn [fst snd]; apply Fin; try reflexivity;
        intros y Hy; cbn in Hy; intuition.
    - unfold loop_end. destruct (life_of s); destruct (cur s) eqn:Cu; cbn [fst snd]; apply Fin;
        try reflexivity; try exact Cu; intros y Hy; cbn in Hy; intuition.
    - unfold mgr_stop. cbn [fst snd]. apply Fin; try reflexivity. intros y Hy; cbn in Hy; intuition. }
  destruct G as (G1 & G2 & G3 & G4). split; [exact G1|]. split; [|split; [exact G4 | exact G2]].
  apply rel_quiet with (s := s); [exact R | apply qu_same; assumption | exact G4].
Qed.

Lemma loop_ok s tr m l cut :
  Inv s tr -> Rel s tr m -> cur s = None ->
  cur (fst (run_from s (loop_steps s l cut))) = None /\
  accepted (fst (run_from s (loop_steps s l cut))) tr (snd (run_from s (loop_steps s l cut))) m.
Proof.
  intros I R Cu. unfold loop_steps. rewrite !run_from_app. cbn [fst snd].
  destruct (follow_ok l s tr m I R Cu) as (C1 & (m1 & B1 & R1)).
  pose proof (inv_run_from (follow s l) s tr I) as I1.
  destruct (run_from s (follow s l)) as [s1 e1]. cbn [fst snd] in *.
  set (rs := if cut then [] else rest_steps s1).
  assert (A2 : cur (fst (run_from s1 rs)) = None /\
               accepted (fst (run_from s1 rs)) (tr ++ e1) (snd (run_from s1 rs)) m1).
  { subst rs. destruct cut.
    { cbn [run_from fst snd]. split; [exact C1|]. apply accepted_nocb; [rewrite app_nil_r; exact R1 | intros j c a []]. }
    unfold rest_steps. destruct (life_of s1).
    - cbn [run_from fst snd]. split; [exact C1|]. apply accepted_nocb; [rewrite app_nil_r; exact R1 | intros j c a []].
    - destruct (doall_ok s1 _ m1 I1 R1 C1) as (C2 & m2 & B2 & R2 & _). split; [exact C2|]. exists m2. auto.
    - cbn [run_from fst snd]. split; [exact C1|]. apply accepted_nocb; [rewrite app_nil_r; exact R1 | intros j c a []].
    - cbn [run_from fst snd]. split; [exact C1|]. apply accepted_nocb; [rewrite app_nil_r; exact R1 | intros j c a []]. }
  destruct A2 as (C2 & (m2 & B2 & R2)).
  pose proof (inv_run_from rs s1 _ I1) as I2.
  destruct (run_from s1 rs) as [s2 e2]. cbn [fst snd] in *.
  cbn [run_from].
  destruct (life_step_ok s2 _ m2 SLoopEnd (or_intror (or_intror (or_introl eq_refl))) I2 R2) as (C3 & R3 & N3 & _).
  destruct (step s2 SLoopEnd) as [s3 e3]. cbn [fst snd] in *. rewrite app_nil_r.
  split; [congruence|].
  eapply accepted_app; [exact B1|]. eapply accepted_app; [exact B2|].
  apply accepted_nocb; [exact R3 | exact N3].
Qed.

Lemma sorted_objs_eq s s' : objs s' = objs s -> sorted (objs s) -> sorted (objs s').
Proof. intros -> S. exact S. Qed.

(* the monitor accepts everything the model does, from every reachable idle state, whatever
   schedules the released loops are told to follow *)
Lemma monitor_exec ops : forall s tr m bs,
  Inv s tr -> Rel s tr m -> cur s = None -> sorted (objs s) ->
  monitor_from m ops (exec_from s tr ops bs) = true.
Proof.
  induction ops as [|o r IH]; intros s tr m bs I R Cu Srt; rewrite exec_from_obs; [reflexivity|].
  pose proof (inv_run_from (compile s o (hint bs)) s tr I) as I1.
  pose proof (sorted_run_from (compile s o (hint bs)) s Srt) as S1.
  destruct o as [d rep a p|n d rep a|ms|k| |g|k| | |g| | |w|d rep a p]; cbn [compile obs_of monitor_from] in *.
  - (* create *)
    cbn [run_from] in *. destruct (create s d rep a p) as [s1 e1] eqn:C. cbn [step fst snd] in *.
    rewrite C in *. cbn [fst snd] in *. rewrite app_nil_r in *.
    apply IH; auto.
    + pose proof (rel_create s tr m d rep a p I R) as X. rewrite C in X. exact X.
    + unfold create in C. inv C. exact Cu.
  - (* create n *)
    destruct (create_n_ok d rep a (Z.to_nat n) s tr m I R) as (A1 & A2).
    destruct (run_from s (repeat (SCreate d rep a []) (Z.to_nat n))) as [s1 e1]. cbn [fst snd] in *.
    apply IH; auto. congruence.
  - (* stall *)
    cbn [run_from step fst snd] in *. rewrite app_nil_r in *.
    apply IH; auto.
  - (* cancel *)
    cbn [run_from] in *. destruct (cancel s k) as [s1 e1] eqn:C. cbn [step fst snd] in *.
    rewrite C in *. cbn [fst snd] in *. rewrite app_nil_r in *.
    apply IH; auto.
    + pose proof (rel_cancel s tr m k I R) as X. rewrite C in X. exact X.
    + pose proof (cur_cancel s k) as X. rewrite C in X. cbn [fst] in X. congruence.
  - (* stop = settle, then Mgr.Stop() *)
    rewrite run_from_app in *. destruct (settle_ok s tr m 0 I R Srt) as (A1 & A2 & A3 & A4).
    destruct (run_from s (settle_steps s 0)) as [s1 e1]. cbn [fst snd run_from step mgr_stop] in *.
    rewrite queued_of_app. cbn [queued_of]. rewrite !app_nil_r. rewrite A4. cbn [andb].
    apply IH; auto.
    + rewrite app_assoc. apply rel_quiet with (s := s1); [exact A2 | apply qu_same; reflexivity|].
      intros j c a [X|[]]. discriminate.
    + cbn [cur with_running]. congruence.
  - (* settle *)
    destruct (settle_ok s tr m g I R Srt) as (A1 & A2 & A3 & A4).
    destruct (run_from s (settle_steps s g)) as [s1 e1]. cbn [fst snd] in *.
    rewrite A4. cbn [andb]. apply IH; auto. congruence.
  - (* do k *)
    unfold do_steps in *.
    destruct (do_segment s tr m k (prog_len s k) I R Cu (prog_len_bound s tr m k R)) as (C1 & D).
    destruct (run_from s (SBegin k :: repeat SCbStep (S (prog_len s k)))) as [s1 e1]. cbn [fst snd] in *.
    destruct D as [(Z0 & R1)|(m1 & Z1 & B1 & R1)].
    + rewrite Z0. cbn [m_cbs length forallb Nat.leb andb]. apply IH; auto.
    + rewrite Z1. cbn [m_cbs]. rewrite B1. unfold the_rec. cbn [length forallb Nat.leb andb rec_key].
      rewrite Z.eqb_refl. cbn [andb]. apply IH; auto.
  - (* do all *)
    destruct (doall_ok s tr m I R Cu) as (C1 & m' & A1 & A2 & A3). cbn zeta in *.
    destruct (run_from s (flat_map (do_steps s) (zsort (queue s)))) as [s1 e1]. cbn [fst snd] in *.
    rewrite A1, A3. cbn [andb]. apply IH; auto.
  - (* service marker *)
    cbn [run_from fst snd] in *. rewrite app_nil_r in *. apply IH; auto.
  - (* wait: nobody receives *)
    destruct (wait_ok s tr m g I R Srt) as (A1 & A2 & A3 & A4).
    destruct (run_from s (wait_steps s g)) as [s1 e1]. cbn [fst snd] in *.
    rewrite (cbrecs_nocb e1 A3). cbn [m_cbs]. rewrite A4. cbn [andb]. apply IH; auto. congruence.
  - (* start, then the released loop *)
    cbn [run_from] in *.
    destruct (life_step_ok s tr m SStart (or_introl eq_refl) I R) as (C0 & R0 & N0 & O0).
    pose proof (inv_step s tr SStart I) as I0.
    destruct (step s SStart) as [s0 e0] eqn:Es0. cbn [fst snd] in *.
    destruct (loop_ok s0 (tr ++ e0) m (fst (hint bs)) (snd (hint bs)) I0 R0 (eq_trans C0 Cu)) as (C1 & (m1 & B1 & R1)).
    destruct (run_from s0 (loop_steps s0 (fst (hint bs)) (snd (hint bs)))) as [s1 e1]. cbn [fst snd] in *.
    assert (G : monitor_from m1 r (exec_from s1 (tr ++ e0 ++ e1) r (tl bs)) = true).
    { apply IH; auto. rewrite app_assoc. exact R1. }
    destruct (snd (hint bs)); cbn [monitor_from];
      rewrite cbrecs_app, (cbrecs_nocb e0 N0); cbn [app]; rewrite B1; exact G.
  - (* the released loop *)
    destruct (loop_ok s tr m (fst (hint bs)) (snd (hint bs)) I R Cu) as (C1 & (m1 & B1 & R1)).
    destruct (run_from s (loop_steps s (fst (hint bs)) (snd (hint bs)))) as [s1 e1]. cbn [fst snd] in *.
    assert (G : monitor_from m1 r (exec_from s1 (tr ++ e1) r (tl bs)) = true) by (apply IH; auto).
    destruct (snd (hint bs)); cbn [monitor_from]; rewrite B1; exact G.
  - (* wait, then Stop() *)
    rewrite run_from_app in *. destruct (wait_ok s tr m 0 I R Srt) as (A1 & A2 & A3 & A4).
    pose proof (inv_run_from (wait_steps s 0) s tr I) as Iw.
    destruct (run_from s (wait_steps s 0)) as [s1 e1]. cbn [fst snd] in *.
    assert (T : forall xs, xs = [] \/ xs = [SStop; SClose] ->
                cur (fst (run_from s1 xs)) = cur s1 /\
                Rel (fst (run_from s1 xs)) ((tr ++ e1) ++ snd (run_from s1 xs)) m /\
                nocb (snd (run_from s1 xs)) /\ queued_of (snd (run_from s1 xs)) = []).
    { intros xs [->| ->].
      - cbn [run_from fst snd]. rewrite app_nil_r.
        split; [reflexivity|]. split; [exact A2|]. split; [intros j c a []|reflexivity].
      - cbn [run_from].
        destruct (life_step_ok s1 _ m SStop (or_intror (or_intror (or_intror eq_refl))) Iw A2) as (C2 & R2 & N2 & _).
        pose proof (inv_step s1 _ SStop Iw) as I2.
        assert (Q2 : queued_of (snd (step s1 SStop)) = []) by reflexivity.
        destruct (step s1 SStop) as [s2 e2]. cbn [fst snd] in *.
        destruct (life_step_ok s2 _ m SClose (or_intror (or_introl eq_refl)) I2 R2) as (C3 & R3 & N3 & _).
        assert (Q3 : queued_of (snd (step s2 SClose)) = []).
        { cbn [step]. unfold svc_close. destruct (life_of s2); reflexivity. }
        destruct (step s2 SClose) as [s3 e3]. cbn [fst snd] in *. rewrite app_nil_r.
        split; [congruence|]. split; [rewrite app_assoc; exact R3|].
        split; [apply nocb_app; assumption|]. rewrite queued_of_app, Q2, Q3. reflexivity. }
    specialize (T (match life_of s with LUp => [SStop; SClose] | _ => [] end)).
    destruct T as (T1 & T2 & T3 & T4); [destruct (life_of s); auto|].
    destruct (run_from s1 (match life_of s with LUp => [SStop; SClose] | _ => [] end)) as [s2 e2].
    cbn [fst snd] in *.
    rewrite (cbrecs_nocb (e1 ++ e2) (nocb_app _ _ A3 T3)). cbn [m_cbs].
    rewrite queued_of_app, T4, app_nil_r, A4. cbn [andb].
    apply IH; auto.
    + rewrite app_assoc. exact T2.
    + congruence.
  - (* create, duration in ns *)
    cbn [run_from] in *. destruct (create s d rep a p) as [s1 e1] eqn:C. cbn [step fst snd] in *.
    rewrite C in *. cbn [fst snd] in *. rewrite app_nil_r in *.
    apply IH; auto.
    + pose proof (rel_create s tr m d rep a p I R) as X. rewrite C in X. exact X.
    + unfold create in C. inv C. exact Cu.
Qed.

Lemma inv_start ops : Inv (start_state ops) (start_trace ops).
Proof. unfold start_state, start_trace. apply (inv_run_from (pre_steps ops) init [] inv_init). Qed.

Lemma monitor_accepts_model ops bs : monitor_from [] ops (run ops bs) = true.
Proof.
  unfold run. apply monitor_exec.
  - apply inv_start.
  - unfold start_state, start_trace, pre_steps. destruct (is_svc ops); cbn; [exact rel_init|].
    split; [exact Logic.I|]. split; [reflexivity|]. intro k. exact Logic.I.
  - unfold start_state, pre_steps. destruct (is_svc ops); reflexivity.
  - unfold start_state, pre_steps. destruct (is_svc ops); exact Logic.I.
Qed.

(* ---- what the monitor's logical clauses stand for, on traces of arbitrary step lists ---- *)
(* clause [negb (m_cancelled i)] of m_cb: a callback is never preceded by a cancel of its
   (existing) timer - the contrapositive of never_after_cancel *)
Lemma clause_not_cancelled xs k c a t1 t2 :
  trace xs = t1 ++ ECb k c a :: t2 -> ~ cancelled_in k t1.
Proof.
  intros E (u1 & u2 & E1 & Cr). subst t1. rewrite <- app_assoc in E. cbn [app] in E.
  destruct (never_after_cancel_all xs k u1 _ E Cr) as [N _].
  apply (N c a). apply in_or_app. right. left. reflexivity.
Qed.

(* clause [m_rep i || (m_count i =? 0)] of m_cb: when a one-shot's callback starts it has not
   run before - from oneshot_once *)
Lemma clause_oneshot_first xs k c a t1 t2 clk d rep a0 :
  trace xs = t1 ++ ECb k c a :: t2 ->
  creation k t1 = Some (clk, d, rep, a0) -> repeating d rep = false -> count_cb k t1 = 0.
Proof.
  intros E C R.
  assert (C2 : creation k (trace xs) = Some (clk, d, rep, a0)) by (rewrite E, creation_app, C; reflexivity).
  pose proof (oneshot_once xs k clk d rep a0 C2 R) as U.
  rewrite E, count_cb_app in U. cbn [count_cb] in U. rewrite Z.eqb_refl in U.
  pose proof (count_cb_nonneg k t1). pose proof (count_cb_nonneg k t2). lia.
Qed.

(* ====================================================================================
   At and beyond queue capacity: the channel never holds more than qcap expiries, a sender
   blocked on a full channel is not lost - it delivers as soon as the owner receives one.
   ==================================================================================== *)

Lemma length_remove_first_in k q :
  zmem k q = true -> length (remove_first k q) = pred (length q) /\ (0 < length q)%nat.
Proof.
  induction q as [|y r IH]; cbn [zmem existsb remove_first length]; [discriminate|].
  fold (zmem k r). destruct (Z.eqb k y); cbn [orb]; intro H; [split; [reflexivity | lia]|].
  destruct (IH H) as [A B]. cbn [length]. rewrite A. split; lia.
Qed.

Lemma queue_cancel s k : queue (fst (cancel s k)) = queue s /\ recvd (fst (cancel s k)) = recvd s.
Proof. unfold cancel. cbn [fst]. destruct (aget k (objs s)) as [t|]; [destruct (t_reg t)|]; auto. Qed.

Lemma queue_ret s k p : queue (fst (ret s k p)) = queue s /\ recvd (fst (ret s k p)) = recvd s.
Proof.
  unfold ret. destruct (aget k (objs s)) as [t|]; [|auto].
  destruct (t_canceled t); [|destruct (0 <? t_period t)]; auto.
Qed.

Lemma occupancy_begin s k : occupancy (fst (begin_at s k)) <= occupancy s.
Proof.
  unfold begin_at, occupancy. destruct (cur s); [cbn [fst]; lia|].
  destruct (drains (life_of s)); cbn [negb]; [|cbn [fst]; lia].
  destruct (zmem k (queue s)) eqn:M; [|cbn [fst]; lia].
  destruct (length_remove_first_in _ _ M) as [A B].
  destruct (aget k (objs s)) as [t|]; [destruct (t_canceled t)|];
    cbn [fst put with_objs with_cur dequeue queue recvd]; rewrite A; lia.
Qed.

Lemma occupancy_step s x : occupancy s <= qcap -> occupancy (fst (step s x)) <= qcap.
Proof.
  intro H. destruct x as [d rep a p|k| |k| | |dt|k|k| | | | ]; cbn [step].
  - exact H.
  - unfold occupancy in *. destruct (queue_cancel s k) as [-> ->]. exact H.
  - exact H.
  - pose proof (occupancy_begin s k). lia.
  - destruct (queue s) as [|k q] eqn:Q; [exact H|]. pose proof (occupancy_begin s k). lia.
  - unfold cb_step. destruct (cur s) as [[k acts]|]; [|exact H]. unfold occupancy in *.
    destruct acts as [|[|j|d rep a p| |] r].
    + destruct (queue_ret s k false) as [-> ->]. exact H.
    + destruct (queue_cancel (with_cur s (Some (k, r))) k) as [-> ->]. exact H.
    + destruct (queue_cancel (with_cur s (Some (k, r))) j) as [-> ->]. exact H.
    + exact H.
    + destruct (queue_ret s k true) as [-> ->]. exact H.
    + rewrite svc_stop_eq. unfold mgr_stop, svc_close. cbn [fst with_running with_cur life_of].
      destruct (life_of s); exact H.
  - exact H.
  - unfold fire_check. destruct (aget k (objs s)) as [t|]; [|exact H].
    destruct (t_tok t); try exact H. destruct (_ <=? _); [|exact H].
    destruct (t_canceled t); [|destruct (running s)]; exact H.
  - unfold fire_send. destruct (aget k (objs s)) as [t|]; [|exact H].
    destruct (t_tok t); try exact H.
    destruct (Z.ltb_spec (Z.of_nat (length (queue s) - recvd s)) qcap) as [L|L]; [|exact H].
    unfold occupancy. cbn [fst put with_objs with_queue queue recvd]. rewrite app_length. cbn [length]. lia.
  - unfold recv, occupancy in *. destruct (_ && _); cbn [fst queue recvd]; lia.
  - unfold svc_start. destruct (life_of s); exact H.
  - unfold svc_close. destruct (life_of s); exact H.
  - unfold loop_end. destruct (life_of s); destruct (cur s); exact H.
Qed.

Lemma occupancy_run_from xs : forall s, occupancy s <= qcap -> occupancy (fst (run_from s xs)) <= qcap.
Proof.
  induction xs as [|x r IH]; intros s H; cbn [run_from]; [exact H|].
  pose proof (occupancy_step s x H) as H1. destruct (step s x) as [s1 e1]. cbn [fst] in H1.
  specialize (IH s1 H1). destruct (run_from s1 r) as [s2 e2]. exact IH.
Qed.

Lemma channel_bounded xs : occupancy (final xs) <= qcap.
Proof. apply occupancy_run_from. unfold occupancy, qcap. cbn. lia. Qed.

(* an AfterFunc goroutine blocked on the full channel delivers once the owner receives *)
Lemma blocked_send_delivers xs k t :
  aget k (objs (final xs)) = Some t -> t_tok t = Firing ->
  drains (life_of (final xs)) = true ->
  (recvd (final xs) < length (queue (final xs)))%nat ->
  trace (xs ++ [SRecv; SFireSend k]) = trace xs ++ [EQueued k].
Proof.
  intros E Q Dr L. rewrite trace_app. pose proof (channel_bounded xs) as B. unfold occupancy in B.
  cbn [run_from step]. unfold recv. rewrite Dr. cbn [andb].
  destruct (Nat.ltb_spec (recvd (final xs)) (length (queue (final xs)))) as [_|X]; [|lia].
  set (s1 := mkS _ _ _ _ _ _ _ _).
  rewrite (fire_send_ok s1 k t) by (cbn [s1 objs queue recvd]; auto; lia). reflexivity.
Qed.

(* ... and without a free slot it stays blocked: nothing is dropped, nothing is delivered *)
Lemma full_channel_blocks s k :
  occupancy s = qcap -> fire_send s k = (s, []).
Proof.
  unfold occupancy, fire_send. intro H. destruct (aget k (objs s)) as [t|]; [|reflexivity].
  destruct (t_tok t); try reflexivity.
  destruct (Z.ltb_spec (Z.of_nat (length (queue s) - recvd s)) qcap); [lia | reflexivity].
Qed.

(* ====================================================================================
   The owner's life cycle: created, started, told to stop, ended.  Callbacks only between
   the start and the end of the loop goroutine, nothing after its end; expiries that happen
   before Start() wait in the queue and are run after it.
   ==================================================================================== *)

(* what one step does to the life cycle, and what it emits about it *)
Definition life_quiet (e : list ev) : Prop :=
  count_ev is_start e = 0 /\ count_ev is_close e = 0 /\ count_ev is_end e = 0.

Lemma life_quiet_nil : life_quiet [].
Proof. repeat split. Qed.

Lemma life_quiet_begin s k : life_quiet (snd (begin_at s k)).
Proof.
  unfold begin_at. destruct (cur s); [apply life_quiet_nil|].
  destruct (drains (life_of s)); cbn [negb]; [|apply life_quiet_nil].
  destruct (zmem k (queue s)); [|apply life_quiet_nil].
  destruct (aget k (objs s)) as [t|]; [destruct (t_canceled t)|]; repeat split.
Qed.

Lemma life_quiet_ret s k p : life_quiet (snd (ret s k p)).
Proof.
  unfold ret. destruct (aget k (objs s)) as [t|]; [|repeat split].
  destruct (t_canceled t); [|destruct (0 <? t_period t)]; repeat split.
Qed.

Lemma life_begin s k : life_of (fst (begin_at s k)) = life_of s.
Proof.
  unfold begin_at. destruct (cur s); [reflexivity|].
  destruct (drains (life_of s)); cbn [negb]; [|reflexivity]. destruct (zmem k (queue s)); [|reflexivity].
  destruct (aget k (objs s)) as [t|]; [destruct (t_canceled t)|]; reflexivity.
Qed.

Lemma life_ret s k p : life_of (fst (ret s k p)) = life_of s.
Proof.
  unfold ret. destruct (aget k (objs s)) as [t|]; [|reflexivity].
  destruct (t_canceled t); [|destruct (0 <? t_period t)]; reflexivity.
Qed.

Lemma life_cancel s k : life_of (fst (cancel s k)) = life_of s.
Proof. unfold cancel. cbn [fst]. destruct (aget k (objs s)) as [t|]; [destruct (t_reg t)|]; reflexivity. Qed.

Lemma cur_begin_some s k :
  cur (fst (begin_at s k)) <> None -> cur s <> None \/ drains (life_of s) = true.
Proof.
  unfold begin_at. destruct (cur s) eqn:Cu; [intros _; left; discriminate|].
  destruct (drains (life_of s)); cbn [negb]; [intros _; right; reflexivity|].
  cbn [fst]. intro H. exfalso. apply H. exact Cu.
Qed.

Inductive life_move (s s' : st) (e : list ev) : Prop :=
| lm_same : life_of s' = life_of s -> life_quiet e -> life_move s s' e
| lm_start : life_of s = LNew -> life_of s' = LUp -> e = [EStart] -> life_move s s' e
| lm_close : life_of s = LUp -> life_of s' = LDown -> e = [EClose] \/ e = [EStop; EClose] -> life_move s s' e
| lm_end : life_of s = LDown -> cur s = None -> cur s' = None -> life_of s' = LEnd -> e = [ELoopEnd] ->
           life_move s s' e.

Lemma life_step s x :
  life_move s (fst (step s x)) (snd (step s x)) /\
  (cur (fst (step s x)) <> None -> cur s <> None \/ drains (life_of s) = true).
Proof.
  destruct x as [d rep a p|k| |k| | |dt|k|k| | | | ]; cbn [step].
  - split; [apply lm_same; [reflexivity | repeat split]|]. cbn. auto.
  - split; [apply lm_same; [apply life_cancel | repeat split]|]. rewrite cur_cancel. auto.
  - split; [apply lm_same; [reflexivity | repeat split]|]. cbn. auto.
  - split; [apply lm_same; [apply life_begin | apply life_quiet_begin] | apply cur_begin_some].
  - destruct (queue s) as [|k q]; [split; [apply lm_same; [reflexivity | apply life_quiet_nil] | cbn; auto]|].
    split; [apply lm_same; [apply life_begin | apply life_quiet_begin] | apply cur_begin_some].
  - unfold cb_step. destruct (cur s) as [[k acts]|] eqn:Cu;
      [|split; [apply lm_same; [reflexivity | apply life_quiet_nil] | cbn; auto]].
    destruct acts as [|[|j|d rep a p| |] r].
    + split; [apply lm_same; [apply life_ret | apply life_quiet_ret] | intros _; left; discriminate].
    + split; [apply lm_same; [rewrite life_cancel; reflexivity | repeat split] | intros _; left; discriminate].
    + split; [apply lm_same; [rewrite life_cancel; reflexivity | repeat split] | intros _; left; discriminate].
    + split; [apply lm_same; [reflexivity | repeat split] | intros _; left; discriminate].
    + split; [apply lm_same; [apply life_ret | apply life_quiet_ret] | intros _; left; discriminate].
    + split; [|intros _; left; discriminate]. rewrite svc_stop_eq. unfold mgr_stop, svc_close.
      cbn [fst snd with_running with_cur life_of].
      destruct (life_of s) eqn:Lf; cbn [fst snd app with_life life_of].
      * apply lm_same; [reflexivity | repeat split].
      * apply lm_close; [exact Lf | reflexivity | right; reflexivity].
      * apply lm_same; [reflexivity | repeat split].
      * apply lm_same; [reflexivity | repeat split].
  - split; [apply lm_same; [reflexivity | repeat split]|]. cbn. auto.
  - split; [|destruct (fc_facts s k) as (_ & F & _); rewrite F; auto].
    apply lm_same; [|destruct (fc_facts s k) as (F & _); rewrite F; apply life_quiet_nil].
    unfold fire_check. destruct (aget k (objs s)) as [t|]; [|reflexivity].
    destruct (t_tok t); try reflexivity. destruct (_ <=? _); [|reflexivity].
    destruct (t_canceled t); [|destruct (running s)]; reflexivity.
  - split; [|destruct (fs_facts s k) as (_ & F & _); rewrite F; auto].
    apply lm_same; [|destruct (fs_facts s k) as ([F|F] & _); rewrite F; repeat split].
    unfold fire_send. destruct (aget k (objs s)) as [t|]; [|reflexivity].
    destruct (t_tok t); try reflexivity. destruct (_ <? _); reflexivity.
  - split; [|destruct (recv_facts s) as (_ & _ & _ & F); rewrite F; auto].
    apply lm_same; [|destruct (recv_facts s) as (F & _); rewrite F; apply life_quiet_nil].
    unfold recv. destruct (_ && _); reflexivity.
  - unfold svc_start. destruct (life_of s) eqn:Lf; cbn [fst snd];
      (split; [|cbn; auto]);
      [apply lm_start; [exact Lf | reflexivity | reflexivity] | | | ];
      apply lm_same; [reflexivity | apply life_quiet_nil | reflexivity | apply life_quiet_nil | reflexivity | apply life_quiet_nil].
  - unfold svc_close. destruct (life_of s) eqn:Lf; cbn [fst snd];
      (split; [|cbn; auto]);
      [ | apply lm_close; [exact Lf | reflexivity | left; reflexivity] | | ];
      apply lm_same; [reflexivity | apply life_quiet_nil | reflexivity | apply life_quiet_nil | reflexivity | apply life_quiet_nil].
  - unfold loop_end. destruct (life_of s) eqn:Lf; destruct (cur s) eqn:Cu; cbn [fst snd];
      (split; [|cbn; rewrite ?Cu; auto]);
      try (apply lm_same; [reflexivity | apply life_quiet_nil]).
    apply lm_end; [exact Lf | exact Cu | exact Cu | reflexivity | reflexivity].
Qed.

(* the life-cycle invariant: the state's [life] is the number of start / close / end events so
   far, and a callback is in progress only on a live loop *)
Definition LI (s : st) (tr : list ev) : Prop :=
  life_events (life_of s) = (count_ev is_start tr, count_ev is_close tr, count_ev is_end tr) /\
  (cur s <> None -> drains (life_of s) = true).

Lemma count_ev_app f a b : count_ev f (a ++ b) = count_ev f a + count_ev f b.
Proof. induction a as [|x r IH]; cbn [app count_ev]; [lia|]. rewrite IH. lia. Qed.

Lemma count_ev_nonneg f tr : 0 <= count_ev f tr.
Proof. induction tr as [|x r IH]; cbn [count_ev]; [lia|]. destruct (f x); lia. Qed.

Lemma count_ev_zero f tr x : count_ev f tr = 0 -> In x tr -> f x = false.
Proof.
  induction tr as [|y r IH]; [intros _ []|]. cbn [count_ev]. intros Z0 [->|I].
  - pose proof (count_ev_nonneg f r). destruct (f x); [lia | reflexivity].
  - apply IH; [|exact I]. pose proof (count_ev_nonneg f r). destruct (f y); lia.
Qed.

Lemma count_ev_pos f tr : 0 < count_ev f tr -> exists x, In x tr /\ f x = true.
Proof.
  induction tr as [|y r IH]; cbn [count_ev]; [lia|]. intro P. destruct (f y) eqn:F.
  - exists y. split; [left; reflexivity | exact F].
  - destruct (IH ltac:(lia)) as (x & I & Fx). exists x. split; [right; exact I | exact Fx].
Qed.

Lemma li_init : LI init [].
Proof. split; [reflexivity|]. cbn. intro H. contradiction. Qed.

Lemma li_step s tr x : LI s tr -> LI (fst (step s x)) (tr ++ snd (step s x)).
Proof.
  intros [A C]. destruct (life_step s x) as [M Cu'].
  destruct (step s x) as [s' e]. cbn [fst snd] in *. split.
  - rewrite !count_ev_app.
    destruct M as [L (Q1 & Q2 & Q3)|L L' ->|L L' [->| ->]|L Cn Cn' L' ->].
    + rewrite L, A, Q1, Q2, Q3. repeat f_equal; lia.
    + rewrite L in A. rewrite L'. cbn in *. inv A. repeat f_equal; lia.
    + rewrite L in A. rewrite L'. cbn in *. inv A. repeat f_equal; lia.
    + rewrite L in A. rewrite L'. cbn in *. inv A. repeat f_equal; lia.
    + rewrite L in A. rewrite L'. cbn in *. inv A. repeat f_equal; lia.
  - intro N. specialize (Cu' N).
    assert (D : drains (life_of s) = true) by (destruct Cu' as [X|X]; [exact (C X) | exact X]).
    destruct M as [L _|L L' _|L L' _|L Cn Cn' L' _].
    + rewrite L. exact D.
    + rewrite L'. reflexivity.
    + rewrite L'. reflexivity.
    + contradiction.
Qed.

Lemma li_run_from xs : forall s tr, LI s tr -> LI (fst (run_from s xs)) (tr ++ snd (run_from s xs)).
Proof.
  induction xs as [|x r IH]; intros s tr L; cbn [run_from].
  - cbn [fst snd]. rewrite app_nil_r. exact L.
  - pose proof (li_step s tr x L) as L1. destruct (step s x) as [s1 e1]. cbn [fst snd] in L1.
    specialize (IH s1 _ L1). destruct (run_from s1 r) as [s2 e2]. cbn [fst snd] in *.
    rewrite app_assoc. exact IH.
Qed.

Lemma li_reachable xs : LI (final xs) (trace xs).
Proof. apply (li_run_from xs init [] li_init). Qed.

(* Start, Stop and the loop's end happen at most once each, in this order *)
Lemma life_cycle_once xs :
  life_events (life_of (final xs)) =
  (count_ev is_start (trace xs), count_ev is_close (trace xs), count_ev is_end (trace xs)).
Proof. apply li_reachable. Qed.

Lemma li_started s tr : LI s tr -> drains (life_of s) = true -> In EStart tr /\ ~ In ELoopEnd tr.
Proof.
  intros [A _] D. split.
  - destruct (count_ev_pos is_start tr) as (x & I & F).
    + destruct (life_of s); cbn in *; try discriminate; inv A; lia.
    + destruct x; try discriminate. exact I.
  - intro I. assert (Z0 : count_ev is_end tr = 0) by (destruct (life_of s); cbn in *; try discriminate; inv A; lia).
    pose proof (count_ev_zero is_end tr ELoopEnd Z0 I). discriminate.
Qed.

Lemma li_ended s tr : LI s tr -> In ELoopEnd tr -> life_of s = LEnd /\ cur s = None.
Proof.
  intros [A C] I.
  assert (L : life_of s = LEnd).
  { destruct (life_of s) eqn:Lf; [| | |reflexivity]; exfalso; cbn in A; inv A;
      match goal with H : 0 = count_ev is_end tr |- _ =>
        pose proof (count_ev_zero is_end tr ELoopEnd (eq_sym H) I); discriminate end. }
  split; [exact L|]. destruct (cur s) eqn:Cu; [|reflexivity]. exfalso.
  assert (X : drains (life_of s) = true) by (apply C; discriminate). rewrite L in X. discriminate.
Qed.

Lemma begin_events s k :
  snd (begin_at s k) = [] \/ exists c a, snd (begin_at s k) = [ECb k c a].
Proof.
  unfold begin_at. destruct (cur s); [left; reflexivity|].
  destruct (drains (life_of s)); cbn [negb]; [|left; reflexivity].
  destruct (zmem k (queue s)); [|left; reflexivity].
  destruct (aget k (objs s)) as [t|]; [|left; reflexivity].
  destruct (t_canceled t); [left; reflexivity | right; eexists; eexists; reflexivity].
Qed.

(* without a loop goroutine (not started yet / ended) a step emits only quiet events *)
Lemma idle_quiet s x :
  drains (life_of s) = false -> cur s = None -> life_of s = LEnd \/ x <> SStart ->
  forall y, In y (snd (step s x)) -> quiet_event y.
Proof.
  intros D Cu Hx.
  assert (B : forall k, snd (begin_at s k) = []).
  { intro k. unfold begin_at. rewrite Cu, D. reflexivity. }
  destruct x as [d rep a p|k| |k| | |dt|k|k| | | | ]; cbn [step]; intros y Hy.
  - cbn in Hy. destruct Hy as [<-|[]]. exact Logic.I.
  - cbn in Hy. destruct Hy as [<-|[]]. exact Logic.I.
  - cbn in Hy. destruct Hy as [<-|[]]. exact Logic.I.
  - rewrite B in Hy. destruct Hy.
  - destruct (queue s); [destruct Hy | rewrite B in Hy; destruct Hy].
  - unfold cb_step in Hy. rewrite Cu in Hy. destruct Hy.
  - destruct Hy.
  - destruct (fc_facts s k) as (F & _). rewrite F in Hy. destruct Hy.
  - destruct (fs_facts s k) as ([F|F] & _); rewrite F in Hy; [destruct Hy|].
    destruct Hy as [<-|[]]. exact Logic.I.
  - destruct (recv_facts s) as (F & _). rewrite F in Hy. destruct Hy.
  - destruct Hx as [L|N]; [|contradiction]. unfold svc_start in Hy. rewrite L in Hy. destruct Hy.
  - unfold svc_close in Hy. destruct (life_of s); try discriminate; destruct Hy.
  - unfold loop_end in Hy. destruct (life_of s); try discriminate; destruct Hy.
Qed.

Definition Within (tr : list ev) : Prop := callbacks_within_owner_life tr /\ nothing_after_loop_end tr.

Lemma within_nil : Within [].
Proof.
  split.
  - intros k c a t1 t2 E. destruct t1; discriminate.
  - intros t1 t2 E. destruct t1; discriminate.
Qed.

Lemma within_step s tr x : LI s tr -> Within tr -> Within (tr ++ snd (step s x)).
Proof.
  intros L [W1 W2]. split.
  - intros k c a t1 t2 E. apply app_split in E. destruct E as [[m [E1 E2]]|[e1 [E1 E2]]].
    + eapply W1; eauto.
    + assert (Hin : In (ECb k c a) (snd (step s x))) by (rewrite E1; apply in_or_app; right; left; reflexivity).
      destruct (cb_only_from_do s x k c a Hin) as (Hx & _ & _ & D).
      assert (S1 : snd (step s x) = [ECb k c a]).
      { assert (Bk : snd (step s x) = snd (begin_at s k)).
        { destruct Hx as [->|[-> Hq]]; cbn [step]; [reflexivity|].
          destruct (queue s) as [|j q]; [discriminate|]. cbn in Hq. inv Hq. reflexivity. }
        rewrite Bk in *. destruct (begin_events s k) as [Z0|(c' & a' & Z1)].
        - rewrite Z0 in Hin. destruct Hin.
        - rewrite Z1 in *. destruct Hin as [X|[]]. inv X. reflexivity. }
      rewrite S1 in E1. symmetry in E1. apply split1 in E1. destruct E1 as (-> & _ & _).
      subst t1. rewrite app_nil_r. apply (li_started _ _ L D).
  - intros t1 t2 E y Hy. apply app_split in E. destruct E as [[m [E1 E2]]|[e1 [E1 E2]]].
    + subst t2. apply in_app_or in Hy. destruct Hy as [Hy|Hy]; [eapply W2; eauto|].
      assert (I : In ELoopEnd tr) by (rewrite E1; apply in_or_app; right; left; reflexivity).
      destruct (li_ended _ _ L I) as [Le Cu].
      apply (idle_quiet s x); auto. rewrite Le. reflexivity.
    + destruct (life_step s x) as [M _].
      assert (Hin : In ELoopEnd (snd (step s x))) by (rewrite E1; apply in_or_app; right; left; reflexivity).
      destruct M as [_ (_ & _ & Q3)|_ _ Ee|_ _ [Ee|Ee]|_ _ _ _ Ee].
      * pose proof (count_ev_zero is_end _ ELoopEnd Q3 Hin). discriminate.
      * rewrite Ee in Hin. cbn in Hin. intuition discriminate.
      * rewrite Ee in Hin. cbn in Hin. intuition discriminate.
      * rewrite Ee in Hin. cbn in Hin. intuition discriminate.
      * rewrite Ee in E1. symmetry in E1. apply split1 in E1. destruct E1 as (_ & _ & ->). destruct Hy.
Qed.

Lemma within_run_from xs : forall s tr, LI s tr -> Within tr -> Within (tr ++ snd (run_from s xs)).
Proof.
  induction xs as [|x r IH]; intros s tr L W; cbn [run_from].
  - cbn [snd]. rewrite app_nil_r. exact W.
  - pose proof (li_step s tr x L) as L1. pose proof (within_step s tr x L W) as W1.
    destruct (step s x) as [s1 e1]. cbn [fst snd] in *.
    specialize (IH s1 _ L1 W1). destruct (run_from s1 r) as [s2 e2]. cbn [snd] in *.
    rewrite app_assoc. exact IH.
Qed.

Lemma callbacks_within_all xs : callbacks_within_owner_life (trace xs).
Proof. apply (within_run_from xs init [] li_init within_nil). Qed.

Lemma nothing_after_loop_end_all xs : nothing_after_loop_end (trace xs).
Proof. apply (within_run_from xs init [] li_init within_nil). Qed.

(* ---- before Start(): expiries wait in the queue ---- *)
Lemma queue_step_new s x :
  life_of s = LNew -> cur s = None ->
  queue (fst (step s x)) = queue s ++ queued_of (snd (step s x)).
Proof.
  intros L Cu.
  assert (B : forall k, begin_at s k = (s, [])).
  { intro k. unfold begin_at. rewrite Cu, L. reflexivity. }
  destruct x as [d rep a p|k| |k| | |dt|k|k| | | | ]; cbn [step].
  - cbn. rewrite app_nil_r. reflexivity.
  - destruct (queue_cancel s k) as [-> _]. cbn. rewrite app_nil_r. reflexivity.
  - cbn. rewrite app_nil_r. reflexivity.
  - rewrite B. cbn. rewrite app_nil_r. reflexivity.
  - destruct (queue s) as [|k q] eqn:Q; [cbn; rewrite Q; reflexivity|]. rewrite B. cbn. rewrite app_nil_r. exact Q.
  - unfold cb_step. rewrite Cu. cbn. rewrite app_nil_r. reflexivity.
  - cbn. rewrite app_nil_r. reflexivity.
  - destruct (fc_facts s k) as (F & _). rewrite F. cbn [queued_of]. rewrite app_nil_r.
    unfold fire_check. destruct (aget k (objs s)) as [t|]; [|reflexivity].
    destruct (t_tok t); try reflexivity. destruct (_ <=? _); [|reflexivity].
    destruct (t_canceled t); [|destruct (running s)]; reflexivity.
  - unfold fire_send. destruct (aget k (objs s)) as [t|]; [|cbn; rewrite app_nil_r; reflexivity].
    destruct (t_tok t); try (cbn; rewrite app_nil_r; reflexivity).
    destruct (_ <? _); cbn; [reflexivity | rewrite app_nil_r; reflexivity].
  - destruct (recv_facts s) as (F & _). rewrite F. cbn [queued_of]. rewrite app_nil_r.
    unfold recv. destruct (_ && _); reflexivity.
  - unfold svc_start. rewrite L. cbn. rewrite app_nil_r. reflexivity.
  - unfold svc_close. rewrite L. cbn. rewrite app_nil_r. reflexivity.
  - unfold loop_end. rewrite L. cbn. rewrite app_nil_r. reflexivity.
Qed.

Lemma life_new_back s x : life_of (fst (step s x)) = LNew -> life_of s = LNew.
Proof.
  intro L. destruct (life_step s x) as [M _].
  destruct M as [E _|_ E _|_ E _|_ _ _ E _]; congruence.
Qed.

Lemma prestart_run xs : forall s tr,
  LI s tr -> life_of (fst (run_from s xs)) = LNew ->
  life_of s = LNew /\ queue (fst (run_from s xs)) = queue s ++ queued_of (snd (run_from s xs)).
Proof.
  induction xs as [|x r IH]; intros s tr L Hn; cbn [run_from] in *.
  - cbn [fst snd queued_of] in *. rewrite app_nil_r. auto.
  - pose proof (li_step s tr x L) as L1. pose proof (queue_step_new s x) as Q.
    pose proof (life_new_back s x) as Bk.
    destruct (step s x) as [s1 e1]. cbn [fst snd] in *.
    specialize (IH s1 _ L1). destruct (run_from s1 r) as [s2 e2]. cbn [fst snd] in *.
    destruct (IH Hn) as [N1 Q1]. specialize (Bk N1). split; [exact Bk|].
    assert (Cu : cur s = None).
    { destruct (cur s) eqn:C; [|reflexivity]. exfalso. destruct L as [_ D].
      assert (X : drains (life_of s) = true) by (apply D; rewrite C; discriminate).
      rewrite Bk in X. discriminate. }
    rewrite Q1, (Q Bk Cu), queued_of_app, app_assoc. reflexivity.
Qed.

(* every expiry that happened before Start() is still in the queue, in order of arrival *)
Lemma prestart_expiries_wait xs :
  life_of (final xs) = LNew -> queue (final xs) = queued_of (trace xs) /\ cur (final xs) = None.
Proof.
  intro L. destruct (prestart_run xs init [] li_init L) as [_ Q]. split; [exact Q|].
  destruct (li_reachable xs) as [_ D]. destruct (cur (final xs)) eqn:C; [|reflexivity]. exfalso.
  assert (X : drains (life_of (final xs)) = true) by (apply D; discriminate).
  rewrite L in X. discriminate.
Qed.

Lemma queued_of_In k e : In k (queued_of e) <-> In (EQueued k) e.
Proof.
  induction e as [|x r IH]; [split; intros []|]. destruct x; cbn [queued_of]; cbn [In]; rewrite IH;
    try (split; [intro H; right; exact H | intros [H|H]; [discriminate | exact H]]).
  split; [intros [->|H]; auto | intros [H|H]; [inv H; auto | auto]].
Qed.

(* ... and Start() followed by the loop's Do runs its callback *)
Lemma prestart_runs_after_start xs k t :
  life_of (final xs) = LNew -> In (EQueued k) (trace xs) ->
  aget k (objs (final xs)) = Some t -> t_canceled t = false ->
  trace (xs ++ [SStart; SBegin k]) = trace xs ++ [EStart; ECb k (clock (final xs)) (t_args t)].
Proof.
  intros L Iq E Ca. destruct (prestart_expiries_wait xs L) as [Q Cu].
  rewrite trace_app. cbn [run_from step]. unfold svc_start. rewrite L.
  assert (M : zmem k (queue (final xs)) = true).
  { apply zmem_In. rewrite Q. apply queued_of_In. exact Iq. }
  rewrite (begin_ok (with_life (final xs) LUp) k t); auto.
Qed.

Lemma length_remove_first_le k q : (length (remove_first k q) <= length q)%nat.
Proof.
  induction q as [|y r IH]; cbn [remove_first length]; [lia|]. destruct (Z.eqb k y); cbn [length]; lia.
Qed.

(* a repeating timer whose first expiry happened before Start(): once started it runs, and
   then again and again *)
Lemma prestart_repeating xs k d t m :
  life_of (final xs) = LNew -> In (EQueued k) (trace xs) ->
  aget k (objs (final xs)) = Some t -> t_canceled t = false -> t_period t = d -> 0 < d ->
  keeps k (t_prog t) -> running (final xs) = true -> Z.of_nat (length (queue (final xs))) < qcap ->
  count_cb k (trace (xs ++ [SStart; SBegin k] ++ repeat SCbStep (S (length (t_prog t)))
                        ++ cycles m k d (length (t_prog t)))) =
  count_cb k (trace xs) + 1 + Z.of_nat m.
Proof.
  intros L Iq E Ca Pe Po Kp Rn Cap.
  pose proof (prestart_runs_after_start xs k t L Iq E Ca) as T2.
  destruct (prestart_expiries_wait xs L) as [Q Cu].
  assert (M : zmem k (queue (final xs)) = true).
  { apply zmem_In. rewrite Q. apply queued_of_In. exact Iq. }
  replace (xs ++ [SStart; SBegin k] ++ repeat SCbStep (S (length (t_prog t))) ++ cycles m k d (length (t_prog t)))
    with ((xs ++ [SStart; SBegin k]) ++ repeat SCbStep (S (length (t_prog t))) ++ cycles m k d (length (t_prog t)))
    by (rewrite <- app_assoc; reflexivity).
  rewrite trace_app, count_cb_app, T2, count_cb_app. cbn [count_cb]. rewrite Z.eqb_refl.
  rewrite run_from_app. cbn [snd]. rewrite count_cb_app.
  pose proof (inv_reachable (xs ++ [SStart; SBegin k])) as I4.
  set (s4 := final (xs ++ [SStart; SBegin k])) in *.
  assert (S4 : s4 = with_cur (put (dequeue (with_life (final xs) LUp) k) k (set_tok InCb t)) (Some (k, t_prog t))).
  { unfold s4, final. rewrite run_from_app. cbn [fst run_from step]. unfold svc_start.
    fold (final xs). rewrite L. cbn [fst]. rewrite (begin_ok (with_life (final xs) LUp) k t); auto. }
  destruct (finish_cycle s4 _ k d (t_prog t) (set_tok InCb t) I4) as (t' & P' & C'); auto;
    try (rewrite S4; reflexivity).
  - rewrite S4. cbn [with_cur put with_objs dequeue with_life running]. exact Rn.
  - rewrite S4. cbn [with_cur put with_objs dequeue with_life queue].
    pose proof (length_remove_first_le k (queue (final xs))). lia.
  - rewrite S4. cbn [with_cur put with_objs objs]. apply aget_aset_same.
  - pose proof (inv_run_from (repeat SCbStep (S (length (t_prog t)))) s4 _ I4) as I5.
    fold s4. rewrite C', (cycles_count m _ _ k d (t_prog t) t' I5 P'). lia.
Qed.

(* ---- Mgr.Stop() is final: the flag never comes back, later expiries are kept out ---- *)
Lemma running_ret s k p : running (fst (ret s k p)) = running s.
Proof.
  unfold ret. destruct (aget k (objs s)) as [t|]; [|reflexivity].
  destruct (t_canceled t); [reflexivity|]. destruct (0 <? t_period t); reflexivity.
Qed.

Lemma running_cancel s k : running (fst (cancel s k)) = running s.
Proof. unfold cancel. cbn [fst]. destruct (aget k (objs s)) as [t|]; [destruct (t_reg t)|]; reflexivity. Qed.

Lemma running_svc_stop s : running (fst (svc_stop s)) = false.
Proof.
  rewrite svc_stop_eq. unfold mgr_stop, svc_close. cbn [fst with_running life_of].
  destruct (life_of s); reflexivity.
Qed.

Lemma stop_step s x :
  (running s = false -> running (fst (step s x)) = false) /\
  (In EStop (snd (step s x)) -> running (fst (step s x)) = false).
Proof.
  destruct x as [d rep a p|k| |k| | |dt|k|k| | | | ]; cbn [step].
  - split; [auto | intros [H|[]]; discriminate].
  - rewrite running_cancel. split; [auto | intros [H|[]]; discriminate].
  - split; reflexivity.
  - rewrite running_begin. split; [auto|]. destruct (begin_events s k) as [->|(c & a & ->)]; [intros [] | intros [H|[]]; discriminate].
  - destruct (queue s) as [|k q]; [split; [auto | intros []]|].
    rewrite running_begin. split; [auto|]. destruct (begin_events s k) as [->|(c & a & ->)]; [intros [] | intros [H|[]]; discriminate].
  - unfold cb_step. destruct (cur s) as [[k acts]|]; [|split; [auto | intros []]].
    assert (R : forall p, (running s = false -> running (fst (ret s k p)) = false) /\
                          (In EStop (snd (ret s k p)) -> running (fst (ret s k p)) = false)).
    { intro p. rewrite running_ret. split; [auto|]. intro H. exfalso.
      unfold ret in H. destruct (aget k (objs s)) as [t|]; [|cbn in H; intuition discriminate].
      destruct (t_canceled t); [|destruct (0 <? t_period t)]; cbn in H; intuition discriminate. }
    destruct acts as [|[|j|d rep a p| |] r]; try apply R.
    + rewrite running_cancel. split; [auto | intros [H|[]]; discriminate].
    + rewrite running_cancel. split; [auto | intros [H|[]]; discriminate].
    + split; [auto | intros [H|[]]; discriminate].
    + rewrite running_svc_stop. split; reflexivity.
  - split; [auto | intros []].
  - destruct (fc_facts s k) as (F & _). rewrite F. split; [|intros []].
    intro R. unfold fire_check. destruct (aget k (objs s)) as [t|]; [|exact R].
    destruct (t_tok t); try exact R. destruct (_ <=? _); [|exact R].
    destruct (t_canceled t); [exact R|]. rewrite R. exact R.
  - split.
    + intro R. unfold fire_send. destruct (aget k (objs s)) as [t|]; [|exact R].
      destruct (t_tok t); try exact R. destruct (_ <? _); exact R.
    + destruct (fs_facts s k) as ([F|F] & _); rewrite F; [intros [] | intros [H|[]]; discriminate].
  - destruct (recv_facts s) as (F & _). rewrite F. split; [|intros []].
    intro R. unfold recv. destruct (_ && _); exact R.
  - unfold svc_start. destruct (life_of s); cbn [fst snd with_life running]; (split; [auto|]);
      intro H; cbn in H; intuition discriminate.
  - unfold svc_close. destruct (life_of s); cbn [fst snd with_life running]; (split; [auto|]);
      intro H; cbn in H; intuition discriminate.
  - unfold loop_end. destruct (life_of s); destruct (cur s); cbn [fst snd with_life running];
      (split; [auto|]); intro H; cbn in H; intuition discriminate.
Qed.

Lemma stop_run_from xs : forall s tr,
  (In EStop tr -> running s = false) ->
  In EStop (tr ++ snd (run_from s xs)) -> running (fst (run_from s xs)) = false.
Proof.
  induction xs as [|x r IH]; intros s tr H; cbn [run_from].
  - cbn [fst snd]. rewrite app_nil_r. exact H.
  - destruct (stop_step s x) as [A B]. destruct (step s x) as [s1 e1]. cbn [fst snd] in *.
    specialize (IH s1 (tr ++ e1)). destruct (run_from s1 r) as [s2 e2]. cbn [fst snd] in *.
    rewrite app_assoc. apply IH. intro I. apply in_app_or in I. destruct I as [I|I]; auto.
Qed.

Lemma stop_is_final xs : running (final xs) = false <-> In EStop (trace xs).
Proof.
  split.
  - intro R. destruct (running_run_from xs init) as [X|X]; [|exact X].
    unfold final in R. rewrite X in R. discriminate.
  - intro I. apply (stop_run_from xs init []); [intros [] | exact I].
Qed.

(* after Mgr.Stop() an expiry of an armed timer never gets as far as the channel *)
Lemma stopped_drops s k t dl :
  running s = false -> aget k (objs s) = Some t -> t_tok t = Pending dl -> dl <= clock s ->
  fire_check s k = (put s k (set_tok Dead t), []).
Proof.
  intros R E Q D. unfold fire_check. rewrite E, Q, R.
  destruct (Z.leb_spec dl (clock s)); [|lia]. destruct (t_canceled t); reflexivity.
Qed.
