(* C14 - correspondence entry point: comparison of the model's observations with the real
   timer.Mgr's, and the property monitor evaluated on the implementation's own trace.
   The model is run on the op list following the schedules of released loops recorded in the
   implementation's observations (Model.hint_of): agreement means "the implementation's
   behaviour is the model's behaviour under that schedule". *)
From Cell2V Require Import Common.Tac Common.ListX Common.AList C14.Model C14.Spec.

Definition cbrec_eqb (x y : cbrec) : bool :=
  match x, y with
  | CbRec k n a e c o, CbRec k' n' a' e' c' o' =>
      (k =? k') && (n =? n') && Bool.eqb a a' && Bool.eqb e e' && Bool.eqb c c' && Bool.eqb o o'
  end.

Definition obs_eqb (a b : obs) : bool :=
  match a, b with
  | BUnit, BUnit => true
  | BQueued x, BQueued y => zlist_eqb x y
  | BRan x, BRan y => list_eqb cbrec_eqb x y
  | BRanCut x, BRanCut y => list_eqb cbrec_eqb x y
  | BWait q x, BWait q' y => zlist_eqb q q' && list_eqb cbrec_eqb x y
  | _, _ => false
  end.

Definition case := (list op * list obs)%type.

Definition agree (c : case) : bool := list_eqb obs_eqb (run (fst c) (snd c)) (snd c).
Definition monitor (c : case) : bool := monitor_from [] (fst c) (snd c).

Definition disagreeing (cs : list case) : list Z := failing agree cs.
Definition monitor_failing (cs : list case) : list Z := failing monitor cs.
