(* C14 - model of utils/timer (timer.Mgr, timer.Obj).  No proofs in this file.

   Go -> model:
     Obj{TimerId, Duration, CB, Args, Canceled, timer}   [timer] record; the id is the creation
                                                          index (0,1,2..; Go: 2,3,4..), CB is a
                                                          callback program [prog], Args one token
     Mgr.timers  sync.Map id -> *Obj (only used by Cancel) [t_reg] bit of the record
     Mgr.queue   chan *Obj, capacity 999                   [queue] list of ids, [qcap], [recvd]
     Mgr.running                                           [running]
     time.AfterFunc(d, f)                                  token [Pending (now + d)]; the runtime
                                                          may start f only when clock >= deadline
                                                          (step [SFireCheck], the ONLY assumption
                                                          about the Go runtime), f itself is two
                                                          steps: read the flags, then send.
   The owner goroutine is the only one calling After/AddTimer/Cancel/Stop/Do (owner steps);
   a callback runs inside [Do] on the owner: [SBegin] starts it, every [SCbStep] executes one
   action of its program or - when the program is exhausted / panics - returns into [Do].
   Owner steps issued while a callback is running are calls made from inside that callback.
   The owner may call Do on received expiries in any order ([SBegin k]); [SDoNext] is the
   FIFO choice made by StandardRunService's selector.  [queue] lists every expiry that has been
   sent and not yet passed to Do; [recvd] of them are already in the owner's hands ([SRecv]), the
   others sit in the channel, whose capacity [qcap] bounds them: [SFireSend] is enabled only
   while the channel holds fewer than qcap expiries (Go: the send blocks), so a blocked expiry
   stays [Firing] - it is never dropped - until a receive frees a slot.

   The OWNER's life cycle ([life]) is part of the state.  For the TimerMgr of a
   runservice.StandardRunService the owner is the service's loop goroutine:
     LNew   NewStandardRunService returned; nobody drains the queue (expiries that happen now
            are sent to the channel and WAIT there)
     LUp    Start() was called: the loop goroutine exists ([SStart])
     LDown  Stop() was called - TimerMgr.Stop() ([SStop]: running := false) and
            close(chanClose) ([SClose]) - by the loop itself (from a task or from a timer
            callback, [AStop]) or by a foreign goroutine; the loop is still alive and, because
            reflect.Select picks among the ready channels at random, may still take queued
            expiries before it takes the close signal
     LEnd   the loop has left its for-loop ([SLoopEnd], only between two iterations, i.e.
            while no callback is running): no goroutine drains the queue any more
   The steps of the draining goroutine are [SRecv], [SBegin], [SDoNext], [SCbStep] and
   [SLoopEnd] ([loop_step]); receiving and Do are enabled only while it is alive
   ([drains]).  Stop() itself - whoever calls it - takes nothing out of the queue and runs
   nothing.  A bare timer.NewTimerMgr() whose owner goroutine drains from the beginning (the
   bare world of the harness) is the state after [SStart] ([init_up]).  Start() twice,
   Stop() twice (panics: close of closed channel) and Stop() before Start() are not modelled
   (the steps are no-ops there) and not driven. *)
From Cell2V Require Import Common.Tac Common.ListX Common.AList.

(* ---- callback programs ---- *)
Inductive act :=
| ACancelSelf                                         (* mgr.Cancel(own id) *)
| ACancel (k : Z)                                     (* mgr.Cancel(id of the k-th created timer) *)
| ACreate (d : Z) (rep : bool) (a : Z) (p : list act) (* mgr.AddTimer / mgr.After *)
| APanic                                              (* panic("..."): the rest is not executed *)
| AStop.                                              (* the owner's StandardRunService.Stop(), called
                                                         from inside the callback (bare Mgr: Mgr.Stop()) *)
Definition prog := list act.

(* where the single "expiry token" of a timer currently is *)
Inductive tok :=
| Pending (dl : Z)   (* runtime timer armed, deadline dl *)
| Firing             (* AfterFunc goroutine has read Canceled=false, running=true; not yet sent *)
| Queued             (* *Obj sits in Mgr.queue *)
| InCb               (* Do is executing the callback *)
| Dead.              (* stopped by Cancel / dropped / skipped by Do / one-shot done *)

Record timer := mkT {
  t_dur : Z;           (* duration passed to After/AddTimer *)
  t_period : Z;        (* Obj.Duration: d for AddTimer, 0 for After *)
  t_args : Z;
  t_prog : prog;
  t_canceled : bool;   (* Obj.Canceled *)
  t_reg : bool;        (* id present in Mgr.timers *)
  t_tok : tok }.

Definition set_tok (x : tok) (t : timer) : timer :=
  mkT (t_dur t) (t_period t) (t_args t) (t_prog t) (t_canceled t) (t_reg t) x.
Definition set_unreg (t : timer) : timer :=
  mkT (t_dur t) (t_period t) (t_args t) (t_prog t) (t_canceled t) false (t_tok t).
(* Cancel on a registered timer: Canceled = true; timer.Stop(); timers.Delete(id) *)
Definition set_cancel (t : timer) : timer :=
  mkT (t_dur t) (t_period t) (t_args t) (t_prog t) true false
      (match t_tok t with Pending _ => Dead | x => x end).

(* the owner of the manager (the goroutine that drains its queue) *)
Inductive life := LNew | LUp | LDown | LEnd.
Definition drains (l : life) : bool := match l with LUp | LDown => true | LNew | LEnd => false end.

Record st := mkS {
  clock : Z;
  running : bool;
  next : Z;                      (* number of timers created so far = next index *)
  objs : alist timer;
  queue : list Z;                (* expiries sent and not yet passed to Do: channel + owner's hands *)
  cur : option (Z * prog);       (* callback being executed by the owner, remaining program *)
  recvd : nat;                   (* how many entries of [queue] the owner has already received;
                                    the channel holds the other length queue - recvd (<= qcap) *)
  life_of : life }.              (* the owner's life cycle *)

Definition qcap : Z := 999.

Definition init : st := mkS 0 true 0 [] [] None 0 LNew.

Definition with_objs (s : st) (o : alist timer) : st :=
  mkS (clock s) (running s) (next s) o (queue s) (cur s) (recvd s) (life_of s).
Definition with_queue (s : st) (q : list Z) : st :=
  mkS (clock s) (running s) (next s) (objs s) q (cur s) (recvd s) (life_of s).
Definition with_cur (s : st) (c : option (Z * prog)) : st :=
  mkS (clock s) (running s) (next s) (objs s) (queue s) c (recvd s) (life_of s).
Definition with_life (s : st) (l : life) : st :=
  mkS (clock s) (running s) (next s) (objs s) (queue s) (cur s) (recvd s) l.
Definition with_running (s : st) (b : bool) : st :=
  mkS (clock s) b (next s) (objs s) (queue s) (cur s) (recvd s) (life_of s).
(* the owner takes k's expiry (out of its hands if it holds any, else straight from the channel) *)
Definition dequeue (s : st) (k : Z) : st :=
  mkS (clock s) (running s) (next s) (objs s) (remove_first k (queue s)) (cur s) (pred (recvd s)) (life_of s).
Definition put (s : st) (k : Z) (t : timer) : st := with_objs s (aset k t (objs s)).

Inductive ev :=
| ECreate (k clk d : Z) (rep : bool) (a : Z)   (* timer k created and armed at clk *)
| ECancel (k : Z)                              (* owner called Cancel(k) *)
| EStop
| EQueued (k : Z)                              (* expiry of k sent to the queue *)
| ECb (k clk a : Z)                            (* callback of k invoked at clk with args a *)
| ERet (k : Z) (panicked : bool)               (* callback of k returned / panicked *)
| EArm (k clk : Z)                             (* Do re-armed k at clk *)
| EStart                                       (* the owner's loop goroutine was started *)
| EClose                                       (* Stop(): the close signal was given to the loop *)
| ELoopEnd.                                    (* the loop goroutine has ended *)

Inductive step_t :=
| SCreate (d : Z) (rep : bool) (a : Z) (p : prog)
| SCancel (k : Z)
| SStop
| SBegin (k : Z)
| SDoNext
| SCbStep
| SAdvance (dt : Z)
| SFireCheck (k : Z)
| SFireSend (k : Z)
| SRecv                (* the owner receives one expiry from the channel (frees a slot) *)
| SStart               (* StandardRunService.Start(): go loop() *)
| SClose               (* the rest of StandardRunService.Stop() after TimerMgr.Stop(): close(chanClose) *)
| SLoopEnd.            (* the loop takes the close signal and ends *)

(* the steps executed by the goroutine that drains the queue *)
Definition loop_step (x : step_t) : bool :=
  match x with SBegin _ | SDoNext | SCbStep | SRecv | SLoopEnd => true | _ => false end.

(* After (rep = false) / AddTimer (rep = true): allocId, doLater, timers.Store *)
Definition create (s : st) (d : Z) (rep : bool) (a : Z) (p : prog) : st * list ev :=
  let k := next s in
  let t := mkT d (if rep then d else 0) a p false true (Pending (clock s + d)) in
  (mkS (clock s) (running s) (k + 1) (aset k t (objs s)) (queue s) (cur s) (recvd s) (life_of s),
   [ECreate k (clock s) d rep a]).

Definition cancel (s : st) (k : Z) : st * list ev :=
  (match aget k (objs s) with
   | Some t => if t_reg t then put s k (set_cancel t) else s
   | None => s
   end, [ECancel k]).

(* Do(t) up to and including the call of the callback: only the draining goroutine calls Do *)
Definition begin_at (s : st) (k : Z) : st * list ev :=
  match cur s with
  | Some _ => (s, [])                      (* the owner is busy inside a callback *)
  | None =>
      if negb (drains (life_of s)) then (s, [])   (* no loop goroutine (yet / any more) *)
      else if zmem k (queue s) then
        let s1 := dequeue s k in
        match aget k (objs s) with
        | Some t =>
            if t_canceled t then (put s1 k (set_tok Dead t), [])
            else (with_cur (put s1 k (set_tok InCb t)) (Some (k, t_prog t)),
                  [ECb k (clock s) (t_args t)])
        | None => (s1, [])
        end
      else (s, [])
  end.

(* the rest of Do after m.do(t) came back (normally or through recover) *)
Definition ret (s : st) (k : Z) (panicked : bool) : st * list ev :=
  let s0 := with_cur s None in
  match aget k (objs s) with
  | Some t =>
      if t_canceled t then (put s0 k (set_tok Dead t), [ERet k panicked])
      else if 0 <? t_period t then
        (put s0 k (set_tok (Pending (clock s + t_period t)) t), [ERet k panicked; EArm k (clock s)])
      else (put s0 k (set_unreg (set_tok Dead t)), [ERet k panicked])
  | None => (s0, [ERet k panicked])
  end.

(* Mgr.Stop() *)
Definition mgr_stop (s : st) : st * list ev := (with_running s false, [EStop]).

(* close(chanClose) etc.: the loop is told to end *)
Definition svc_close (s : st) : st * list ev :=
  match life_of s with LUp => (with_life s LDown, [EClose]) | _ => (s, []) end.

(* StandardRunService.Stop() = TimerMgr.Stop(); EventCenter.Clear(); RunService.Stop() *)
Definition svc_stop (s : st) : st * list ev :=
  let '(s1, e1) := mgr_stop s in let '(s2, e2) := svc_close s1 in (s2, e1 ++ e2).

Definition cb_step (s : st) : st * list ev :=
  match cur s with
  | None => (s, [])
  | Some (k, []) => ret s k false
  | Some (k, APanic :: _) => ret s k true
  | Some (k, ACancelSelf :: r) => cancel (with_cur s (Some (k, r))) k
  | Some (k, ACancel j :: r) => cancel (with_cur s (Some (k, r))) j
  | Some (k, ACreate d rep a p :: r) => create (with_cur s (Some (k, r))) d rep a p
  | Some (k, AStop :: r) => svc_stop (with_cur s (Some (k, r)))
  end.

(* the function given to AfterFunc, first half: if t.Canceled {return}; if !m.running {return} *)
Definition fire_check (s : st) (k : Z) : st * list ev :=
  match aget k (objs s) with
  | Some t =>
      match t_tok t with
      | Pending dl =>
          if dl <=? clock s then
            if t_canceled t then (put s k (set_tok Dead t), [])
            else if running s then (put s k (set_tok Firing t), [])
            else (put s k (set_tok Dead t), [])
          else (s, [])        (* not enabled: the runtime never fires early *)
      | _ => (s, [])
      end
  | None => (s, [])
  end.

(* second half: m.queue <- t  (blocks while the channel holds qcap expiries) *)
Definition fire_send (s : st) (k : Z) : st * list ev :=
  match aget k (objs s) with
  | Some t =>
      match t_tok t with
      | Firing =>
          if Z.of_nat (length (queue s) - recvd s) <? qcap then
            (put (with_queue s (queue s ++ [k])) k (set_tok Queued t), [EQueued k])
          else (s, [])
      | _ => (s, [])
      end
  | None => (s, [])
  end.

(* t := <-mgr.GetQueue() without calling Do yet (the draining goroutine only) *)
Definition recv (s : st) : st * list ev :=
  if drains (life_of s) && (recvd s <? length (queue s))%nat
  then (mkS (clock s) (running s) (next s) (objs s) (queue s) (cur s) (S (recvd s)) (life_of s), [])
  else (s, []).

Definition svc_start (s : st) : st * list ev :=
  match life_of s with LNew => (with_life s LUp, [EStart]) | _ => (s, []) end.

(* the loop takes the close signal: only between two iterations *)
Definition loop_end (s : st) : st * list ev :=
  match life_of s, cur s with
  | LDown, None => (with_life s LEnd, [ELoopEnd])
  | _, _ => (s, [])
  end.

Definition step (s : st) (x : step_t) : st * list ev :=
  match x with
  | SCreate d rep a p => create s d rep a p
  | SCancel k => cancel s k
  | SStop => mgr_stop s
  | SBegin k => begin_at s k
  | SDoNext => match queue s with k :: _ => begin_at s k | [] => (s, []) end
  | SCbStep => cb_step s
  | SAdvance dt => (mkS (clock s + Z.max 0 dt) (running s) (next s) (objs s) (queue s) (cur s) (recvd s) (life_of s), [])
  | SFireCheck k => fire_check s k
  | SFireSend k => fire_send s k
  | SRecv => recv s
  | SStart => svc_start s
  | SClose => svc_close s
  | SLoopEnd => loop_end s
  end.

Fixpoint run_from (s : st) (xs : list step_t) : st * list ev :=
  match xs with
  | [] => (s, [])
  | x :: r =>
      let '(s1, e1) := step s x in
      let '(s2, e2) := run_from s1 r in
      (s2, e1 ++ e2)
  end.

Definition final (xs : list step_t) : st := fst (run_from init xs).
Definition trace (xs : list step_t) : list ev := snd (run_from init xs).

(* ---- the harness' logical operations, each a fixed sequence of steps ---- *)
Inductive op :=
| OCreate (d : Z) (rep : bool) (a : Z) (p : prog)
| OCreateN (n d : Z) (rep : bool) (a : Z)   (* n timers with an empty callback program *)
| OStall (ms : Z)    (* the owner does nothing - in particular does not read the queue - for ms *)
| OCancel (k : Z)
| OStop             (* bare world: settle, then Mgr.Stop() *)
| OSettle (g : Z)   (* bare world: wait until every armed timer has expired and been received (+ g ms) *)
| ODo (k : Z)       (* bare world: Do the received expiry of timer k, callback to completion *)
| ODoAll            (* bare world: Do every received expiry, in creation order *)
(* service world: the manager of a real StandardRunService, the owner is its loop goroutine *)
| OSvc              (* first op of a service case: the owner does not exist yet ([init]) *)
| OWait (g : Z)     (* wait until every armed timer has expired and sits in the channel (+ g ms);
                       nobody receives: there is no loop, or it is busy in a long task *)
| OStart            (* Start(), then the loop runs until the queue is empty / the loop has ended *)
| ORun              (* the busy loop is released: runs until the queue is empty / it has ended *)
| OStopSvc (who : Z)  (* wait as OWait 0, then Stop() called by: 0 a foreign goroutine, 1 a task
                        of the loop itself (the same transition: Stop() touches flags only).
                        Stop() of a service that is not up (never started, stopped already) is
                        not driven: only the wait happens *)
| OCreateNs (ns : Z) (rep : bool) (a : Z) (p : prog).
                     (* as OCreate, the duration given in nanoseconds (any int64: negative, 1 ns,
                        one ns short of a ms, 100 years, math.MaxInt64).  The model's clock has no
                        unit: d is the number the caller passed.  A timer asked for [far] or more
                        of anything (ns: 1000 s, ms: 31 years) does not expire within a case. *)

Inductive cbrec := CbRec (k n : Z) (args_ok early after_cancel on_owner : bool).

Inductive obs :=
| BUnit
| BQueued (l : list Z)      (* timers whose expiry reached the queue during this Settle *)
| BRan (l : list cbrec)     (* callbacks that ran during this op *)
| BRanCut (l : list cbrec)  (* the same for a released loop that the driver parked again BEFORE it had
                               reached the end of its queue (expiries kept arriving as fast as the
                               loop was released; the driver gives up after a number of rounds) *)
| BWait (q : list Z) (l : list cbrec). (* timers whose expiry reached the channel; callbacks that ran
                                          although nobody was released to run them (none, in the model) *)

(* durations from here on are "never" on the time scale of a case: Settle / Wait do not wait
   for such a timer and the runtime does not expire it while the case lasts (it stays armed) *)
Definition far : Z := 1000000000000.

(* the armed timers that expire within a case *)
Fixpoint pending (m : alist timer) : list (Z * Z) :=
  match m with
  | [] => []
  | (k, t) :: r => match t_tok t with
                   | Pending dl => if t_dur t <? far then (k, dl) :: pending r else pending r
                   | _ => pending r
                   end
  end.

Fixpoint zinsert (x : Z) (l : list Z) : list Z :=
  match l with
  | [] => [x]
  | y :: r => if x <=? y then x :: l else y :: zinsert x r
  end.
Definition zsort (l : list Z) : list Z := fold_right zinsert [] l.

Definition prog_len (s : st) (k : Z) : nat :=
  match aget k (objs s) with Some t => length (t_prog t) | None => 0%nat end.

Definition do_steps (s : st) (k : Z) : list step_t := SBegin k :: repeat SCbStep (S (prog_len s k)).

(* time passes until the latest deadline; every armed timer expires, is sent to the channel as
   soon as there is room, and the owner receives it (a Settle drains the channel all the time) *)
Definition settle_steps (s : st) (g : Z) : list step_t :=
  let pk := pending (objs s) in
  SAdvance (fold_right Z.max (clock s) (map snd pk) - clock s)
    :: flat_map (fun k => [SFireCheck k; SFireSend k; SRecv]) (map fst pk) ++ [SAdvance g].

(* the same while nobody receives: the expiries pile up in the channel *)
Definition wait_steps (s : st) (g : Z) : list step_t :=
  let pk := pending (objs s) in
  SAdvance (fold_right Z.max (clock s) (map snd pk) - clock s)
    :: flat_map (fun k => [SFireCheck k; SFireSend k]) (map fst pk) ++ [SAdvance g].

(* ---- a released loop.  Which expiry the loop takes next - in which order the channel was
   filled, what arrives while it runs, how many it still takes after Stop() - is the
   implementation's schedule; the model FOLLOWS the observed one ([l]: the timers whose
   callbacks ran, in order) and predicts the rest: whether each of them may run at all, with
   which count, what its program does, what is left. ---- *)

(* the expiry of k reaches the channel now, if k is armed (the clock moves to its deadline) *)
Definition deliver (s : st) (k : Z) : list step_t :=
  match aget k (objs s) with
  | Some t => match t_tok t with
              | Pending dl => if t_dur t <? far then [SAdvance (dl - clock s); SFireCheck k; SFireSend k]
                              else []
              | _ => []
              end
  | None => []
  end.

(* Before the loop takes the expiry of k, the armed timers among k and the timers that run
   later in this release deliver theirs: an expiry that is going to be run has arrived at some
   moment before, and "as early as possible" is the schedule under which it survives a Stop()
   issued by a callback in between (TimerMgr.Stop() only keeps LATER expiries out of the
   channel). *)
Fixpoint follow (s : st) (l : list Z) : list step_t :=
  match l with
  | [] => []
  | k :: r => let xs := flat_map (deliver s) (k :: r) ++ do_steps s k in
              xs ++ follow (fst (run_from s xs)) r
  end.

(* then: a loop that is not being stopped goes on until the queue is empty (every expiry that
   is left is passed to Do, in creation order); a loop that has been told to stop ends *)
Definition rest_steps (s : st) : list step_t :=
  match life_of s with
  | LUp => flat_map (do_steps s) (zsort (queue s))
  | _ => []
  end.

(* [cut]: the loop was parked again before it got to the end of its queue - what is left stays queued *)
Definition loop_steps (s : st) (l : list Z) (cut : bool) : list step_t :=
  let xs := follow s l in
  let s1 := fst (run_from s xs) in
  xs ++ (if cut then [] else rest_steps s1) ++ [SLoopEnd].

(* the schedule of a released loop: the timers whose callbacks ran, in order; cut short or not *)
Definition sched := (list Z * bool)%type.

Definition compile (s : st) (o : op) (h : sched) : list step_t :=
  match o with
  | OCreate d rep a p => [SCreate d rep a p]
  | OCreateN n d rep a => repeat (SCreate d rep a []) (Z.to_nat n)
  | OStall ms => [SAdvance ms]
  | OCancel k => [SCancel k]
  | OStop => settle_steps s 0 ++ [SStop]
  | OSettle g => settle_steps s g
  | ODo k => do_steps s k
  | ODoAll => flat_map (do_steps s) (zsort (queue s))
  | OSvc => []
  | OWait g => wait_steps s g
  | OStart => SStart :: loop_steps (fst (step s SStart)) (fst h) (snd h)
  | ORun => loop_steps s (fst h) (snd h)
  | OStopSvc _ => wait_steps s 0 ++ match life_of s with LUp => [SStop; SClose] | _ => [] end
  | OCreateNs ns rep a p => [SCreate ns rep a p]
  end.

Fixpoint count_cb (k : Z) (tr : list ev) : Z :=
  match tr with
  | [] => 0
  | ECb k' _ _ :: r => (if Z.eqb k k' then 1 else 0) + count_cb k r
  | _ :: r => count_cb k r
  end.

(* callback records of the events [e] that follow the trace [tr] *)
Fixpoint cbrecs (tr e : list ev) : list cbrec :=
  match e with
  | [] => []
  | ECb k c a :: r => CbRec k (count_cb k tr + 1) true false false true :: cbrecs (tr ++ [ECb k c a]) r
  | x :: r => cbrecs (tr ++ [x]) r
  end.

Fixpoint queued_of (e : list ev) : list Z :=
  match e with
  | [] => []
  | EQueued k :: r => k :: queued_of r
  | _ :: r => queued_of r
  end.

Definition obs_of (o : op) (h : sched) (tr e : list ev) : obs :=
  match o with
  | OCreate _ _ _ _ | OCreateN _ _ _ _ | OStall _ | OCancel _ | OSvc | OCreateNs _ _ _ _ => BUnit
  | OStop | OSettle _ => BQueued (queued_of e)
  | ODo _ | ODoAll => BRan (cbrecs tr e)
  | OStart | ORun => if snd h then BRanCut (cbrecs tr e) else BRan (cbrecs tr e)
  | OWait _ | OStopSvc _ => BWait (queued_of e) (cbrecs tr e)
  end.

Definition rec_key (r : cbrec) : Z := match r with CbRec k _ _ _ _ _ => k end.

(* the schedule of a released loop, read off the implementation's observation of that op *)
Definition hint_of (b : obs) : sched :=
  match b with BRan l => (map rec_key l, false) | BRanCut l => (map rec_key l, true) | _ => ([], false) end.
Definition hint (bs : list obs) : sched := match bs with b :: _ => hint_of b | [] => ([], false) end.

(* all steps executed by an op list (each op compiled in the state it starts in); [bs]: the
   observations the schedules are taken from, one per op (missing ones: no schedule) *)
Fixpoint steps_of (s : st) (ops : list op) (bs : list obs) : list step_t :=
  match ops with
  | [] => []
  | o :: r => compile s o (hint bs) ++ steps_of (fst (run_from s (compile s o (hint bs)))) r (tl bs)
  end.

(* all events emitted by an op list *)
Fixpoint ops_trace (s : st) (ops : list op) (bs : list obs) : list ev :=
  match ops with
  | [] => []
  | o :: r => snd (run_from s (compile s o (hint bs)))
              ++ ops_trace (fst (run_from s (compile s o (hint bs)))) r (tl bs)
  end.

Fixpoint exec_from (s : st) (tr : list ev) (ops : list op) (bs : list obs) : list obs :=
  match ops with
  | [] => []
  | o :: r =>
      let '(s1, e) := run_from s (compile s o (hint bs)) in
      obs_of o (hint bs) tr e :: exec_from s1 (tr ++ e) r (tl bs)
  end.

(* a bare manager whose owner goroutine exists from the beginning *)
Definition init_up : st := fst (step init SStart).

(* a case that starts with OSvc is a service case (the owner is created by OStart) *)
Definition is_svc (ops : list op) : bool := match ops with OSvc :: _ => true | _ => false end.
Definition pre_steps (ops : list op) : list step_t := if is_svc ops then [] else [SStart].
Definition start_state (ops : list op) : st := fst (run_from init (pre_steps ops)).
Definition start_trace (ops : list op) : list ev := snd (run_from init (pre_steps ops)).

(* the model's observations of an op list, following the schedules of [bs] *)
Definition run (ops : list op) (bs : list obs) : list obs :=
  exec_from (start_state ops) (start_trace ops) ops bs.

(* the same with the default schedule (a released loop takes the queued expiries in creation
   order and, once told to stop, none) - for display *)
Definition show (ops : list op) : list obs := run ops [].
