(* C14 - the property as predicates over event traces (what the theorems are about), and an
   executable monitor over the harness' op/observation lists that does not use the model's
   state.  No proofs in this file. *)
From Cell2V Require Import Common.Tac Common.ListX Common.AList C14.Model.

(* ---- trace vocabulary ---- *)
Definition no_cb (k : Z) (tr : list ev) : Prop := forall c a, ~ In (ECb k c a) tr.
Definition no_arm (k : Z) (tr : list ev) : Prop := forall c, ~ In (EArm k c) tr.
Definition created_in (k : Z) (tr : list ev) : Prop :=
  exists clk d rep a, In (ECreate k clk d rep a) tr.
(* the owner cancelled timer k (a timer that existed at that moment) somewhere in tr *)
Definition cancelled_in (k : Z) (tr : list ev) : Prop :=
  exists t1 t2, tr = t1 ++ ECancel k :: t2 /\ created_in k t1.

(* parameters of the first creation of k: (clock, duration, AddTimer?, args) *)
Fixpoint creation (k : Z) (tr : list ev) : option (Z * Z * bool * Z) :=
  match tr with
  | [] => None
  | ECreate k' clk d rep a :: r => if Z.eqb k k' then Some (clk, d, rep, a) else creation k r
  | _ :: r => creation k r
  end.

Fixpoint count_create (k : Z) (tr : list ev) : Z :=
  match tr with
  | [] => 0
  | ECreate k' _ _ _ _ :: r => (if Z.eqb k k' then 1 else 0) + count_create k r
  | _ :: r => count_create k r
  end.

(* clock of the latest (re-)arming of k *)
Fixpoint last_arm_from (k : Z) (acc : option Z) (tr : list ev) : option Z :=
  match tr with
  | [] => acc
  | ECreate k' clk _ _ _ :: r => last_arm_from k (if Z.eqb k k' then Some clk else acc) r
  | EArm k' clk :: r => last_arm_from k (if Z.eqb k k' then Some clk else acc) r
  | _ :: r => last_arm_from k acc r
  end.
Definition last_arm (k : Z) (tr : list ev) : option Z := last_arm_from k None tr.

(* how many times k was armed: creation + re-arms *)
Fixpoint arms (k : Z) (tr : list ev) : Z :=
  match tr with
  | [] => 0
  | ECreate k' _ _ _ _ :: r => (if Z.eqb k k' then 1 else 0) + arms k r
  | EArm k' _ :: r => (if Z.eqb k k' then 1 else 0) + arms k r
  | _ :: r => arms k r
  end.

(* AddTimer(d) with d <= 0 stores Duration <= 0 and is therefore a one-shot in timer.go *)
Definition repeating (d : Z) (rep : bool) : bool := rep && (0 <? d).

(* 1 while an expiry of the timer is still outstanding (armed, in flight or queued) *)
Definition live (x : tok) : Z := match x with Pending _ | Firing | Queued => 1 | InCb | Dead => 0 end.

(* how many entries of the queue belong to a timer whose token is x *)
Definition qcount (x : tok) : nat := match x with Queued => 1%nat | _ => 0%nat end.

(* number of expiries sitting in the channel (sent, not yet received by the owner) *)
Definition occupancy (s : st) : Z := Z.of_nat (length (queue s) - recvd s).

(* ---- the property, clause by clause ---- *)

(* once cancelled - wherever the cancel falls - the callback never runs again *)
Definition never_after_cancel (tr : list ev) : Prop :=
  forall k t1 t2, tr = t1 ++ ECancel k :: t2 -> created_in k t1 -> no_cb k t2 /\ no_arm k t2.

(* every callback invocation: the timer was created before, with these args, and the clock
   is at least its latest arming clock plus the requested duration *)
Definition never_early_with_args (tr : list ev) : Prop :=
  forall k c a t1 t2, tr = t1 ++ ECb k c a :: t2 ->
    exists clk d rep t0,
      creation k t1 = Some (clk, d, rep, a) /\ last_arm k t1 = Some t0 /\ t0 + d <= c.

(* at most one callback per arming; one-shots are armed once *)
Definition as_often_as_asked_upper (tr : list ev) : Prop :=
  forall k, count_cb k tr <= arms k tr /\
    (forall clk d rep a, creation k tr = Some (clk, d, rep, a) -> repeating d rep = false ->
       arms k tr = 1).

(* each completed callback (returned or panicked) of a live repeating timer is followed
   immediately by its re-arming *)
Definition repeat_rearms (tr : list ev) : Prop :=
  forall k p t1 t2 clk d rep a, tr = t1 ++ ERet k p :: t2 ->
    creation k t1 = Some (clk, d, rep, a) -> repeating d rep = true -> ~ cancelled_in k t1 ->
    exists c t3, t2 = EArm k c :: t3.

(* ids are never reused *)
Definition ids_unique (tr : list ev) : Prop := forall k, count_create k tr <= 1.

(* a callback program that neither cancels its own timer k nor stops the owner *)
Definition keeps (k : Z) (p : prog) : Prop :=
  forall a, In a p -> a <> ACancelSelf /\ a <> ACancel k /\ a <> AStop.

(* one period of a repeating timer: d passes, the runtime fires k, the owner receives the
   expiry, calls Do and runs the callback (a program of at most n actions) to completion *)
Definition cycle (k d : Z) (n : nat) : list step_t :=
  [SAdvance d; SFireCheck k; SFireSend k; SBegin k] ++ repeat SCbStep (S n).
Fixpoint cycles (m : nat) (k d : Z) (n : nat) : list step_t :=
  match m with O => [] | S m' => cycle k d n ++ cycles m' k d n end.

(* state in which timer k (record t) is a live repeating timer of period d with program p, its
   next expiry is due within d, and the owner's loop is alive and idle *)
Record CyclePre (s : st) (k d : Z) (p : prog) (t : timer) : Prop := mkCP {
  cp_cur : cur s = None;
  cp_run : running s = true;
  cp_up : life_of s = LUp;
  cp_cap : Z.of_nat (length (queue s)) < qcap;
  cp_get : aget k (objs s) = Some t;
  cp_live : t_canceled t = false;
  cp_period : t_period t = d;
  cp_pos : 0 < d;
  cp_prog : t_prog t = p;
  cp_keeps : keeps k p;
  cp_due : exists dl, t_tok t = Pending dl /\ dl <= clock s + d }.

(* ---- the owner's life cycle ---- *)

(* every callback is invoked after the owner's loop goroutine was started and before it ended *)
Definition callbacks_within_owner_life (tr : list ev) : Prop :=
  forall k c a t1 t2, tr = t1 ++ ECb k c a :: t2 -> In EStart t1 /\ ~ In ELoopEnd t1.

(* once the loop goroutine has ended nothing of the manager runs any more, anywhere *)
Definition quiet_event (x : ev) : Prop :=
  match x with ECb _ _ _ | ERet _ _ | EArm _ _ | EStart | EClose | ELoopEnd => False | _ => True end.
Definition nothing_after_loop_end (tr : list ev) : Prop :=
  forall t1 t2, tr = t1 ++ ELoopEnd :: t2 -> forall x, In x t2 -> quiet_event x.

(* the life cycle is walked through once, in order *)
Fixpoint count_ev (f : ev -> bool) (tr : list ev) : Z :=
  match tr with [] => 0 | x :: r => (if f x then 1 else 0) + count_ev f r end.
Definition is_start (x : ev) : bool := match x with EStart => true | _ => false end.
Definition is_close (x : ev) : bool := match x with EClose => true | _ => false end.
Definition is_end (x : ev) : bool := match x with ELoopEnd => true | _ => false end.
Definition life_events (l : life) : Z * Z * Z :=
  match l with LNew => (0, 0, 0) | LUp => (1, 0, 0) | LDown => (1, 1, 0) | LEnd => (1, 1, 1) end.

(* ---- executable monitor on the implementation's own observations ---- *)
Record minfo := mkM { m_rep : bool; m_prog : prog; m_cancelled : bool; m_count : Z }.
Definition mstate := alist minfo.   (* keys 0 .. n-1 in creation order *)

Definition m_next (m : mstate) : Z := Z.of_nat (length m).

Definition m_create (m : mstate) (d : Z) (rep : bool) (p : prog) : mstate :=
  aset (m_next m) (mkM (repeating d rep) p false 0) m.

Fixpoint m_create_n (n : nat) (m : mstate) (d : Z) (rep : bool) : mstate :=
  match n with O => m | S n' => m_create_n n' (m_create m d rep []) d rep end.

Definition m_cancel (m : mstate) (k : Z) : mstate :=
  match aget k m with
  | Some i => aset k (mkM (m_rep i) (m_prog i) true (m_count i)) m
  | None => m
  end.

Fixpoint m_prog_run (m : mstate) (self : Z) (p : prog) : mstate :=
  match p with
  | [] => m
  | APanic :: _ => m
  | ACancelSelf :: r => m_prog_run (m_cancel m self) self r
  | ACancel j :: r => m_prog_run (m_cancel m j) self r
  | ACreate d rep _ q :: r => m_prog_run (m_create m d rep q) self r
  | AStop :: r => m_prog_run m self r
  end.

(* one observed callback: allowed?  then apply what the callback program does.
   Clause by clause (theorem names of Props.v):
     args_ok                     measured by the harness      C14_args / C14_never_early_args
     negb early                  measured (monotonic clock)   C14_never_early_args
     negb after_cancel           measured (harness' own log)  C14_never_after_cancel
     on_owner                    measured (goroutine id): ran on the goroutine that drains the
                                 queue, which exists at that moment (bare world: the harness
                                 goroutine; service world: the loop goroutine of the
                                 StandardRunService, after Start() and before the loop's end)
                                                              C14_callbacks_only_from_do,
                                                              C14_callbacks_within_owner_life,
                                                              C14_nothing_after_loop_end
     negb (m_cancelled i)        from the op history          C14_monitor_clause_not_cancelled
     n =? m_count i + 1          invocation counter is the running count (definition of cbrecs)
     m_rep i || (m_count i =? 0) from the op history          C14_monitor_clause_oneshot_first
   m_queued_ok: nodupb = C14_one_expiry_token; "not cancelled" = a Settle never reports an expiry
   of a timer the owner has cancelled (in op-level runs; see Proofs.settle_loop).
   C14_monitor_accepts_model: the model passes all of them for every op list. *)
Definition m_cb (m : mstate) (r : cbrec) : bool * mstate :=
  match r with
  | CbRec k n args_ok early after_cancel on_owner =>
      match aget k m with
      | Some i =>
          (args_ok && negb early && negb after_cancel && on_owner
             && negb (m_cancelled i) && (n =? m_count i + 1) && (m_rep i || (m_count i =? 0)),
           m_prog_run (aset k (mkM (m_rep i) (m_prog i) (m_cancelled i) (m_count i + 1)) m) k (m_prog i))
      | None => (false, m)
      end
  end.

Fixpoint m_cbs (m : mstate) (l : list cbrec) : bool * mstate :=
  match l with
  | [] => (true, m)
  | r :: t => let '(b, m1) := m_cb m r in let '(b2, m2) := m_cbs m1 t in (b && b2, m2)
  end.

Definition m_queued_ok (m : mstate) (l : list Z) : bool :=
  nodupb l && forallb (fun k => match aget k m with
                                | Some i => negb (m_cancelled i)
                                | None => false end) l.

Fixpoint monitor_from (m : mstate) (ops : list op) (bs : list obs) : bool :=
  match ops, bs with
  | [], [] => true
  | o :: r, b :: br =>
      match o, b with
      | OCreate d rep _ p, BUnit => monitor_from (m_create m d rep p) r br
      | OCreateN n d rep _, BUnit => monitor_from (m_create_n (Z.to_nat n) m d rep) r br
      | OStall _, BUnit => monitor_from m r br
      | OCancel k, BUnit => monitor_from (m_cancel m k) r br
      | (OStop | OSettle _), BQueued l => m_queued_ok m l && monitor_from m r br
      | ODo k, BRan l =>
          let '(b1, m1) := m_cbs m l in
          b1 && (length l <=? 1)%nat && forallb (fun x => rec_key x =? k) l && monitor_from m1 r br
      | ODoAll, BRan l =>
          let '(b1, m1) := m_cbs m l in
          b1 && nodupb (map rec_key l) && monitor_from m1 r br
      | OSvc, BUnit => monitor_from m r br
      | OCreateNs d rep _ p, BUnit => monitor_from (m_create m d rep p) r br
      (* a released loop: whatever it ran, every single callback must be allowed (on the owner,
         not cancelled, a one-shot for the first time ...) *)
      | (OStart | ORun), (BRan l | BRanCut l) =>
          let '(b1, m1) := m_cbs m l in b1 && monitor_from m1 r br
      (* nobody was released (the model runs nothing here): whatever the implementation ran -
         before Start(), while the loop is busy, inside Stop() whoever calls it, after the
         loop's end - is held against the property clause by clause; in particular it must
         have run on the goroutine that drains the queue, which must exist *)
      | (OWait _ | OStopSvc _), BWait q l =>
          let '(b1, m1) := m_cbs m l in m_queued_ok m q && b1 && monitor_from m1 r br
      | _, _ => false
      end
  | _, _ => false
  end.
