(* C14 - property theorems only.  Each is closed by [exact] of a lemma from Proofs.v and
   followed by Print Assumptions.  [xs] ranges over ALL lists of steps: owner steps (create,
   cancel, stop, begin a Do, continue / finish the running callback - cancel and create are
   also accepted while a callback runs, i.e. from inside it), clock steps and the runtime's
   expiry steps (enabled only at or after the deadline).  [trace xs] is the event trace and
   [final xs] the state they lead to from a fresh Mgr. *)
From Cell2V Require Import Common.Tac Common.ListX Common.AList C14.Model C14.Spec C14.Proofs C14.Corr.

(* Once the owner has cancelled an existing timer - while armed, while its expiry is in
   flight or queued, from inside its own or another callback, after it is done - its
   callback is never invoked again and it is never re-armed. *)
Theorem C14_never_after_cancel : forall xs k t1 t2,
  trace xs = t1 ++ ECancel k :: t2 -> created_in k t1 -> no_cb k t2 /\ no_arm k t2.
Proof. exact never_after_cancel_all. Qed.
Print Assumptions C14_never_after_cancel.

(* Every callback invocation: the timer was created earlier, the callback receives the args
   given at creation, and the clock is at least (latest arming clock + requested duration). *)
Theorem C14_never_early_args : forall xs k c a t1 t2,
  trace xs = t1 ++ ECb k c a :: t2 ->
  exists clk d rep t0,
    creation k t1 = Some (clk, d, rep, a) /\ last_arm k t1 = Some t0 /\ t0 + d <= c.
Proof. exact never_early_all. Qed.
Print Assumptions C14_never_early_args.

(* At most one callback per arming; a one-shot (After, or AddTimer with d <= 0) is armed
   exactly once, hence runs at most once. *)
Theorem C14_at_most_once_per_arming : forall xs k,
  count_cb k (trace xs) <= arms k (trace xs) /\
  (forall clk d rep a, creation k (trace xs) = Some (clk, d, rep, a) -> repeating d rep = false ->
     arms k (trace xs) = 1).
Proof. exact upper_all. Qed.
Print Assumptions C14_at_most_once_per_arming.

(* A one-shot timer's callback runs at most once in every history ... *)
Theorem C14_oneshot_once : forall xs k clk d rep a,
  creation k (trace xs) = Some (clk, d, rep, a) -> repeating d rep = false ->
  count_cb k (trace xs) <= 1.
Proof. exact oneshot_once. Qed.
Print Assumptions C14_oneshot_once.

(* ... and the callback always receives the arguments given at creation. *)
Theorem C14_args : forall xs k c a t1 t2,
  trace xs = t1 ++ ECb k c a :: t2 -> exists clk d rep, creation k t1 = Some (clk, d, rep, a).
Proof. exact args_as_created. Qed.
Print Assumptions C14_args.

(* Exactly as often as asked: for a timer that was never cancelled, on a Mgr that was never
   stopped, every arming except the one still outstanding has produced exactly one callback. *)
Theorem C14_exact_count : forall xs k t,
  aget k (objs (final xs)) = Some t -> ~ cancelled_in k (trace xs) -> ~ In EStop (trace xs) ->
  count_cb k (trace xs) + live (t_tok t) = arms k (trace xs).
Proof. exact exact_count. Qed.
Print Assumptions C14_exact_count.

(* Progress: from any reachable state with an armed, uncancelled timer k, once its deadline has
   passed the runtime's expiry followed by the owner's Do invokes the callback. *)
Theorem C14_fire_then_do_runs_callback : forall xs k t dl dt,
  cur (final xs) = None -> running (final xs) = true ->
  Z.of_nat (length (queue (final xs))) < qcap ->
  aget k (objs (final xs)) = Some t -> t_canceled t = false -> t_tok t = Pending dl ->
  dl <= clock (final xs) + Z.max 0 dt ->
  trace (xs ++ [SAdvance dt; SFireCheck k; SFireSend k; SBegin k]) =
  trace xs ++ [EQueued k; ECb k (clock (final xs) + Z.max 0 dt) (t_args t)].
Proof. exact fire_then_do. Qed.
Print Assumptions C14_fire_then_do_runs_callback.

(* ... and whenever an uncancelled timer's expiry sits in the queue, Do on it runs the callback. *)
Theorem C14_queued_do_runs_callback : forall xs k t,
  cur (final xs) = None -> aget k (objs (final xs)) = Some t -> t_tok t = Queued ->
  t_canceled t = false ->
  trace (xs ++ [SBegin k]) = trace xs ++ [ECb k (clock (final xs)) (t_args t)].
Proof. exact queued_do. Qed.
Print Assumptions C14_queued_do_runs_callback.

(* Each completed callback - returned OR panicked - of a repeating timer that has not been
   cancelled is immediately followed by its re-arming. *)
Theorem C14_repeat_rearms : forall xs k p t1 t2 clk d rep a,
  trace xs = t1 ++ ERet k p :: t2 ->
  creation k t1 = Some (clk, d, rep, a) -> repeating d rep = true -> ~ cancelled_in k t1 ->
  exists c t3, t2 = EArm k c :: t3.
Proof. exact repeat_rearms_all. Qed.
Print Assumptions C14_repeat_rearms.

(* Again and again: from any reachable state in which k is a live repeating timer whose
   program does not cancel k (it may panic, cancel others, create timers), m periods yield
   exactly m further callbacks, for every m. *)
Theorem C14_repeat_fires_n : forall xs k d t m,
  CyclePre (final xs) k d (t_prog t) t ->
  count_cb k (trace (xs ++ cycles m k d (length (t_prog t)))) = count_cb k (trace xs) + Z.of_nat m.
Proof. exact repeat_fires_n. Qed.
Print Assumptions C14_repeat_fires_n.

(* A panicking callback is exactly an early return: Do continues identically (cancel check,
   re-arm or forget); no other timer, nor the queue, flags or clock are touched. *)
Theorem C14_panic_isolated : forall s k r,
  cur s = Some (k, APanic :: r) ->
  fst (cb_step s) = fst (cb_step (with_cur s (Some (k, [])))) /\
  snd (cb_step s) = map (fun e => match e with ERet j _ => ERet j true | x => x end)
                        (snd (cb_step (with_cur s (Some (k, []))))) /\
  (forall j, j <> k -> aget j (objs (fst (cb_step s))) = aget j (objs s)) /\
  queue (fst (cb_step s)) = queue s /\ running (fst (cb_step s)) = running s /\
  clock (fst (cb_step s)) = clock s /\ next (fst (cb_step s)) = next s /\
  cur (fst (cb_step s)) = None.
Proof. exact panic_is_return. Qed.
Print Assumptions C14_panic_isolated.

(* Callbacks are started only by the owner's Do (never by a runtime or clock step), and only
   while no other callback is running. *)
Theorem C14_callbacks_only_from_do : forall s x k c a,
  In (ECb k c a) (snd (step s x)) ->
  (x = SBegin k \/ (x = SDoNext /\ hd_error (queue s) = Some k)) /\ cur s = None /\ c = clock s.
Proof. exact cb_only_from_do. Qed.
Print Assumptions C14_callbacks_only_from_do.

(* One expiry token per timer: a timer has at most one entry in the queue, exactly when its
   token is Queued (no duplicate deliveries). *)
Theorem C14_one_expiry_token : forall xs k,
  zcount k (queue (final xs)) =
  match aget k (objs (final xs)) with Some t => qcount (t_tok t) | None => 0%nat end.
Proof. exact one_token. Qed.
Print Assumptions C14_one_expiry_token.

Theorem C14_ids_unique : forall xs k, count_create k (trace xs) <= 1.
Proof. exact ids_unique_all. Qed.
Print Assumptions C14_ids_unique.

(* The harness' logical operations are particular step lists, so everything above holds for
   the histories the correspondence run executes. *)
Theorem C14_ops_are_steps : forall ops, ops_trace init ops = trace (steps_of init ops).
Proof. exact ops_are_steps. Qed.
Print Assumptions C14_ops_are_steps.

(* At and beyond queue capacity.  The channel never holds more than qcap = 999 expiries ... *)
Theorem C14_channel_bounded : forall xs, occupancy (final xs) <= qcap.
Proof. exact channel_bounded. Qed.
Print Assumptions C14_channel_bounded.

(* ... a sender that finds it full stays blocked (state unchanged: nothing dropped) ... *)
Theorem C14_full_channel_blocks : forall s k, occupancy s = qcap -> fire_send s k = (s, []).
Proof. exact full_channel_blocks. Qed.
Print Assumptions C14_full_channel_blocks.

(* ... and delivers as soon as the owner has received one expiry, in every reachable state
   (together with C14_exact_count: an expiry in flight is never lost). *)
Theorem C14_blocked_send_delivers : forall xs k t,
  aget k (objs (final xs)) = Some t -> t_tok t = Firing ->
  (recvd (final xs) < length (queue (final xs)))%nat ->
  trace (xs ++ [SRecv; SFireSend k]) = trace xs ++ [EQueued k].
Proof. exact blocked_send_delivers. Qed.
Print Assumptions C14_blocked_send_delivers.

(* The executable monitor (Spec.monitor_from / Corr.monitor, unchanged) accepts the model's own
   observations for EVERY op list: a monitor failure on an implementation trace is therefore a
   behaviour the model - and with it the theorems above - excludes. *)
Theorem C14_monitor_accepts_model : forall ops, monitor (ops, run ops) = true.
Proof. exact monitor_accepts_model. Qed.
Print Assumptions C14_monitor_accepts_model.

(* What the monitor's two logical clauses stand for, over all step lists.
   [negb (m_cancelled i)]: no callback after a cancel of its timer (= C14_never_after_cancel). *)
Theorem C14_monitor_clause_not_cancelled : forall xs k c a t1 t2,
  trace xs = t1 ++ ECb k c a :: t2 -> ~ cancelled_in k t1.
Proof. exact clause_not_cancelled. Qed.
Print Assumptions C14_monitor_clause_not_cancelled.

(* [m_rep i || (m_count i =? 0)]: a one-shot's callback has not run before (= C14_oneshot_once). *)
Theorem C14_monitor_clause_oneshot_first : forall xs k c a t1 t2 clk d rep a0,
  trace xs = t1 ++ ECb k c a :: t2 ->
  creation k t1 = Some (clk, d, rep, a0) -> repeating d rep = false -> count_cb k t1 = 0.
Proof. exact clause_oneshot_first. Qed.
Print Assumptions C14_monitor_clause_oneshot_first.

(* ---- non-vacuity ---- *)
(* cancel while queued (timer 0), from another timer's callback (timer 1 cancels 2), from the
   own callback after a panic-free body (timer 3), and a repeating timer firing twice *)
Example C14_example_run :
  run [OCreate 1 true 10 []; OCreate 1 false 11 [ACancel 2]; OCreate 2 true 12 [];
       OCreate 1 true 13 [ACancelSelf]; OCreate 1 true 14 [APanic];
       OSettle 0; OCancel 0; ODo 1; ODoAll; OSettle 0; ODoAll; OSettle 3]
  = [BUnit; BUnit; BUnit; BUnit; BUnit;
     BQueued [0; 1; 2; 3; 4]; BUnit;
     BRan [CbRec 1 1 true false false true];
     BRan [CbRec 3 1 true false false true; CbRec 4 1 true false false true];
     BQueued [4]; BRan [CbRec 4 2 true false false true]; BQueued [4]].
Proof. vm_compute. reflexivity. Qed.

Example C14_example_trace :
  trace [SCreate 2 true 7 [APanic]; SAdvance 2; SFireCheck 0; SFireSend 0; SDoNext; SCbStep;
         SAdvance 1; SFireCheck 0; SAdvance 1; SFireCheck 0; SCancel 0; SFireSend 0; SDoNext]
  = [ECreate 0 0 2 true 7; EQueued 0; ECb 0 2 7; ERet 0 true; EArm 0 2; ECancel 0; EQueued 0].
Proof. vm_compute. reflexivity. Qed.

(* the hypotheses of C14_repeat_fires_n are met by a reachable state (panicking program) *)
Example C14_example_cyclepre :
  exists t, CyclePre (final [SCreate 2 true 7 [ACreate 1 false 3 []; APanic]]) 0 2
                     [ACreate 1 false 3 []; APanic] t
            /\ t_prog t = [ACreate 1 false 3 []; APanic].
Proof. exact cyclepre_example. Qed.

Example C14_example_repeat :
  count_cb 0 (trace ([SCreate 2 true 7 [ACreate 1 false 3 []; APanic]] ++ cycles 5 0 2 2)) = 5.
Proof. vm_compute. reflexivity. Qed.
