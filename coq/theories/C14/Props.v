(* C14 - property theorems only.  Each is closed by [exact] of a lemma from Proofs.v and
   followed by Print Assumptions.  [xs] ranges over ALL lists of steps: owner steps (create,
   cancel, stop, begin a Do, continue / finish the running callback - cancel and create are
   also accepted while a callback runs, i.e. from inside it), clock steps and the runtime's
   expiry steps (enabled only at or after the deadline), and the steps of the OWNER's life
   cycle: Start() of the run service that owns the manager ([SStart]: the loop goroutine that
   drains the queue exists from here on), Stop() by whichever goroutine ([SStop] +
   [SClose]; from inside a callback: [AStop]), the loop's end ([SLoopEnd]).  [trace xs] is the
   event trace and [final xs] the state they lead to from a fresh manager whose owner has not
   been started yet ([init]); a bare manager with an owner goroutine that drains from the
   beginning is the history [SStart :: xs]. *)
From Cell2V Require Import Common.Tac Common.ListX Common.AList C14.Model C14.Spec C14.Proofs C14.Corr.

(* Once the owner has cancelled an existing timer - while armed, while its expiry is in
   flight or queued, from inside its own or another callback, after it is done - its
   callback is never invoked again and it is never re-armed. *)
Theorem C14_never_after_cancel : forall xs k t1 t2,
  trace xs = t1 ++ ECancel k :: t2 -> created_in k t1 -> no_cb k t2 /\ no_arm k t2.
Proof. exact never_after_cancel_all. Qed.
Print Assumptions C14_never_after_cancel.

(* Every callback invocation: the timer was created earlier, the callback receives the args
   given at creation, and the clock is at least (latest arming clock + requested duration). *)
Theorem C14_never_early_args : forall xs k c a t1 t2,
  trace xs = t1 ++ ECb k c a :: t2 ->
  exists clk d rep t0,
    creation k t1 = Some (clk, d, rep, a) /\ last_arm k t1 = Some t0 /\ t0 + d <= c.
Proof. exact never_early_all. Qed.
Print Assumptions C14_never_early_args.

(* At most one callback per arming; a one-shot (After, or AddTimer with d <= 0) is armed
   exactly once, hence runs at most once. *)
Theorem C14_at_most_once_per_arming : forall xs k,
  count_cb k (trace xs) <= arms k (trace xs) /\
  (forall clk d rep a, creation k (trace xs) = Some (clk, d, rep, a) -> repeating d rep = false ->
     arms k (trace xs) = 1).
Proof. exact upper_all. Qed.
Print Assumptions C14_at_most_once_per_arming.

(* A one-shot timer's callback runs at most once in every history ... *)
Theorem C14_oneshot_once : forall xs k clk d rep a,
  creation k (trace xs) = Some (clk, d, rep, a) -> repeating d rep = false ->
  count_cb k (trace xs) <= 1.
Proof. exact oneshot_once. Qed.
Print Assumptions C14_oneshot_once.

(* ... and the callback always receives the arguments given at creation. *)
Theorem C14_args : forall xs k c a t1 t2,
  trace xs = t1 ++ ECb k c a :: t2 -> exists clk d rep, creation k t1 = Some (clk, d, rep, a).
Proof. exact args_as_created. Qed.
Print Assumptions C14_args.

(* Exactly as often as asked: for a timer that was never cancelled, on a Mgr that was never
   stopped, every arming except the one still outstanding has produced exactly one callback. *)
Theorem C14_exact_count : forall xs k t,
  aget k (objs (final xs)) = Some t -> ~ cancelled_in k (trace xs) -> ~ In EStop (trace xs) ->
  count_cb k (trace xs) + live (t_tok t) = arms k (trace xs).
Proof. exact exact_count. Qed.
Print Assumptions C14_exact_count.

(* Progress: from any reachable state with an armed, uncancelled timer k, once its deadline has
   passed the runtime's expiry followed by the owner's Do invokes the callback. *)
Theorem C14_fire_then_do_runs_callback : forall xs k t dl dt,
  cur (final xs) = None -> running (final xs) = true -> drains (life_of (final xs)) = true ->
  Z.of_nat (length (queue (final xs))) < qcap ->
  aget k (objs (final xs)) = Some t -> t_canceled t = false -> t_tok t = Pending dl ->
  dl <= clock (final xs) + Z.max 0 dt ->
  trace (xs ++ [SAdvance dt; SFireCheck k; SFireSend k; SBegin k]) =
  trace xs ++ [EQueued k; ECb k (clock (final xs) + Z.max 0 dt) (t_args t)].
Proof. exact fire_then_do. Qed.
Print Assumptions C14_fire_then_do_runs_callback.

(* ... and whenever an uncancelled timer's expiry sits in the queue, Do on it runs the callback. *)
Theorem C14_queued_do_runs_callback : forall xs k t,
  cur (final xs) = None -> drains (life_of (final xs)) = true ->
  aget k (objs (final xs)) = Some t -> t_tok t = Queued ->
  t_canceled t = false ->
  trace (xs ++ [SBegin k]) = trace xs ++ [ECb k (clock (final xs)) (t_args t)].
Proof. exact queued_do. Qed.
Print Assumptions C14_queued_do_runs_callback.

(* Each completed callback - returned OR panicked - of a repeating timer that has not been
   cancelled is immediately followed by its re-arming. *)
Theorem C14_repeat_rearms : forall xs k p t1 t2 clk d rep a,
  trace xs = t1 ++ ERet k p :: t2 ->
  creation k t1 = Some (clk, d, rep, a) -> repeating d rep = true -> ~ cancelled_in k t1 ->
  exists c t3, t2 = EArm k c :: t3.
Proof. exact repeat_rearms_all. Qed.
Print Assumptions C14_repeat_rearms.

(* Again and again: from any reachable state in which k is a live repeating timer on a live
   loop and its program neither cancels k nor stops the owner (it may panic, cancel others,
   create timers), m periods yield exactly m further callbacks, for every m. *)
Theorem C14_repeat_fires_n : forall xs k d t m,
  CyclePre (final xs) k d (t_prog t) t ->
  count_cb k (trace (xs ++ cycles m k d (length (t_prog t)))) = count_cb k (trace xs) + Z.of_nat m.
Proof. exact repeat_fires_n. Qed.
Print Assumptions C14_repeat_fires_n.

(* A panicking callback is exactly an early return: Do continues identically (cancel check,
   re-arm or forget); no other timer, nor the queue, flags or clock are touched. *)
Theorem C14_panic_isolated : forall s k r,
  cur s = Some (k, APanic :: r) ->
  fst (cb_step s) = fst (cb_step (with_cur s (Some (k, [])))) /\
  snd (cb_step s) = map (fun e => match e with ERet j _ => ERet j true | x => x end)
                        (snd (cb_step (with_cur s (Some (k, []))))) /\
  (forall j, j <> k -> aget j (objs (fst (cb_step s))) = aget j (objs s)) /\
  queue (fst (cb_step s)) = queue s /\ running (fst (cb_step s)) = running s /\
  clock (fst (cb_step s)) = clock s /\ next (fst (cb_step s)) = next s /\
  cur (fst (cb_step s)) = None.
Proof. exact panic_is_return. Qed.
Print Assumptions C14_panic_isolated.

(* Only on the goroutine that drains the owner's timer queue: callbacks are started only by
   the Do of the draining goroutine ([SBegin] / [SDoNext] are steps of that goroutine:
   [loop_step]) - never by a runtime or clock step, never by Start() or Stop() whoever calls
   them, never by a create or cancel -, only while that goroutine is alive, and only while no
   other callback is running. *)
Theorem C14_callbacks_only_from_do : forall s x k c a,
  In (ECb k c a) (snd (step s x)) ->
  (x = SBegin k \/ (x = SDoNext /\ hd_error (queue s) = Some k)) /\ cur s = None /\ c = clock s /\
  drains (life_of s) = true.
Proof. exact cb_only_from_do. Qed.
Print Assumptions C14_callbacks_only_from_do.

(* ---- the owner's life cycle ---- *)

(* Start(), Stop() and the end of the loop goroutine each happen at most once, in this order:
   the state's [life] is exactly the number of these events so far. *)
Theorem C14_life_cycle_once : forall xs,
  life_events (life_of (final xs)) =
  (count_ev is_start (trace xs), count_ev is_close (trace xs), count_ev is_end (trace xs)).
Proof. exact life_cycle_once. Qed.
Print Assumptions C14_life_cycle_once.

(* Every callback - start-up and teardown included - is invoked after the loop goroutine was
   started and before it ended: nothing runs before Start(), and an expiry that is still
   queued when Stop() is called is either run by the loop goroutine before it ends or not at
   all. *)
Theorem C14_callbacks_within_owner_life : forall xs k c a t1 t2,
  trace xs = t1 ++ ECb k c a :: t2 -> In EStart t1 /\ ~ In ELoopEnd t1.
Proof. exact callbacks_within_all. Qed.
Print Assumptions C14_callbacks_within_owner_life.

(* After the loop goroutine has ended nothing of the manager runs anywhere: no callback starts,
   returns or re-arms; timers can still be created and cancelled, the runtime may still expire
   them - no callback follows (the only events are ECreate / ECancel / EStop / EQueued). *)
Theorem C14_nothing_after_loop_end : forall xs t1 t2,
  trace xs = t1 ++ ELoopEnd :: t2 -> forall x, In x t2 -> quiet_event x.
Proof. exact nothing_after_loop_end_all. Qed.
Print Assumptions C14_nothing_after_loop_end.

(* Stop is final: the manager's running flag is false exactly from the first Stop on (nothing
   sets it again), and from then on the expiry of an armed timer is discarded by its AfterFunc
   function - it never reaches the channel, so it is never run. *)
Theorem C14_stop_is_final : forall xs, running (final xs) = false <-> In EStop (trace xs).
Proof. exact stop_is_final. Qed.
Print Assumptions C14_stop_is_final.

Theorem C14_stopped_manager_drops_expiries : forall s k t dl,
  running s = false -> aget k (objs s) = Some t -> t_tok t = Pending dl -> dl <= clock s ->
  fire_check s k = (put s k (set_tok Dead t), []).
Proof. exact stopped_drops. Qed.
Print Assumptions C14_stopped_manager_drops_expiries.

(* Before Start() every expiry waits: the queue is exactly the expiries sent so far, in order
   of arrival - none is dropped, none is run (and no callback is in progress). *)
Theorem C14_prestart_expiries_wait : forall xs,
  life_of (final xs) = LNew -> queue (final xs) = queued_of (trace xs) /\ cur (final xs) = None.
Proof. exact prestart_expiries_wait. Qed.
Print Assumptions C14_prestart_expiries_wait.

(* ... and runs after Start(): the loop's Do on an expiry that happened before Start() invokes
   the callback (for a one-shot exactly once: C14_oneshot_once bounds it from above) ... *)
Theorem C14_prestart_expiry_runs_after_start : forall xs k t,
  life_of (final xs) = LNew -> In (EQueued k) (trace xs) ->
  aget k (objs (final xs)) = Some t -> t_canceled t = false ->
  trace (xs ++ [SStart; SBegin k]) = trace xs ++ [EStart; ECb k (clock (final xs)) (t_args t)].
Proof. exact prestart_runs_after_start. Qed.
Print Assumptions C14_prestart_expiry_runs_after_start.

(* ... and a repeating timer whose first expiry happened before Start() then fires again and
   again: its first callback and m further periods give exactly 1 + m callbacks, for every m. *)
Theorem C14_prestart_repeating_again_and_again : forall xs k d t m,
  life_of (final xs) = LNew -> In (EQueued k) (trace xs) ->
  aget k (objs (final xs)) = Some t -> t_canceled t = false -> t_period t = d -> 0 < d ->
  keeps k (t_prog t) -> running (final xs) = true -> Z.of_nat (length (queue (final xs))) < qcap ->
  count_cb k (trace (xs ++ [SStart; SBegin k] ++ repeat SCbStep (S (length (t_prog t)))
                        ++ cycles m k d (length (t_prog t)))) =
  count_cb k (trace xs) + 1 + Z.of_nat m.
Proof. exact prestart_repeating. Qed.
Print Assumptions C14_prestart_repeating_again_and_again.

(* One expiry token per timer: a timer has at most one entry in the queue, exactly when its
   token is Queued (no duplicate deliveries). *)
Theorem C14_one_expiry_token : forall xs k,
  zcount k (queue (final xs)) =
  match aget k (objs (final xs)) with Some t => qcount (t_tok t) | None => 0%nat end.
Proof. exact one_token. Qed.
Print Assumptions C14_one_expiry_token.

Theorem C14_ids_unique : forall xs k, count_create k (trace xs) <= 1.
Proof. exact ids_unique_all. Qed.
Print Assumptions C14_ids_unique.

(* The harness' logical operations are particular step lists, so everything above holds for
   the histories the correspondence run executes. *)
Theorem C14_ops_are_steps : forall ops bs,
  start_trace ops ++ ops_trace (start_state ops) ops bs =
  trace (pre_steps ops ++ steps_of (start_state ops) ops bs).
Proof. exact ops_are_steps. Qed.
Print Assumptions C14_ops_are_steps.

(* At and beyond queue capacity.  The channel never holds more than qcap = 999 expiries ... *)
Theorem C14_channel_bounded : forall xs, occupancy (final xs) <= qcap.
Proof. exact channel_bounded. Qed.
Print Assumptions C14_channel_bounded.

(* ... a sender that finds it full stays blocked (state unchanged: nothing dropped) ... *)
Theorem C14_full_channel_blocks : forall s k, occupancy s = qcap -> fire_send s k = (s, []).
Proof. exact full_channel_blocks. Qed.
Print Assumptions C14_full_channel_blocks.

(* ... and delivers as soon as the owner has received one expiry, in every reachable state
   (together with C14_exact_count: an expiry in flight is never lost). *)
Theorem C14_blocked_send_delivers : forall xs k t,
  aget k (objs (final xs)) = Some t -> t_tok t = Firing ->
  drains (life_of (final xs)) = true ->
  (recvd (final xs) < length (queue (final xs)))%nat ->
  trace (xs ++ [SRecv; SFireSend k]) = trace xs ++ [EQueued k].
Proof. exact blocked_send_delivers. Qed.
Print Assumptions C14_blocked_send_delivers.

(* The executable monitor (Spec.monitor_from / Corr.monitor) accepts the model's own
   observations for EVERY op list and EVERY schedule the released loops are told to follow
   ([bs]): a monitor failure on an implementation trace is therefore a behaviour the model -
   and with it the theorems above - excludes. *)
Theorem C14_monitor_accepts_model : forall ops bs, monitor (ops, run ops bs) = true.
Proof. exact monitor_accepts_model. Qed.
Print Assumptions C14_monitor_accepts_model.

(* What the monitor's two logical clauses stand for, over all step lists.
   [negb (m_cancelled i)]: no callback after a cancel of its timer (= C14_never_after_cancel). *)
Theorem C14_monitor_clause_not_cancelled : forall xs k c a t1 t2,
  trace xs = t1 ++ ECb k c a :: t2 -> ~ cancelled_in k t1.
Proof. exact clause_not_cancelled. Qed.
Print Assumptions C14_monitor_clause_not_cancelled.

(* [m_rep i || (m_count i =? 0)]: a one-shot's callback has not run before (= C14_oneshot_once). *)
Theorem C14_monitor_clause_oneshot_first : forall xs k c a t1 t2 clk d rep a0,
  trace xs = t1 ++ ECb k c a :: t2 ->
  creation k t1 = Some (clk, d, rep, a0) -> repeating d rep = false -> count_cb k t1 = 0.
Proof. exact clause_oneshot_first. Qed.
Print Assumptions C14_monitor_clause_oneshot_first.

(* ---- non-vacuity ---- *)
(* cancel while queued (timer 0), from another timer's callback (timer 1 cancels 2), from the
   own callback after a panic-free body (timer 3), and a repeating timer firing twice *)
Example C14_example_run :
  show [OCreate 1 true 10 []; OCreate 1 false 11 [ACancel 2]; OCreate 2 true 12 [];
       OCreate 1 true 13 [ACancelSelf]; OCreate 1 true 14 [APanic];
       OSettle 0; OCancel 0; ODo 1; ODoAll; OSettle 0; ODoAll; OSettle 3]
  = [BUnit; BUnit; BUnit; BUnit; BUnit;
     BQueued [0; 1; 2; 3; 4]; BUnit;
     BRan [CbRec 1 1 true false false true];
     BRan [CbRec 3 1 true false false true; CbRec 4 1 true false false true];
     BQueued [4]; BRan [CbRec 4 2 true false false true]; BQueued [4]].
Proof. vm_compute. reflexivity. Qed.

Example C14_example_trace :
  trace [SStart; SCreate 2 true 7 [APanic]; SAdvance 2; SFireCheck 0; SFireSend 0; SDoNext; SCbStep;
         SAdvance 1; SFireCheck 0; SAdvance 1; SFireCheck 0; SCancel 0; SFireSend 0; SDoNext]
  = [EStart; ECreate 0 0 2 true 7; EQueued 0; ECb 0 2 7; ERet 0 true; EArm 0 2; ECancel 0; EQueued 0].
Proof. vm_compute. reflexivity. Qed.

(* a service: two timers created before Start() (a one-shot due before Start, a repeating one),
   a busy loop with expiries queued, Stop() from outside with both expiries queued; the loop
   takes one more (the schedule [1] is the implementation's) and ends; nothing afterwards *)
Example C14_example_service :
  run [OSvc; OCreate 1 false 7 []; OCreate 2 true 8 []; OWait 0; OStart; OCreate 1 false 9 [];
       OWait 0; OStopSvc 0; ORun; OCreate 1 false 5 []; OWait 6]
      [BUnit; BUnit; BUnit; BUnit; BRan [CbRec 1 1 true false false true; CbRec 0 1 true false false true];
       BUnit; BUnit; BUnit; BRan [CbRec 1 2 true false false true]]
  = [BUnit; BUnit; BUnit; BWait [0; 1] [];
     BRan [CbRec 1 1 true false false true; CbRec 0 1 true false false true];
     BUnit; BWait [1; 2] []; BWait [] []; BRan [CbRec 1 2 true false false true]; BUnit; BWait [] []].
Proof. vm_compute. reflexivity. Qed.

(* the extreme of the duration dimension: AddTimer(math.MaxInt64 ns) and After(100 years) stay
   armed while a timer of 999999 ns and one of -1 ns fire; the "never" timers can be cancelled *)
Example C14_example_far :
  show [OCreateNs 9223372036854775807 true 7 []; OCreateNs 999999 false 8 []; OCreateNs (-1) true 9 [];
        OCreateNs 3153600000000000000 false 6 []; OSettle 2; ODoAll; OCancel 0; OSettle 4; ODoAll]
  = [BUnit; BUnit; BUnit; BUnit; BQueued [1; 2];
     BRan [CbRec 1 1 true false false true; CbRec 2 1 true false false true]; BUnit; BQueued []; BRan []].
Proof. vm_compute. reflexivity. Qed.

(* the hypotheses of the pre-start theorems are met: timer 0 expired before Start() *)
Example C14_example_prestart :
  let xs := [SCreate 2 true 7 [APanic]; SAdvance 2; SFireCheck 0; SFireSend 0] in
  life_of (final xs) = LNew /\ In (EQueued 0) (trace xs) /\ queue (final xs) = [0] /\
  count_cb 0 (trace (xs ++ [SStart; SBegin 0] ++ repeat SCbStep 2 ++ cycles 3 0 2 1)) = 4.
Proof. vm_compute. repeat split. right. left. reflexivity. Qed.

(* a whole life: start, a callback that stops its own service, the loop's end, a late create *)
Example C14_example_life :
  trace [SCreate 1 false 7 [AStop]; SAdvance 1; SFireCheck 0; SFireSend 0; SStart; SDoNext; SCbStep;
         SCbStep; SLoopEnd; SCreate 0 false 8 []; SFireCheck 1; SBegin 1]
  = [ECreate 0 0 1 false 7; EQueued 0; EStart; ECb 0 1 7; EStop; EClose; ERet 0 false; ELoopEnd;
     ECreate 1 1 0 false 8].
Proof. vm_compute. reflexivity. Qed.

(* the hypotheses of C14_repeat_fires_n are met by a reachable state (panicking program) *)
Example C14_example_cyclepre :
  exists t, CyclePre (final [SStart; SCreate 2 true 7 [ACreate 1 false 3 []; APanic]]) 0 2
                     [ACreate 1 false 3 []; APanic] t
            /\ t_prog t = [ACreate 1 false 3 []; APanic].
Proof. exact cyclepre_example. Qed.

Example C14_example_repeat :
  count_cb 0 (trace ([SStart; SCreate 2 true 7 [ACreate 1 false 3 []; APanic]] ++ cycles 5 0 2 2)) = 5.
Proof. vm_compute. reflexivity. Qed.
