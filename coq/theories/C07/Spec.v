(* C07 - the property.  No proofs in this file.

   Vocabulary of the property text, defined on the cluster view and the operation history
   alone (not on the model's state):
     "the instance the rule names"      named_by_rule : the registered function's result for the
                                        parameter, else the default's; an explicit name names
                                        itself; a panic / an unusable parameter names nothing
     "a known instance"                 known v n : some service entry of the view carries
                                        name n (and n is not one of the route layer's reserved
                                        "no target" words)
     "delivered to exactly that instance, nothing else, never silently dropped"
                                        admissible (call_spec ..) evs : the event list of the
                                        call is EXACTLY one send to a pid of an entry named n,
                                        or EXACTLY one no-service callback (request) /
                                        nothing (notification)
     "an instance of that type on a node in working state"   working_instance
     "after any sequence of view updates"                    last_view h, dflt_at h
     "the route function registered for that service type"   fns_at h: the last Register for the
                                                              type, by an OReg, by a rule that ran
                                                              or by another goroutine while calls
                                                              were in flight; for call i of an
                                                              OCalls: the functions registered
                                                              when call i is made (Model.sim)
     "which node asks"                                       self_at h - appears in no clause *)
From Cell2V Require Import Common.Tac Common.ListX Common.AList C07.Model.

(* ---- boolean equalities on observables ---- *)
Definition pid_eqb (a b : pid) : bool := pair_eqb Z.eqb Z.eqb a b.
Definition pmem (p : pid) (l : list pid) : bool := existsb (pid_eqb p) l.

Definition cbk_eqb (a b : cbk) : bool :=
  match a, b with
  | NoServiceErr, NoServiceErr | OtherErr, OtherErr | CbOk, CbOk => true
  | _, _ => false
  end.

Definition item_eqb (a b : item) : bool :=
  (it_ty a =? it_ty b) && (it_name a =? it_name b) && (it_node a =? it_node b)
  && (it_state a =? it_state b).

(* ---- event lists an outcome allows ---- *)
Definition admissible (o : outcome) (evs : list event) : Prop :=
  match o with
  | OSend c req g m => exists p, In p c /\ evs = [ESend p req g m]
  | OCb k => evs = [ECb k]
  | ONothing => evs = []
  end.

Definition admissible_b (o : outcome) (evs : list event) : bool :=
  match o, evs with
  | OSend c req g m, [ESend p req' g' m'] =>
      pmem p c && Bool.eqb req req' && (g =? g') && (m =? m')
  | OCb k, [ECb k'] => cbk_eqb k k'
  | ONothing, [] => true
  | _, _ => false
  end.

Definition kind_eqb (a b : kind) : bool :=
  match a, b with KNil, KNil | KSess, KSess | KMap, KMap => true | _, _ => false end.

Definition seen_eqb (a b : seen) : bool :=
  match a, b with
  | VKind d t k, VKind d' t' k' => (d =? d') && (t =? t') && kind_eqb k k'
  | VGet d k v, VGet d' k' v' => (d =? d') && (k =? k') && option_eqb Z.eqb v v'
  | VCall d t n, VCall d' t' n' => (d =? d') && (t =? t') && (n =? n')
  | _, _ => false
  end.

Fixpoint all2b {A B} (f : A -> B -> bool) (l : list A) (l' : list B) : bool :=
  match l, l' with
  | [], [] => true
  | a :: r, b :: r' => f a b && all2b f r r'
  | _, _ => false
  end.

(* ---- "the parameter a rule sees is the caller's own" ----
   on what the rule consulted for a call of (ty, p) itself (depth 0) saw: the kind it was
   handed is the kind of the caller's parameter, every key it read has the value the CALLER'S
   parameter binds it to (None = not bound) - never a value of another call's parameter *)
Definition own_seen (ty : Z) (p : param) (e : seen) : Prop :=
  sdepth e = 0 ->
  match e with
  | VKind _ t k => t = ty /\ exists rp, to_rparam p = Some rp /\ k = kind_of rp
  | VGet _ k v =>
      exists d, (to_rparam p = Some (RPSess d) \/ to_rparam p = Some (RPMap d)) /\ v = dget k d
  | VCall _ _ _ => True
  end.

Definition sees_own (ty : Z) (p : param) (tr : list seen) : Prop := Forall (own_seen ty p) tr.

Definition own_seen_b (ty : Z) (p : param) (e : seen) : bool :=
  if sdepth e =? 0 then
    match e with
    | VKind _ t k =>
        (t =? ty) && match to_rparam p with Some rp => kind_eqb k (kind_of rp) | None => false end
    | VGet _ k v =>
        match to_rparam p with
        | Some (RPSess d) | Some (RPMap d) => option_eqb Z.eqb v (dget k d)
        | _ => false
        end
    | VCall _ _ _ => true
    end
  else true.

(* a call that never reaches the route layer consults no rule *)
Definition call_sees_own (c : pcall) (tr : list seen) : Prop :=
  match call_key c with
  | Some (ty, p) => sees_own ty p tr
  | None => tr = []
  end.

Definition call_sees_own_b (c : pcall) (tr : list seen) : bool :=
  match call_key c with
  | Some (ty, p) => forallb (own_seen_b ty p) tr
  | None => match tr with [] => true | _ => false end
  end.

(* an implementation observation is one of the behaviours a model output allows *)
Definition admits1 (m : mout) (b : obs) : bool :=
  match m, b with
  | MUnit, BUnit => true
  | MName n, BName n' => n =? n'
  | MPid c, BPid None => match c with [] => true | _ => false end
  | MPid c, BPid (Some p) => pmem p c
  | MOut o, BEvents evs => admissible_b o evs
  | MNames l, BNames l' => zlist_eqb l l'
  | _, _ => false
  end.

Definition admits_call (x : mout * option (list seen)) (y : obs * list seen) : bool :=
  admits1 (fst x) (fst y)
  && match snd x with Some t => list_eqb seen_eqb t (snd y) | None => false end.

Definition admits (m : mout) (b : obs) : bool :=
  match m, b with
  | MCalls l, BCalls l' => all2b admits_call l l'
  | MCalls _, _ | _, BCalls _ => false
  | _, _ => admits1 m b
  end.

Fixpoint admits_all (ms : list mout) (bs : list obs) : bool :=
  match ms, bs with
  | [], [] => true
  | m :: mr, b :: br => admits m b && admits_all mr br
  | _, _ => false
  end.

(* ---- views ---- *)
Definition named (v : view) (n : Z) : list item := filter (fun it => it_name it =? n) (items v).
Definition pids_named (v : view) (n : Z) : list pid := map (item_pid v) (named v n).

Definition known (v : view) (n : Z) : bool :=
  negb (reserved n) && match named v n with [] => false | _ => true end.

(* "the view maps n to q": the directory has an answer for n and every admissible answer is q *)
Definition maps_to (v : view) (n : Z) (q : pid) : Prop :=
  dir_cands v n <> [] /\ forall p, In p (dir_cands v n) -> p = q.

(* configuration guards *)
Definition unique_name (v : view) (n : Z) : Prop :=
  forall a b, In a (items v) -> In b (items v) -> it_name a = n -> it_name b = n -> a = b.

Definition unique_b (v : view) (n : Z) : bool :=
  match named v n with [] => true | a :: r => forallb (item_eqb a) r end.

Definition wf_names (v : view) : Prop := forall it, In it (items v) -> reserved (it_name it) = false.

(* q is the pid of a service entry [ty.n] listed by a node of the view that is in working state *)
Definition working_instance (v : view) (ty n : Z) (q : pid) : Prop :=
  exists nd, In nd v /\ nstate nd = Working /\ In [ty; n] (nsvcs nd)
             /\ q = (node_addr v (nid nd), n).

Definition working_instance_b (v : view) (ty n : Z) (q : pid) : bool :=
  existsb (fun nd => (nstate nd =? Working) && existsb (zlist_eqb [ty; n]) (nsvcs nd)
                     && pid_eqb q (node_addr v (nid nd), n)) v.

(* ---- the rule ---- *)
Definition rule_param (p : param) : option rparam :=
  match p with
  | PNil => Some RPNil
  | PSess d => Some (RPSess d)
  | PMap d => Some (RPMap d)
  | PStr _ | POther _ => None
  end.

(* the instance name the route rule yields, None when it yields none *)
Definition named_by_rule (reg : Z -> option rfn) (dflt : option rfn) (ty : Z) (p : param)
  : option Z :=
  match p with
  | PStr n => Some n
  | POther _ => None
  | _ =>
      match rule_param p with
      | None => None
      | Some rp =>
          match reg ty, dflt with
          | Some f, _ | None, Some f => match f ty rp with RName n => Some n | RPanic => None end
          | None, None => None
          end
      end
  end.

Definition none_evs (req : bool) : list event := if req then [ECb NoServiceErr] else [].

(* what a routed request (req = true) / notification (req = false) must do *)
Definition call_spec (reg : Z -> option rfn) (dflt : option rfn) (v : view) (req : bool)
  (r : list Z) (p : param) : outcome :=
  match r with
  | [t; g; m] =>
      if t =? empty then no_target req
      else match named_by_rule reg dflt t p with
           | Some n => if known v n then OSend (pids_named v n) req g m else no_target req
           | None => no_target req
           end
  | _ => no_target req
  end.

Definition call_ok reg dflt v req r p (evs : list event) : Prop :=
  admissible (call_spec reg dflt v req r p) evs.

(* the ways the rule can yield no known instance (the list of the property text) *)
Inductive cause (reg : Z -> option rfn) (dflt : option rfn) (v : view) : list Z -> param -> Prop :=
| CMalformed r p : length r <> 3%nat -> cause reg dflt v r p
| CEmptyType g m p : cause reg dflt v [empty; g; m] p
| CEmptyName t g m p : route reg dflt p t = empty -> cause reg dflt v [t; g; m] p
| CReservedName t g m p : reserved (route reg dflt p t) = true -> cause reg dflt v [t; g; m] p
| CUnknownName t g m p : named v (route reg dflt p t) = [] -> cause reg dflt v [t; g; m] p
| CPanic t g m p f rp :
    reg t = Some f -> rule_param p = Some rp -> f t rp = RPanic -> cause reg dflt v [t; g; m] p
| CPanicDefault t g m p f rp :
    reg t = None -> dflt = Some f -> rule_param p = Some rp -> f t rp = RPanic ->
    cause reg dflt v [t; g; m] p
| CUnknownType t g m p rp :
    reg t = None -> dflt = Some (app_default v) -> rule_param p = Some rp -> work_list v t = [] ->
    cause reg dflt v [t; g; m] p
| CNoFunction t g m p rp :
    reg t = None -> dflt = None -> rule_param p = Some rp -> cause reg dflt v [t; g; m] p
| CBadParam t g m k : cause reg dflt v [t; g; m] (POther k).

(* QuerySession / Kick: an explicit front-end name *)
Definition front_spec (v : view) (front m : Z) : outcome :=
  match named v front with
  | [] => OCb NoServiceErr
  | _ => OSend (pids_named v front) true SYS m
  end.

(* no function registered, node/app's default installed, a rule-consulting parameter:
   the target is an instance of that type on a working node (when one exists and its name
   is unique and not reserved) *)
Definition default_ok (v : view) (t : Z) (evs : list event) : Prop :=
  match work_list v t with
  | [] => True
  | it :: _ =>
      unique_name v (it_name it) -> reserved (it_name it) = false ->
      exists q req g m, evs = [ESend q req g m] /\ working_instance v t (it_name it) q
  end.

Definition default_ok_b (v : view) (t : Z) (evs : list event) : bool :=
  match work_list v t with
  | [] => true
  | it :: _ =>
      if unique_b v (it_name it) && negb (reserved (it_name it)) then
        match evs with
        | [ESend q _ _ _] => working_instance_b v t (it_name it) q
        | _ => false
        end
      else true
  end.

(* ---- the monitor at given registered functions / default / view ---- *)
Section At.
  Variable F : Type.
  Variable interp : F -> rfn.

  Definition default_applies_at (tab : alist F) (d : dmode F) (r : list Z) (p : param)
    : option Z :=
    match r, rule_param p, d with
    | [t; _; _], Some _, DApp =>
        if t =? empty then None else
        match aget t tab with None => Some t | Some _ => None end
    | _, _, _ => None
    end.

  (* the property evaluated on one implementation observation b of a single-call op o made
     when [tab] are the registered functions, [d] the default and [v] the view *)
  Definition op_ok_at (tab : alist F) (d : dmode F) (v : view) (o : op F) (b : obs) : bool :=
    let reg := reg_in interp tab in
    let dflt := dflt_in interp d v in
    match o, b with
    | (OReg _ _ | ODefault _ | OUpdate _ | OSelf _ _ _), BUnit => true
    | ORoute ty p, BName n => n =? route reg dflt p ty
    | ORoutePID ty p, BPid po =>
        match named_by_rule reg dflt ty p, po with
        | Some n, Some q => known v n && pmem q (pids_named v n)
        | Some n, None => negb (known v n)
        | None, None => true
        | None, Some _ => false
        end
    | ORequest r p, BEvents evs =>
        admissible_b (call_spec reg dflt v true r p) evs
        && match default_applies_at tab d r p with Some t => default_ok_b v t evs | None => true end
    | ONotify r p, BEvents evs =>
        admissible_b (call_spec reg dflt v false r p) evs
        && match default_applies_at tab d r p with Some t => default_ok_b v t evs | None => true end
    | OQuery f, BEvents evs => admissible_b (front_spec v f QUERYSESSION) evs
    | OKick f, BEvents evs => admissible_b (front_spec v f KICK) evs
    | OWork ty, BNames l =>
        zlist_eqb l (map it_name (filter (fun it => (it_ty it =? ty) && (it_state it =? Working))
                                         (items v)))
    | OList ty, BNames l => zlist_eqb l (map it_name (filter (fun it => it_ty it =? ty) (items v)))
    | _, _ => false
    end.

  (* one call of several in flight: held to exactly what the property demands of it when it
     is made alone with the functions registered WHEN IT IS MADE, and the rule consulted for
     it saw the caller's own parameter *)
  Definition call_ok_at (d : dmode F) (v : view) (x : pcall * alist F) (y : obs * list seen)
    : bool :=
    op_ok_at (snd x) d v (op_of_call (fst x)) (fst y) && call_sees_own_b (fst x) (snd y).
End At.

Arguments default_applies_at {F} tab d r p.
Arguments op_ok_at {F} interp tab d v o b.
Arguments call_ok_at {F} interp d v x y.

(* ---- history functions ---- *)
Section Hist.
  Variable F : Type.
  Variable interp : F -> rfn.
  Variable pinterp : F -> rule F.

  Definition vstep (v : view) (o : op F) : view := match o with OUpdate v' => v' | _ => v end.
  Definition last_view (h : list (op F)) : view := fold_left vstep h [].

  Definition dstep (d : dmode F) (o : op F) : dmode F := match o with ODefault d' => d' | _ => d end.
  Definition dflt_at (h : list (op F)) : dmode F := fold_left dstep h DApp.

  Definition sstep (a : Z) (o : op F) : Z := match o with OSelf a' _ _ => a' | _ => a end.
  Definition self_at (h : list (op F)) : Z := fold_left sstep h (-1).

  (* the functions registered after h: Register is called by OReg, by rules that ran during a
     call of h, and by other goroutines while the calls of an OCalls were in flight; which
     rules ran is determined by running them (Model.fns_after) *)
  Definition fns_at (h : list (op F)) : alist F := s_fns (final interp pinterp h).

  Definition hreg (h : list (op F)) : Z -> option rfn := reg_in interp (fns_at h).
  Definition hdflt (h : list (op F)) : option rfn := dflt_in interp (dflt_at h) (last_view h).

  Definition op_ok1 (h : list (op F)) (o : op F) (b : obs) : bool :=
    op_ok_at interp (fns_at h) (dflt_at h) (last_view h) o b.

  (* calls in flight together under the schedule the op carries: the functions registered when
     call i is made are a function of the history and the schedule *)
  Definition calls_ok_b (tab : alist F) (d : dmode F) (v : view) (cs : list pcall)
      (sched : list (sentry F)) (l : list (obs * list seen)) : bool :=
    match sim F pinterp (pdflt_in pinterp d v) tab (map call_key cs) sched with
    | None => false
    | Some (_, _, ent) => all2b (call_ok_at interp d v) (combine cs ent) l
    end.

  (* the monitor: the property evaluated on one implementation observation b of op o made
     after history h *)
  Definition op_ok_b (h : list (op F)) (o : op F) (b : obs) : bool :=
    match o, b with
    | OCalls cs sched, BCalls l => calls_ok_b (fns_at h) (dflt_at h) (last_view h) cs sched l
    | OCalls _ _, _ | _, BCalls _ => false
    | _, _ => op_ok1 h o b
    end.

  (* operations that only ask for a routing decision *)
  Definition is_decision (o : op F) : bool :=
    match o with OReg _ _ | ODefault _ | OUpdate _ | OSelf _ _ _ => false | _ => true end.

  Fixpoint monitor_from (hist : list (op F)) (ops : list (op F)) (bs : list obs) : bool :=
    match ops, bs with
    | [], [] => true
    | o :: r, b :: br => op_ok_b hist o b && monitor_from (hist ++ [o]) r br
    | _, _ => false
    end.
End Hist.

Arguments last_view {F} h.
Arguments dflt_at {F} h.
Arguments self_at {F} h.
Arguments fns_at {F} interp pinterp h.
Arguments hreg {F} interp pinterp h ty.
Arguments hdflt {F} interp h.
Arguments op_ok1 {F} interp pinterp h o b.
Arguments calls_ok_b {F} interp pinterp tab d v cs sched l.
Arguments op_ok_b {F} interp pinterp h o b.
Arguments is_decision {F} o.
Arguments monitor_from {F} interp pinterp hist ops bs.
