(* C07 - proofs about route functions as programs: calls that overlap (several goroutines in the
   route layer at once) and calls that nest (a rule that routes).  Imported by Proofs.v. *)
From Cell2V Require Import Common.Tac Common.ListX Common.AList C07.Model C07.Spec.

(* ================= boolean equalities ================= *)
Lemma kind_eqb_spec a b : kind_eqb a b = true <-> a = b.
Proof. destruct a, b; simpl; split; intro H; try reflexivity; try discriminate. Qed.

Lemma seen_eqb_spec a b : seen_eqb a b = true <-> a = b.
Proof.
  destruct a as [d t k|d k v|d t n], b as [d' t' k'|d' k' v'|d' t' n']; simpl;
    try (split; discriminate).
  - rewrite !andb_true_iff, !Z.eqb_eq, kind_eqb_spec. split.
    + intros [[-> ->] ->]. reflexivity.
    + intro E. inv E. auto.
  - rewrite !andb_true_iff, !Z.eqb_eq, (option_eqb_spec Z.eqb Z.eqb_eq). split.
    + intros [[-> ->] ->]. reflexivity.
    + intro E. inv E. auto.
  - rewrite !andb_true_iff, !Z.eqb_eq. split.
    + intros [[-> ->] ->]. reflexivity.
    + intro E. inv E. auto.
Qed.

Lemma seen_list_eqb_spec l l' : list_eqb seen_eqb l l' = true <-> l = l'.
Proof. apply list_eqb_spec. apply seen_eqb_spec. Qed.

Lemma own_seen_b_spec ty p e : own_seen_b ty p e = true <-> own_seen ty p e.
Proof.
  unfold own_seen_b, own_seen. destruct (Z.eqb_spec (sdepth e) 0) as [D|D].
  2:{ split; [intros _ C; contradiction | reflexivity]. }
  destruct e as [d t k|d k v|d t n].
  - rewrite andb_true_iff, Z.eqb_eq. split.
    + intros [-> H] _. split; [reflexivity|].
      destruct (to_rparam p) as [rp|]; [|discriminate].
      exists rp. split; [reflexivity | apply kind_eqb_spec; exact H].
    + intro H. destruct (H D) as [-> [rp [-> ->]]]. split; [reflexivity | apply kind_eqb_spec; reflexivity].
  - split.
    + intros H _. destruct (to_rparam p) as [[|dd|dd]|]; try discriminate;
        apply (option_eqb_spec Z.eqb Z.eqb_eq) in H; exists dd; auto.
    + intro H. destruct (H D) as [dd [[->| ->] ->]]; apply (option_eqb_spec Z.eqb Z.eqb_eq); reflexivity.
  - split; [intros _ _; exact I | reflexivity].
Qed.

Lemma sees_own_b_spec ty p tr : forallb (own_seen_b ty p) tr = true <-> sees_own ty p tr.
Proof.
  unfold sees_own. rewrite forallb_forall, Forall_forall. split.
  - intros H e I. apply own_seen_b_spec. apply H. exact I.
  - intros H e I. apply own_seen_b_spec. apply H. exact I.
Qed.

Lemma call_sees_own_b_spec c tr : call_sees_own_b c tr = true <-> call_sees_own c tr.
Proof.
  unfold call_sees_own_b, call_sees_own. destruct (call_key c) as [[ty p]|].
  - apply sees_own_b_spec.
  - destruct tr; split; intro H; try reflexivity; discriminate.
Qed.

Lemma rule_param_to_rparam p : rule_param p = to_rparam p.
Proof. destruct p; reflexivity. Qed.

(* ================= lists ================= *)
Lemma upd_nth {A} (x : A) : forall i l j,
  nth_error (upd i x l) j =
  if Nat.eqb i j then match nth_error l j with Some _ => Some x | None => None end
  else nth_error l j.
Proof.
  induction i as [|i IH]; intros [|y r] [|j]; simpl; try reflexivity.
  - destruct (Nat.eqb i j); reflexivity.
  - apply IH.
Qed.

Lemma upd_length {A} (x : A) : forall i l, length (upd i x l) = length l.
Proof. induction i as [|i IH]; intros [|y r]; simpl; try reflexivity. rewrite IH. reflexivity. Qed.

Lemma Forall2_upd {A B} (R : A -> B -> Prop) : forall i l l' a y,
  Forall2 R l l' -> nth_error l i = Some a -> R a y -> Forall2 R l (upd i y l').
Proof.
  induction i as [|i IH]; intros l l' a y H N Ry; destruct H as [|a0 b0 l l' R0 H]; simpl in *;
    try discriminate.
  - inv N. constructor; assumption.
  - constructor; [exact R0 | eapply IH; eassumption].
Qed.

Lemma Forall2_nth {A B} (R : A -> B -> Prop) : forall l l' i b,
  Forall2 R l l' -> nth_error l' i = Some b -> exists a, nth_error l i = Some a /\ R a b.
Proof.
  intros l l' i b H. revert i. induction H as [|a0 b0 l l' R0 H IH]; intros [|i] N; simpl in *;
    try discriminate.
  - inv N. eauto.
  - apply IH. exact N.
Qed.

Section ProgProofs.
  Variable F : Type.
  Variable pinterp : F -> rule F.
  Variable dflt : option (rule F).

  Notation enter := (enter F pinterp dflt).
  Notation eval := (eval F pinterp dflt).
  Notation tstep := (tstep F pinterp dflt).
  Notation begin := (begin F pinterp dflt).
  Notation iter := (iter F pinterp dflt).
  Notation pexec := (pexec F pinterp dflt).
  Notation prun := (prun F pinterp dflt).
  Notation macro := (macro F pinterp dflt).
  Notation run_one := (run_one F pinterp dflt).
  Notation sim_sched := (sim_sched F pinterp dflt).
  Notation sim_rr := (sim_rr F pinterp dflt).
  Notation sim := (sim F pinterp dflt).

  Lemma enter_inr tab ty p rp pc :
    enter tab ty p = inr (rp, pc) ->
    to_rparam p = Some rp
    /\ exists r, pickr (option_map pinterp (aget ty tab)) dflt = Some r /\ pc = r ty.
  Proof.
    unfold Model.enter.
    destruct p as [|d|d|n|k]; simpl; try discriminate;
      destruct (pickr (option_map pinterp (aget ty tab)) dflt) as [r|]; try discriminate;
      intro E; inv E; split; try reflexivity; exists r; auto.
  Qed.

  (* ================= one step at a time ================= *)
  Lemma iter_add a : forall b s, iter (a + b) s = iter b (iter a s).
  Proof. induction a as [|a IH]; intros b s; simpl; [reflexivity | apply IH]. Qed.

  Lemma iter_done k tab n tr : iter k (tab, TDone n tr) = (tab, TDone n tr).
  Proof. induction k as [|k IH]; simpl; [reflexivity | exact IH]. Qed.

  Lemma iter_S k tab t : iter (S k) (tab, t) = iter k (tstep tab t).
  Proof. reflexivity. Qed.

  (* ---- the frame theorem: a step of goroutine j changes goroutine j and the registered
          rules, nothing else; what goroutine j becomes depends on the registered rules and
          on ITS OWN state only ---- *)
  Lemma pexec_nth st e i :
    nth_error (snd (pexec st e)) i =
    match e with
    | XRun j => if Nat.eqb j i then option_map (fun t => snd (tstep (fst st) t)) (nth_error (snd st) i)
                else nth_error (snd st) i
    | XReg _ _ => nth_error (snd st) i
    end.
  Proof.
    destruct e as [j|ty f]; [|reflexivity]. unfold Model.pexec.
    destruct (nth_error (snd st) j) as [t|] eqn:N; simpl.
    - rewrite upd_nth. destruct (Nat.eqb_spec j i) as [->|_]; [|reflexivity].
      rewrite N. reflexivity.
    - destruct (Nat.eqb_spec j i) as [->|_]; [|reflexivity]. rewrite N. reflexivity.
  Qed.

  (* the registered rules are written by Register only *)
  Lemma tstep_tab tab t :
    fst (tstep tab t) =
    match t with TRun _ _ (PReg ty f _) _ _ => treg ty f tab | _ => tab end.
  Proof.
    destruct t as [k|ty rp pc stk tr|n tr]; try reflexivity.
    destruct pc as [r|key c|c|cty p c|rty f c|c]; simpl; try reflexivity.
    - destruct rp; reflexivity.
    - destruct (enter tab cty p) as [n|[rp2 pc2]]; reflexivity.
  Qed.

  (* ---- when nobody registers, a goroutine is where its own steps alone take it ---- *)
  Fixpoint regfree (pc : prog F) : Prop :=
    match pc with
    | PRet _ => True
    | PGet _ c => forall v, regfree (c v)
    | PKind c => forall k, regfree (c k)
    | PCall _ _ c => forall n, regfree (c n)
    | PReg _ _ _ => False
    | PYield c => regfree c
    end.

  Definition rules_regfree (tab : alist F) : Prop :=
    (forall ty f t, aget ty tab = Some f -> regfree (pinterp f t))
    /\ (forall r t, dflt = Some r -> regfree (r t)).

  Definition wait_regfree (w : wait F) : Prop := let '(W _ _ c _) := w in forall n, regfree (c n).

  Definition thread_regfree (t : thread F) : Prop :=
    match t with
    | TRun _ _ pc stk _ => regfree pc /\ Forall wait_regfree stk
    | _ => True
    end.

  Lemma enter_regfree tab ty p rp pc :
    rules_regfree tab -> enter tab ty p = inr (rp, pc) -> regfree pc.
  Proof.
    intros [Rt Rd] E. apply enter_inr in E. destruct E as [_ [r [P ->]]].
    unfold pickr in P. destruct (aget ty tab) as [f|] eqn:A; simpl in P.
    - inv P. eapply Rt. exact A.
    - eapply Rd. exact P.
  Qed.

  Lemma ret_regfree n stk tr : Forall wait_regfree stk -> thread_regfree (ret n stk tr).
  Proof.
    intro H. destruct stk as [|[ty rp c cty] s]; simpl; [exact I|].
    inversion H as [|? ? Hw Hs]; subst. split; [apply Hw | exact Hs].
  Qed.

  Lemma tstep_regfree tab t :
    rules_regfree tab -> thread_regfree t ->
    fst (tstep tab t) = tab /\ thread_regfree (snd (tstep tab t)).
  Proof.
    intros R T. destruct t as [k|ty rp pc stk tr|n tr].
    - split; [reflexivity|]. simpl. destruct k as [[ty p]|]; simpl; [|exact I].
      destruct (enter tab ty p) as [n|[rp pc]] eqn:E; simpl; [exact I|].
      split; [eapply enter_regfree; eassumption | constructor].
    - destruct T as [Tp Ts].
      destruct pc as [r|key c|c|cty p c|rty f c|c]; simpl in *.
      + split; [reflexivity | apply ret_regfree; exact Ts].
      + destruct rp as [|dd|dd]; simpl.
        * split; [reflexivity | apply ret_regfree; exact Ts].
        * split; [reflexivity|]. split; [apply Tp | exact Ts].
        * split; [reflexivity|]. split; [apply Tp | exact Ts].
      + split; [reflexivity|]. split; [apply Tp | exact Ts].
      + destruct (enter tab cty p) as [n|[rp2 pc2]] eqn:E; simpl; (split; [reflexivity|]).
        * split; [apply Tp | exact Ts].
        * split; [eapply enter_regfree; eassumption|]. constructor; [exact Tp | exact Ts].
      + contradiction.
      + split; [reflexivity|]. split; [exact Tp | exact Ts].
    - split; [reflexivity | exact I].
  Qed.

  Lemma iter_regfree tab : rules_regfree tab ->
    forall k t, thread_regfree t ->
    fst (iter k (tab, t)) = tab /\ thread_regfree (snd (iter k (tab, t))).
  Proof.
    intros R k. induction k as [|k IH]; intros t T; [split; [reflexivity | exact T]|].
    rewrite iter_S. destruct (tstep_regfree tab t R T) as [E T'].
    rewrite (surjective_pairing (tstep tab t)), E. apply IH. exact T'.
  Qed.

  Lemma Forall_upd {A} (P : A -> Prop) : forall i (x : A) l, Forall P l -> P x -> Forall P (upd i x l).
  Proof.
    induction i as [|i IH]; intros x l H Px; destruct H as [|y r Py Hr]; simpl; try constructor;
      try assumption. apply IH; assumption.
  Qed.

  Lemma prun_regfree tab : rules_regfree tab ->
    forall sched pool, forallb is_run sched = true -> Forall thread_regfree pool ->
    fst (prun sched (tab, pool)) = tab
    /\ forall i, nth_error (snd (prun sched (tab, pool))) i
                 = option_map (fun t => snd (iter (ncount i sched) (tab, t))) (nth_error pool i).
  Proof.
    intro R. unfold Model.prun.
    induction sched as [|e r IH]; intros pool Hs Hp; simpl.
    - split; [reflexivity|]. intro i. destruct (nth_error pool i); reflexivity.
    - destruct e as [x|ty f]; [|discriminate]. simpl in Hs.
      unfold Model.pexec at 2 4. cbn [fst snd].
      destruct (nth_error pool x) as [t|] eqn:N.
      + assert (Tt : thread_regfree t).
        { rewrite Forall_forall in Hp. apply Hp. eapply nth_error_In. exact N. }
        destruct (tstep_regfree tab t R Tt) as [E T'].
        rewrite E.
        destruct (IH (upd x (snd (tstep tab t)) pool) Hs (Forall_upd _ _ _ _ Hp T')) as [E1 E2].
        split; [exact E1|]. intro i. rewrite E2, upd_nth.
        cbn [ncount]. destruct (Nat.eqb_spec x i) as [->|Nx].
        * rewrite N. cbn [option_map]. change (1 + ncount i r)%nat with (S (ncount i r)).
          rewrite iter_S, (surjective_pairing (tstep tab t)), E. reflexivity.
        * reflexivity.
      + destruct (IH pool Hs Hp) as [E1 E2]. split; [exact E1|]. intro i. rewrite E2.
        cbn [ncount]. destruct (Nat.eqb_spec x i) as [->|Nx]; [rewrite N|]; reflexivity.
  Qed.

  (* ================= the step machine reaches what [eval] computes ================= *)
  Definition nest_steps (nest : alist F -> Z -> Z -> param -> option (Z * list seen * alist F))
    : Prop :=
    forall tab cty p stk tr n t tab1 ty0 rp0 c0,
      nest tab (Z.of_nat (length stk) + 1) cty p = Some (n, t, tab1) ->
      exists k, iter k (tab, TRun ty0 rp0 (PCall cty p c0) stk tr)
                = (tab1, TRun ty0 rp0 (c0 n) stk (tr ++ t ++ [VCall (Z.of_nat (length stk)) cty n])).

  Lemma pre_some {A} l (x : option (A * list seen * alist F)) a t tb :
    pre l x = Some (a, t, tb) -> exists t', x = Some (a, t', tb) /\ t = l ++ t'.
  Proof.
    unfold pre. destruct x as [[[a' t'] tb']|]; [|discriminate]. intro E. inv E. eauto.
  Qed.

  Lemma evalp_steps nest : nest_steps nest ->
    forall pc tab ty rp stk tr r t tab1,
      evalp nest tab (Z.of_nat (length stk)) pc ty rp = Some (r, t, tab1) ->
      exists k, iter k (tab, TRun ty rp pc stk tr) = (tab1, ret (name_of r) stk (tr ++ t)).
  Proof.
    intros Hn pc. induction pc as [r0|key c IH|c IH|cty p c IH|rty f c IH|c IH];
      intros tab ty rp stk tr r t tab1 E; cbn [evalp] in E.
    - inv E. exists 1%nat. rewrite app_nil_r. reflexivity.
    - destruct rp as [|dd|dd].
      + inv E. exists 1%nat. rewrite app_nil_r. reflexivity.
      + apply pre_some in E. destruct E as [t' [E ->]].
        destruct (IH _ tab ty (RPSess dd) stk (tr ++ [VGet (Z.of_nat (length stk)) key (dget key dd)]) r t' tab1 E)
          as [k Hk].
        exists (S k). rewrite iter_S. cbn [Model.tstep]. rewrite Hk, <- app_assoc. reflexivity.
      + apply pre_some in E. destruct E as [t' [E ->]].
        destruct (IH _ tab ty (RPMap dd) stk (tr ++ [VGet (Z.of_nat (length stk)) key (dget key dd)]) r t' tab1 E)
          as [k Hk].
        exists (S k). rewrite iter_S. cbn [Model.tstep]. rewrite Hk, <- app_assoc. reflexivity.
    - apply pre_some in E. destruct E as [t' [E ->]].
      destruct (IH _ tab ty rp stk (tr ++ [VKind (Z.of_nat (length stk)) ty (kind_of rp)]) r t' tab1 E)
        as [k Hk].
      exists (S k). rewrite iter_S. cbn [Model.tstep]. rewrite Hk, <- app_assoc. reflexivity.
    - destruct (nest tab (Z.of_nat (length stk) + 1) cty p) as [[[n tn] tabn]|] eqn:N; [|discriminate].
      apply pre_some in E. destruct E as [t' [E ->]].
      destruct (Hn tab cty p stk tr n tn tabn ty rp c N) as [k1 H1].
      destruct (IH n tabn ty rp stk (tr ++ tn ++ [VCall (Z.of_nat (length stk)) cty n]) r t' tab1 E)
        as [k2 H2].
      exists (k1 + k2)%nat. rewrite iter_add, H1, H2, <- !app_assoc. reflexivity.
    - destruct (IH (treg rty f tab) ty rp stk tr r t tab1 E) as [k Hk].
      exists (S k). rewrite iter_S. exact Hk.
    - destruct (IH tab ty rp stk tr r t tab1 E) as [k Hk]. exists (S k). rewrite iter_S. exact Hk.
  Qed.

  Lemma eval_nest_steps fuel : nest_steps (eval fuel).
  Proof.
    induction fuel as [|f IH]; intros tab cty p stk tr n t tab1 ty0 rp0 c0 E; cbn [Model.eval] in E.
    - destruct (enter tab cty p) as [n0|[rp2 pc2]] eqn:En; [|discriminate]. inv E.
      exists 1%nat. rewrite iter_S. cbn [Model.tstep]. rewrite En. reflexivity.
    - destruct (enter tab cty p) as [n0|[rp2 pc2]] eqn:En.
      + inv E. exists 1%nat. rewrite iter_S. cbn [Model.tstep]. rewrite En. reflexivity.
      + destruct (evalp (eval f) tab (Z.of_nat (length stk) + 1) pc2 cty rp2) as [[[r t'] tb']|] eqn:Ev;
          [|discriminate]. inv E.
        assert (L : Z.of_nat (length stk) + 1 = Z.of_nat (length (W ty0 rp0 c0 cty :: stk))).
        { cbn [length]. lia. }
        rewrite L in Ev.
        destruct (evalp_steps (eval f) IH pc2 tab cty rp2 (W ty0 rp0 c0 cty :: stk) tr r t tab1 Ev)
          as [k Hk].
        exists (S k). rewrite iter_S. cbn [Model.tstep]. rewrite En, Hk. cbn [ret].
        rewrite <- app_assoc. reflexivity.
  Qed.

  (* C07_eval_adequate *)
  Lemma eval_adequate fuel tab ty p n t tab1 :
    eval fuel tab 0 ty p = Some (n, t, tab1) ->
    exists k, forall j, (k <= j)%nat -> iter j (tab, TInit (Some (ty, p))) = (tab1, TDone n t).
  Proof.
    intro E.
    assert (S0 : exists k, iter k (tab, begin tab (Some (ty, p))) = (tab1, TDone n t)).
    { unfold Model.begin.
      destruct fuel as [|f]; cbn [Model.eval] in E; destruct (enter tab ty p) as [n0|[rp pc]] eqn:En.
      - inv E. exists 0%nat. reflexivity.
      - discriminate.
      - inv E. exists 0%nat. reflexivity.
      - destruct (evalp (eval f) tab 0 pc ty rp) as [[[r t'] tb']|] eqn:Ev; [|discriminate]. inv E.
        destruct (evalp_steps (eval f) (eval_nest_steps f) pc tab ty rp [] [] r t tab1 Ev) as [k Hk].
        exists k. exact Hk. }
    destruct S0 as [k Hk]. exists (S k). intros j Le.
    replace j with (S k + (j - S k))%nat by lia. rewrite iter_add, iter_S. cbn [Model.tstep].
    rewrite Hk. apply iter_done.
  Qed.

  (* ================= what a rule sees: big-step ================= *)
  Definition nest_deep (nest : alist F -> Z -> Z -> param -> option (Z * list seen * alist F))
    : Prop :=
    forall tab d cty p n t tab1, nest tab d cty p = Some (n, t, tab1) -> Forall (fun e => d <= sdepth e) t.

  Lemma evalp_deep nest : nest_deep nest ->
    forall pc tab d ty rp r t tab1,
      evalp nest tab d pc ty rp = Some (r, t, tab1) -> Forall (fun e => d <= sdepth e) t.
  Proof.
    intros Hn pc. induction pc as [r0|key c IH|c IH|cty p c IH|rty f c IH|c IH];
      intros tab d ty rp r t tab1 E; cbn [evalp] in E.
    - inv E. constructor.
    - destruct rp as [|dd|dd]; [inv E; constructor| |];
        apply pre_some in E; destruct E as [t' [E ->]]; (constructor; [simpl; lia | eapply IH; exact E]).
    - apply pre_some in E. destruct E as [t' [E ->]]. constructor; [simpl; lia | eapply IH; exact E].
    - destruct (nest tab (d + 1) cty p) as [[[n tn] tabn]|] eqn:N; [|discriminate].
      apply pre_some in E. destruct E as [t' [E ->]].
      rewrite <- app_assoc. apply Forall_app. split.
      + eapply Forall_impl; [|exact (Hn _ _ _ _ _ _ _ N)]. intros e H. cbv beta in *. lia.
      + constructor; [simpl; lia | eapply IH; exact E].
    - eapply IH. exact E.
    - eapply IH. exact E.
  Qed.

  Lemma eval_deep fuel : nest_deep (eval fuel).
  Proof.
    induction fuel as [|f IH]; intros tab d cty p n t tab1 E; cbn [Model.eval] in E;
      destruct (enter tab cty p) as [n0|[rp pc]]; try discriminate; try (inv E; constructor).
    destruct (evalp (eval f) tab d pc cty rp) as [[[r t'] tb']|] eqn:Ev; [|discriminate]. inv E.
    eapply evalp_deep; [exact IH | exact Ev].
  Qed.

  Lemma evalp_own nest ty p rp : nest_deep nest -> to_rparam p = Some rp ->
    forall pc tab r t tab1, evalp nest tab 0 pc ty rp = Some (r, t, tab1) -> sees_own ty p t.
  Proof.
    intros Hn P pc. unfold sees_own.
    induction pc as [r0|key c IH|c IH|cty q c IH|rty f c IH|c IH]; intros tab r t tab1 E;
      cbn [evalp] in E.
    - inv E. constructor.
    - destruct rp as [|dd|dd]; [inv E; constructor| |];
        apply pre_some in E; destruct E as [t' [E ->]]; (constructor; [|eapply IH; exact E]);
        intros _; exists dd; auto.
    - apply pre_some in E. destruct E as [t' [E ->]]. constructor; [|eapply IH; exact E].
      intros _. split; [reflexivity|]. exists rp. auto.
    - destruct (nest tab (0 + 1) cty q) as [[[n tn] tabn]|] eqn:N; [|discriminate].
      apply pre_some in E. destruct E as [t' [E ->]].
      rewrite <- app_assoc. apply Forall_app. split.
      + eapply Forall_impl; [|exact (Hn _ _ _ _ _ _ _ N)]. intros e H D. cbv beta in H. lia.
      + constructor; [intros _; exact I | eapply IH; exact E].
    - eapply IH. exact E.
    - eapply IH. exact E.
  Qed.

  (* C07_rule_sees_own_param (a call made alone) *)
  Lemma eval_sees_own fuel tab ty p n t tab1 :
    eval fuel tab 0 ty p = Some (n, t, tab1) -> sees_own ty p t.
  Proof.
    intro E. destruct fuel as [|f]; cbn [Model.eval] in E;
      destruct (enter tab ty p) as [n0|[rp pc]] eqn:En; try discriminate; try (inv E; constructor).
    destruct (evalp (eval f) tab 0 pc ty rp) as [[[r t'] tb']|] eqn:Ev; [|discriminate]. inv E.
    apply enter_inr in En. destruct En as [P _].
    eapply evalp_own; [apply eval_deep | exact P | exact Ev].
  Qed.

  (* ================= what a rule sees: any schedule, any registrations ================= *)
  Fixpoint bot (ty : Z) (rp : rparam) (stk : list (wait F)) : Z * rparam :=
    match stk with
    | [] => (ty, rp)
    | W ty' rp' _ _ :: s => bot ty' rp' s
    end.

  (* the goroutine that makes call k: the rule at the bottom of its stack is the one consulted
     for ITS call and holds ITS parameter; what has been seen so far is consistent with it *)
  Definition tinv (k : option (Z * param)) (t : thread F) : Prop :=
    match t with
    | TInit k' => k' = k
    | TDone _ tr => match k with Some (ty, p) => sees_own ty p tr | None => tr = [] end
    | TRun ty rp _ stk tr =>
        exists ty0 p0 rp0, k = Some (ty0, p0) /\ to_rparam p0 = Some rp0
                           /\ bot ty rp stk = (ty0, rp0) /\ sees_own ty0 p0 tr
    end.

  Lemma sees_own_snoc ty p tr e : sees_own ty p tr -> own_seen ty p e -> sees_own ty p (tr ++ [e]).
  Proof. intros H He. apply Forall_app. split; [exact H | constructor; [exact He | constructor]]. Qed.

  Lemma ret_inv ty0 p0 rp0 ty rp n stk tr :
    to_rparam p0 = Some rp0 -> bot ty rp stk = (ty0, rp0) -> sees_own ty0 p0 tr ->
    tinv (Some (ty0, p0)) (ret n stk tr).
  Proof.
    intros P B S. destruct stk as [|[ty' rp' c cty] s]; simpl; [exact S|].
    exists ty0, p0, rp0. repeat split; try assumption.
    apply sees_own_snoc; [exact S | intros _; exact I].
  Qed.

  Lemma tstep_inv k tab t : tinv k t -> tinv k (snd (tstep tab t)).
  Proof.
    intro H. destruct t as [k'|ty rp pc stk tr|n tr]; [| |exact H].
    - simpl in H. subst k'. simpl. destruct k as [[ty p]|]; simpl; [|reflexivity].
      destruct (enter tab ty p) as [n|[rp pc]] eqn:E; simpl; [constructor|].
      apply enter_inr in E. destruct E as [P _].
      exists ty, p, rp. repeat split; try assumption. constructor.
    - destruct H as [ty0 [p0 [rp0 [-> [P [B S]]]]]].
      assert (D0 : Z.of_nat (length stk) = 0 -> stk = []).
      { destruct stk; [reflexivity | simpl; lia]. }
      destruct pc as [r|key c|c|cty p c|rty f c|c]; simpl.
      + eapply ret_inv; eassumption.
      + destruct rp as [|dd|dd]; simpl; [eapply ret_inv; eassumption| |];
          (exists ty0, p0, rp0; repeat split; try assumption;
           apply sees_own_snoc; [exact S|]; intro D; simpl in D; apply D0 in D; subst stk;
           simpl in B; inv B; exists dd; auto).
      + exists ty0, p0, rp0. repeat split; try assumption.
        apply sees_own_snoc; [exact S|]. intro D. simpl in D. apply D0 in D. subst stk.
        simpl in B. inv B. split; [reflexivity|]. exists rp0. auto.
      + destruct (enter tab cty p) as [n|[rp2 pc2]] eqn:E; simpl.
        * exists ty0, p0, rp0. repeat split; try assumption.
          apply sees_own_snoc; [exact S | intros _; exact I].
        * exists ty0, p0, rp0. repeat split; assumption.
      + exists ty0, p0, rp0. repeat split; assumption.
      + exists ty0, p0, rp0. repeat split; assumption.
  Qed.

  Lemma tinv_done k n tr : tinv k (TDone n tr) ->
    match k with Some (ty, p) => sees_own ty p tr | None => tr = [] end.
  Proof. intro H. exact H. Qed.

  (* C07_rule_sees_own_param_any_schedule *)
  Lemma pexec_inv ks st e : Forall2 tinv ks (snd st) -> Forall2 tinv ks (snd (pexec st e)).
  Proof.
    intro H. destruct e as [i|ty f]; [|exact H]. unfold Model.pexec.
    destruct (nth_error (snd st) i) as [t|] eqn:N; [|exact H]. cbn [snd].
    destruct (Forall2_nth _ _ _ _ _ H N) as [k [Nk Tk]].
    eapply Forall2_upd; [exact H | exact Nk | apply tstep_inv; exact Tk].
  Qed.

  Lemma prun_inv ks sched : forall st, Forall2 tinv ks (snd st) -> Forall2 tinv ks (snd (prun sched st)).
  Proof.
    unfold Model.prun. induction sched as [|e r IH]; intros st H; simpl; [exact H|].
    apply IH. apply pexec_inv. exact H.
  Qed.

  Lemma init_inv ks : Forall2 tinv ks (map TInit ks).
  Proof. induction ks as [|k r IH]; simpl; constructor; [reflexivity | exact IH]. Qed.

  (* ---- the harness scheduler is made of such steps ---- *)
  Lemma macro_inv k fuel : forall tab t tab' t',
    tinv k t -> macro fuel tab t = Some (tab', t') -> tinv k t'.
  Proof.
    induction fuel as [|f IH]; intros tab t tab' t' H E; cbn [Model.macro] in E; [discriminate|].
    destruct (is_done t).
    - inv E. exact H.
    - destruct (at_yield t).
      + rewrite (surjective_pairing (tstep tab t)) in E. inv E. apply tstep_inv. exact H.
      + eapply IH; [|exact E]. apply tstep_inv. exact H.
  Qed.

  Lemma macro_iter fuel : forall tab t tab' t',
    macro fuel tab t = Some (tab', t') -> exists k, iter k (tab, t) = (tab', t').
  Proof.
    induction fuel as [|f IH]; intros tab t tab' t' E; cbn [Model.macro] in E; [discriminate|].
    destruct (is_done t).
    - inv E. exists 0%nat. reflexivity.
    - destruct (at_yield t).
      + exists 1%nat. rewrite iter_S. simpl. rewrite (surjective_pairing (tstep tab t)) in E. inv E.
        apply surjective_pairing.
      + apply IH in E. destruct E as [k Hk]. exists (S k). rewrite iter_S.
        rewrite (surjective_pairing (tstep tab t)). exact Hk.
  Qed.

  Definition sst_inv (ks : list (option (Z * param))) (st : sst F) : Prop :=
    Forall2 tinv ks (snd (fst st)).

  Lemma run_one_inv ks i st st' : sst_inv ks st -> run_one i st = Some st' -> sst_inv ks st'.
  Proof.
    destruct st as [[tab pool] ent]. unfold sst_inv, Model.run_one. cbn [fst snd]. intros H E.
    destruct (nth_error pool i) as [t|] eqn:N; [|inv E; exact H].
    destruct (macro STEP_FUEL tab t) as [[tab' t']|] eqn:M; [|discriminate]. inv E. cbn [fst snd].
    destruct (Forall2_nth _ _ _ _ _ H N) as [k [Nk Tk]].
    eapply Forall2_upd; [exact H | exact Nk | eapply macro_inv; eassumption].
  Qed.

  Lemma sim_sched_inv ks sched : forall st st',
    sst_inv ks st -> sim_sched sched st = Some st' -> sst_inv ks st'.
  Proof.
    induction sched as [|e r IH]; intros [[tab pool] ent] st' H E; cbn [Model.sim_sched] in E.
    - inv E. exact H.
    - destruct (all_done pool); [inv E; exact H|].
      destruct e as [k|ty f].
      + destruct (done_at pool (Z.to_nat (k mod Z.of_nat (length pool)))); [eapply IH; eassumption|].
        destruct (run_one (Z.to_nat (k mod Z.of_nat (length pool))) (tab, pool, ent)) as [st1|] eqn:R;
          [|discriminate].
        eapply IH; [|exact E]. eapply run_one_inv; eassumption.
      + eapply IH; [|exact E]. exact H.
  Qed.

  Lemma sim_rr_inv ks fuel : forall rr st st',
    sst_inv ks st -> sim_rr fuel rr st = Some st' -> sst_inv ks st'.
  Proof.
    induction fuel as [|f IH]; intros rr [[tab pool] ent] st' H E; cbn [Model.sim_rr] in E.
    - destruct (all_done pool); [inv E; exact H | discriminate].
    - destruct (all_done pool); [inv E; exact H|].
      destruct (done_at pool (Nat.modulo rr (length pool))); [eapply IH; eassumption|].
      destruct (run_one (Nat.modulo rr (length pool)) (tab, pool, ent)) as [st1|] eqn:R; [|discriminate].
      eapply IH; [|exact E]. eapply run_one_inv; eassumption.
  Qed.

  Lemma sim_inv tab ks sched tab' pool ent :
    sim tab ks sched = Some (tab', pool, ent) -> Forall2 tinv ks pool.
  Proof.
    unfold Model.sim. intro E.
    destruct (sim_sched sched (tab, map TInit ks, map (fun _ => tab) ks)) as [st1|] eqn:S1; [|discriminate].
    assert (H1 : sst_inv ks st1).
    { eapply sim_sched_inv; [|exact S1]. unfold sst_inv. cbn [fst snd]. apply init_inv. }
    exact (sim_rr_inv ks _ _ _ _ H1 E).
  Qed.

  (* ================= a nested call is a call ================= *)
  Definition shift (d : Z) (e : seen) : seen :=
    match e with
    | VKind x t k => VKind (x + d) t k
    | VGet x k v => VGet (x + d) k v
    | VCall x t n => VCall (x + d) t n
    end.

  Definition shifted {A} (d : Z) (x : option (A * list seen * alist F))
    : option (A * list seen * alist F) :=
    match x with Some (a, t, tb) => Some (a, map (shift d) t, tb) | None => None end.

  Definition nest_shift (nest : alist F -> Z -> Z -> param -> option (Z * list seen * alist F))
    : Prop :=
    forall tab d cty p, nest tab d cty p = shifted d (nest tab 0 cty p).

  Lemma shift_shift a b e : shift a (shift b e) = shift (b + a) e.
  Proof. destruct e; simpl; f_equal; lia. Qed.

  Lemma shifted_pre {A} d l (x : option (A * list seen * alist F)) :
    shifted d (pre l x) = pre (map (shift d) l) (shifted d x).
  Proof. destruct x as [[[a t] tb]|]; simpl; [rewrite map_app|]; reflexivity. Qed.

  Lemma evalp_shift nest : nest_shift nest ->
    forall pc tab d ty rp, evalp nest tab d pc ty rp = shifted d (evalp nest tab 0 pc ty rp).
  Proof.
    intros Hn pc. induction pc as [r0|key c IH|c IH|cty p c IH|rty f c IH|c IH];
      intros tab d ty rp; cbn [evalp].
    - reflexivity.
    - destruct rp as [|dd|dd]; [reflexivity| |]; rewrite shifted_pre, <- IH; reflexivity.
    - rewrite shifted_pre, <- IH. reflexivity.
    - rewrite (Hn tab (d + 1)), (Hn tab (0 + 1)).
      destruct (nest tab 0 cty p) as [[[n tn] tabn]|]; simpl; [|reflexivity].
      rewrite shifted_pre, <- IH. f_equal.
      rewrite map_app, map_map. simpl. f_equal.
      apply map_ext. intro e. rewrite shift_shift. f_equal. lia.
    - apply IH.
    - apply IH.
  Qed.

  (* C07_nested_call_is_call *)
  Lemma eval_shift fuel : nest_shift (eval fuel).
  Proof.
    induction fuel as [|f IH]; intros tab d cty p; cbn [Model.eval];
      destruct (enter tab cty p) as [n0|[rp pc]]; try reflexivity.
    rewrite (evalp_shift (eval f) IH pc tab d).
    destruct (evalp (eval f) tab 0 pc cty rp) as [[[r t] tb]|]; reflexivity.
  Qed.

  (* ================= the answer is the answer of [route] ================= *)
  (* what the rule answers when started with the rules [tab], as the function the rest of the
     model talks about *)
  Definition den (fuel : nat) (tab : alist F) (d : Z) (r : rule F) : rfn :=
    fun ty rp => match evalp (eval fuel) tab d (r ty) ty rp with
                 | Some (x, _, _) => x
                 | None => RPanic
                 end.

  (* C07_nested_result *)
  Lemma eval_route fuel tab d ty p n t tab1 :
    eval (S fuel) tab d ty p = Some (n, t, tab1) ->
    n = route (fun t0 => option_map (den fuel tab d) (option_map pinterp (aget t0 tab)))
              (option_map (den fuel tab d) dflt) p ty.
  Proof.
    cbn [Model.eval]. unfold Model.enter, route, do_route, pick, pickr, den.
    destruct p as [|dd|dd|n0|k]; simpl;
      try (intro E; inv E; reflexivity);
      destruct (aget ty tab) as [f|]; simpl; try destruct dflt as [r|]; simpl;
      try (intro E; inv E; reflexivity);
      match goal with |- context [evalp ?nest tab d ?pc ty ?rp] =>
        destruct (evalp nest tab d pc ty rp) as [[[x t'] tb']|] end;
      intro E; inv E; destruct x; reflexivity.
  Qed.

  (* ================= rules that do not register leave the registered rules alone ========= *)
  Definition nest_keeps (nest : alist F -> Z -> Z -> param -> option (Z * list seen * alist F))
    : Prop :=
    forall tab d cty p n t tab1, rules_regfree tab -> nest tab d cty p = Some (n, t, tab1) -> tab1 = tab.

  Lemma evalp_keeps nest : nest_keeps nest ->
    forall pc tab d ty rp r t tab1, rules_regfree tab -> regfree pc ->
      evalp nest tab d pc ty rp = Some (r, t, tab1) -> tab1 = tab.
  Proof.
    intros Hn pc. induction pc as [r0|key c IH|c IH|cty p c IH|rty f c IH|c IH];
      intros tab d ty rp r t tab1 R G E; cbn [evalp] in E; simpl in G.
    - inv E. reflexivity.
    - destruct rp as [|dd|dd]; [inv E; reflexivity| |];
        apply pre_some in E; destruct E as [t' [E _]]; eapply IH; eauto.
    - apply pre_some in E. destruct E as [t' [E _]]. eapply IH; eauto.
    - destruct (nest tab (d + 1) cty p) as [[[n tn] tabn]|] eqn:N; [|discriminate].
      apply pre_some in E. destruct E as [t' [E _]].
      pose proof (Hn _ _ _ _ _ _ _ R N) as ->. eapply IH; eauto.
    - contradiction.
    - eapply IH; eauto.
  Qed.

  Lemma eval_keeps fuel : nest_keeps (eval fuel).
  Proof.
    induction fuel as [|f IH]; intros tab d cty p n t tab1 R E; cbn [Model.eval] in E;
      destruct (enter tab cty p) as [n0|[rp pc]] eqn:En; try discriminate; try (inv E; reflexivity).
    destruct (evalp (eval f) tab d pc cty rp) as [[[r t'] tb']|] eqn:Ev; [|discriminate]. inv E.
    eapply evalp_keeps; [exact IH | exact R | eapply enter_regfree; eassumption | exact Ev].
  Qed.
End ProgProofs.

(* ================= scripted functions: program and answer agree ================= *)
Lemma pre_prog_result nest tab d pre0 k ty rp r t tab1 :
  evalp nest tab d (pre_prog pre0 k) ty rp = Some (r, t, tab1) ->
  (rp = RPNil /\ existsb is_get pre0 = true /\ r = RPanic)
  \/ ((rp = RPNil -> existsb is_get pre0 = false)
      /\ exists tab' t', evalp nest tab' d k ty rp = Some (r, t', tab1)).
Proof.
  revert tab t. induction pre0 as [|a pr IH]; intros tab t E; cbn [pre_prog] in E.
  - right. split; [reflexivity | eauto].
  - destruct a as [|cty p|key|rty f]; cbn [evalp] in E.
    + apply IH in E. exact E.
    + destruct (nest tab (d + 1) cty p) as [[[n tn] tabn]|]; [|discriminate].
      apply pre_some in E. destruct E as [t' [E _]]. apply IH in E. exact E.
    + destruct rp as [|dd|dd].
      * inv E. left. auto.
      * apply pre_some in E. destruct E as [t' [E _]]. apply IH in E.
        destruct E as [[C _]|[_ E]]; [discriminate|]. right. split; [discriminate | exact E].
      * apply pre_some in E. destruct E as [t' [E _]]. apply IH in E.
        destruct E as [[C _]|[_ E]]; [discriminate|]. right. split; [discriminate | exact E].
    + apply IH in E. exact E.
Qed.

Lemma body_coherent nest s : forall tab d ty rp r t tab1,
  evalp nest tab d (body s ty) ty rp = Some (r, t, tab1) -> r = interp_script s ty rp.
Proof.
  induction s as [r0|k tbl miss nokey|a b c|tbl miss|pr s' IH]; intros tab d ty rp r t tab1 E;
    cbn [body] in E.
  - cbn [evalp] in E. inv E. reflexivity.
  - cbn [evalp] in E. destruct rp as [|dd|dd]; [inv E; reflexivity| |];
      apply pre_some in E; destruct E as [t' [E _]]; simpl;
      destruct (dget k dd) as [x|]; cbn [evalp] in E; inv E; reflexivity.
  - cbn [evalp] in E. apply pre_some in E. destruct E as [t' [E _]].
    destruct rp; cbn [evalp kind_of] in E; inv E; reflexivity.
  - cbn [evalp] in E. inv E. reflexivity.
  - apply pre_prog_result in E. destruct E as [[-> [G ->]]|[G [tab' [t' E]]]].
    + simpl. rewrite G. reflexivity.
    + apply IH in E. subst r. destruct rp; simpl; try reflexivity. rewrite (G eq_refl). reflexivity.
Qed.

(* C07_script_coherent *)
Lemma script_coherent nest s tab d ty rp r t tab1 :
  evalp nest tab d (prog_of_script s ty) ty rp = Some (r, t, tab1) -> r = interp_script s ty rp.
Proof.
  unfold prog_of_script. cbn [evalp]. intro E. apply pre_some in E. destruct E as [t' [E _]].
  eapply body_coherent. exact E.
Qed.
