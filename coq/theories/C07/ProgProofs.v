(* C07 - proofs about route functions as programs: calls that overlap (several goroutines in the
   route layer at once) and calls that nest (a rule that routes).  Imported by Proofs.v. *)
From Cell2V Require Import Common.Tac Common.ListX Common.AList C07.Model C07.Spec.

(* ================= boolean equalities ================= *)
Lemma kind_eqb_spec a b : kind_eqb a b = true <-> a = b.
Proof. destruct a, b; simpl; split; intro H; try reflexivity; try discriminate. Qed.

Lemma seen_eqb_spec a b : seen_eqb a b = true <-> a = b.
Proof.
  destruct a as [d t k|d k v|d t n], b as [d' t' k'|d' k' v'|d' t' n']; simpl;
    try (split; discriminate).
  - rewrite !andb_true_iff, !Z.eqb_eq, kind_eqb_spec. split.
    + intros [[-> ->] ->]. reflexivity.
    + intro E. inv E. auto.
  - rewrite !andb_true_iff, !Z.eqb_eq, (option_eqb_spec Z.eqb Z.eqb_eq). split.
    + intros [[-> ->] ->]. reflexivity.
    + intro E. inv E. auto.
  - rewrite !andb_true_iff, !Z.eqb_eq. split.
    + intros [[-> ->] ->]. reflexivity.
    + intro E. inv E. auto.
Qed.

Lemma seen_list_eqb_spec l l' : list_eqb seen_eqb l l' = true <-> l = l'.
Proof. apply list_eqb_spec. apply seen_eqb_spec. Qed.

Lemma own_seen_b_spec ty p e : own_seen_b ty p e = true <-> own_seen ty p e.
Proof.
  unfold own_seen_b, own_seen. destruct (Z.eqb_spec (sdepth e) 0) as [D|D].
  2:{ split; [intros _ C; contradiction | reflexivity]. }
  destruct e as [d t k|d k v|d t n].
  - rewrite andb_true_iff, Z.eqb_eq. split.
    + intros [-> H] _. split; [reflexivity|].
      destruct (to_rparam p) as [rp|]; [|discriminate].
      exists rp. split; [reflexivity | apply kind_eqb_spec; exact H].
    + intro H. destruct (H D) as [-> [rp [-> ->]]]. split; [reflexivity | apply kind_eqb_spec; reflexivity].
  - split.
    + intros H _. destruct (to_rparam p) as [[|dd|dd]|]; try discriminate;
        apply (option_eqb_spec Z.eqb Z.eqb_eq) in H; exists dd; auto.
    + intro H. destruct (H D) as [dd [[->| ->] ->]]; apply (option_eqb_spec Z.eqb Z.eqb_eq); reflexivity.
  - split; [intros _ _; exact I | reflexivity].
Qed.

Lemma sees_own_b_spec ty p tr : forallb (own_seen_b ty p) tr = true <-> sees_own ty p tr.
Proof.
  unfold sees_own. rewrite forallb_forall, Forall_forall. split.
  - intros H e I. apply own_seen_b_spec. apply H. exact I.
  - intros H e I. apply own_seen_b_spec. apply H. exact I.
Qed.

Lemma call_sees_own_b_spec c tr : call_sees_own_b c tr = true <-> call_sees_own c tr.
Proof.
  unfold call_sees_own_b, call_sees_own. destruct (call_key c) as [[ty p]|].
  - apply sees_own_b_spec.
  - destruct tr; split; intro H; try reflexivity; discriminate.
Qed.

Lemma rule_param_to_rparam p : rule_param p = to_rparam p.
Proof. destruct p; reflexivity. Qed.

Section ProgProofs.
  Variable rules : Z -> option rule.
  Variable dflt : option rule.

  Notation enter := (enter rules dflt).
  Notation eval := (eval rules dflt).
  Notation tstep := (tstep rules dflt).
  Notation iter := (iter rules dflt).
  Notation start := (start rules dflt).
  Notation pstep := (pstep rules dflt).
  Notation prun := (prun rules dflt).

  Lemma enter_inr ty p rp pc :
    enter ty p = inr (rp, pc) ->
    to_rparam p = Some rp /\ exists r, pickr (rules ty) dflt = Some r /\ pc = r ty.
  Proof.
    unfold Model.enter.
    destruct p as [|d|d|n|k]; simpl; try discriminate;
      destruct (pickr (rules ty) dflt) as [r|]; try discriminate;
      intro E; inv E; split; try reflexivity; exists r; auto.
  Qed.

  (* ================= one step at a time ================= *)
  Lemma iter_add a : forall b t, iter (a + b) t = iter b (iter a t).
  Proof. induction a as [|a IH]; intros b t; simpl; [reflexivity | apply IH]. Qed.

  Lemma iter_done k n tr : iter k (TDone n tr) = TDone n tr.
  Proof. induction k as [|k IH]; simpl; [reflexivity | exact IH]. Qed.

  Lemma iter_S k t : iter (S k) t = iter k (tstep t).
  Proof. reflexivity. Qed.

  (* ---- the frame theorem: a goroutine's progress depends on its own steps only ---- *)
  Lemma pstep_nth i : forall pool j,
    nth_error (pstep i pool) j =
    if Nat.eqb i j then option_map tstep (nth_error pool j) else nth_error pool j.
  Proof.
    induction i as [|i IH]; intros [|t r] [|j]; simpl; try reflexivity.
    - destruct (Nat.eqb i j); reflexivity.
    - apply IH.
  Qed.

  Lemma prun_nth sched : forall pool j,
    nth_error (prun sched pool) j = option_map (iter (ncount j sched)) (nth_error pool j).
  Proof.
    unfold Model.prun. induction sched as [|x r IH]; intros pool j; simpl.
    - destruct (nth_error pool j); reflexivity.
    - rewrite IH, pstep_nth. destruct (Nat.eqb x j); simpl.
      + destruct (nth_error pool j); reflexivity.
      + reflexivity.
  Qed.

  Lemma prun_length sched : forall pool, length (prun sched pool) = length pool.
  Proof.
    assert (L : forall i pool, length (pstep i pool) = length pool).
    { induction i as [|i IH]; intros [|t r]; simpl; try reflexivity. rewrite IH. reflexivity. }
    unfold Model.prun. induction sched as [|x r IH]; intro pool; simpl; [reflexivity|].
    rewrite IH. apply L.
  Qed.

  (* ================= the step machine reaches what [eval] computes ================= *)
  Definition nest_steps (nest : Z -> Z -> param -> option (Z * list seen)) : Prop :=
    forall cty p stk tr n t ty0 rp0 c0,
      nest (Z.of_nat (length stk) + 1) cty p = Some (n, t) ->
      exists k, iter k (TRun ty0 rp0 (PCall cty p c0) stk tr)
                = TRun ty0 rp0 (c0 n) stk (tr ++ t ++ [VCall (Z.of_nat (length stk)) cty n]).

  Lemma pre_some {A} l (x : option (A * list seen)) a t :
    pre l x = Some (a, t) -> exists t', x = Some (a, t') /\ t = l ++ t'.
  Proof.
    unfold pre. destruct x as [[a' t']|]; [|discriminate]. intro E. inv E. eauto.
  Qed.

  Lemma evalp_steps nest : nest_steps nest ->
    forall pc ty rp stk tr r t,
      evalp nest (Z.of_nat (length stk)) pc ty rp = Some (r, t) ->
      exists k, iter k (TRun ty rp pc stk tr) = ret (name_of r) stk (tr ++ t).
  Proof.
    intros Hn pc. induction pc as [r0|key c IH|c IH|cty p c IH|c IH]; intros ty rp stk tr r t E;
      cbn [evalp] in E.
    - inv E. exists 1%nat. rewrite app_nil_r. reflexivity.
    - destruct rp as [|dd|dd].
      + inv E. exists 1%nat. rewrite app_nil_r. reflexivity.
      + apply pre_some in E. destruct E as [t' [E ->]].
        destruct (IH _ ty (RPSess dd) stk (tr ++ [VGet (Z.of_nat (length stk)) key (dget key dd)]) r t' E)
          as [k Hk].
        exists (S k). rewrite iter_S. cbn [Model.tstep]. rewrite Hk, <- app_assoc. reflexivity.
      + apply pre_some in E. destruct E as [t' [E ->]].
        destruct (IH _ ty (RPMap dd) stk (tr ++ [VGet (Z.of_nat (length stk)) key (dget key dd)]) r t' E)
          as [k Hk].
        exists (S k). rewrite iter_S. cbn [Model.tstep]. rewrite Hk, <- app_assoc. reflexivity.
    - apply pre_some in E. destruct E as [t' [E ->]].
      destruct (IH _ ty rp stk (tr ++ [VKind (Z.of_nat (length stk)) ty (kind_of rp)]) r t' E) as [k Hk].
      exists (S k). rewrite iter_S. cbn [Model.tstep]. rewrite Hk, <- app_assoc. reflexivity.
    - destruct (nest (Z.of_nat (length stk) + 1) cty p) as [[n tn]|] eqn:N; [|discriminate].
      apply pre_some in E. destruct E as [t' [E ->]].
      destruct (Hn cty p stk tr n tn ty rp c N) as [k1 H1].
      destruct (IH n ty rp stk (tr ++ tn ++ [VCall (Z.of_nat (length stk)) cty n]) r t' E) as [k2 H2].
      exists (k1 + k2)%nat. rewrite iter_add, H1, H2, <- !app_assoc. reflexivity.
    - destruct (IH ty rp stk tr r t E) as [k Hk]. exists (S k). rewrite iter_S. exact Hk.
  Qed.

  Lemma eval_nest_steps fuel : nest_steps (eval fuel).
  Proof.
    induction fuel as [|f IH]; intros cty p stk tr n t ty0 rp0 c0 E; cbn [Model.eval] in E.
    - destruct (enter cty p) as [n0|[rp2 pc2]] eqn:En; [|discriminate]. inv E.
      exists 1%nat. rewrite iter_S. cbn [Model.tstep]. rewrite En. reflexivity.
    - destruct (enter cty p) as [n0|[rp2 pc2]] eqn:En.
      + inv E. exists 1%nat. rewrite iter_S. cbn [Model.tstep]. rewrite En. reflexivity.
      + destruct (evalp (eval f) (Z.of_nat (length stk) + 1) pc2 cty rp2) as [[r t']|] eqn:Ev;
          [|discriminate]. inv E.
        assert (L : Z.of_nat (length stk) + 1 = Z.of_nat (length (W ty0 rp0 c0 cty :: stk))).
        { cbn [length]. lia. }
        rewrite L in Ev.
        destruct (evalp_steps (eval f) IH pc2 cty rp2 (W ty0 rp0 c0 cty :: stk) tr r t Ev) as [k Hk].
        exists (S k). rewrite iter_S. cbn [Model.tstep]. rewrite En, Hk. cbn [ret].
        rewrite <- app_assoc. reflexivity.
  Qed.

  (* C07_eval_adequate *)
  Lemma eval_adequate fuel ty p n t :
    eval fuel 0 ty p = Some (n, t) ->
    exists k, forall j, (k <= j)%nat -> iter j (start ty p) = TDone n t.
  Proof.
    intro E. unfold Model.start.
    assert (S0 : exists k, iter k (match enter ty p with
                                   | inl n0 => TDone n0 []
                                   | inr (rp, pc) => TRun ty rp pc [] []
                                   end) = TDone n t).
    { destruct fuel as [|f]; cbn [Model.eval] in E; destruct (enter ty p) as [n0|[rp pc]] eqn:En.
      - inv E. exists 0%nat. reflexivity.
      - discriminate.
      - inv E. exists 0%nat. reflexivity.
      - destruct (evalp (eval f) 0 pc ty rp) as [[r t']|] eqn:Ev; [|discriminate]. inv E.
        destruct (evalp_steps (eval f) (eval_nest_steps f) pc ty rp [] [] r t Ev) as [k Hk].
        exists k. exact Hk. }
    destruct S0 as [k Hk]. exists k. intros j Le.
    replace j with (k + (j - k))%nat by lia. rewrite iter_add, Hk. apply iter_done.
  Qed.

  (* C07_concurrent_calls_isolated *)
  Lemma concurrent_isolated fuel (cs : list (Z * param)) i ty p n t :
    nth_error cs i = Some (ty, p) ->
    eval fuel 0 ty p = Some (n, t) ->
    exists k, forall sched, (k <= ncount i sched)%nat ->
      nth_error (prun sched (map (fun c => start (fst c) (snd c)) cs)) i = Some (TDone n t).
  Proof.
    intros I E. destruct (eval_adequate fuel ty p n t E) as [k Hk]. exists k. intros sched Le.
    rewrite prun_nth, nth_error_map, I. simpl. rewrite (Hk _ Le). reflexivity.
  Qed.

  (* ================= what a rule sees ================= *)
  Definition nest_deep (nest : Z -> Z -> param -> option (Z * list seen)) : Prop :=
    forall d cty p n t, nest d cty p = Some (n, t) -> Forall (fun e => d <= sdepth e) t.

  Lemma evalp_deep nest : nest_deep nest ->
    forall pc d ty rp r t, evalp nest d pc ty rp = Some (r, t) -> Forall (fun e => d <= sdepth e) t.
  Proof.
    intros Hn pc. induction pc as [r0|key c IH|c IH|cty p c IH|c IH]; intros d ty rp r t E;
      cbn [evalp] in E.
    - inv E. constructor.
    - destruct rp as [|dd|dd]; [inv E; constructor| |];
        apply pre_some in E; destruct E as [t' [E ->]]; (constructor; [simpl; lia | eapply IH; exact E]).
    - apply pre_some in E. destruct E as [t' [E ->]]. constructor; [simpl; lia | eapply IH; exact E].
    - destruct (nest (d + 1) cty p) as [[n tn]|] eqn:N; [|discriminate].
      apply pre_some in E. destruct E as [t' [E ->]].
      rewrite <- app_assoc. apply Forall_app. split.
      + eapply Forall_impl; [|exact (Hn _ _ _ _ _ N)]. intros e H. cbv beta in *. lia.
      + constructor; [simpl; lia | eapply IH; exact E].
    - eapply IH. exact E.
  Qed.

  Lemma eval_deep fuel : nest_deep (eval fuel).
  Proof.
    induction fuel as [|f IH]; intros d cty p n t E; cbn [Model.eval] in E;
      destruct (enter cty p) as [n0|[rp pc]]; try discriminate; try (inv E; constructor).
    destruct (evalp (eval f) d pc cty rp) as [[r t']|] eqn:Ev; [|discriminate]. inv E.
    eapply evalp_deep; [exact IH | exact Ev].
  Qed.

  Lemma evalp_own nest ty p rp : nest_deep nest -> to_rparam p = Some rp ->
    forall pc r t, evalp nest 0 pc ty rp = Some (r, t) -> sees_own ty p t.
  Proof.
    intros Hn P pc. unfold sees_own.
    induction pc as [r0|key c IH|c IH|cty q c IH|c IH]; intros r t E; cbn [evalp] in E.
    - inv E. constructor.
    - destruct rp as [|dd|dd]; [inv E; constructor| |];
        apply pre_some in E; destruct E as [t' [E ->]]; (constructor; [|eapply IH; exact E]);
        intros _; exists dd; auto.
    - apply pre_some in E. destruct E as [t' [E ->]]. constructor; [|eapply IH; exact E].
      intros _. split; [reflexivity|]. exists rp. auto.
    - destruct (nest (0 + 1) cty q) as [[n tn]|] eqn:N; [|discriminate].
      apply pre_some in E. destruct E as [t' [E ->]].
      rewrite <- app_assoc. apply Forall_app. split.
      + eapply Forall_impl; [|exact (Hn _ _ _ _ _ N)]. intros e H D. cbv beta in H. lia.
      + constructor; [intros _; exact I | eapply IH; exact E].
    - eapply IH. exact E.
  Qed.

  (* C07_rule_sees_own_param *)
  Lemma eval_sees_own fuel ty p n t : eval fuel 0 ty p = Some (n, t) -> sees_own ty p t.
  Proof.
    intro E. destruct fuel as [|f]; cbn [Model.eval] in E;
      destruct (enter ty p) as [n0|[rp pc]] eqn:En; try discriminate; try (inv E; constructor).
    destruct (evalp (eval f) 0 pc ty rp) as [[r t']|] eqn:Ev; [|discriminate]. inv E.
    apply enter_inr in En. destruct En as [P _].
    eapply evalp_own; [apply eval_deep | exact P | exact Ev].
  Qed.

  Lemma call_trace_sees_own c t : call_trace rules dflt c = Some t -> call_sees_own c t.
  Proof.
    unfold call_trace, call_sees_own. destruct (call_key c) as [[ty p]|].
    - destruct (eval NEST_FUEL 0 ty p) as [[n t']|] eqn:E; simpl; [|discriminate].
      intro H. inv H. eapply eval_sees_own. exact E.
    - intro H. inv H. reflexivity.
  Qed.

  (* ================= a nested call is a call ================= *)
  Definition shift (d : Z) (e : seen) : seen :=
    match e with
    | VKind x t k => VKind (x + d) t k
    | VGet x k v => VGet (x + d) k v
    | VCall x t n => VCall (x + d) t n
    end.

  Definition shifted {A} (d : Z) (x : option (A * list seen)) : option (A * list seen) :=
    match x with Some (a, t) => Some (a, map (shift d) t) | None => None end.

  Definition nest_shift (nest : Z -> Z -> param -> option (Z * list seen)) : Prop :=
    forall d cty p, nest d cty p = shifted d (nest 0 cty p).

  Lemma shift_shift a b e : shift a (shift b e) = shift (b + a) e.
  Proof. destruct e; simpl; f_equal; lia. Qed.

  Lemma shifted_pre {A} d l (x : option (A * list seen)) :
    shifted d (pre l x) = pre (map (shift d) l) (shifted d x).
  Proof. destruct x as [[a t]|]; simpl; [rewrite map_app|]; reflexivity. Qed.

  Lemma evalp_shift nest : nest_shift nest ->
    forall pc d ty rp, evalp nest d pc ty rp = shifted d (evalp nest 0 pc ty rp).
  Proof.
    intros Hn pc. induction pc as [r0|key c IH|c IH|cty p c IH|c IH]; intros d ty rp; cbn [evalp].
    - reflexivity.
    - destruct rp as [|dd|dd]; [reflexivity| |]; rewrite shifted_pre, <- IH; reflexivity.
    - rewrite shifted_pre, <- IH. reflexivity.
    - rewrite (Hn (d + 1)), (Hn (0 + 1)).
      destruct (nest 0 cty p) as [[n tn]|]; simpl; [|reflexivity].
      rewrite shifted_pre, <- IH. f_equal.
      rewrite map_app, map_map. simpl. f_equal.
      apply map_ext. intro e. rewrite shift_shift. f_equal. lia.
    - apply IH.
  Qed.

  (* C07_nested_call_is_call *)
  Lemma eval_shift fuel : nest_shift (eval fuel).
  Proof.
    induction fuel as [|f IH]; intros d cty p; cbn [Model.eval];
      destruct (enter cty p) as [n0|[rp pc]]; try reflexivity.
    rewrite (evalp_shift (eval f) IH pc d).
    destruct (evalp (eval f) 0 pc cty rp) as [[r t]|]; reflexivity.
  Qed.

  (* ================= the answer is the answer of [route] ================= *)
  (* what the rule answers, as the function the rest of the model talks about *)
  Definition den (fuel : nat) (d : Z) (r : rule) : rfn :=
    fun ty rp => match evalp (eval fuel) d (r ty) ty rp with
                 | Some (x, _) => x
                 | None => RPanic
                 end.

  (* C07_nested_result *)
  Lemma eval_route fuel d ty p n t :
    eval (S fuel) d ty p = Some (n, t) ->
    n = route (fun t0 => option_map (den fuel d) (rules t0)) (option_map (den fuel d) dflt) p ty.
  Proof.
    cbn [Model.eval]. unfold Model.enter, route, do_route, pick, pickr, den.
    destruct p as [|dd|dd|n0|k]; simpl;
      try (intro E; inv E; reflexivity);
      destruct (rules ty) as [r|]; simpl; try destruct dflt as [r|]; simpl;
      try (intro E; inv E; reflexivity);
      match goal with |- context [evalp ?nest d (r ty) ty ?rp] =>
        destruct (evalp nest d (r ty) ty rp) as [[x t']|] end;
      intro E; inv E; destruct x; reflexivity.
  Qed.
End ProgProofs.

(* ================= the registered rules matter pointwise only ================= *)
Lemma enter_ext rules rules' dflt ty p :
  (forall t, rules t = rules' t) -> enter rules dflt ty p = enter rules' dflt ty p.
Proof. intro E. unfold enter. rewrite E. reflexivity. Qed.

Lemma evalp_nest_ext nest nest' :
  (forall d ty p, nest d ty p = nest' d ty p) ->
  forall pc d ty rp, evalp nest d pc ty rp = evalp nest' d pc ty rp.
Proof.
  intros E pc. induction pc as [r0|key c IH|c IH|cty p c IH|c IH]; intros d ty rp; cbn [evalp].
  - reflexivity.
  - destruct rp; [reflexivity| |]; rewrite IH; reflexivity.
  - rewrite IH. reflexivity.
  - rewrite E. destruct (nest' (d + 1) cty p) as [[n t]|]; [|reflexivity]. rewrite IH. reflexivity.
  - apply IH.
Qed.

Lemma eval_ext rules rules' dflt :
  (forall t, rules t = rules' t) ->
  forall fuel d ty p, eval rules dflt fuel d ty p = eval rules' dflt fuel d ty p.
Proof.
  intros E fuel. induction fuel as [|f IH]; intros d ty p; cbn [eval];
    rewrite (enter_ext rules rules' dflt ty p E); [reflexivity|].
  destruct (enter rules' dflt ty p) as [n|[rp pc]]; [reflexivity|].
  rewrite (evalp_nest_ext _ _ IH). reflexivity.
Qed.

Lemma call_trace_ext rules rules' dflt c :
  (forall t, rules t = rules' t) -> call_trace rules dflt c = call_trace rules' dflt c.
Proof.
  intro E. unfold call_trace. destruct (call_key c) as [[ty p]|]; [|reflexivity].
  rewrite (eval_ext rules rules' dflt E). reflexivity.
Qed.

(* ================= scripted functions: program and answer agree ================= *)
Lemma pre_prog_result nest d pre0 k ty rp r t :
  evalp nest d (pre_prog pre0 k) ty rp = Some (r, t) ->
  (rp = RPNil /\ existsb is_get pre0 = true /\ r = RPanic)
  \/ ((rp = RPNil -> existsb is_get pre0 = false)
      /\ exists t', evalp nest d k ty rp = Some (r, t')).
Proof.
  revert t. induction pre0 as [|a pr IH]; intros t E; cbn [pre_prog] in E.
  - right. split; [reflexivity | eauto].
  - destruct a as [|cty p|key]; cbn [evalp] in E.
    + apply IH in E. exact E.
    + destruct (nest (d + 1) cty p) as [[n tn]|]; [|discriminate].
      apply pre_some in E. destruct E as [t' [E _]]. apply IH in E. exact E.
    + destruct rp as [|dd|dd].
      * inv E. left. auto.
      * apply pre_some in E. destruct E as [t' [E _]]. apply IH in E.
        destruct E as [[C _]|[_ E]]; [discriminate|]. right. split; [discriminate | exact E].
      * apply pre_some in E. destruct E as [t' [E _]]. apply IH in E.
        destruct E as [[C _]|[_ E]]; [discriminate|]. right. split; [discriminate | exact E].
Qed.

Lemma body_coherent nest s : forall d ty rp r t,
  evalp nest d (body s ty) ty rp = Some (r, t) -> r = interp_script s ty rp.
Proof.
  induction s as [r0|k tbl miss nokey|a b c|tbl miss|pr s' IH]; intros d ty rp r t E;
    cbn [body] in E.
  - cbn [evalp] in E. inv E. reflexivity.
  - cbn [evalp] in E. destruct rp as [|dd|dd]; [inv E; reflexivity| |];
      apply pre_some in E; destruct E as [t' [E _]]; simpl;
      destruct (dget k dd) as [x|]; cbn [evalp] in E; inv E; reflexivity.
  - cbn [evalp] in E. apply pre_some in E. destruct E as [t' [E _]].
    destruct rp; cbn [evalp kind_of] in E; inv E; reflexivity.
  - cbn [evalp] in E. inv E. reflexivity.
  - apply pre_prog_result in E. destruct E as [[-> [G ->]]|[G [t' E]]].
    + simpl. rewrite G. reflexivity.
    + apply IH in E. subst r. destruct rp; simpl; try reflexivity. rewrite (G eq_refl). reflexivity.
Qed.

(* C07_script_coherent *)
Lemma script_coherent nest s d ty rp r t :
  evalp nest d (prog_of_script s ty) ty rp = Some (r, t) -> r = interp_script s ty rp.
Proof.
  unfold prog_of_script. cbn [evalp]. intro E. apply pre_some in E. destruct E as [t' [E _]].
  eapply body_coherent. exact E.
Qed.
