(* C07 - correspondence entry point.  The harness scripts route functions as [script] data
   (the Go side builds real route.RouteFunc closures from the same data), so cases are
   histories over [op script].

   agree    the implementation's observation of every operation is one of the behaviours the
            proven model allows (a target pid is compared by MEMBERSHIP in the model's
            candidate set: for a name carried by services of several types the Go directory
            keeps whichever type its map iteration visits first)
            for an OCalls (calls in flight together, run under the schedule the op carries)
            additionally: what every rule invocation of every call was handed, read and got
            back from its nested calls is EXACTLY what the model computes for that call alone
   monitor  the property itself (Spec.op_ok_b: history functions + property vocabulary),
            evaluated on the implementation's own trace *)
From Cell2V Require Import Common.Tac Common.ListX Common.AList C07.Model C07.Spec.

Definition sop := op script.
Definition case := (list sop * list obs)%type.

Definition run_s (ops : list sop) : list mout := run interp_script prog_of_script ops.

Definition agree (c : case) : bool := admits_all (run_s (fst c)) (snd c).

Definition monitor (c : case) : bool := monitor_from interp_script prog_of_script [] (fst c) (snd c).

Definition disagreeing (cs : list case) : list Z := failing agree cs.
Definition monitor_failing (cs : list case) : list Z := failing monitor cs.
