(* C07 - property theorems only.  Each is closed by [exact] of a lemma from Proofs.v and
   followed by Print Assumptions.  In every statement [reg] (type -> registered route
   function, if any) and [dflt] (the default function, if any) are ARBITRARY functions and
   [v] an arbitrary cluster view; [admissible o evs] says that [evs] is the complete ordered
   list of sends and callback invocations of the call. *)
From Cell2V Require Import Common.Tac Common.ListX Common.AList C07.Model C07.Spec C07.Proofs C07.Corr.

(* ---- how the rule is evaluated (RouteService.Route / doRoute) ---- *)

(* a registered function decides alone; when it panics the result is the empty name - there is
   no fall-back to the default *)
Theorem C07_registered_wins : forall reg dflt ty p rp f,
  reg ty = Some f -> rule_param p = Some rp ->
  route reg dflt p ty = match f ty rp with RName n => n | RPanic => empty end.
Proof. exact route_registered. Qed.
Print Assumptions C07_registered_wins.

Theorem C07_unregistered_uses_default : forall reg f ty p rp,
  reg ty = None -> rule_param p = Some rp ->
  route reg (Some f) p ty = match f ty rp with RName n => n | RPanic => empty end.
Proof. exact route_unregistered. Qed.
Print Assumptions C07_unregistered_uses_default.

Theorem C07_explicit_name : forall reg dflt ty n, route reg dflt (PStr n) ty = n.
Proof. exact route_explicit. Qed.
Print Assumptions C07_explicit_name.

(* ---- C07_target: exactly one send, to the pid the view maps the returned name to ---- *)
Theorem C07_target : forall reg dflt v req t g m p n q,
  t <> empty -> route reg dflt p t = n -> reserved n = false -> maps_to v n q ->
  forall evs, admissible (call reg dflt v req [t; g; m] p) evs <-> evs = [ESend q req g m].
Proof. exact call_target. Qed.
Print Assumptions C07_target.

(* the same without assuming that the name is carried by one entry only: still exactly one
   send, to an entry carrying the returned name *)
Theorem C07_target_some : forall reg dflt v req t g m p n,
  t <> empty -> route reg dflt p t = n -> reserved n = false -> named v n <> [] ->
  forall evs, admissible (call reg dflt v req [t; g; m] p) evs ->
  exists q, In q (pids_named v n) /\ evs = [ESend q req g m].
Proof. exact call_target_some. Qed.
Print Assumptions C07_target_some.

(* ---- C07_default: no function registered => an instance of that type on a working node ---- *)
Theorem C07_default : forall reg v req t g m p rp n0 nd,
  reg t = None -> rule_param p = Some rp ->
  In nd v -> nstate nd = Working -> In [t; n0] (nsvcs nd) -> t <> empty -> n0 <> empty ->
  exists n q,
    working_instance v t n q
    /\ route reg (Some (app_default v)) p t = n
    /\ (unique_name v n -> reserved n = false ->
        forall evs, admissible (call reg (Some (app_default v)) v req [t; g; m] p) evs
                    <-> evs = [ESend q req g m]).
Proof. exact call_default_exists. Qed.
Print Assumptions C07_default.

(* the target is the FIRST working instance in member order *)
Theorem C07_default_first : forall reg v req t g m p rp it rest,
  reg t = None -> rule_param p = Some rp -> work_list v t = it :: rest ->
  working_instance v t (it_name it) (item_pid v it)
  /\ route reg (Some (app_default v)) p t = it_name it
  /\ (unique_name v (it_name it) -> reserved (it_name it) = false ->
      forall evs, admissible (call reg (Some (app_default v)) v req [t; g; m] p) evs
                  <-> evs = [ESend (item_pid v it) req g m]).
Proof. exact call_default. Qed.
Print Assumptions C07_default_first.

(* the guard [unique_name] is needed: with a name carried by two nodes the directory (keyed
   by name) can answer with the entry of the node that is not working *)
Theorem C07_default_needs_unique_names :
  (forall evs, admissible (call (fun _ => None) (Some (app_default dup_view)) dup_view true
                                [1; 5; 6] PNil) evs <-> evs = [ESend (1, 1) true 5 6])
  /\ (exists q, working_instance dup_view 1 (default_route dup_view 1) q)
  /\ ~ working_instance dup_view 1 (default_route dup_view 1) (1, 1)
  /\ ~ unique_name dup_view (default_route dup_view 1).
Proof. exact default_dup_witness. Qed.
Print Assumptions C07_default_needs_unique_names.

(* ---- C07_no_service: every listed cause => no send; a request's callback gets NoService
        exactly once, a notification produces nothing ---- *)
Theorem C07_no_service : forall reg dflt v req r p,
  cause reg dflt v r p ->
  forall evs, admissible (call reg dflt v req r p) evs <-> evs = none_evs req.
Proof. exact call_no_service. Qed.
Print Assumptions C07_no_service.

(* ---- never delivered elsewhere, never silently dropped ---- *)
Theorem C07_never_elsewhere : forall reg dflt v req r p evs,
  admissible (call reg dflt v req r p) evs ->
  evs = none_evs req \/
  exists t g m q, r = [t; g; m] /\ t <> empty /\ reserved (route reg dflt p t) = false
                  /\ In q (pids_named v (route reg dflt p t)) /\ evs = [ESend q req g m].
Proof. exact call_never_elsewhere. Qed.
Print Assumptions C07_never_elsewhere.

Theorem C07_request_not_dropped : forall reg dflt v r p evs,
  admissible (call reg dflt v true r p) evs -> length evs = 1%nat.
Proof. exact request_not_dropped. Qed.
Print Assumptions C07_request_not_dropped.

Theorem C07_notify_no_callback : forall reg dflt v r p evs c,
  admissible (call reg dflt v false r p) evs -> ~ In (ECb c) evs.
Proof. exact notify_no_callback. Qed.
Print Assumptions C07_notify_no_callback.

(* the route layer's "no target" words are never used as a target, whatever the view lists
   under them (F10b, repaired) *)
Theorem C07_reserved_never_target : forall reg dflt v req r p evs a n b g m,
  reserved n = true -> admissible (call reg dflt v req r p) evs -> ~ In (ESend (a, n) b g m) evs.
Proof. exact reserved_never_target. Qed.
Print Assumptions C07_reserved_never_target.

(* ---- QuerySession / Kick (F10, repaired) ---- *)
Theorem C07_front_unknown : forall v f m evs,
  named v f = [] -> (admissible (front_call v f m) evs <-> evs = [ECb NoServiceErr]).
Proof. exact front_unknown. Qed.
Print Assumptions C07_front_unknown.

Theorem C07_front_target : forall v f m q evs,
  maps_to v f q -> (admissible (front_call v f m) evs <-> evs = [ESend q true SYS m]).
Proof. exact front_target. Qed.
Print Assumptions C07_front_target.

Theorem C07_front_exactly_one : forall v f m evs,
  admissible (front_call v f m) evs ->
  evs = [ECb NoServiceErr] \/ exists q, In q (pids_named v f) /\ evs = [ESend q true SYS m].
Proof. exact front_exactly_one. Qed.
Print Assumptions C07_front_exactly_one.

(* ---- the directory ---- *)
Theorem C07_directory_named : forall v n p,
  In p (dir_cands v n) -> exists it, In it (items v) /\ it_name it = n /\ p = item_pid v it.
Proof. exact dir_cands_named. Qed.
Print Assumptions C07_directory_named.

Theorem C07_directory_unknown : forall v n, dir_cands v n = [] <-> named v n = [].
Proof. exact dir_cands_nil_iff. Qed.
Print Assumptions C07_directory_unknown.

Theorem C07_directory_unique : forall v it,
  In it (items v) -> unique_name v (it_name it) -> maps_to v (it_name it) (item_pid v it).
Proof. exact unique_maps_to. Qed.
Print Assumptions C07_directory_unique.

Theorem C07_pid_address : forall v nd,
  NoDup (map nid v) -> In nd v -> node_addr v (nid nd) = naddr nd.
Proof. exact node_addr_unique. Qed.
Print Assumptions C07_pid_address.

(* ---- C07_view_updates: after ANY history the decision is a function of the functions
        registered at that point, the default installed last and the LAST view only ---- *)
Theorem C07_view_updates : forall (F : Type) (interp : F -> rfn) (pinterp : F -> rule F)
    (h : list (op F)) (o : op F),
  obs_at interp pinterp h o
  = out interp pinterp (fns_at interp pinterp h) (dflt_at h) (last_view h) o.
Proof. exact obs_at_history. Qed.
Print Assumptions C07_view_updates.

Theorem C07_last_view_update : forall (F : Type) (h : list (op F)) v,
  last_view (h ++ [OUpdate v]) = v.
Proof. exact last_view_update. Qed.
Print Assumptions C07_last_view_update.

Theorem C07_last_view_frame : forall (F : Type) (h : list (op F)) o,
  (forall v, o <> OUpdate v) -> last_view (h ++ [o]) = last_view h.
Proof. exact last_view_frame. Qed.
Print Assumptions C07_last_view_frame.

(* the functions registered: Register(ty, f) replaces the entry of ty and nothing else ... *)
Theorem C07_registered_after_register : forall (F : Type) (interp : F -> rfn) (pinterp : F -> rule F)
    (h : list (op F)) ty f,
  fns_at interp pinterp (h ++ [OReg ty f]) = treg ty f (fns_at interp pinterp h).
Proof. exact fns_at_reg. Qed.
Print Assumptions C07_registered_after_register.

(* ... and any other operation changes them exactly as the rules that ran for it registered *)
Theorem C07_registered_after : forall (F : Type) (interp : F -> rfn) (pinterp : F -> rule F)
    (h : list (op F)) o,
  fns_at interp pinterp (h ++ [o])
  = fns_after pinterp (fns_at interp pinterp h) (dflt_at h) (last_view h) o.
Proof. exact fns_at_snoc. Qed.
Print Assumptions C07_registered_after.

(* routing decisions change neither the view nor the default nor the node's own address *)
Theorem C07_decision_frame : forall (F : Type) (pinterp : F -> rule F) (s : st F) (o : op F),
  is_decision o = true ->
  s_view (next pinterp s o) = s_view s /\ s_dflt (next pinterp s o) = s_dflt s
  /\ s_self (next pinterp s o) = s_self s.
Proof. exact decision_frame. Qed.
Print Assumptions C07_decision_frame.

(* and when no rule (registered or default) ever calls Register, not the registered functions *)
Theorem C07_decision_frame_table : forall (F : Type) (pinterp : F -> rule F) (s : st F) (o : op F),
  is_decision o = true -> (forall cs sc, o <> OCalls cs sc) ->
  rules_regfree F pinterp (pdflt_in pinterp (s_dflt s) (s_view s)) (s_fns s) ->
  s_fns (next pinterp s o) = s_fns s.
Proof. exact decision_frame_table. Qed.
Print Assumptions C07_decision_frame_table.

(* which node asks does not matter: the node's own address, id, services (Cluster.InitSelf) are read by no
   decision - in particular the default rule's "instance on a node in working state"
   (C07_default) holds whether or not the asking node hosts an instance, is listed, is working *)
Theorem C07_self_irrelevant : forall (F : Type) (interp : F -> rfn) (pinterp : F -> rule F)
    (h : list (op F)) a i sv o,
  obs_at interp pinterp (h ++ [OSelf a i sv]) o = obs_at interp pinterp h o.
Proof. exact self_irrelevant. Qed.
Print Assumptions C07_self_irrelevant.

(* [obs_at] is what [run] emits at that position, for every history *)
Theorem C07_run_snoc : forall (F : Type) (interp : F -> rfn) (pinterp : F -> rule F)
    (h : list (op F)) (o : op F),
  run interp pinterp (h ++ [o]) = run interp pinterp h ++ [obs_at interp pinterp h o].
Proof. exact run_snoc. Qed.
Print Assumptions C07_run_snoc.

(* ---- calls that overlap, calls that nest, rules that change while calls are in flight ----
   [pinterp] / [dflt] are ARBITRARY programs (Model.prog: reads of the parameter, type
   switches, nested Route calls, Register calls, scheduling points, arbitrary continuations);
   a schedule (list xentry) says which goroutine makes its next step and where a goroutine that
   is not routing calls Register. *)

(* the frame theorem: a step of goroutine j changes goroutine j (and the registered rules),
   no other goroutine; what j becomes is a function of the registered rules and ITS OWN state.
   [tstep] is total: a call is never made to wait for another call or for a Register *)
Theorem C07_interleaving_frame : forall F pinterp dflt st e i,
  nth_error (snd (pexec F pinterp dflt st e)) i =
  match e with
  | XRun j => if Nat.eqb j i
              then option_map (fun t => snd (tstep F pinterp dflt (fst st) t)) (nth_error (snd st) i)
              else nth_error (snd st) i
  | XReg _ _ => nth_error (snd st) i
  end.
Proof. exact pexec_nth. Qed.
Print Assumptions C07_interleaving_frame.

(* the registered rules are written by Register only *)
Theorem C07_table_written_by_register_only : forall F pinterp dflt tab t,
  fst (tstep F pinterp dflt tab t) =
  match t with TRun _ _ (PReg ty f _) _ _ => treg ty f tab | _ => tab end.
Proof. exact tstep_tab. Qed.
Print Assumptions C07_table_written_by_register_only.

(* when nobody registers, under ANY schedule of ANY pool a goroutine is exactly where its own
   steps alone take it *)
Theorem C07_interleaving_frame_stable : forall F pinterp dflt tab,
  rules_regfree F pinterp dflt tab ->
  forall sched pool, forallb is_run sched = true -> Forall (thread_regfree F) pool ->
  fst (prun F pinterp dflt sched (tab, pool)) = tab
  /\ forall i, nth_error (snd (prun F pinterp dflt sched (tab, pool))) i
               = option_map (fun t => snd (iter F pinterp dflt (ncount i sched) (tab, t)))
                            (nth_error pool i).
Proof. exact prun_regfree. Qed.
Print Assumptions C07_interleaving_frame_stable.

(* the step machine reaches what [eval] (a call made alone) computes *)
Theorem C07_eval_adequate : forall F pinterp dflt fuel tab ty p n t tab1,
  eval F pinterp dflt fuel tab 0 ty p = Some (n, t, tab1) ->
  exists k, forall j, (k <= j)%nat ->
    iter F pinterp dflt j (tab, TInit (Some (ty, p))) = (tab1, TDone n t).
Proof. exact eval_adequate. Qed.
Print Assumptions C07_eval_adequate.

(* the rule consulted for a call is handed the CALLER'S parameter: its kind, and for every key
   it reads the value the caller's parameter binds it to - for a call made alone ... *)
Theorem C07_rule_sees_own_param : forall F pinterp dflt fuel tab ty p n t tab1,
  eval F pinterp dflt fuel tab 0 ty p = Some (n, t, tab1) -> sees_own ty p t.
Proof. exact eval_sees_own. Qed.
Print Assumptions C07_rule_sees_own_param.

(* ... and for every goroutine of ANY pool under ANY schedule, whatever the others do and
   whoever registers whatever meanwhile ([tinv k t]: the rule at the bottom of goroutine t's
   stack holds the parameter of call k, and everything seen so far is consistent with it) *)
Theorem C07_rule_sees_own_param_any_schedule : forall F pinterp dflt ks sched tab,
  Forall2 (tinv F) ks (snd (prun F pinterp dflt sched (tab, map TInit ks))).
Proof. intros. apply prun_inv. apply init_inv. Qed.
Print Assumptions C07_rule_sees_own_param_any_schedule.

Theorem C07_returned_call_saw_own_param : forall F k n tr,
  tinv F k (TDone n tr) -> match k with Some (ty, p) => sees_own ty p tr | None => tr = [] end.
Proof. exact tinv_done. Qed.
Print Assumptions C07_returned_call_saw_own_param.

(* the scheduler of the harness is made of such steps: every turn is a number of steps of one
   goroutine, and what it leaves satisfies the same invariant *)
Theorem C07_scheduler_turn_is_steps : forall F pinterp dflt fuel tab t tab' t',
  macro F pinterp dflt fuel tab t = Some (tab', t') ->
  exists k, iter F pinterp dflt k (tab, t) = (tab', t').
Proof. exact macro_iter. Qed.
Print Assumptions C07_scheduler_turn_is_steps.

Theorem C07_scheduler_run_sees_own_param : forall F pinterp dflt tab ks sched tab' pool ent,
  sim F pinterp dflt tab ks sched = Some (tab', pool, ent) -> Forall2 (tinv F) ks pool.
Proof. exact sim_inv. Qed.
Print Assumptions C07_scheduler_run_sees_own_param.

(* a call made by a rule (at any depth) is a call: same name, same view of ITS parameter, same
   registrations as the same call made by a service *)
Theorem C07_nested_call_is_call : forall F pinterp dflt fuel tab d ty p,
  eval F pinterp dflt fuel tab d ty p = shifted F d (eval F pinterp dflt fuel tab 0 ty p).
Proof. exact eval_shift. Qed.
Print Assumptions C07_nested_call_is_call.

(* and the rule that made it goes on with ITS OWN parameter: the nested call contributes its
   name, its trace and its registrations, nothing else *)
Theorem C07_nested_call_frame : forall F nest (tab : alist F) d cty p c ty rp,
  evalp nest tab d (PCall cty p c) ty rp =
  match nest tab (d + 1) cty p with
  | None => None
  | Some (n, t, tab1) => pre (t ++ [VCall d cty n]) (evalp nest tab1 d (c n) ty rp)
  end.
Proof. reflexivity. Qed.
Print Assumptions C07_nested_call_frame.

(* the name is the one [route] (all theorems above) talks about, with each rule read as the
   function "type, parameter -> what the program answers" *)
Theorem C07_nested_result : forall F pinterp dflt fuel tab d ty p n t tab1,
  eval F pinterp dflt (S fuel) tab d ty p = Some (n, t, tab1) ->
  n = route (fun t0 => option_map (den F pinterp dflt fuel tab d) (option_map pinterp (aget t0 tab)))
            (option_map (den F pinterp dflt fuel tab d) dflt) p ty.
Proof. exact eval_route. Qed.
Print Assumptions C07_nested_result.

(* the scripted functions of the harness: program and answer agree *)
Theorem C07_script_coherent : forall nest s tab d ty rp r t tab1,
  evalp nest tab d (prog_of_script s ty) ty rp = Some (r, t, tab1) -> r = interp_script s ty rp.
Proof. exact script_coherent. Qed.
Print Assumptions C07_script_coherent.

(* ---- model vs. property vocabulary ---- *)
(* the model's call refines the property-level specification *)
Theorem C07_call_refines_spec : forall reg dflt v req r p evs,
  admissible (call reg dflt v req r p) evs -> call_ok reg dflt v req r p evs.
Proof. exact call_sound. Qed.
Print Assumptions C07_call_refines_spec.

(* every trace the model admits passes the monitor (so a monitor failure on an implementation
   trace is a violation of the property, not of the model) *)
Theorem C07_monitor_sound : forall (F : Type) (interp : F -> rfn) (pinterp : F -> rule F)
    (ops : list (op F)) bs,
  admits_all (run interp pinterp ops) bs = true -> monitor_from interp pinterp [] ops bs = true.
Proof. exact monitor_all. Qed.
Print Assumptions C07_monitor_sound.

(* ---- non-vacuity ---- *)
Definition ex_view : view :=
  [Node 1 0 Working [[1; 1]; [1; 2]; [2; 3]]; Node 2 2 3 [[1; 4]]; Node 3 3 Working [[2; 5]; [3; NoService]]].

Example C07_example_run :
  run_s [OUpdate ex_view;
         ORequest [1; 5; 6] PNil;                            (* default: first working chat *)
         OReg 1 (Some (SKey 1 [(1, RName 2); (2, RName 4); (3, RPanic)] (RName 0) (RName 9)));
         ORequest [1; 5; 6] (PMap [(1, 1)]);                 (* rule names s2 *)
         ORequest [1; 5; 6] (PSess [(1, 2)]);                (* rule names s4 (node not working: the rule decides) *)
         ORequest [1; 5; 6] (PMap [(1, 3)]);                 (* function panics *)
         ORequest [1; 5; 6] PNil;                            (* nil interface call panics *)
         ONotify [1; 5; 6] (PMap [(2, 2)]);                  (* unknown name s9 *)
         ORequest [7; 5; 6] PNil;                            (* unknown type *)
         ORequest [3; 5; 6] PNil;                            (* instance named "no_service" *)
         ORequest [1; 5] (PStr 1);                           (* malformed route *)
         ORequest [7; 5; 6] (PStr 5);                        (* explicit name *)
         ORequest [1; 5; 6] (POther 0);
         OUpdate [];
         ORequest [1; 5; 6] (PMap [(1, 1)]);
         OQuery 1]
  = [MUnit;
     MOut (OSend [(0, 1); (0, 1); (0, 1)] true 5 6);
     MUnit;
     MOut (OSend [(0, 2); (0, 2); (0, 2)] true 5 6);
     MOut (OSend [(2, 4); (2, 4); (2, 4)] true 5 6);
     MOut (OCb NoServiceErr);
     MOut (OCb NoServiceErr);
     MOut ONothing;
     MOut (OCb NoServiceErr);
     MOut (OCb NoServiceErr);
     MOut (OCb NoServiceErr);
     MOut (OSend [(3, 5); (3, 5)] true 5 6);
     MOut (OCb NoServiceErr);
     MUnit;
     MOut (OCb NoServiceErr);
     MOut (OCb NoServiceErr)].
Proof. vm_compute. reflexivity. Qed.

(* hypotheses of C07_target / C07_default are met in ex_view *)
Example C07_example_maps_to : maps_to ex_view 2 (0, 2) /\ unique_name ex_view 1 /\ reserved 1 = false.
Proof.
  split; [|split; [|reflexivity]].
  - split; [vm_compute; discriminate|]. vm_compute. intuition.
  - apply unique_b_spec. vm_compute. reflexivity.
Qed.

Example C07_example_cause :
  cause (fun _ => None) (Some (app_default ex_view)) ex_view [7; 5; 6] PNil.
Proof. eapply CUnknownType; reflexivity. Qed.

(* two goroutines, both rules stop at a scheduling point BEFORE reading their key; a rule that
   routes with a key map of its own before it reads its key; a rule that registers a rule for
   another type; another goroutine replacing a rule while calls are in flight *)
Definition ex_keyed : script := SKey 1 [(1, RName 1); (2, RName 2)] (RName 0) (RName 0).

Definition ex_par : list sop :=
  [OUpdate ex_view;
   OSelf 2 2 [[1; 4]];
   OReg 1 (Some (SPre [AYield] ex_keyed));
   OReg 2 (Some (SPre [ACall 1 (PMap [(1, 2)]); AReg 3 (Some (SConst (RName 5))); AYield]
                      (SKey 1 [(1, RName 3); (2, RName 5)] (RName 0) (RName 0))));
   OCalls [CRequest [1; 5; 6] (PMap [(1, 1)]); CRequest [1; 5; 6] (PMap [(1, 2)]);
           CRoute 2 (PSess [(1, 1)]); CNotify [3; 5; 6] PNil]
          [SRun 0; SRun 1; SReg 1 (Some (SConst (RName 4))); SRun 2; SRun 3; SRun 1; SRun 0];
   ORoute 3 PNil;
   ORoute 1 PNil].

Example C07_example_calls :
  run_s ex_par
  = [MUnit; MUnit; MUnit; MUnit;
     MCalls [(MOut (OSend [(0, 1); (0, 1); (0, 1)] true 5 6),
              Some [VKind 0 1 KMap; VGet 0 1 (Some 1)]);
             (MOut (OSend [(0, 2); (0, 2); (0, 2)] true 5 6),
              Some [VKind 0 1 KMap; VGet 0 1 (Some 2)]);
             (MName 3,
              Some [VKind 0 2 KSess; VKind 1 1 KMap; VCall 0 1 4; VGet 0 1 (Some 1)]);
             (MOut (OSend [(3, 5); (3, 5)] false 5 6),
              Some [VKind 0 3 KNil])];
     MName 5;
     MName 4].
Proof. vm_compute. reflexivity. Qed.

(* the step machine under a schedule that stops both goroutines between wrapper creation and
   the read, with a Register in between: both end with their own key *)
Example C07_example_interleaving :
  let tab := fns_at interp_script prog_of_script (firstn 4 ex_par) in
  let dflt := pdflt_in prog_of_script DApp ex_view in
  prun script prog_of_script dflt
       [XRun 0; XRun 1; XRun 0; XRun 1; XReg 1 None; XRun 1; XRun 0; XRun 0; XRun 1; XRun 0; XRun 1;
        XRun 0; XRun 1]%nat
       (tab, [TInit (Some (1, PMap [(1, 1)])); TInit (Some (1, PMap [(1, 2)]))])
  = (adel 1 tab,
     [TDone 1 [VKind 0 1 KMap; VGet 0 1 (Some 1)]; TDone 2 [VKind 0 1 KMap; VGet 0 1 (Some 2)]]).
Proof. vm_compute. reflexivity. Qed.
