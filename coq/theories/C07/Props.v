(* C07 - property theorems only.  Each is closed by [exact] of a lemma from Proofs.v and
   followed by Print Assumptions.  In every statement [reg] (type -> registered route
   function, if any) and [dflt] (the default function, if any) are ARBITRARY functions and
   [v] an arbitrary cluster view; [admissible o evs] says that [evs] is the complete ordered
   list of sends and callback invocations of the call. *)
From Cell2V Require Import Common.Tac Common.ListX Common.AList C07.Model C07.Spec C07.Proofs C07.Corr.

(* ---- how the rule is evaluated (RouteService.Route / doRoute) ---- *)

(* a registered function decides alone; when it panics the result is the empty name - there is
   no fall-back to the default *)
Theorem C07_registered_wins : forall reg dflt ty p rp f,
  reg ty = Some f -> rule_param p = Some rp ->
  route reg dflt p ty = match f ty rp with RName n => n | RPanic => empty end.
Proof. exact route_registered. Qed.
Print Assumptions C07_registered_wins.

Theorem C07_unregistered_uses_default : forall reg f ty p rp,
  reg ty = None -> rule_param p = Some rp ->
  route reg (Some f) p ty = match f ty rp with RName n => n | RPanic => empty end.
Proof. exact route_unregistered. Qed.
Print Assumptions C07_unregistered_uses_default.

Theorem C07_explicit_name : forall reg dflt ty n, route reg dflt (PStr n) ty = n.
Proof. exact route_explicit. Qed.
Print Assumptions C07_explicit_name.

(* ---- C07_target: exactly one send, to the pid the view maps the returned name to ---- *)
Theorem C07_target : forall reg dflt v req t g m p n q,
  t <> empty -> route reg dflt p t = n -> reserved n = false -> maps_to v n q ->
  forall evs, admissible (call reg dflt v req [t; g; m] p) evs <-> evs = [ESend q req g m].
Proof. exact call_target. Qed.
Print Assumptions C07_target.

(* the same without assuming that the name is carried by one entry only: still exactly one
   send, to an entry carrying the returned name *)
Theorem C07_target_some : forall reg dflt v req t g m p n,
  t <> empty -> route reg dflt p t = n -> reserved n = false -> named v n <> [] ->
  forall evs, admissible (call reg dflt v req [t; g; m] p) evs ->
  exists q, In q (pids_named v n) /\ evs = [ESend q req g m].
Proof. exact call_target_some. Qed.
Print Assumptions C07_target_some.

(* ---- C07_default: no function registered => an instance of that type on a working node ---- *)
Theorem C07_default : forall reg v req t g m p rp n0 nd,
  reg t = None -> rule_param p = Some rp ->
  In nd v -> nstate nd = Working -> In [t; n0] (nsvcs nd) -> t <> empty -> n0 <> empty ->
  exists n q,
    working_instance v t n q
    /\ route reg (Some (app_default v)) p t = n
    /\ (unique_name v n -> reserved n = false ->
        forall evs, admissible (call reg (Some (app_default v)) v req [t; g; m] p) evs
                    <-> evs = [ESend q req g m]).
Proof. exact call_default_exists. Qed.
Print Assumptions C07_default.

(* the target is the FIRST working instance in member order *)
Theorem C07_default_first : forall reg v req t g m p rp it rest,
  reg t = None -> rule_param p = Some rp -> work_list v t = it :: rest ->
  working_instance v t (it_name it) (item_pid v it)
  /\ route reg (Some (app_default v)) p t = it_name it
  /\ (unique_name v (it_name it) -> reserved (it_name it) = false ->
      forall evs, admissible (call reg (Some (app_default v)) v req [t; g; m] p) evs
                  <-> evs = [ESend (item_pid v it) req g m]).
Proof. exact call_default. Qed.
Print Assumptions C07_default_first.

(* the guard [unique_name] is needed: with a name carried by two nodes the directory (keyed
   by name) can answer with the entry of the node that is not working *)
Theorem C07_default_needs_unique_names :
  (forall evs, admissible (call (fun _ => None) (Some (app_default dup_view)) dup_view true
                                [1; 5; 6] PNil) evs <-> evs = [ESend (1, 1) true 5 6])
  /\ (exists q, working_instance dup_view 1 (default_route dup_view 1) q)
  /\ ~ working_instance dup_view 1 (default_route dup_view 1) (1, 1)
  /\ ~ unique_name dup_view (default_route dup_view 1).
Proof. exact default_dup_witness. Qed.
Print Assumptions C07_default_needs_unique_names.

(* ---- C07_no_service: every listed cause => no send; a request's callback gets NoService
        exactly once, a notification produces nothing ---- *)
Theorem C07_no_service : forall reg dflt v req r p,
  cause reg dflt v r p ->
  forall evs, admissible (call reg dflt v req r p) evs <-> evs = none_evs req.
Proof. exact call_no_service. Qed.
Print Assumptions C07_no_service.

(* ---- never delivered elsewhere, never silently dropped ---- *)
Theorem C07_never_elsewhere : forall reg dflt v req r p evs,
  admissible (call reg dflt v req r p) evs ->
  evs = none_evs req \/
  exists t g m q, r = [t; g; m] /\ t <> empty /\ reserved (route reg dflt p t) = false
                  /\ In q (pids_named v (route reg dflt p t)) /\ evs = [ESend q req g m].
Proof. exact call_never_elsewhere. Qed.
Print Assumptions C07_never_elsewhere.

Theorem C07_request_not_dropped : forall reg dflt v r p evs,
  admissible (call reg dflt v true r p) evs -> length evs = 1%nat.
Proof. exact request_not_dropped. Qed.
Print Assumptions C07_request_not_dropped.

Theorem C07_notify_no_callback : forall reg dflt v r p evs c,
  admissible (call reg dflt v false r p) evs -> ~ In (ECb c) evs.
Proof. exact notify_no_callback. Qed.
Print Assumptions C07_notify_no_callback.

(* the route layer's "no target" words are never used as a target, whatever the view lists
   under them (F10b, repaired) *)
Theorem C07_reserved_never_target : forall reg dflt v req r p evs a n b g m,
  reserved n = true -> admissible (call reg dflt v req r p) evs -> ~ In (ESend (a, n) b g m) evs.
Proof. exact reserved_never_target. Qed.
Print Assumptions C07_reserved_never_target.

(* ---- QuerySession / Kick (F10, repaired) ---- *)
Theorem C07_front_unknown : forall v f m evs,
  named v f = [] -> (admissible (front_call v f m) evs <-> evs = [ECb NoServiceErr]).
Proof. exact front_unknown. Qed.
Print Assumptions C07_front_unknown.

Theorem C07_front_target : forall v f m q evs,
  maps_to v f q -> (admissible (front_call v f m) evs <-> evs = [ESend q true SYS m]).
Proof. exact front_target. Qed.
Print Assumptions C07_front_target.

Theorem C07_front_exactly_one : forall v f m evs,
  admissible (front_call v f m) evs ->
  evs = [ECb NoServiceErr] \/ exists q, In q (pids_named v f) /\ evs = [ESend q true SYS m].
Proof. exact front_exactly_one. Qed.
Print Assumptions C07_front_exactly_one.

(* ---- the directory ---- *)
Theorem C07_directory_named : forall v n p,
  In p (dir_cands v n) -> exists it, In it (items v) /\ it_name it = n /\ p = item_pid v it.
Proof. exact dir_cands_named. Qed.
Print Assumptions C07_directory_named.

Theorem C07_directory_unknown : forall v n, dir_cands v n = [] <-> named v n = [].
Proof. exact dir_cands_nil_iff. Qed.
Print Assumptions C07_directory_unknown.

Theorem C07_directory_unique : forall v it,
  In it (items v) -> unique_name v (it_name it) -> maps_to v (it_name it) (item_pid v it).
Proof. exact unique_maps_to. Qed.
Print Assumptions C07_directory_unique.

Theorem C07_pid_address : forall v nd,
  NoDup (map nid v) -> In nd v -> node_addr v (nid nd) = naddr nd.
Proof. exact node_addr_unique. Qed.
Print Assumptions C07_pid_address.

(* ---- C07_view_updates: after ANY history the decision is a function of the functions
        registered last, the default installed last and the LAST view only ---- *)
Theorem C07_view_updates : forall (F : Type) (interp : F -> rfn) (pinterp : F -> rule)
    (h : list (op F)) (o : op F),
  obs_at interp pinterp h o =
  out (hreg interp h) (hdflt interp h) (hrules pinterp h) (hpdflt pinterp h) (last_view h) o.
Proof. exact obs_at_history. Qed.
Print Assumptions C07_view_updates.

Theorem C07_last_view_update : forall (F : Type) (h : list (op F)) v,
  last_view (h ++ [OUpdate v]) = v.
Proof. exact last_view_update. Qed.
Print Assumptions C07_last_view_update.

Theorem C07_last_view_frame : forall (F : Type) (h : list (op F)) o,
  (forall v, o <> OUpdate v) -> last_view (h ++ [o]) = last_view h.
Proof. exact last_view_frame. Qed.
Print Assumptions C07_last_view_frame.

(* routing decisions change nothing *)
Theorem C07_decision_frame : forall (F : Type) (s : st F) (o : op F),
  is_decision o = true -> next s o = s.
Proof. exact decision_frame. Qed.
Print Assumptions C07_decision_frame.

(* [obs_at] is what [run] emits at that position, for every history *)
Theorem C07_run_snoc : forall (F : Type) (interp : F -> rfn) (pinterp : F -> rule)
    (h : list (op F)) (o : op F),
  run interp pinterp (h ++ [o]) = run interp pinterp h ++ [obs_at interp pinterp h o].
Proof. exact run_snoc. Qed.
Print Assumptions C07_run_snoc.

(* ---- calls that overlap, calls that nest ----
   [rules] / [dflt] are ARBITRARY programs (Model.prog: reads of the parameter, type switches,
   nested Route calls, scheduling points, with arbitrary continuations). *)

(* the frame theorem: under ANY schedule of ANY pool of goroutines inside the route layer, a
   goroutine is exactly where it would be had it made its own steps alone - no other call's
   parameter, wrapper or progress can reach it *)
Theorem C07_interleaving_frame : forall rules dflt sched pool i,
  nth_error (prun rules dflt sched pool) i
  = option_map (iter rules dflt (ncount i sched)) (nth_error pool i).
Proof. exact prun_nth. Qed.
Print Assumptions C07_interleaving_frame.

(* the step machine reaches what [eval] (the meaning used by the executable model) computes *)
Theorem C07_eval_adequate : forall rules dflt fuel ty p n t,
  eval rules dflt fuel 0 ty p = Some (n, t) ->
  exists k, forall j, (k <= j)%nat -> iter rules dflt j (start rules dflt ty p) = TDone n t.
Proof. exact eval_adequate. Qed.
Print Assumptions C07_eval_adequate.

(* calls made together, each from its own goroutine: whatever the others do and however the
   scheduler interleaves them, call i ends with the name and with the view of its parameter
   that it has when it is made alone *)
Theorem C07_concurrent_calls_isolated : forall rules dflt fuel (cs : list (Z * param)) i ty p n t,
  nth_error cs i = Some (ty, p) ->
  eval rules dflt fuel 0 ty p = Some (n, t) ->
  exists k, forall sched, (k <= ncount i sched)%nat ->
    nth_error (prun rules dflt sched (map (fun c => start rules dflt (fst c) (snd c)) cs)) i
    = Some (TDone n t).
Proof. exact concurrent_isolated. Qed.
Print Assumptions C07_concurrent_calls_isolated.

(* the rule consulted for a call is handed the CALLER'S parameter: its kind, and for every key
   it reads the value the caller's parameter binds it to *)
Theorem C07_rule_sees_own_param : forall rules dflt fuel ty p n t,
  eval rules dflt fuel 0 ty p = Some (n, t) -> sees_own ty p t.
Proof. exact eval_sees_own. Qed.
Print Assumptions C07_rule_sees_own_param.

(* a call made by a rule (at any depth) is a call: same name, same view of ITS parameter as the
   same call made by a service *)
Theorem C07_nested_call_is_call : forall rules dflt fuel d ty p,
  eval rules dflt fuel d ty p = shifted d (eval rules dflt fuel 0 ty p).
Proof. exact eval_shift. Qed.
Print Assumptions C07_nested_call_is_call.

(* and the rule that made it goes on with ITS OWN parameter: the nested call contributes its
   name and its trace, nothing else *)
Theorem C07_nested_call_frame : forall nest d cty p c ty rp,
  evalp nest d (PCall cty p c) ty rp =
  match nest (d + 1) cty p with
  | None => None
  | Some (n, t) => pre (t ++ [VCall d cty n]) (evalp nest d (c n) ty rp)
  end.
Proof. reflexivity. Qed.
Print Assumptions C07_nested_call_frame.

(* the name is the one [route] (all theorems above) talks about, with each rule read as the
   function "type, parameter -> what the program answers" *)
Theorem C07_nested_result : forall rules dflt fuel d ty p n t,
  eval rules dflt (S fuel) d ty p = Some (n, t) ->
  n = route (fun t0 => option_map (den rules dflt fuel d) (rules t0))
            (option_map (den rules dflt fuel d) dflt) p ty.
Proof. exact eval_route. Qed.
Print Assumptions C07_nested_result.

(* the scripted functions of the harness: program and answer agree *)
Theorem C07_script_coherent : forall nest s d ty rp r t,
  evalp nest d (prog_of_script s ty) ty rp = Some (r, t) -> r = interp_script s ty rp.
Proof. exact script_coherent. Qed.
Print Assumptions C07_script_coherent.

(* the schedule under which calls in flight together are run does not show *)
Theorem C07_schedule_irrelevant : forall (F : Type) reg dflt rules pdflt v cs s1 s2,
  out reg dflt rules pdflt v (@OCalls F cs s1) = out reg dflt rules pdflt v (@OCalls F cs s2).
Proof. exact out_schedule_irrelevant. Qed.
Print Assumptions C07_schedule_irrelevant.

(* ---- model vs. property vocabulary ---- *)
(* the model's call refines the property-level specification *)
Theorem C07_call_refines_spec : forall reg dflt v req r p evs,
  admissible (call reg dflt v req r p) evs -> call_ok reg dflt v req r p evs.
Proof. exact call_sound. Qed.
Print Assumptions C07_call_refines_spec.

(* every trace the model admits passes the monitor (so a monitor failure on an implementation
   trace is a violation of the property, not of the model) *)
Theorem C07_monitor_sound : forall (F : Type) (interp : F -> rfn) (pinterp : F -> rule)
    (ops : list (op F)) bs,
  admits_all (run interp pinterp ops) bs = true -> monitor_from interp [] ops bs = true.
Proof. exact monitor_all. Qed.
Print Assumptions C07_monitor_sound.

(* ---- non-vacuity ---- *)
Definition ex_view : view :=
  [Node 1 0 Working [[1; 1]; [1; 2]; [2; 3]]; Node 2 2 3 [[1; 4]]; Node 3 3 Working [[2; 5]; [3; NoService]]].

Example C07_example_run :
  run_s [OUpdate ex_view;
         ORequest [1; 5; 6] PNil;                            (* default: first working chat *)
         OReg 1 (Some (SKey 1 [(1, RName 2); (2, RName 4); (3, RPanic)] (RName 0) (RName 9)));
         ORequest [1; 5; 6] (PMap [(1, 1)]);                 (* rule names s2 *)
         ORequest [1; 5; 6] (PSess [(1, 2)]);                (* rule names s4 (node not working: the rule decides) *)
         ORequest [1; 5; 6] (PMap [(1, 3)]);                 (* function panics *)
         ORequest [1; 5; 6] PNil;                            (* nil interface call panics *)
         ONotify [1; 5; 6] (PMap [(2, 2)]);                  (* unknown name s9 *)
         ORequest [7; 5; 6] PNil;                            (* unknown type *)
         ORequest [3; 5; 6] PNil;                            (* instance named "no_service" *)
         ORequest [1; 5] (PStr 1);                           (* malformed route *)
         ORequest [7; 5; 6] (PStr 5);                        (* explicit name *)
         ORequest [1; 5; 6] (POther 0);
         OUpdate [];
         ORequest [1; 5; 6] (PMap [(1, 1)]);
         OQuery 1]
  = [MUnit;
     MOut (OSend [(0, 1); (0, 1); (0, 1)] true 5 6);
     MUnit;
     MOut (OSend [(0, 2); (0, 2); (0, 2)] true 5 6);
     MOut (OSend [(2, 4); (2, 4); (2, 4)] true 5 6);
     MOut (OCb NoServiceErr);
     MOut (OCb NoServiceErr);
     MOut ONothing;
     MOut (OCb NoServiceErr);
     MOut (OCb NoServiceErr);
     MOut (OCb NoServiceErr);
     MOut (OSend [(3, 5); (3, 5)] true 5 6);
     MOut (OCb NoServiceErr);
     MUnit;
     MOut (OCb NoServiceErr);
     MOut (OCb NoServiceErr)].
Proof. vm_compute. reflexivity. Qed.

(* hypotheses of C07_target / C07_default are met in ex_view *)
Example C07_example_maps_to : maps_to ex_view 2 (0, 2) /\ unique_name ex_view 1 /\ reserved 1 = false.
Proof.
  split; [|split; [|reflexivity]].
  - split; [vm_compute; discriminate|]. vm_compute. intuition.
  - apply unique_b_spec. vm_compute. reflexivity.
Qed.

Example C07_example_cause :
  cause (fun _ => None) (Some (app_default ex_view)) ex_view [7; 5; 6] PNil.
Proof. eapply CUnknownType; reflexivity. Qed.

(* two goroutines, both rules stop at a scheduling point BEFORE reading their key; a rule that
   routes with a key map of its own before it reads its key *)
Definition ex_par : list sop :=
  [OUpdate ex_view;
   OReg 1 (Some (SPre [AYield] (SKey 1 [(1, RName 1); (2, RName 2)] (RName 0) (RName 0))));
   OReg 2 (Some (SPre [ACall 1 (PMap [(1, 2)]); AYield] (SKey 1 [(1, RName 3); (2, RName 5)] (RName 0) (RName 0))));
   OCalls [CRequest [1; 5; 6] (PMap [(1, 1)]); CRequest [1; 5; 6] (PMap [(1, 2)]);
           CRoute 2 (PSess [(1, 1)]); CNotify [2; 5; 6] PNil] [0; 1; 2; 3; 1; 0]].

Example C07_example_calls :
  run_s ex_par
  = [MUnit; MUnit; MUnit;
     MCalls [(MOut (OSend [(0, 1); (0, 1); (0, 1)] true 5 6),
              Some [VKind 0 1 KMap; VGet 0 1 (Some 1)]);
             (MOut (OSend [(0, 2); (0, 2); (0, 2)] true 5 6),
              Some [VKind 0 1 KMap; VGet 0 1 (Some 2)]);
             (MName 3,
              Some [VKind 0 2 KSess; VKind 1 1 KMap; VGet 1 1 (Some 2); VCall 0 1 2; VGet 0 1 (Some 1)]);
             (MOut ONothing,
              Some [VKind 0 2 KNil; VKind 1 1 KMap; VGet 1 1 (Some 2); VCall 0 1 2])]].
Proof. vm_compute. reflexivity. Qed.

(* the step machine under a schedule that stops both goroutines between wrapper creation and
   the read: both end with their own key *)
Example C07_example_interleaving :
  let rules := hrules prog_of_script ex_par in
  let dflt := hpdflt prog_of_script ex_par in
  prun rules dflt [0; 1; 0; 1; 1; 0; 0; 1; 0; 1]%nat
       [start rules dflt 1 (PMap [(1, 1)]); start rules dflt 1 (PMap [(1, 2)])]
  = [TDone 1 [VKind 0 1 KMap; VGet 0 1 (Some 1)]; TDone 2 [VKind 0 1 KMap; VGet 0 1 (Some 2)]].
Proof. vm_compute. reflexivity. Qed.
