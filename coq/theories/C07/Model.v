(* C07 - model of the routing decision: node/route/route.go (RouteService.Route / doRoute),
   node/app/utils.go (RoutePID, defaultRoute, SplitClientRoute), node/app/serviceutils.go
   (Request, Notify, QuerySession, Kick) and the directory built by
   node/app/clusterservices.go (MakeMembers).  No proofs in this file.

   The model follows the REPAIRED code (hooks/C07-fix-*.patch):
     - QuerySession / Kick report ErrorNoService through the callback when the front-end is
       unknown (was: return silently)                                              [F10]
     - RoutePID treats the route layer's "no target" results (bad_route_param,
       miss_route_func, no_service) like "": they are never looked up as names     [F10b]
     - Request / Notify stop when SplitClientRoute yields no service type (malformed
       route) instead of routing the empty type (was: an explicit instance name was still
       sent to, with method ".")                                                   [F10c]

   Go -> model:
     strings (service types, service names, route segments)   Z tokens, injective; 0 = ""
     route string                                             list of dot-free segments
                                                              (strings.Split(r,"."))
     cluster.Member{Id,Host:Port,State,Services}              Node id addr state svcs, a service
                                                              "a.b" is its segment list [a;b]
     *actor.PID{Address,Id}                                   (addr, name)
     RouteFunc                                                rfn : type -> rparam -> name | panic
     RouteService.routes                                      alist F (F = representation of
                                                              route functions, interp : F -> rfn)
     ClusterServices.typeServices / workingServices           type_list / work_list (member
                                                              order, then service order)
     ClusterServices.services (name -> item; built by ranging over a Go map of types, first
       item of a name wins)                                   dir_cands : the SET of admissible
                                                              answers, one per type that has
                                                              an item of that name *)
From Cell2V Require Import Common.Tac Common.ListX Common.AList.

(* ---- tokens with a fixed meaning ---- *)
Definition empty : Z := 0.                 (* "" *)
Definition BadRouteParam : Z := -1.        (* route.BadRouteParam = "bad_route_param" *)
Definition MissRouteFunc : Z := -2.        (* route.MissRouteFunc = "miss_route_func" *)
Definition NoService : Z := -3.            (* route.NoService     = "no_service" *)
Definition SYS : Z := -10.                 (* "sys" *)
Definition QUERYSESSION : Z := -11.        (* "querysession" *)
Definition KICK : Z := -12.                (* "kick" *)
Definition Working : Z := 1.               (* nodectrl/define.Working *)

(* results of the route layer that RoutePID never looks up *)
Definition reserved (n : Z) : bool :=
  (n =? empty) || (n =? BadRouteParam) || (n =? MissRouteFunc) || (n =? NoService).

(* ---- route parameters and route functions ---- *)
Definition data := list (Z * Z).           (* key -> value, first binding wins *)

Fixpoint dget {V} (k : Z) (d : list (Z * V)) : option V :=
  match d with
  | [] => None
  | (k', v) :: r => if k =? k' then Some v else dget k r
  end.

Inductive param :=
| PNil                    (* nil *)
| PSess (d : data)        (* a session: an IRouteParam *)
| PMap (d : data)         (* map[string]interface{} *)
| PStr (n : Z)            (* an explicit instance name *)
| POther (k : Z).         (* anything else (int, bool, map[string]int, slice, struct ...) *)

(* what a route function is handed: a nil IRouteParam, the session, or a MapParam *)
Inductive rparam := RPNil | RPSess (d : data) | RPMap (d : data).

Inductive res := RName (n : Z) | RPanic.   (* a Go panic is a value *)

Definition rfn := Z -> rparam -> res.      (* an ARBITRARY total function *)

Definition pick (reg dflt : option rfn) : option rfn :=
  match reg with Some f => Some f | None => dflt end.

(* RouteService.doRoute: registered function, else the default, else MissRouteFunc;
   a panic of the function is recovered and the zero string returned *)
Definition do_route (reg dflt : option rfn) (ty : Z) (p : rparam) : Z :=
  match pick reg dflt with
  | None => MissRouteFunc
  | Some f => match f ty p with RName n => n | RPanic => empty end
  end.

(* RouteService.Route *)
Definition route (reg : Z -> option rfn) (dflt : option rfn) (p : param) (ty : Z) : Z :=
  match p with
  | PNil => do_route (reg ty) dflt ty RPNil
  | PSess d => do_route (reg ty) dflt ty (RPSess d)
  | PMap d => do_route (reg ty) dflt ty (RPMap d)
  | PStr n => n
  | POther _ => BadRouteParam
  end.

(* ---- route functions as PROGRAMS: what a rule reads, when, and what it calls ----
   [rfn] above says what a rule answers.  To talk about calls that overlap (several service
   goroutines inside the route layer at once) or nest (a rule that itself routes before it
   reads its own parameter) a rule is an arbitrary interaction tree: it reads keys of the
   parameter it was handed, type-switches on it, calls RouteService.Route again, reaches
   scheduling points (anything that lets another goroutine run: a lock, a channel, a
   pre-emption) and finally returns a name or panics.  Continuations are arbitrary Coq
   functions, so this is every deterministic Go route function that touches the routing
   layer through these calls only. *)
Inductive kind := KNil | KSess | KMap.

Definition kind_of (p : rparam) : kind :=
  match p with RPNil => KNil | RPSess _ => KSess | RPMap _ => KMap end.

Inductive prog :=
| PRet (r : res)                                  (* return / panic *)
| PGet (k : Z) (c : option Z -> prog)             (* v := p.Get(k, nil); on a nil interface: panic *)
| PKind (c : kind -> prog)                        (* switch p.(type) *)
| PCall (ty : Z) (p : param) (c : Z -> prog)      (* n := RouteService.Route(ty, p)  (nested) *)
| PYield (c : prog).                              (* a scheduling point *)

Definition rule := Z -> prog.                     (* service type -> the program that runs *)

(* what the route layer hands to a rule for a caller's parameter (None: no rule is consulted) *)
Definition to_rparam (p : param) : option rparam :=
  match p with
  | PNil => Some RPNil
  | PSess d => Some (RPSess d)
  | PMap d => Some (RPMap d)
  | PStr _ | POther _ => None
  end.

(* what one rule invocation saw of its parameter and of the calls it made; [depth] 0 is the
   rule consulted for the caller's own call, depth d+1 a rule consulted by a call made at depth d *)
Inductive seen :=
| VKind (depth ty : Z) (k : kind)                 (* the rule for [ty] looked at the kind of its parameter *)
| VGet (depth k : Z) (v : option Z)               (* p.Get(k) returned v *)
| VCall (depth ty n : Z).                         (* its nested Route(ty, _) returned n *)

Definition sdepth (e : seen) : Z :=
  match e with VKind d _ _ | VGet d _ _ | VCall d _ _ => d end.

Definition pickr (reg dflt : option rule) : option rule :=
  match reg with Some f => Some f | None => dflt end.

Definition name_of (r : res) : Z := match r with RName n => n | RPanic => empty end.

Section Progs.
  Variable rules : Z -> option rule.              (* RouteService.routes, ARBITRARY *)
  Variable dflt : option rule.                    (* defaultRouteFunc *)

  (* RouteService.Route up to the point where a rule starts running: an immediate answer, or
     the rule's program together with the parameter wrapper made FOR THIS CALL *)
  Definition enter (ty : Z) (p : param) : Z + (rparam * prog) :=
    match p with
    | PStr n => inl n
    | POther _ => inl BadRouteParam
    | _ =>
        match to_rparam p, pickr (rules ty) dflt with
        | Some rp, Some r => inr (rp, r ty)
        | _, _ => inl MissRouteFunc
        end
    end.

  Definition pre {A} (l : list seen) (x : option (A * list seen)) : option (A * list seen) :=
    match x with Some (a, t) => Some (a, l ++ t) | None => None end.

  (* one rule invocation at nesting depth d, given the meaning [nest] of the calls it makes *)
  Fixpoint evalp (nest : Z -> Z -> param -> option (Z * list seen)) (d : Z) (pc : prog)
      (ty : Z) (rp : rparam) : option (res * list seen) :=
    match pc with
    | PRet r => Some (r, [])
    | PGet k c =>
        match rp with
        | RPNil => Some (RPanic, [])
        | RPSess dd | RPMap dd => pre [VGet d k (dget k dd)] (evalp nest d (c (dget k dd)) ty rp)
        end
    | PKind c => pre [VKind d ty (kind_of rp)] (evalp nest d (c (kind_of rp)) ty rp)
    | PCall cty p c =>
        match nest (d + 1) cty p with
        | None => None
        | Some (n, t) => pre (t ++ [VCall d cty n]) (evalp nest d (c n) ty rp)
        end
    | PYield c => evalp nest d c ty rp
    end.

  (* RouteService.Route(ty, p) entered at depth d: the name it returns and everything the rules
     consulted for it saw.  [fuel] bounds the NESTING depth only; None = rules that consult each
     other deeper than that (in Go: unbounded recursion, a fatal stack overflow - not a routing
     decision at all) *)
  Fixpoint eval (fuel : nat) (d : Z) (ty : Z) (p : param) : option (Z * list seen) :=
    match enter ty p with
    | inl n => Some (n, [])
    | inr (rp, pc) =>
        match fuel with
        | O => None
        | S f =>
            match evalp (eval f) d pc ty rp with
            | Some (r, t) => Some (name_of r, t)
            | None => None
            end
        end
    end.

  (* ---- the same, one step at a time, for several goroutines ---- *)
  Inductive wait := W (ty : Z) (rp : rparam) (c : Z -> prog) (cty : Z).

  Inductive thread :=
  | TRun (ty : Z) (rp : rparam) (pc : prog) (stk : list wait) (tr : list seen)
        (* the running rule: its type, ITS OWN parameter, the rest of its program; the rules
           waiting for it (innermost first); what has been seen so far *)
  | TDone (n : Z) (tr : list seen).

  (* a rule returned n (doRoute has already turned a panic into "") *)
  Definition ret (n : Z) (stk : list wait) (tr : list seen) : thread :=
    match stk with
    | [] => TDone n tr
    | W ty rp c cty :: s => TRun ty rp (c n) s (tr ++ [VCall (Z.of_nat (length s)) cty n])
    end.

  Definition tstep (t : thread) : thread :=
    match t with
    | TDone _ _ => t
    | TRun ty rp pc stk tr =>
        let d := Z.of_nat (length stk) in
        match pc with
        | PRet r => ret (name_of r) stk tr
        | PGet k c =>
            match rp with
            | RPNil => ret empty stk tr
            | RPSess dd | RPMap dd => TRun ty rp (c (dget k dd)) stk (tr ++ [VGet d k (dget k dd)])
            end
        | PKind c => TRun ty rp (c (kind_of rp)) stk (tr ++ [VKind d ty (kind_of rp)])
        | PCall cty p c =>
            match enter cty p with
            | inl n => TRun ty rp (c n) stk (tr ++ [VCall d cty n])
            | inr (rp2, pc2) => TRun cty rp2 pc2 (W ty rp c cty :: stk) tr
            end
        | PYield c => TRun ty rp c stk tr
        end
    end.

  Definition start (ty : Z) (p : param) : thread :=
    match enter ty p with
    | inl n => TDone n []
    | inr (rp, pc) => TRun ty rp pc [] []
    end.

  Fixpoint iter (k : nat) (t : thread) : thread :=
    match k with O => t | S j => iter j (tstep t) end.

  (* several goroutines, one call each; a schedule names the goroutine that moves next *)
  Fixpoint pstep (i : nat) (pool : list thread) : list thread :=
    match pool, i with
    | [], _ => []
    | t :: r, O => tstep t :: r
    | t :: r, S j => t :: pstep j r
    end.

  Definition prun (sched : list nat) (pool : list thread) : list thread :=
    fold_left (fun pl i => pstep i pl) sched pool.

  Fixpoint ncount (i : nat) (l : list nat) : nat :=
    match l with [] => O | x :: r => ((if Nat.eqb x i then 1 else 0) + ncount i r)%nat end.
End Progs.

(* nesting depth the executable model follows (the harness refuses deeper scripts) *)
Definition NEST_FUEL : nat := 8.

(* ---- cluster views ---- *)
Inductive node := Node (id addr state : Z) (svcs : list (list Z)).
Definition view := list node.

Definition nid (nd : node) : Z := let '(Node i _ _ _) := nd in i.
Definition naddr (nd : node) : Z := let '(Node _ a _ _) := nd in a.
Definition nstate (nd : node) : Z := let '(Node _ _ s _) := nd in s.
Definition nsvcs (nd : node) : list (list Z) := let '(Node _ _ _ l) := nd in l.

Inductive item := Item (ty name nodeid state : Z).
Definition it_ty (it : item) : Z := let '(Item t _ _ _) := it in t.
Definition it_name (it : item) : Z := let '(Item _ n _ _) := it in n.
Definition it_node (it : item) : Z := let '(Item _ _ i _) := it in i.
Definition it_state (it : item) : Z := let '(Item _ _ _ s) := it in s.

(* addService: SplitServiceName wants exactly two non-empty segments, else the entry is skipped *)
Definition svc_item (id state : Z) (s : list Z) : list item :=
  match s with
  | [t; n] => if (t =? empty) || (n =? empty) then [] else [Item t n id state]
  | _ => []
  end.

Definition node_items (nd : node) : list item :=
  flat_map (svc_item (nid nd) (nstate nd)) (nsvcs nd).

Definition items (v : view) : list item := flat_map node_items v.

Definition type_list (v : view) (ty : Z) : list item :=
  filter (fun it => it_ty it =? ty) (items v).

Definition work_list (v : view) (ty : Z) : list item :=
  filter (fun it => it_state it =? Working) (type_list v ty).

(* makePID: address of members[item.ClusterNodeID]; the member map keeps the LAST member of an id *)
Definition node_addr (v : view) (id : Z) : Z :=
  fold_left (fun a nd => if nid nd =? id then naddr nd else a) v 0.

Definition pid := (Z * Z)%type.            (* (address, name) *)

Definition item_pid (v : view) (it : item) : pid := (node_addr v (it_node it), it_name it).

Definition first_named (n : Z) (l : list item) : option item :=
  find (fun it => it_name it =? n) l.

(* ClusterServices.services[n]: admissible answers (Go map order over types decides which) *)
Definition dir_cands (v : view) (n : Z) : list pid :=
  flat_map (fun ty => match first_named n (type_list v ty) with
                      | Some it => [item_pid v it]
                      | None => []
                      end) (map it_ty (items v)).

(* node/app.defaultRoute *)
Definition default_route (v : view) (ty : Z) : Z :=
  match work_list v ty with
  | it :: _ => it_name it
  | [] => NoService
  end.

Definition app_default (v : view) : rfn := fun ty _ => RName (default_route v ty).

(* the same as a program: it never looks at its parameter and calls nothing *)
Definition app_rule (v : view) : rule := fun ty => PRet (RName (default_route v ty)).

(* node/app.RoutePID: [] = nil *)
Definition route_pid (reg : Z -> option rfn) (dflt : option rfn) (v : view) (ty : Z) (p : param)
  : list pid :=
  let n := route reg dflt p ty in
  if reserved n then [] else dir_cands v n.

(* ---- effects of the app-level calls ---- *)
Inductive cbk := NoServiceErr | OtherErr | CbOk.

Inductive event :=
| ESend (target : pid) (req : bool) (g m : Z)   (* one ServiceRequest sent to target, Route "g.m";
                                                   req = it carries a request id (not a notify) *)
| ECb (c : cbk).                                (* the caller's callback invoked *)

Inductive outcome :=
| OSend (cands : list pid) (req : bool) (g m : Z)  (* exactly one send, to one of cands *)
| OCb (c : cbk)                                    (* no send; callback invoked once *)
| ONothing.

Definition no_target (req : bool) : outcome := if req then OCb NoServiceErr else ONothing.

(* node/app.Request (req = true) / Notify (req = false) *)
Definition call (reg : Z -> option rfn) (dflt : option rfn) (v : view) (req : bool)
  (r : list Z) (p : param) : outcome :=
  match r with
  | [t; g; m] =>
      if t =? empty then no_target req
      else match route_pid reg dflt v t p with
           | [] => no_target req
           | c => OSend c req g m
           end
  | _ => no_target req
  end.

(* node/app.QuerySession (m = QUERYSESSION) / Kick (m = KICK) *)
Definition front_call (v : view) (front m : Z) : outcome :=
  match dir_cands v front with
  | [] => OCb NoServiceErr
  | c => OSend c true SYS m
  end.

(* ---- calls made side by side from several service goroutines ---- *)
Inductive pcall :=
| CRoute (ty : Z) (p : param)           (* RouteService.Route(ty, p) *)
| CRoutePID (ty : Z) (p : param)        (* app.RoutePID(ty, p) *)
| CRequest (r : list Z) (p : param)     (* app.Request(ns_i, r, p, msg, cb) *)
| CNotify (r : list Z) (p : param).     (* app.Notify(ns_i, r, p, msg) *)

(* the (type, parameter) a call hands to the route layer; None when it never gets there *)
Definition call_key (c : pcall) : option (Z * param) :=
  match c with
  | CRoute ty p | CRoutePID ty p => Some (ty, p)
  | CRequest r p | CNotify r p =>
      match r with
      | [t; _; _] => if t =? empty then None else Some (t, p)
      | _ => None
      end
  end.

(* everything the rules consulted for one call saw *)
Definition call_trace (rules : Z -> option rule) (dflt : option rule) (c : pcall)
  : option (list seen) :=
  match call_key c with
  | None => Some []
  | Some (ty, p) => option_map snd (eval rules dflt NEST_FUEL 0 ty p)
  end.

(* ---- the state machine, for any representation F of route functions ----
   interp f  : what the function answers (Z -> rparam -> res)
   pinterp f : how it gets there (reads, nested calls, scheduling points) *)
Section Machine.
  Variable F : Type.
  Variable interp : F -> rfn.
  Variable pinterp : F -> rule.

  Inductive dmode :=
  | DApp              (* node/app's defaultRoute (installed by its init) *)
  | DNone             (* route.SetDefaultRoute(nil) *)
  | DFn (f : F).      (* route.SetDefaultRoute(f) *)

  Record st := St { s_fns : alist F; s_dflt : dmode; s_view : view }.

  Inductive op :=
  | OReg (ty : Z) (f : option F)        (* RouteService.Register(ty, f)  (None = nil func) *)
  | ODefault (d : dmode)                (* route.SetDefaultRoute *)
  | OUpdate (v : view)                  (* Cluster.UpdateClusterTopology(members) *)
  | ORoute (ty : Z) (p : param)         (* RouteService.Route(ty, p) *)
  | ORoutePID (ty : Z) (p : param)      (* app.RoutePID(ty, p) *)
  | ORequest (r : list Z) (p : param)   (* app.Request(ns, r, p, msg, cb) *)
  | ONotify (r : list Z) (p : param)    (* app.Notify(ns, r, p, msg) *)
  | OQuery (front : Z)                  (* app.QuerySession(ns, front, id, cb) *)
  | OKick (front : Z)                   (* app.Kick(ns, front, id, cb) *)
  | OWork (ty : Z)                      (* names of app.GetWorkServices(ty) *)
  | OList (ty : Z)                      (* names of app.GetServices(ty) *)
  | OCalls (cs : list pcall) (sched : list Z).
      (* one call per service goroutine, all in flight together; [sched] is the order in which
         the goroutines are let run from one scheduling point to the next *)

  (* what the model says an operation shows *)
  Inductive mout :=
  | MUnit
  | MName (n : Z)
  | MPid (cands : list pid)             (* [] = nil, else one of cands *)
  | MOut (o : outcome)
  | MNames (l : list Z)
  | MCalls (l : list (mout * option (list seen))).
      (* per call: what it shows and what its rules saw (None: nesting beyond NEST_FUEL) *)

  Definition init : st := St [] DApp [].

  Definition reg_of (s : st) : Z -> option rfn :=
    fun ty => option_map interp (aget ty (s_fns s)).

  Definition dflt_of (s : st) : option rfn :=
    match s_dflt s with
    | DApp => Some (app_default (s_view s))
    | DNone => None
    | DFn f => Some (interp f)
    end.

  Definition rules_of (s : st) : Z -> option rule :=
    fun ty => option_map pinterp (aget ty (s_fns s)).

  Definition pdflt_of (s : st) : option rule :=
    match s_dflt s with
    | DApp => Some (app_rule (s_view s))
    | DNone => None
    | DFn f => Some (pinterp f)
    end.

  Definition op_of_call (c : pcall) : op :=
    match c with
    | CRoute ty p => ORoute ty p
    | CRoutePID ty p => ORoutePID ty p
    | CRequest r p => ORequest r p
    | CNotify r p => ONotify r p
    end.

  (* what a single call shows: a function of the registered functions, the default and the
     CURRENT view only *)
  Definition out1 (reg : Z -> option rfn) (dflt : option rfn) (v : view) (o : op) : mout :=
    match o with
    | OReg _ _ | ODefault _ | OUpdate _ => MUnit
    | OCalls _ _ => MCalls []          (* not a single call: see [out] *)
    | ORoute ty p => MName (route reg dflt p ty)
    | ORoutePID ty p => MPid (route_pid reg dflt v ty p)
    | ORequest r p => MOut (call reg dflt v true r p)
    | ONotify r p => MOut (call reg dflt v false r p)
    | OQuery f => MOut (front_call v f QUERYSESSION)
    | OKick f => MOut (front_call v f KICK)
    | OWork ty => MNames (map it_name (work_list v ty))
    | OList ty => MNames (map it_name (type_list v ty))
    end.

  (* calls in flight together: EACH shows exactly what it shows when made alone, and its rules
     see exactly what they see when it is made alone - whatever the schedule *)
  Definition out (reg : Z -> option rfn) (dflt : option rfn) (rules : Z -> option rule)
      (pdflt : option rule) (v : view) (o : op) : mout :=
    match o with
    | OCalls cs _ =>
        MCalls (map (fun c => (out1 reg dflt v (op_of_call c), call_trace rules pdflt c)) cs)
    | _ => out1 reg dflt v o
    end.

  Definition next (s : st) (o : op) : st :=
    match o with
    | OReg ty (Some f) => St (aset ty f (s_fns s)) (s_dflt s) (s_view s)
    | OReg ty None => St (adel ty (s_fns s)) (s_dflt s) (s_view s)
    | ODefault d => St (s_fns s) d (s_view s)
    | OUpdate v => St (s_fns s) (s_dflt s) v
    | _ => s
    end.

  Definition step (s : st) (o : op) : st * mout :=
    (next s o, out (reg_of s) (dflt_of s) (rules_of s) (pdflt_of s) (s_view s) o).

  Fixpoint run_from (s : st) (ops : list op) : st * list mout :=
    match ops with
    | [] => (s, [])
    | o :: r =>
        let '(s1, b) := step s o in
        let '(s2, bs) := run_from s1 r in
        (s2, b :: bs)
    end.

  Definition run (ops : list op) : list mout := snd (run_from init ops).
  Definition final (ops : list op) : st := fst (run_from init ops).
  Definition obs_at (h : list op) (o : op) : mout := snd (step (final h) o).
End Machine.

Arguments DApp {F}.
Arguments DNone {F}.
Arguments DFn {F} f.
Arguments St {F} s_fns s_dflt s_view.
Arguments s_fns {F} s.
Arguments s_dflt {F} s.
Arguments s_view {F} s.
Arguments OReg {F} ty f.
Arguments ODefault {F} d.
Arguments OUpdate {F} v.
Arguments ORoute {F} ty p.
Arguments ORoutePID {F} ty p.
Arguments ORequest {F} r p.
Arguments ONotify {F} r p.
Arguments OQuery {F} front.
Arguments OKick {F} front.
Arguments OWork {F} ty.
Arguments OList {F} ty.
Arguments OCalls {F} cs sched.
Arguments init {F}.
Arguments reg_of {F} interp s ty.
Arguments dflt_of {F} interp s.
Arguments rules_of {F} pinterp s ty.
Arguments pdflt_of {F} pinterp s.
Arguments op_of_call {F} c.
Arguments out1 {F} reg dflt v o.
Arguments out {F} reg dflt rules pdflt v o.
Arguments next {F} s o.
Arguments step {F} interp pinterp s o.
Arguments run_from {F} interp pinterp s ops.
Arguments run {F} interp pinterp ops.
Arguments final {F} interp pinterp ops.
Arguments obs_at {F} interp pinterp h o.

(* ---- scripted route functions: the representation the harness uses ----
   Go (harness/c07/script.go) builds a real route.RouteFunc from the same data. *)
Inductive act :=
| AYield                       (* a scheduling point: lets the other goroutines run *)
| ACall (ty : Z) (p : param)   (* route.GetRouteService().Route(ty, p); the answer is only recorded *)
| AGet (k : Z).                (* p.Get(key k, nil); the value is only recorded *)

Inductive script :=
| SConst (r : res)
    (* ignores its arguments *)
| SKey (k : Z) (tbl : list (Z * res)) (miss nokey : res)
    (* v := p.Get(key k, nil): calling Get on the nil IRouteParam panics (nil interface);
       absent key -> nokey; value found in tbl -> that result; else miss *)
| SKind (rnil rsess rmap : res)
    (* type switch on p: nil / *session.FrontSession / *route.MapParam *)
| STy (tbl : list (Z * res)) (miss : res)
    (* depends on the service type only (a default function shared by all types) *)
| SPre (pre : list act) (s : script)
    (* first does [pre], then behaves as s *).

Definition is_get (a : act) : bool := match a with AGet _ => true | _ => false end.

Fixpoint interp_script (s : script) : rfn := fun ty p =>
  match s with
  | SConst r => r
  | SKey k tbl miss nokey =>
      match p with
      | RPNil => RPanic
      | RPSess d | RPMap d =>
          match dget k d with
          | None => nokey
          | Some v => match dget v tbl with Some r => r | None => miss end
          end
      end
  | SKind a b c => match p with RPNil => a | RPSess _ => b | RPMap _ => c end
  | STy tbl miss => match dget ty tbl with Some r => r | None => miss end
  | SPre pre s' =>
      (* Get on the nil IRouteParam panics before s' is reached *)
      match p with
      | RPNil => if existsb is_get pre then RPanic else interp_script s' ty p
      | _ => interp_script s' ty p
      end
  end.

(* the same functions as programs; every scripted function first looks at the kind of its
   parameter (the Go closure records it) *)
Fixpoint pre_prog (pre : list act) (k : prog) : prog :=
  match pre with
  | [] => k
  | AYield :: r => PYield (pre_prog r k)
  | ACall cty p :: r => PCall cty p (fun _ => pre_prog r k)
  | AGet key :: r => PGet key (fun _ => pre_prog r k)
  end.

Fixpoint body (s : script) (ty : Z) : prog :=
  match s with
  | SConst r => PRet r
  | SKey k tbl miss nokey =>
      PGet k (fun v => match v with
                       | None => PRet nokey
                       | Some x => PRet (match dget x tbl with Some r => r | None => miss end)
                       end)
  | SKind a b c => PKind (fun kd => PRet (match kd with KNil => a | KSess => b | KMap => c end))
  | STy tbl miss => PRet (match dget ty tbl with Some r => r | None => miss end)
  | SPre pre s' => pre_prog pre (body s' ty)
  end.

Definition prog_of_script (s : script) : rule := fun ty => PKind (fun _ => body s ty).

(* ---- what the harness observes on the real code ---- *)
Inductive obs :=
| BUnit
| BName (n : Z)
| BPid (p : option pid)
| BEvents (l : list event)
| BNames (l : list Z)
| BPanic                           (* a panic escaped the call (the model never allows it) *)
| BCalls (l : list (obs * list seen)).
    (* per call of an OCalls: its own observation and, in order, what each rule invocation
       made for it was handed / read / got back *)
