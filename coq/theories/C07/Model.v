(* C07 - model of the routing decision: node/route/route.go (RouteService.Route / doRoute),
   node/app/utils.go (RoutePID, defaultRoute, SplitClientRoute), node/app/serviceutils.go
   (Request, Notify, QuerySession, Kick) and the directory built by
   node/app/clusterservices.go (MakeMembers).  No proofs in this file.

   The model follows the REPAIRED code (hooks/C07-fix-*.patch):
     - QuerySession / Kick report ErrorNoService through the callback when the front-end is
       unknown (was: return silently)                                              [F10]
     - RoutePID treats the route layer's "no target" results (bad_route_param,
       miss_route_func, no_service) like "": they are never looked up as names     [F10b]
     - Request / Notify stop when SplitClientRoute yields no service type (malformed
       route) instead of routing the empty type (was: an explicit instance name was still
       sent to, with method ".")                                                   [F10c]

   Go -> model:
     strings (service types, service names, route segments)   Z tokens, injective; 0 = ""
     route string                                             list of dot-free segments
                                                              (strings.Split(r,"."))
     cluster.Member{Id,Host:Port,State,Services}              Node id addr state svcs, a service
                                                              "a.b" is its segment list [a;b]
     *actor.PID{Address,Id}                                   (addr, name)
     RouteFunc                                                rfn : type -> rparam -> name | panic
     RouteService.routes                                      alist F (F = representation of
                                                              route functions, interp : F -> rfn
                                                              what they answer, pinterp : F ->
                                                              rule F how they run); written by
                                                              Register only: OReg, a rule (PReg),
                                                              another goroutine (XReg / SReg)
     Cluster.address (InitSelf)                               s_self, read by NO decision
     ClusterServices.typeServices / workingServices           type_list / work_list (member
                                                              order, then service order)
     ClusterServices.services (name -> item; built by ranging over a Go map of types, first
       item of a name wins)                                   dir_cands : the SET of admissible
                                                              answers, one per type that has
                                                              an item of that name *)
From Cell2V Require Import Common.Tac Common.ListX Common.AList.

(* ---- tokens with a fixed meaning ---- *)
Definition empty : Z := 0.                 (* "" *)
Definition BadRouteParam : Z := -1.        (* route.BadRouteParam = "bad_route_param" *)
Definition MissRouteFunc : Z := -2.        (* route.MissRouteFunc = "miss_route_func" *)
Definition NoService : Z := -3.            (* route.NoService     = "no_service" *)
Definition SYS : Z := -10.                 (* "sys" *)
Definition QUERYSESSION : Z := -11.        (* "querysession" *)
Definition KICK : Z := -12.                (* "kick" *)
Definition Working : Z := 1.               (* nodectrl/define.Working *)

(* results of the route layer that RoutePID never looks up *)
Definition reserved (n : Z) : bool :=
  (n =? empty) || (n =? BadRouteParam) || (n =? MissRouteFunc) || (n =? NoService).

(* ---- route parameters and route functions ---- *)
Definition data := list (Z * Z).           (* key -> value, first binding wins *)

Fixpoint dget {V} (k : Z) (d : list (Z * V)) : option V :=
  match d with
  | [] => None
  | (k', v) :: r => if k =? k' then Some v else dget k r
  end.

Inductive param :=
| PNil                    (* nil *)
| PSess (d : data)        (* a session: an IRouteParam *)
| PMap (d : data)         (* map[string]interface{} *)
| PStr (n : Z)            (* an explicit instance name *)
| POther (k : Z).         (* anything else (int, bool, map[string]int, slice, struct ...) *)

(* what a route function is handed: a nil IRouteParam, the session, or a MapParam *)
Inductive rparam := RPNil | RPSess (d : data) | RPMap (d : data).

Inductive res := RName (n : Z) | RPanic.   (* a Go panic is a value *)

Definition rfn := Z -> rparam -> res.      (* an ARBITRARY total function *)

Definition pick (reg dflt : option rfn) : option rfn :=
  match reg with Some f => Some f | None => dflt end.

(* RouteService.doRoute: registered function, else the default, else MissRouteFunc;
   a panic of the function is recovered and the zero string returned *)
Definition do_route (reg dflt : option rfn) (ty : Z) (p : rparam) : Z :=
  match pick reg dflt with
  | None => MissRouteFunc
  | Some f => match f ty p with RName n => n | RPanic => empty end
  end.

(* RouteService.Route *)
Definition route (reg : Z -> option rfn) (dflt : option rfn) (p : param) (ty : Z) : Z :=
  match p with
  | PNil => do_route (reg ty) dflt ty RPNil
  | PSess d => do_route (reg ty) dflt ty (RPSess d)
  | PMap d => do_route (reg ty) dflt ty (RPMap d)
  | PStr n => n
  | POther _ => BadRouteParam
  end.

(* ---- what a rule invocation is handed and sees ---- *)
Inductive kind := KNil | KSess | KMap.

Definition kind_of (p : rparam) : kind :=
  match p with RPNil => KNil | RPSess _ => KSess | RPMap _ => KMap end.

(* what the route layer hands to a rule for a caller's parameter (None: no rule is consulted) *)
Definition to_rparam (p : param) : option rparam :=
  match p with
  | PNil => Some RPNil
  | PSess d => Some (RPSess d)
  | PMap d => Some (RPMap d)
  | PStr _ | POther _ => None
  end.

(* what one rule invocation saw of its parameter and of the calls it made; [depth] 0 is the
   rule consulted for the caller's own call, depth d+1 a rule consulted by a call made at depth d *)
Inductive seen :=
| VKind (depth ty : Z) (k : kind)                 (* the rule for [ty] looked at the kind of its parameter *)
| VGet (depth k : Z) (v : option Z)               (* p.Get(k) returned v *)
| VCall (depth ty n : Z).                         (* its nested Route(ty, _) returned n *)

Definition sdepth (e : seen) : Z :=
  match e with VKind d _ _ | VGet d _ _ | VCall d _ _ => d end.

Definition name_of (r : res) : Z := match r with RName n => n | RPanic => empty end.

(* nesting depth the big-step meaning follows; steps / scheduler turns the executable model of
   calls in flight follows (the harness refuses deeper / longer scripts) *)
Definition NEST_FUEL : nat := 8.
Definition STEP_FUEL : nat := 2000.
Definition TURN_FUEL : nat := 400.

(* ---- cluster views ---- *)
Inductive node := Node (id addr state : Z) (svcs : list (list Z)).
Definition view := list node.

Definition nid (nd : node) : Z := let '(Node i _ _ _) := nd in i.
Definition naddr (nd : node) : Z := let '(Node _ a _ _) := nd in a.
Definition nstate (nd : node) : Z := let '(Node _ _ s _) := nd in s.
Definition nsvcs (nd : node) : list (list Z) := let '(Node _ _ _ l) := nd in l.

Inductive item := Item (ty name nodeid state : Z).
Definition it_ty (it : item) : Z := let '(Item t _ _ _) := it in t.
Definition it_name (it : item) : Z := let '(Item _ n _ _) := it in n.
Definition it_node (it : item) : Z := let '(Item _ _ i _) := it in i.
Definition it_state (it : item) : Z := let '(Item _ _ _ s) := it in s.

(* addService: SplitServiceName wants exactly two non-empty segments, else the entry is skipped *)
Definition svc_item (id state : Z) (s : list Z) : list item :=
  match s with
  | [t; n] => if (t =? empty) || (n =? empty) then [] else [Item t n id state]
  | _ => []
  end.

Definition node_items (nd : node) : list item :=
  flat_map (svc_item (nid nd) (nstate nd)) (nsvcs nd).

Definition items (v : view) : list item := flat_map node_items v.

Definition type_list (v : view) (ty : Z) : list item :=
  filter (fun it => it_ty it =? ty) (items v).

Definition work_list (v : view) (ty : Z) : list item :=
  filter (fun it => it_state it =? Working) (type_list v ty).

(* makePID: address of members[item.ClusterNodeID]; the member map keeps the LAST member of an id *)
Definition node_addr (v : view) (id : Z) : Z :=
  fold_left (fun a nd => if nid nd =? id then naddr nd else a) v 0.

Definition pid := (Z * Z)%type.            (* (address, name) *)

Definition item_pid (v : view) (it : item) : pid := (node_addr v (it_node it), it_name it).

Definition first_named (n : Z) (l : list item) : option item :=
  find (fun it => it_name it =? n) l.

(* ClusterServices.services[n]: admissible answers (Go map order over types decides which) *)
Definition dir_cands (v : view) (n : Z) : list pid :=
  flat_map (fun ty => match first_named n (type_list v ty) with
                      | Some it => [item_pid v it]
                      | None => []
                      end) (map it_ty (items v)).

(* node/app.defaultRoute *)
Definition default_route (v : view) (ty : Z) : Z :=
  match work_list v ty with
  | it :: _ => it_name it
  | [] => NoService
  end.

Definition app_default (v : view) : rfn := fun ty _ => RName (default_route v ty).

(* node/app.RoutePID: [] = nil *)
Definition route_pid (reg : Z -> option rfn) (dflt : option rfn) (v : view) (ty : Z) (p : param)
  : list pid :=
  let n := route reg dflt p ty in
  if reserved n then [] else dir_cands v n.

(* ---- effects of the app-level calls ---- *)
Inductive cbk := NoServiceErr | OtherErr | CbOk.

Inductive event :=
| ESend (target : pid) (req : bool) (g m : Z)   (* one ServiceRequest sent to target, Route "g.m";
                                                   req = it carries a request id (not a notify) *)
| ECb (c : cbk).                                (* the caller's callback invoked *)

Inductive outcome :=
| OSend (cands : list pid) (req : bool) (g m : Z)  (* exactly one send, to one of cands *)
| OCb (c : cbk)                                    (* no send; callback invoked once *)
| ONothing.

Definition no_target (req : bool) : outcome := if req then OCb NoServiceErr else ONothing.

(* node/app.Request (req = true) / Notify (req = false) *)
Definition call (reg : Z -> option rfn) (dflt : option rfn) (v : view) (req : bool)
  (r : list Z) (p : param) : outcome :=
  match r with
  | [t; g; m] =>
      if t =? empty then no_target req
      else match route_pid reg dflt v t p with
           | [] => no_target req
           | c => OSend c req g m
           end
  | _ => no_target req
  end.

(* node/app.QuerySession (m = QUERYSESSION) / Kick (m = KICK) *)
Definition front_call (v : view) (front m : Z) : outcome :=
  match dir_cands v front with
  | [] => OCb NoServiceErr
  | c => OSend c true SYS m
  end.

(* ---- calls made side by side from several service goroutines ---- *)
Inductive pcall :=
| CRoute (ty : Z) (p : param)           (* RouteService.Route(ty, p) *)
| CRoutePID (ty : Z) (p : param)        (* app.RoutePID(ty, p) *)
| CRequest (r : list Z) (p : param)     (* app.Request(ns_i, r, p, msg, cb) *)
| CNotify (r : list Z) (p : param).     (* app.Notify(ns_i, r, p, msg) *)

(* the (type, parameter) a call hands to the route layer; None when it never gets there *)
Definition call_key (c : pcall) : option (Z * param) :=
  match c with
  | CRoute ty p | CRoutePID ty p => Some (ty, p)
  | CRequest r p | CNotify r p =>
      match r with
      | [t; _; _] => if t =? empty then None else Some (t, p)
      | _ => None
      end
  end.

(* ---- route functions as PROGRAMS: what a rule reads, when, what it calls and registers ----
   [rfn] above says what a rule answers.  To talk about calls that overlap (several service
   goroutines inside the route layer at once), nest (a rule that itself routes before it reads
   its own parameter) or change the rules while calls are in flight (RouteService.Register at
   run time, by a rule or by another goroutine), a rule is an arbitrary interaction tree: it
   reads keys of the parameter it was handed, type-switches on it, calls RouteService.Route
   again, calls RouteService.Register, reaches scheduling points (anything that lets another
   goroutine run: a lock, a channel, a pre-emption) and finally returns a name or panics.
   Continuations are arbitrary Coq functions, so this is every deterministic Go route function
   that touches the routing layer through these calls only.  F is the representation of
   registered functions (what Register is handed). *)
Inductive prog (F : Type) :=
| PRet (r : res)                                    (* return / panic *)
| PGet (k : Z) (c : option Z -> prog F)             (* v := p.Get(k, nil); on a nil interface: panic *)
| PKind (c : kind -> prog F)                        (* switch p.(type) *)
| PCall (ty : Z) (p : param) (c : Z -> prog F)      (* n := RouteService.Route(ty, p)  (nested) *)
| PReg (ty : Z) (f : option F) (c : prog F)         (* RouteService.Register(ty, f)  (None = nil) *)
| PYield (c : prog F).                              (* a scheduling point *)

Arguments PRet {F} r.
Arguments PGet {F} k c.
Arguments PKind {F} c.
Arguments PCall {F} ty p c.
Arguments PReg {F} ty f c.
Arguments PYield {F} c.

Definition rule (F : Type) := Z -> prog F.          (* service type -> the program that runs *)

Definition pickr {F} (reg dflt : option (rule F)) : option (rule F) :=
  match reg with Some f => Some f | None => dflt end.

(* RouteService.Register: routes[ty] = f; a nil function reads as "none registered" *)
Definition treg {F} (ty : Z) (f : option F) (tab : alist F) : alist F :=
  match f with Some x => aset ty x tab | None => adel ty tab end.

(* node/app.defaultRoute as a program: it never looks at its parameter and calls nothing *)
Definition app_rule {F} (v : view) : rule F := fun ty => PRet (RName (default_route v ty)).

Fixpoint upd {A} (i : nat) (x : A) (l : list A) : list A :=
  match l, i with
  | [], _ => []
  | _ :: r, O => x :: r
  | y :: r, S j => y :: upd j x r
  end.

Section Progs.
  Variable F : Type.
  Variable pinterp : F -> rule F.                   (* how a registered function runs, ARBITRARY *)
  Variable dflt : option (rule F).                  (* defaultRouteFunc *)

  (* RouteService.Route up to the point where a rule starts running: an immediate answer, or
     the rule registered NOW and the parameter wrapper made FOR THIS CALL *)
  Definition enter (tab : alist F) (ty : Z) (p : param) : Z + (rparam * prog F) :=
    match p with
    | PStr n => inl n
    | POther _ => inl BadRouteParam
    | _ =>
        match to_rparam p, pickr (option_map pinterp (aget ty tab)) dflt with
        | Some rp, Some r => inr (rp, r ty)
        | _, _ => inl MissRouteFunc
        end
    end.

  Definition pre {A} (l : list seen) (x : option (A * list seen * alist F))
    : option (A * list seen * alist F) :=
    match x with Some (a, t, tb) => Some (a, l ++ t, tb) | None => None end.

  (* one rule invocation at nesting depth d started with the registered rules [tab], given the
     meaning [nest] of the calls it makes; yields its answer, what was seen, the rules after *)
  Fixpoint evalp (nest : alist F -> Z -> Z -> param -> option (Z * list seen * alist F))
      (tab : alist F) (d : Z) (pc : prog F) (ty : Z) (rp : rparam)
      : option (res * list seen * alist F) :=
    match pc with
    | PRet r => Some (r, [], tab)
    | PGet k c =>
        match rp with
        | RPNil => Some (RPanic, [], tab)
        | RPSess dd | RPMap dd =>
            pre [VGet d k (dget k dd)] (evalp nest tab d (c (dget k dd)) ty rp)
        end
    | PKind c => pre [VKind d ty (kind_of rp)] (evalp nest tab d (c (kind_of rp)) ty rp)
    | PCall cty p c =>
        match nest tab (d + 1) cty p with
        | None => None
        | Some (n, t, tab1) => pre (t ++ [VCall d cty n]) (evalp nest tab1 d (c n) ty rp)
        end
    | PReg rty f c => evalp nest (treg rty f tab) d c ty rp
    | PYield c => evalp nest tab d c ty rp
    end.

  (* RouteService.Route(ty, p) entered at depth d, made alone: the name it returns, everything
     the rules consulted for it saw, the registered rules afterwards.  [fuel] bounds the NESTING
     depth only; None = rules that consult each other deeper than that (in Go: unbounded
     recursion, a fatal stack overflow - not a routing decision at all) *)
  Fixpoint eval (fuel : nat) (tab : alist F) (d : Z) (ty : Z) (p : param)
      : option (Z * list seen * alist F) :=
    match enter tab ty p with
    | inl n => Some (n, [], tab)
    | inr (rp, pc) =>
        match fuel with
        | O => None
        | S f =>
            match evalp (eval f) tab d pc ty rp with
            | Some (r, t, tab1) => Some (name_of r, t, tab1)
            | None => None
            end
        end
    end.

  (* ---- the same, one step at a time, for several goroutines sharing the registered rules ---- *)
  Inductive wait := W (ty : Z) (rp : rparam) (c : Z -> prog F) (cty : Z).

  Inductive thread :=
  | TInit (k : option (Z * param))
        (* a service goroutine about to make its call; None: a call that never reaches the
           route layer (malformed route) *)
  | TRun (ty : Z) (rp : rparam) (pc : prog F) (stk : list wait) (tr : list seen)
        (* the running rule: its type, ITS OWN parameter, the rest of its program; the rules
           waiting for it (innermost first); what has been seen so far *)
  | TDone (n : Z) (tr : list seen).

  (* a rule returned n (doRoute has already turned a panic into "") *)
  Definition ret (n : Z) (stk : list wait) (tr : list seen) : thread :=
    match stk with
    | [] => TDone n tr
    | W ty rp c cty :: s => TRun ty rp (c n) s (tr ++ [VCall (Z.of_nat (length s)) cty n])
    end.

  Definition begin (tab : alist F) (k : option (Z * param)) : thread :=
    match k with
    | None => TDone empty []
    | Some (ty, p) =>
        match enter tab ty p with
        | inl n => TDone n []
        | inr (rp, pc) => TRun ty rp pc [] []
        end
    end.

  (* one step of one goroutine: it reads and writes the registered rules and its OWN state,
     nothing else; it is never refused (nothing in the route layer waits for another call) *)
  Definition tstep (tab : alist F) (t : thread) : alist F * thread :=
    match t with
    | TInit k => (tab, begin tab k)
    | TDone _ _ => (tab, t)
    | TRun ty rp pc stk tr =>
        let d := Z.of_nat (length stk) in
        match pc with
        | PRet r => (tab, ret (name_of r) stk tr)
        | PGet k c =>
            match rp with
            | RPNil => (tab, ret empty stk tr)
            | RPSess dd | RPMap dd =>
                (tab, TRun ty rp (c (dget k dd)) stk (tr ++ [VGet d k (dget k dd)]))
            end
        | PKind c => (tab, TRun ty rp (c (kind_of rp)) stk (tr ++ [VKind d ty (kind_of rp)]))
        | PCall cty p c =>
            match enter tab cty p with
            | inl n => (tab, TRun ty rp (c n) stk (tr ++ [VCall d cty n]))
            | inr (rp2, pc2) => (tab, TRun cty rp2 pc2 (W ty rp c cty :: stk) tr)
            end
        | PReg rty f c => (treg rty f tab, TRun ty rp c stk tr)
        | PYield c => (tab, TRun ty rp c stk tr)
        end
    end.

  Fixpoint iter (k : nat) (s : alist F * thread) : alist F * thread :=
    match k with O => s | S j => iter j (tstep (fst s) (snd s)) end.

  (* a schedule: which goroutine moves next, or a Register made by a goroutine that is not
     routing (rules added or replaced at run time) *)
  Inductive xentry := XRun (i : nat) | XReg (ty : Z) (f : option F).

  Definition pexec (st : alist F * list thread) (e : xentry) : alist F * list thread :=
    match e with
    | XReg ty f => (treg ty f (fst st), snd st)
    | XRun i =>
        match nth_error (snd st) i with
        | None => st
        | Some t => (fst (tstep (fst st) t), upd i (snd (tstep (fst st) t)) (snd st))
        end
    end.

  Definition prun (sched : list xentry) (st : alist F * list thread) : alist F * list thread :=
    fold_left pexec sched st.

  Definition is_run (e : xentry) : bool := match e with XRun _ => true | XReg _ _ => false end.

  Fixpoint ncount (i : nat) (l : list xentry) : nat :=
    match l with
    | [] => O
    | XRun x :: r => ((if Nat.eqb x i then 1 else 0) + ncount i r)%nat
    | XReg _ _ :: r => ncount i r
    end.

  (* ---- the scheduler of the harness, executable: goroutines run one at a time from one
     scheduling point to the next ---- *)
  Inductive sentry :=
  | SRun (i : Z)                        (* goroutine (i mod n) runs, if it is still in its call *)
  | SReg (ty : Z) (f : option F).       (* another goroutine calls Register(ty, f) *)

  Definition is_done (t : thread) : bool := match t with TDone _ _ => true | _ => false end.
  Definition at_yield (t : thread) : bool :=
    match t with TRun _ _ (PYield _) _ _ => true | _ => false end.

  (* run a goroutine until it has passed a scheduling point or its call has returned *)
  Fixpoint macro (fuel : nat) (tab : alist F) (t : thread) : option (alist F * thread) :=
    match fuel with
    | O => None
    | S f =>
        if is_done t then Some (tab, t)
        else if at_yield t then Some (tstep tab t)
        else macro f (fst (tstep tab t)) (snd (tstep tab t))
    end.

  (* registered rules, goroutines, and for each goroutine the rules registered when it made
     its call *)
  Definition sst := (alist F * list thread * list (alist F))%type.

  Definition all_done (pool : list thread) : bool := forallb is_done pool.
  Definition done_at (pool : list thread) (i : nat) : bool :=
    match nth_error pool i with Some t => is_done t | None => true end.

  Definition run_one (i : nat) (st : sst) : option sst :=
    let '(tab, pool, ent) := st in
    match nth_error pool i with
    | None => Some st
    | Some t =>
        match macro STEP_FUEL tab t with
        | None => None
        | Some (tab', t') =>
            Some (tab', upd i t' pool, match t with TInit _ => upd i tab ent | _ => ent end)
        end
    end.

  (* the schedule an OCalls carries; entries are consumed while a call is in flight *)
  Fixpoint sim_sched (sched : list sentry) (st : sst) : option sst :=
    match sched with
    | [] => Some st
    | e :: r =>
        let '(tab, pool, ent) := st in
        if all_done pool then Some st
        else match e with
             | SReg ty f => sim_sched r (treg ty f tab, pool, ent)
             | SRun k =>
                 let i := Z.to_nat (k mod Z.of_nat (length pool)) in
                 if done_at pool i then sim_sched r st
                 else match run_one i st with
                      | None => None
                      | Some st' => sim_sched r st'
                      end
             end
    end.

  (* then round-robin until every call has returned *)
  Fixpoint sim_rr (fuel : nat) (rr : nat) (st : sst) : option sst :=
    let '(tab, pool, ent) := st in
    if all_done pool then Some st
    else match fuel with
         | O => None
         | S f =>
             let i := Nat.modulo rr (length pool) in
             if done_at pool i then sim_rr f (S rr) st
             else match run_one i st with
                  | None => None
                  | Some st' => sim_rr f (S rr) st'
                  end
         end.

  Definition sim (tab : alist F) (ks : list (option (Z * param))) (sched : list sentry)
    : option sst :=
    match sim_sched sched (tab, map TInit ks, map (fun _ => tab) ks) with
    | None => None
    | Some st => sim_rr TURN_FUEL 0 st
    end.
End Progs.

Arguments W {F} ty rp c cty.
Arguments TInit {F} k.
Arguments TRun {F} ty rp pc stk tr.
Arguments TDone {F} n tr.
Arguments XRun {F} i.
Arguments XReg {F} ty f.
Arguments SRun {F} i.
Arguments SReg {F} ty f.
Arguments pre {F A} l x.
Arguments evalp {F} nest tab d pc ty rp.
Arguments ret {F} n stk tr.
Arguments is_done {F} t.
Arguments at_yield {F} t.
Arguments is_run {F} e.
Arguments ncount {F} i l.
Arguments all_done {F} pool.
Arguments done_at {F} pool i.

(* ---- the state machine, for any representation F of route functions ----
   interp f  : what the function answers (Z -> rparam -> res)
   pinterp f : how it gets there (reads, nested calls, registrations, scheduling points) *)
Section Machine.
  Variable F : Type.
  Variable interp : F -> rfn.
  Variable pinterp : F -> rule F.

  Inductive dmode :=
  | DApp              (* node/app's defaultRoute (installed by its init) *)
  | DNone             (* route.SetDefaultRoute(nil) *)
  | DFn (f : F).      (* route.SetDefaultRoute(f) *)

  (* s_self: the address this node knows as its own (Cluster.InitSelf; -1 = not set) *)
  Record st := St { s_fns : alist F; s_dflt : dmode; s_view : view; s_self : Z }.

  Inductive op :=
  | OReg (ty : Z) (f : option F)        (* RouteService.Register(ty, f)  (None = nil func) *)
  | ODefault (d : dmode)                (* route.SetDefaultRoute *)
  | OUpdate (v : view)                  (* Cluster.UpdateClusterTopology(members) *)
  | ORoute (ty : Z) (p : param)         (* RouteService.Route(ty, p) *)
  | ORoutePID (ty : Z) (p : param)      (* app.RoutePID(ty, p) *)
  | ORequest (r : list Z) (p : param)   (* app.Request(ns, r, p, msg, cb) *)
  | ONotify (r : list Z) (p : param)    (* app.Notify(ns, r, p, msg) *)
  | OQuery (front : Z)                  (* app.QuerySession(ns, front, id, cb) *)
  | OKick (front : Z)                   (* app.Kick(ns, front, id, cb) *)
  | OWork (ty : Z)                      (* names of app.GetWorkServices(ty) *)
  | OList (ty : Z)                      (* names of app.GetServices(ty) *)
  | OCalls (cs : list pcall) (sched : list (sentry F))
      (* one call per service goroutine, all in flight together; [sched] says which goroutine
         is let run from one scheduling point to the next, and where other goroutines
         Register meanwhile *)
  | OSelf (a id : Z) (svcs : list (list Z)).
      (* Cluster.InitSelf(address a, node id, own services): which node asks *)

  (* what the model says an operation shows *)
  Inductive mout :=
  | MUnit
  | MName (n : Z)
  | MPid (cands : list pid)             (* [] = nil, else one of cands *)
  | MOut (o : outcome)
  | MNames (l : list Z)
  | MCalls (l : list (mout * option (list seen))).
      (* per call: what it shows and what its rules saw (None: beyond the fuel) *)

  Definition init : st := St [] DApp [] (-1).

  Definition reg_in (tab : alist F) : Z -> option rfn :=
    fun ty => option_map interp (aget ty tab).

  Definition dflt_in (d : dmode) (v : view) : option rfn :=
    match d with
    | DApp => Some (app_default v)
    | DNone => None
    | DFn f => Some (interp f)
    end.

  Definition pdflt_in (d : dmode) (v : view) : option (rule F) :=
    match d with
    | DApp => Some (app_rule v)
    | DNone => None
    | DFn f => Some (pinterp f)
    end.

  Definition op_of_call (c : pcall) : op :=
    match c with
    | CRoute ty p => ORoute ty p
    | CRoutePID ty p => ORoutePID ty p
    | CRequest r p => ORequest r p
    | CNotify r p => ONotify r p
    end.

  (* what a single call shows: a function of the registered functions, the default and the
     CURRENT view only - never of the address of the node that asks *)
  Definition out1 (reg : Z -> option rfn) (dflt : option rfn) (v : view) (o : op) : mout :=
    match o with
    | OReg _ _ | ODefault _ | OUpdate _ | OSelf _ _ _ => MUnit
    | OCalls _ _ => MCalls []          (* not a single call: see [out] *)
    | ORoute ty p => MName (route reg dflt p ty)
    | ORoutePID ty p => MPid (route_pid reg dflt v ty p)
    | ORequest r p => MOut (call reg dflt v true r p)
    | ONotify r p => MOut (call reg dflt v false r p)
    | OQuery f => MOut (front_call v f QUERYSESSION)
    | OKick f => MOut (front_call v f KICK)
    | OWork ty => MNames (map it_name (work_list v ty))
    | OList ty => MNames (map it_name (type_list v ty))
    end.

  Definition seen_of (t : thread F) : option (list seen) :=
    match t with TDone _ tr => Some tr | _ => None end.

  (* calls in flight together: EACH shows exactly what it shows when made alone with the rules
     registered at the moment it is made, and its rules see exactly its own parameter *)
  Definition calls_out (tab : alist F) (d : dmode) (v : view) (cs : list pcall)
      (sched : list (sentry F)) : list (mout * option (list seen)) :=
    match sim F pinterp (pdflt_in d v) tab (map call_key cs) sched with
    | None => map (fun _ => (MUnit, None)) cs
    | Some (_, pool, ent) =>
        map (fun x => (out1 (reg_in (snd (snd x))) (dflt_in d v) v (op_of_call (fst x)),
                       seen_of (fst (snd x))))
            (combine cs (combine pool ent))
    end.

  Definition out (tab : alist F) (d : dmode) (v : view) (o : op) : mout :=
    match o with
    | OCalls cs sched => MCalls (calls_out tab d v cs sched)
    | _ => out1 (reg_in tab) (dflt_in d v) v o
    end.

  (* the (type, parameter) a single-call op hands to the route layer *)
  Definition op_key (o : op) : option (Z * param) :=
    match o with
    | ORoute ty p | ORoutePID ty p => Some (ty, p)
    | ORequest r p | ONotify r p => call_key (CRequest r p)
    | _ => None
    end.

  (* the registered functions after an operation: rules that ran may have registered *)
  Definition fns_after (tab : alist F) (d : dmode) (v : view) (o : op) : alist F :=
    match o with
    | OReg ty f => treg ty f tab
    | OCalls cs sched =>
        match sim F pinterp (pdflt_in d v) tab (map call_key cs) sched with
        | Some (tab', _, _) => tab'
        | None => tab
        end
    | _ =>
        match op_key o with
        | Some (ty, p) =>
            match eval F pinterp (pdflt_in d v) NEST_FUEL tab 0 ty p with
            | Some (_, _, tab') => tab'
            | None => tab
            end
        | None => tab
        end
    end.

  Definition next (s : st) (o : op) : st :=
    St (fns_after (s_fns s) (s_dflt s) (s_view s) o)
       (match o with ODefault d => d | _ => s_dflt s end)
       (match o with OUpdate v => v | _ => s_view s end)
       (match o with OSelf a _ _ => a | _ => s_self s end).

  Definition step (s : st) (o : op) : st * mout :=
    (next s o, out (s_fns s) (s_dflt s) (s_view s) o).

  Fixpoint run_from (s : st) (ops : list op) : st * list mout :=
    match ops with
    | [] => (s, [])
    | o :: r =>
        let '(s1, b) := step s o in
        let '(s2, bs) := run_from s1 r in
        (s2, b :: bs)
    end.

  Definition run (ops : list op) : list mout := snd (run_from init ops).
  Definition final (ops : list op) : st := fst (run_from init ops).
  Definition obs_at (h : list op) (o : op) : mout := snd (step (final h) o).
End Machine.

Arguments DApp {F}.
Arguments DNone {F}.
Arguments DFn {F} f.
Arguments St {F} s_fns s_dflt s_view s_self.
Arguments s_fns {F} s.
Arguments s_dflt {F} s.
Arguments s_view {F} s.
Arguments s_self {F} s.
Arguments OReg {F} ty f.
Arguments ODefault {F} d.
Arguments OUpdate {F} v.
Arguments ORoute {F} ty p.
Arguments ORoutePID {F} ty p.
Arguments ORequest {F} r p.
Arguments ONotify {F} r p.
Arguments OQuery {F} front.
Arguments OKick {F} front.
Arguments OWork {F} ty.
Arguments OList {F} ty.
Arguments OCalls {F} cs sched.
Arguments OSelf {F} a id svcs.
Arguments init {F}.
Arguments reg_in {F} interp tab ty.
Arguments dflt_in {F} interp d v.
Arguments pdflt_in {F} pinterp d v.
Arguments op_of_call {F} c.
Arguments op_key {F} o.
Arguments out1 {F} reg dflt v o.
Arguments seen_of {F} t.
Arguments calls_out {F} interp pinterp tab d v cs sched.
Arguments out {F} interp pinterp tab d v o.
Arguments fns_after {F} pinterp tab d v o.
Arguments next {F} pinterp s o.
Arguments step {F} interp pinterp s o.
Arguments run_from {F} interp pinterp s ops.
Arguments run {F} interp pinterp ops.
Arguments final {F} interp pinterp ops.
Arguments obs_at {F} interp pinterp h o.

(* ---- scripted route functions: the representation the harness uses ----
   Go (harness/c07/calls.go) builds a real route.RouteFunc from the same data. *)
Inductive script :=
| SConst (r : res)
    (* ignores its arguments *)
| SKey (k : Z) (tbl : list (Z * res)) (miss nokey : res)
    (* v := p.Get(key k, nil): calling Get on the nil IRouteParam panics (nil interface);
       absent key -> nokey; value found in tbl -> that result; else miss *)
| SKind (rnil rsess rmap : res)
    (* type switch on p: nil / *session.FrontSession / *route.MapParam *)
| STy (tbl : list (Z * res)) (miss : res)
    (* depends on the service type only (a default function shared by all types) *)
| SPre (pre : list act) (s : script)
    (* first does [pre], then behaves as s *)
with act :=
| AYield                           (* a scheduling point: lets the other goroutines run *)
| ACall (ty : Z) (p : param)       (* route.GetRouteService().Route(ty, p); the answer is only recorded *)
| AGet (k : Z)                     (* p.Get(key k, nil); the value is only recorded *)
| AReg (ty : Z) (f : option script).  (* route.GetRouteService().Register(ty, f) *)

Definition is_get (a : act) : bool := match a with AGet _ => true | _ => false end.

Fixpoint interp_script (s : script) : rfn := fun ty p =>
  match s with
  | SConst r => r
  | SKey k tbl miss nokey =>
      match p with
      | RPNil => RPanic
      | RPSess d | RPMap d =>
          match dget k d with
          | None => nokey
          | Some v => match dget v tbl with Some r => r | None => miss end
          end
      end
  | SKind a b c => match p with RPNil => a | RPSess _ => b | RPMap _ => c end
  | STy tbl miss => match dget ty tbl with Some r => r | None => miss end
  | SPre pre s' =>
      (* Get on the nil IRouteParam panics before s' is reached *)
      match p with
      | RPNil => if existsb is_get pre then RPanic else interp_script s' ty p
      | _ => interp_script s' ty p
      end
  end.

(* the same functions as programs; every scripted function first looks at the kind of its
   parameter (the Go closure records it) *)
Fixpoint pre_prog (pre : list act) (k : prog script) : prog script :=
  match pre with
  | [] => k
  | AYield :: r => PYield (pre_prog r k)
  | ACall cty p :: r => PCall cty p (fun _ => pre_prog r k)
  | AGet key :: r => PGet key (fun _ => pre_prog r k)
  | AReg rty f :: r => PReg rty f (pre_prog r k)
  end.

Fixpoint body (s : script) (ty : Z) : prog script :=
  match s with
  | SConst r => PRet r
  | SKey k tbl miss nokey =>
      PGet k (fun v => match v with
                       | None => PRet nokey
                       | Some x => PRet (match dget x tbl with Some r => r | None => miss end)
                       end)
  | SKind a b c => PKind (fun kd => PRet (match kd with KNil => a | KSess => b | KMap => c end))
  | STy tbl miss => PRet (match dget ty tbl with Some r => r | None => miss end)
  | SPre pre s' => pre_prog pre (body s' ty)
  end.

Definition prog_of_script (s : script) : rule script := fun ty => PKind (fun _ => body s ty).

(* ---- what the harness observes on the real code ---- *)
Inductive obs :=
| BUnit
| BName (n : Z)
| BPid (p : option pid)
| BEvents (l : list event)
| BNames (l : list Z)
| BPanic                           (* a panic escaped the call (the model never allows it) *)
| BHang                            (* the call never returned (the model never allows it) *)
| BCalls (l : list (obs * list seen)).
    (* per call of an OCalls: its own observation and, in order, what each rule invocation
       made for it was handed / read / got back *)
