From Cell2V Require Import Common.Tac Common.ListX Common.AList C07.Model C07.Spec.
From Cell2V Require Export C07.ProgProofs.

(* ================= boolean equalities ================= *)
Lemma pid_eqb_spec (a b : pid) : pid_eqb a b = true <-> a = b.
Proof. apply pair_eqb_spec; apply Z.eqb_eq. Qed.

Lemma pid_eqb_refl (a : pid) : pid_eqb a a = true.
Proof. apply pid_eqb_spec. reflexivity. Qed.

Lemma pmem_In p l : pmem p l = true <-> In p l.
Proof.
  unfold pmem. rewrite existsb_exists. split.
  - intros [x [I E]]. apply pid_eqb_spec in E. subst. exact I.
  - intro I. exists p. split; [exact I | apply pid_eqb_refl].
Qed.

Lemma cbk_eqb_spec a b : cbk_eqb a b = true <-> a = b.
Proof. destruct a, b; simpl; split; intro H; try reflexivity; try discriminate. Qed.

Lemma item_eqb_spec a b : item_eqb a b = true <-> a = b.
Proof.
  destruct a as [t n i s], b as [t' n' i' s']. unfold item_eqb. simpl.
  rewrite !andb_true_iff, !Z.eqb_eq. split.
  - intros [[[-> ->] ->] ->]. reflexivity.
  - intro E. inv E. auto.
Qed.

(* ================= admissible ================= *)
Lemma admissible_b_spec o evs : admissible_b o evs = true <-> admissible o evs.
Proof.
  destruct o as [c req g m|k|]; simpl.
  - destruct evs as [|[p req' g' m'|k'] [|e2 r]]; simpl;
      try (split; [discriminate | intros [p0 [_ E]]; discriminate]).
    rewrite !andb_true_iff, !Z.eqb_eq, pmem_In, Bool.eqb_true_iff. split.
    + intros [[[I ->] ->] ->]. exists p. split; [exact I | reflexivity].
    + intros [p0 [I E]]. inv E. auto.
  - destruct evs as [|[p req' g' m'|k'] [|e2 r]]; simpl; try (split; discriminate).
    rewrite cbk_eqb_spec. split; [intros ->; reflexivity | intro E; inv E; reflexivity].
  - destruct evs; simpl; split; try reflexivity; discriminate.
Qed.

Lemma admissible_no_target req evs : admissible (no_target req) evs <-> evs = none_evs req.
Proof. destruct req; simpl; tauto. Qed.

Lemma admissible_mono c c' req g m evs :
  (forall p, In p c -> In p c') ->
  admissible (OSend c req g m) evs -> admissible (OSend c' req g m) evs.
Proof. intros S [p [I E]]. exists p. split; [apply S; exact I | exact E]. Qed.

(* ================= views ================= *)
Lemma in_svc_item id st s it :
  In it (svc_item id st s) ->
  s = [it_ty it; it_name it] /\ it_ty it <> empty /\ it_name it <> empty
  /\ it_node it = id /\ it_state it = st.
Proof.
  unfold svc_item. destruct s as [|t [|n [|x r]]]; simpl; try tauto.
  destruct (Z.eqb_spec t empty) as [Et|Nt]; simpl; [tauto|].
  destruct (Z.eqb_spec n empty) as [En|Nn]; simpl; [tauto|].
  intros [<-|[]]. simpl. auto.
Qed.

Lemma svc_item_in id st t n :
  t <> empty -> n <> empty -> In (Item t n id st) (svc_item id st [t; n]).
Proof.
  intros Nt Nn. unfold svc_item.
  destruct (Z.eqb_spec t empty); [contradiction|].
  destruct (Z.eqb_spec n empty); [contradiction|]. simpl. auto.
Qed.

Lemma in_items v it :
  In it (items v) <->
  exists nd s, In nd v /\ In s (nsvcs nd) /\ In it (svc_item (nid nd) (nstate nd) s).
Proof.
  unfold items, node_items. rewrite in_flat_map. split.
  - intros [nd [I J]]. apply in_flat_map in J. destruct J as [s [Js Ji]]. eauto.
  - intros [nd [s [I [Js Ji]]]]. exists nd. split; [exact I|].
    apply in_flat_map. eauto.
Qed.

Lemma item_name_nonempty v it : In it (items v) -> it_name it <> empty.
Proof.
  intro I. apply in_items in I. destruct I as [nd [s [_ [_ J]]]].
  apply in_svc_item in J. tauto.
Qed.

Lemma item_ty_nonempty v it : In it (items v) -> it_ty it <> empty.
Proof.
  intro I. apply in_items in I. destruct I as [nd [s [_ [_ J]]]].
  apply in_svc_item in J. tauto.
Qed.

Lemma in_type_list v ty it : In it (type_list v ty) <-> In it (items v) /\ it_ty it = ty.
Proof. unfold type_list. rewrite filter_In, Z.eqb_eq. tauto. Qed.

Lemma in_work_list v ty it :
  In it (work_list v ty) <-> In it (items v) /\ it_ty it = ty /\ it_state it = Working.
Proof. unfold work_list. rewrite filter_In, in_type_list, Z.eqb_eq. tauto. Qed.

Lemma in_named v n it : In it (named v n) <-> In it (items v) /\ it_name it = n.
Proof. unfold named. rewrite filter_In, Z.eqb_eq. tauto. Qed.

Lemma first_named_some n l it :
  first_named n l = Some it -> In it l /\ it_name it = n.
Proof.
  unfold first_named. intro E. apply find_some in E. rewrite Z.eqb_eq in E. exact E.
Qed.

Lemma first_named_none n l it : first_named n l = None -> In it l -> it_name it <> n.
Proof.
  unfold first_named. intros E I. pose proof (find_none _ _ E _ I) as H.
  simpl in H. apply Z.eqb_neq. exact H.
Qed.

(* every admissible directory answer is the pid of an entry carrying that name *)
Lemma dir_cands_named v n p :
  In p (dir_cands v n) ->
  exists it, In it (items v) /\ it_name it = n /\ p = item_pid v it.
Proof.
  unfold dir_cands. rewrite in_flat_map. intros [ty [_ J]].
  destruct (first_named n (type_list v ty)) as [it|] eqn:E; [|contradiction].
  destruct J as [<-|[]]. apply first_named_some in E. destruct E as [I Nm].
  apply in_type_list in I. exists it. tauto.
Qed.

Lemma dir_cands_sub v n p : In p (dir_cands v n) -> In p (pids_named v n).
Proof.
  intro I. apply dir_cands_named in I. destruct I as [it [Ii [Nm ->]]].
  unfold pids_named. apply in_map. apply in_named. tauto.
Qed.

Lemma dir_cands_of_item v it :
  In it (items v) -> exists p, In p (dir_cands v (it_name it)).
Proof.
  intro I. unfold dir_cands.
  destruct (first_named (it_name it) (type_list v (it_ty it))) as [it'|] eqn:E.
  - exists (item_pid v it'). apply in_flat_map. exists (it_ty it). split.
    + apply in_map. exact I.
    + rewrite E. simpl. auto.
  - exfalso. eapply first_named_none; [exact E | | reflexivity].
    apply in_type_list. tauto.
Qed.

Lemma dir_cands_nil_iff v n : dir_cands v n = [] <-> named v n = [].
Proof.
  split; intro H.
  - destruct (named v n) as [|it r] eqn:E; [reflexivity|]. exfalso.
    assert (I : In it (named v n)) by (rewrite E; simpl; auto).
    apply in_named in I. destruct I as [I Nm].
    destruct (dir_cands_of_item v it I) as [p Ip]. rewrite Nm, H in Ip. exact Ip.
  - destruct (dir_cands v n) as [|p r] eqn:E; [reflexivity|]. exfalso.
    assert (I : In p (dir_cands v n)) by (rewrite E; simpl; auto).
    apply dir_cands_sub in I. unfold pids_named in I. rewrite H in I. exact I.
Qed.

Lemma dir_cands_empty_name v : dir_cands v empty = [].
Proof.
  apply dir_cands_nil_iff. destruct (named v empty) as [|it r] eqn:E; [reflexivity|]. exfalso.
  assert (I : In it (named v empty)) by (rewrite E; simpl; auto).
  apply in_named in I. destruct I as [I Nm]. exact (item_name_nonempty v it I Nm).
Qed.

Lemma unique_maps_to v it :
  In it (items v) -> unique_name v (it_name it) -> maps_to v (it_name it) (item_pid v it).
Proof.
  intros I U. split.
  - intro H. destruct (dir_cands_of_item v it I) as [p Ip]. rewrite H in Ip. exact Ip.
  - intros p Ip. apply dir_cands_named in Ip. destruct Ip as [it' [I' [Nm ->]]].
    rewrite (U it' it I' I Nm eq_refl). reflexivity.
Qed.

Lemma unique_b_spec v n : unique_b v n = true <-> unique_name v n.
Proof.
  unfold unique_b, unique_name. split.
  - intros H a b Ia Ib Na Nb.
    assert (Ja : In a (named v n)) by (apply in_named; tauto).
    assert (Jb : In b (named v n)) by (apply in_named; tauto).
    destruct (named v n) as [|x r]; [contradiction|].
    rewrite forallb_forall in H.
    assert (K : forall y, In y (x :: r) -> y = x).
    { intros y [<-|Iy]; [reflexivity|]. symmetry. apply item_eqb_spec. apply H. exact Iy. }
    rewrite (K a Ja), (K b Jb). reflexivity.
  - intro U. destruct (named v n) as [|x r] eqn:E; [reflexivity|].
    apply forallb_forall. intros y Iy. apply item_eqb_spec.
    assert (Jx : In x (named v n)) by (rewrite E; simpl; auto).
    assert (Jy : In y (named v n)) by (rewrite E; simpl; auto).
    apply in_named in Jx. apply in_named in Jy. apply U; tauto.
Qed.

(* an entry of the view is a service listed by one of its nodes *)
Lemma item_listed v it :
  In it (items v) ->
  exists nd, In nd v /\ In [it_ty it; it_name it] (nsvcs nd)
             /\ it_node it = nid nd /\ it_state it = nstate nd.
Proof.
  intro I. apply in_items in I. destruct I as [nd [s [Iv [Is J]]]].
  apply in_svc_item in J. destruct J as [-> [_ [_ [Hn Hs]]]]. exists nd. tauto.
Qed.

Lemma work_item_instance v ty it :
  In it (work_list v ty) -> working_instance v ty (it_name it) (item_pid v it).
Proof.
  intro I. apply in_work_list in I. destruct I as [I [Ty W]].
  destruct (item_listed v it I) as [nd [Iv [Is [Hn Hs]]]].
  exists nd. rewrite <- Hs, <- Ty. unfold item_pid. rewrite Hn. tauto.
Qed.

Lemma working_instance_b_spec v ty n q :
  working_instance_b v ty n q = true <-> working_instance v ty n q.
Proof.
  unfold working_instance_b, working_instance. rewrite existsb_exists. split.
  - intros [nd [I H]]. rewrite !andb_true_iff in H. destruct H as [[W L] P].
    exists nd. apply Z.eqb_eq in W. apply pid_eqb_spec in P.
    apply existsb_exists in L. destruct L as [s [Is Es]].
    apply zlist_eqb_spec in Es. subst s. tauto.
  - intros [nd [I [W [L ->]]]]. exists nd. split; [exact I|].
    rewrite !andb_true_iff. repeat split.
    + apply Z.eqb_eq. exact W.
    + apply existsb_exists. exists [ty; n]. split; [exact L | apply zlist_eqb_spec; reflexivity].
    + apply pid_eqb_refl.
Qed.

(* a working node that lists a well-formed service of the type makes the working list non-empty *)
Lemma work_list_nonempty v ty n nd :
  In nd v -> nstate nd = Working -> In [ty; n] (nsvcs nd) -> ty <> empty -> n <> empty ->
  work_list v ty <> [].
Proof.
  intros I W L Nt Nn H.
  assert (J : In (Item ty n (nid nd) (nstate nd)) (work_list v ty)).
  { apply in_work_list. simpl. split; [|tauto].
    apply in_items. exists nd, [ty; n]. split; [exact I|]. split; [exact L|].
    apply svc_item_in; assumption. }
  rewrite H in J. exact J.
Qed.

Lemma node_addr_unique v nd :
  NoDup (map nid v) -> In nd v -> node_addr v (nid nd) = naddr nd.
Proof.
  unfold node_addr. generalize 0 as a.
  induction v as [|x r IH]; intros a ND I; [contradiction|]. simpl.
  inversion ND as [|? ? Nx NDr]; subst. destruct I as [->|I].
  - rewrite Z.eqb_refl. clear IH ND NDr.
    assert (G : forall l b, ~ In (nid nd) (map nid l) ->
                fold_left (fun a nd0 => if nid nd0 =? nid nd then naddr nd0 else a) l b = b).
    { induction l as [|y l IHl]; intros b N; simpl; [reflexivity|].
      destruct (Z.eqb_spec (nid y) (nid nd)) as [E|_].
      - exfalso. apply N. simpl. auto.
      - apply IHl. intro J. apply N. simpl. auto. }
    apply G. exact Nx.
  - apply IH; assumption.
Qed.

(* ================= the route layer ================= *)
Lemma reserved_empty : reserved empty = true.
Proof. reflexivity. Qed.

Lemma do_route_reg f dflt ty rp :
  do_route (Some f) dflt ty rp = match f ty rp with RName n => n | RPanic => empty end.
Proof. reflexivity. Qed.

Lemma do_route_dflt f ty rp :
  do_route None (Some f) ty rp = match f ty rp with RName n => n | RPanic => empty end.
Proof. reflexivity. Qed.

Lemma route_rule reg dflt ty p rp :
  rule_param p = Some rp -> route reg dflt p ty = do_route (reg ty) dflt ty rp.
Proof. destruct p; simpl; intro E; inv E; reflexivity. Qed.

(* the registered function decides alone, also when it panics: no fall-back to the default *)
Lemma route_registered reg dflt ty p rp f :
  reg ty = Some f -> rule_param p = Some rp ->
  route reg dflt p ty = match f ty rp with RName n => n | RPanic => empty end.
Proof. intros R P. rewrite (route_rule _ _ _ _ _ P), R. reflexivity. Qed.

Lemma route_unregistered reg f ty p rp :
  reg ty = None -> rule_param p = Some rp ->
  route reg (Some f) p ty = match f ty rp with RName n => n | RPanic => empty end.
Proof. intros R P. rewrite (route_rule _ _ _ _ _ P), R. reflexivity. Qed.

Lemma route_no_function reg ty p rp :
  reg ty = None -> rule_param p = Some rp -> route reg None p ty = MissRouteFunc.
Proof. intros R P. rewrite (route_rule _ _ _ _ _ P), R. reflexivity. Qed.

Lemma route_explicit reg dflt ty n : route reg dflt (PStr n) ty = n.
Proof. reflexivity. Qed.

Lemma route_other reg dflt ty k : route reg dflt (POther k) ty = BadRouteParam.
Proof. reflexivity. Qed.

Lemma route_app_default reg v ty p rp :
  reg ty = None -> rule_param p = Some rp ->
  route reg (Some (app_default v)) p ty = default_route v ty.
Proof. intros R P. rewrite (route_unregistered _ _ _ _ _ R P). reflexivity. Qed.

(* [route] and the property's [named_by_rule] say the same thing *)
Lemma route_named reg dflt ty p :
  match named_by_rule reg dflt ty p with
  | Some n => route reg dflt p ty = n
  | None => reserved (route reg dflt p ty) = true
  end.
Proof.
  destruct p as [|d|d|n|k]; simpl; try reflexivity;
    unfold do_route, pick; destruct (reg ty) as [f|]; try destruct dflt as [f|];
    try reflexivity;
    match goal with |- context [f ty ?rp] => destruct (f ty rp) end; reflexivity.
Qed.

Lemma route_pid_spec reg dflt v ty p :
  route_pid reg dflt v ty p =
  match named_by_rule reg dflt ty p with
  | Some n => if reserved n then [] else dir_cands v n
  | None => []
  end.
Proof.
  unfold route_pid. pose proof (route_named reg dflt ty p) as H.
  destruct (named_by_rule reg dflt ty p) as [n|]; rewrite H; reflexivity.
Qed.

Lemma route_pid_known reg dflt v ty p :
  route_pid reg dflt v ty p =
  match named_by_rule reg dflt ty p with
  | Some n => if known v n then dir_cands v n else []
  | None => []
  end.
Proof.
  rewrite route_pid_spec. destruct (named_by_rule reg dflt ty p) as [n|]; [|reflexivity].
  unfold known. destruct (reserved n); simpl; [reflexivity|].
  destruct (named v n) as [|it r] eqn:E; [|reflexivity].
  apply dir_cands_nil_iff. exact E.
Qed.

Lemma known_cands_nonempty v n : known v n = true -> dir_cands v n <> [].
Proof.
  unfold known. rewrite andb_true_iff. intros [_ H] E.
  apply dir_cands_nil_iff in E. rewrite E in H. discriminate.
Qed.

(* ================= Request / Notify ================= *)
Lemma call_shape reg dflt v req t g m p :
  t <> empty ->
  call reg dflt v req [t; g; m] p =
  match route_pid reg dflt v t p with [] => no_target req | c => OSend c req g m end.
Proof.
  intro N. unfold call. destruct (Z.eqb_spec t empty); [contradiction | reflexivity].
Qed.

Lemma call_malformed reg dflt v req r p :
  length r <> 3%nat -> call reg dflt v req r p = no_target req.
Proof.
  intro L. destruct r as [|a [|b [|c [|d r]]]]; simpl in *; try reflexivity. lia.
Qed.

Lemma call_empty_type reg dflt v req g m p :
  call reg dflt v req [empty; g; m] p = no_target req.
Proof. reflexivity. Qed.

Lemma call_no_cands reg dflt v req t g m p :
  route_pid reg dflt v t p = [] -> call reg dflt v req [t; g; m] p = no_target req.
Proof.
  intro E. unfold call. destruct (t =? empty); [reflexivity|]. rewrite E. reflexivity.
Qed.

(* the model's call refines the property's call_spec *)
Lemma call_sound reg dflt v req r p evs :
  admissible (call reg dflt v req r p) evs -> admissible (call_spec reg dflt v req r p) evs.
Proof.
  destruct r as [|t [|g [|m [|x r]]]]; simpl; try (intro H; exact H).
  destruct (t =? empty); [intro H; exact H|].
  rewrite route_pid_known.
  destruct (named_by_rule reg dflt t p) as [n|]; [|intro H; exact H].
  destruct (known v n) eqn:K; [|intro H; exact H].
  pose proof (known_cands_nonempty v n K) as NE.
  destruct (dir_cands v n) as [|q c] eqn:E; [contradiction|].
  rewrite <- E. apply admissible_mono. apply dir_cands_sub.
Qed.

(* C07_target *)
Lemma call_target reg dflt v req t g m p n q :
  t <> empty -> route reg dflt p t = n -> reserved n = false -> maps_to v n q ->
  forall evs, admissible (call reg dflt v req [t; g; m] p) evs <-> evs = [ESend q req g m].
Proof.
  intros Nt R Res [NE U] evs. rewrite (call_shape _ _ _ _ _ _ _ _ Nt).
  unfold route_pid. rewrite R, Res.
  destruct (dir_cands v n) as [|q0 c] eqn:E; [contradiction|]. simpl. split.
  - intros [p0 [I ->]]. rewrite (U p0 I). reflexivity.
  - intros ->. exists q0. split; [auto|]. rewrite (U q0); [reflexivity | simpl; auto].
Qed.

(* without uniqueness: still exactly one send, to an entry carrying that name *)
Lemma call_target_some reg dflt v req t g m p n :
  t <> empty -> route reg dflt p t = n -> reserved n = false -> named v n <> [] ->
  forall evs, admissible (call reg dflt v req [t; g; m] p) evs ->
  exists q, In q (pids_named v n) /\ evs = [ESend q req g m].
Proof.
  intros Nt R Res NE evs. rewrite (call_shape _ _ _ _ _ _ _ _ Nt).
  unfold route_pid. rewrite R, Res.
  destruct (dir_cands v n) as [|q0 c] eqn:E.
  - exfalso. apply NE. apply dir_cands_nil_iff. exact E.
  - rewrite <- E. intros [q [I ->]]. exists q. split; [apply dir_cands_sub; exact I | reflexivity].
Qed.

(* C07_no_service *)
Lemma cause_no_target reg dflt v req r p :
  cause reg dflt v r p -> call reg dflt v req r p = no_target req.
Proof.
  intro C. destruct C as [r p L|g m p|t g m p E|t g m p E|t g m p E|t g m p f rp R P X
                         |t g m p f rp R D P X|t g m p rp R D P W|t g m p rp R D P|t g m k].
  - apply call_malformed. exact L.
  - apply call_empty_type.
  - apply call_no_cands. unfold route_pid. rewrite E. reflexivity.
  - apply call_no_cands. unfold route_pid. rewrite E. reflexivity.
  - apply call_no_cands. unfold route_pid.
    destruct (reserved (route reg dflt p t)); [reflexivity|]. apply dir_cands_nil_iff. exact E.
  - apply call_no_cands. unfold route_pid. rewrite (route_registered _ _ _ _ _ _ R P), X. reflexivity.
  - apply call_no_cands. unfold route_pid. subst dflt.
    rewrite (route_unregistered _ _ _ _ _ R P), X. reflexivity.
  - apply call_no_cands. unfold route_pid. subst dflt.
    rewrite (route_app_default _ _ _ _ _ R P). unfold default_route. rewrite W. reflexivity.
  - apply call_no_cands. unfold route_pid. subst dflt.
    rewrite (route_no_function _ _ _ _ R P). reflexivity.
  - apply call_no_cands. reflexivity.
Qed.

Lemma call_no_service reg dflt v req r p :
  cause reg dflt v r p ->
  forall evs, admissible (call reg dflt v req r p) evs <-> evs = none_evs req.
Proof. intros C evs. rewrite (cause_no_target _ _ _ _ _ _ C). apply admissible_no_target. Qed.

(* the trichotomy: exactly one no-service report, or exactly one send to an entry that
   carries the name the rule returned; nothing else ever *)
Lemma call_never_elsewhere reg dflt v req r p evs :
  admissible (call reg dflt v req r p) evs ->
  evs = none_evs req \/
  exists t g m q, r = [t; g; m] /\ t <> empty /\ reserved (route reg dflt p t) = false
                  /\ In q (pids_named v (route reg dflt p t)) /\ evs = [ESend q req g m].
Proof.
  destruct r as [|t [|g [|m [|x r]]]]; simpl;
    try (intro H; left; apply admissible_no_target; exact H).
  destruct (Z.eqb_spec t empty) as [Et|Nt]; [intro H; left; apply admissible_no_target; exact H|].
  unfold route_pid. destruct (reserved (route reg dflt p t)) eqn:Res;
    [intro H; left; apply admissible_no_target; exact H|].
  destruct (dir_cands v (route reg dflt p t)) as [|q0 c] eqn:E;
    [intro H; left; apply admissible_no_target; exact H|].
  rewrite <- E. intros [q [I ->]]. right. exists t, g, m, q.
  repeat split; try assumption; try reflexivity. apply dir_cands_sub. exact I.
Qed.

Lemma request_not_dropped reg dflt v r p evs :
  admissible (call reg dflt v true r p) evs -> length evs = 1%nat.
Proof.
  intro H. apply call_never_elsewhere in H.
  destruct H as [->|[t [g [m [q [_ [_ [_ [_ ->]]]]]]]]]; reflexivity.
Qed.

Lemma notify_no_callback reg dflt v r p evs c :
  admissible (call reg dflt v false r p) evs -> ~ In (ECb c) evs.
Proof.
  intro H. apply call_never_elsewhere in H.
  destruct H as [->|[t [g [m [q [_ [_ [_ [_ ->]]]]]]]]]; simpl; intuition discriminate.
Qed.

(* reserved words never receive anything, whatever the view lists under them (F10b repaired) *)
Lemma reserved_never_target reg dflt v req r p evs a n b g m :
  reserved n = true -> admissible (call reg dflt v req r p) evs -> ~ In (ESend (a, n) b g m) evs.
Proof.
  intros Res H. apply call_never_elsewhere in H.
  destruct H as [->|[t [g' [m' [q [_ [_ [NR [I ->]]]]]]]]].
  - destruct req; simpl; intuition discriminate.
  - intros [E|[]]. inv E. unfold pids_named in I. apply in_map_iff in I.
    destruct I as [it [Eq Iit]]. apply in_named in Iit. destruct Iit as [_ Nm].
    unfold item_pid in Eq. inv Eq. congruence.
Qed.

(* C07_default *)
Lemma call_default reg v req t g m p rp it rest :
  reg t = None -> rule_param p = Some rp -> work_list v t = it :: rest ->
  working_instance v t (it_name it) (item_pid v it)
  /\ route reg (Some (app_default v)) p t = it_name it
  /\ (unique_name v (it_name it) -> reserved (it_name it) = false ->
      forall evs, admissible (call reg (Some (app_default v)) v req [t; g; m] p) evs
                  <-> evs = [ESend (item_pid v it) req g m]).
Proof.
  intros R P W.
  assert (Iw : In it (work_list v t)) by (rewrite W; simpl; auto).
  assert (Rt : route reg (Some (app_default v)) p t = it_name it).
  { rewrite (route_app_default _ _ _ _ _ R P). unfold default_route. rewrite W. reflexivity. }
  split; [apply work_item_instance; exact Iw|]. split; [exact Rt|].
  intros U Res evs. apply in_work_list in Iw. destruct Iw as [I [Ty _]].
  apply (call_target _ _ _ _ _ _ _ _ (it_name it)); try assumption.
  - rewrite <- Ty. apply (item_ty_nonempty v it I).
  - apply unique_maps_to; assumption.
Qed.

Lemma default_ok_sound reg v req t g m p rp evs :
  reg t = None -> rule_param p = Some rp ->
  admissible (call reg (Some (app_default v)) v req [t; g; m] p) evs ->
  default_ok_b v t evs = true.
Proof.
  intros R P A. unfold default_ok_b. destruct (work_list v t) as [|it rest] eqn:W; [reflexivity|].
  destruct (unique_b v (it_name it) && negb (reserved (it_name it))) eqn:G; [|reflexivity].
  apply andb_true_iff in G. destruct G as [U Res]. apply unique_b_spec in U.
  apply negb_true_iff in Res.
  destruct (call_default reg v req t g m p rp it rest R P W) as [WI [_ H]].
  apply (H U Res) in A. subst evs. apply working_instance_b_spec. exact WI.
Qed.

(* ================= QuerySession / Kick ================= *)
Lemma front_sound v f m evs :
  admissible (front_call v f m) evs -> admissible (front_spec v f m) evs.
Proof.
  unfold front_call, front_spec. destruct (dir_cands v f) as [|q c] eqn:E.
  - apply dir_cands_nil_iff in E. rewrite E. intro H; exact H.
  - destruct (named v f) as [|it r] eqn:N.
    + apply dir_cands_nil_iff in N. rewrite N in E. discriminate.
    + rewrite <- E. cbv iota. apply admissible_mono. apply dir_cands_sub.
Qed.

Lemma front_unknown v f m evs :
  named v f = [] -> (admissible (front_call v f m) evs <-> evs = [ECb NoServiceErr]).
Proof.
  intro N. apply dir_cands_nil_iff in N. unfold front_call. rewrite N. simpl. tauto.
Qed.

Lemma front_target v f m q evs :
  maps_to v f q -> (admissible (front_call v f m) evs <-> evs = [ESend q true SYS m]).
Proof.
  intros [NE U]. unfold front_call. destruct (dir_cands v f) as [|q0 c] eqn:E; [contradiction|].
  simpl. split.
  - intros [p0 [I ->]]. rewrite (U p0 I). reflexivity.
  - intros ->. exists q0. split; [auto|]. rewrite (U q0); [reflexivity | simpl; auto].
Qed.

Lemma front_exactly_one v f m evs :
  admissible (front_call v f m) evs ->
  evs = [ECb NoServiceErr] \/ exists q, In q (pids_named v f) /\ evs = [ESend q true SYS m].
Proof.
  unfold front_call. destruct (dir_cands v f) as [|q0 c] eqn:E; [simpl; auto|].
  rewrite <- E. intros [q [I ->]]. right. exists q. split; [apply dir_cands_sub; exact I | reflexivity].
Qed.

(* ================= the monitor at given functions / default / view ================= *)
Lemma filter_filter {A} (f g : A -> bool) l :
  filter f (filter g l) = filter (fun x => g x && f x) l.
Proof.
  induction l as [|x r IH]; simpl; [reflexivity|].
  destruct (g x); simpl; [destruct (f x); rewrite IH; reflexivity | exact IH].
Qed.

Section At.
  Variable F : Type.
  Variable interp : F -> rfn.

  Lemma default_applies_at_spec (tab : alist F) (d : dmode F) r p t :
    default_applies_at tab d r p = Some t ->
    exists g m rp, r = [t; g; m] /\ rule_param p = Some rp /\ d = DApp
                   /\ aget t tab = None /\ t <> empty.
  Proof.
    unfold default_applies_at.
    destruct r as [|t0 [|g [|m [|x r]]]]; try discriminate;
      destruct (rule_param p) as [rp|]; try discriminate.
    destruct d; try discriminate.
    destruct (Z.eqb_spec t0 empty) as [E|N]; [discriminate|].
    destruct (aget t0 tab) eqn:R; [discriminate|]. intro H. inv H.
    exists g, m, rp. tauto.
  Qed.

  Lemma call_monitor (tab : alist F) d v req r p evs :
    admissible_b (call (reg_in interp tab) (dflt_in interp d v) v req r p) evs = true ->
    admissible_b (call_spec (reg_in interp tab) (dflt_in interp d v) v req r p) evs
    && match default_applies_at tab d r p with
       | Some t => default_ok_b v t evs
       | None => true
       end = true.
  Proof.
    intro A. apply admissible_b_spec in A. apply andb_true_iff. split.
    - apply admissible_b_spec. apply call_sound. exact A.
    - destruct (default_applies_at tab d r p) as [t|] eqn:D; [|reflexivity].
      apply default_applies_at_spec in D. destruct D as [g [m [rp [-> [P [-> [R _]]]]]]].
      simpl in A. eapply default_ok_sound; [|exact P|exact A].
      unfold reg_in. rewrite R. reflexivity.
  Qed.

  Lemma front_monitor v f m evs :
    admissible_b (front_call v f m) evs = true -> admissible_b (front_spec v f m) evs = true.
  Proof.
    intro A. apply admissible_b_spec. apply front_sound. apply admissible_b_spec. exact A.
  Qed.

  Lemma monitor_at (tab : alist F) d v o b :
    admits1 (out1 (reg_in interp tab) (dflt_in interp d v) v o) b = true ->
    op_ok_at interp tab d v o b = true.
  Proof.
    destruct o as [ty f|d'|v'|ty p|ty p|rt p|rt p|f|f|ty|ty|cs sc|a i sv]; simpl;
      destruct b as [|n|po|evs|l| | |l]; simpl; try discriminate; try (intro; reflexivity).
    - (* Route *) intro E. apply Z.eqb_eq in E. subst. apply Z.eqb_refl.
    - (* RoutePID *)
      rewrite route_pid_known.
      destruct (named_by_rule (reg_in interp tab) (dflt_in interp d v) ty p) as [n|].
      + destruct (known v n) eqn:K.
        * destruct po as [q|].
          -- intro M. apply pmem_In in M. simpl. apply pmem_In. apply dir_cands_sub. exact M.
          -- pose proof (known_cands_nonempty _ _ K) as NE.
             destruct (dir_cands v n); [contradiction | discriminate].
        * destruct po as [q|]; [discriminate | reflexivity].
      + destruct po as [q|]; [discriminate | reflexivity].
    - (* Request *) apply call_monitor.
    - (* Notify *) apply call_monitor.
    - (* Query *) apply front_monitor.
    - (* Kick *) apply front_monitor.
    - (* Work *) unfold work_list, type_list. rewrite filter_filter. intro H.
      apply zlist_eqb_spec in H. apply zlist_eqb_spec. symmetry. exact H.
    - (* List *) intro H. apply zlist_eqb_spec in H. apply zlist_eqb_spec. symmetry. exact H.
  Qed.

  (* calls in flight together, given what the scheduler run leaves *)
  Lemma calls_list d v : forall cs (pool : list (thread F)) (ent : list (alist F)) l,
    Forall2 (tinv F) (map call_key cs) pool ->
    all2b admits_call
      (map (fun x => (out1 (reg_in interp (snd (snd x))) (dflt_in interp d v) v
                           (@op_of_call F (fst x)),
                      seen_of (fst (snd x))))
           (combine cs (combine pool ent))) l = true ->
    all2b (call_ok_at interp d v) (combine cs ent) l = true.
  Proof.
    induction cs as [|c r IH]; intros pool ent l H A.
    - simpl in *. exact A.
    - inversion H as [|k t ks pool' Tk Hr]; subst. destruct ent as [|e ent'].
      + simpl in *. exact A.
      + cbn [combine map all2b] in *. destruct l as [|y l']; [discriminate|].
        apply andb_true_iff in A. destruct A as [AC R]. apply andb_true_iff. split.
        * unfold admits_call in AC. cbn [fst snd] in AC. apply andb_true_iff in AC.
          destruct AC as [A1 T]. unfold call_ok_at. cbn [fst snd]. apply andb_true_iff. split.
          -- apply monitor_at. exact A1.
          -- destruct t as [k0|ty rp pc stk tr|n tr]; simpl in T; try discriminate.
             apply seen_list_eqb_spec in T. subst tr.
             apply call_sees_own_b_spec. exact Tk.
        * eapply IH; eassumption.
  Qed.
End At.

(* ================= histories ================= *)
Section Hist.
  Variable F : Type.
  Variable interp : F -> rfn.
  Variable pinterp : F -> rule F.

  Lemma run_from_app h1 : forall (s : st F) h2,
    run_from interp pinterp s (h1 ++ h2) =
    (fst (run_from interp pinterp (fst (run_from interp pinterp s h1)) h2),
     snd (run_from interp pinterp s h1) ++ snd (run_from interp pinterp (fst (run_from interp pinterp s h1)) h2)).
  Proof.
    induction h1 as [|o r IH]; intros s h2; simpl.
    - destruct (run_from interp pinterp s h2); reflexivity.
    - rewrite IH. destruct (run_from interp pinterp (next pinterp s o) r) as [s2 bs]. simpl.
      destruct (run_from interp pinterp s2 h2) as [s3 bs3]. reflexivity.
  Qed.

  Lemma final_snoc h o : final interp pinterp (h ++ [o]) = next pinterp (final interp pinterp h) o.
  Proof.
    unfold final. rewrite run_from_app. simpl.
    destruct (run_from interp pinterp init h) as [s bs]. reflexivity.
  Qed.

  Lemma run_snoc h o : run interp pinterp (h ++ [o]) = run interp pinterp h ++ [obs_at interp pinterp h o].
  Proof.
    unfold run, obs_at, final. rewrite run_from_app. simpl.
    destruct (run_from interp pinterp init h) as [s bs]. reflexivity.
  Qed.

  (* the state is the history functions *)
  Lemma final_view h : s_view (final interp pinterp h) = last_view h.
  Proof.
    induction h as [|o r IH] using rev_ind; [reflexivity|].
    rewrite final_snoc. unfold last_view. rewrite fold_left_app. simpl.
    fold (last_view r). rewrite <- IH. destruct o; reflexivity.
  Qed.

  Lemma final_dflt h : s_dflt (final interp pinterp h) = dflt_at h.
  Proof.
    induction h as [|o r IH] using rev_ind; [reflexivity|].
    rewrite final_snoc. unfold dflt_at. rewrite fold_left_app. simpl.
    fold (dflt_at r). rewrite <- IH. destruct o; reflexivity.
  Qed.

  Lemma final_self h : s_self (final interp pinterp h) = self_at h.
  Proof.
    induction h as [|o r IH] using rev_ind; [reflexivity|].
    rewrite final_snoc. unfold self_at. rewrite fold_left_app. simpl.
    fold (self_at r). rewrite <- IH. destruct o; reflexivity.
  Qed.

  (* the registered functions after one more operation *)
  Lemma fns_at_snoc h o :
    fns_at interp pinterp (h ++ [o])
    = fns_after pinterp (fns_at interp pinterp h) (dflt_at h) (last_view h) o.
  Proof. unfold fns_at. rewrite final_snoc. simpl. rewrite final_dflt, final_view. reflexivity. Qed.

  Lemma fns_at_reg h ty f :
    fns_at interp pinterp (h ++ [OReg ty f]) = treg ty f (fns_at interp pinterp h).
  Proof. rewrite fns_at_snoc. reflexivity. Qed.

  (* C07_view_updates *)
  Lemma obs_at_history h o :
    obs_at interp pinterp h o
    = out interp pinterp (fns_at interp pinterp h) (dflt_at h) (last_view h) o.
  Proof. unfold obs_at, step. simpl. rewrite final_dflt, final_view. reflexivity. Qed.

  Lemma last_view_update (h : list (op F)) v : last_view (h ++ [OUpdate v]) = v.
  Proof. unfold last_view. rewrite fold_left_app. reflexivity. Qed.

  Lemma last_view_frame (h : list (op F)) o :
    (forall v, o <> OUpdate v) -> last_view (h ++ [o]) = last_view h.
  Proof.
    intro N. unfold last_view. rewrite fold_left_app. simpl.
    destruct o; try reflexivity. exfalso. eapply N. reflexivity.
  Qed.

  (* which node asks does not matter: no decision reads the node's own address *)
  Lemma self_irrelevant h a i sv o :
    obs_at interp pinterp (h ++ [OSelf a i sv]) o = obs_at interp pinterp h o.
  Proof.
    rewrite !obs_at_history, fns_at_snoc. unfold last_view, dflt_at.
    rewrite !fold_left_app. reflexivity.
  Qed.

  (* decision operations change neither the view, nor the default, nor the own address ... *)
  Lemma decision_frame (s : st F) (o : op F) :
    is_decision o = true ->
    s_view (next pinterp s o) = s_view s /\ s_dflt (next pinterp s o) = s_dflt s
    /\ s_self (next pinterp s o) = s_self s.
  Proof. destruct o; simpl; try discriminate; auto. Qed.

  (* ... and the registered functions only through a rule that calls Register *)
  Lemma decision_frame_table (s : st F) (o : op F) :
    is_decision o = true -> (forall cs sc, o <> OCalls cs sc) ->
    rules_regfree F pinterp (pdflt_in pinterp (s_dflt s) (s_view s)) (s_fns s) ->
    s_fns (next pinterp s o) = s_fns s.
  Proof.
    intros D N R. unfold next. cbn [s_fns]. unfold fns_after.
    destruct o as [ty f|d'|v'|ty p|ty p|rt p|rt p|f|f|ty|ty|cs sc|a i sv]; try discriminate;
      try reflexivity; try (exfalso; eapply N; reflexivity);
      match goal with
      | |- context [op_key ?o] => destruct (op_key o) as [[ty0 p0]|]; [|reflexivity]
      end;
      match goal with
      | |- context [eval ?a ?b ?c ?d ?e ?f ?g ?h] =>
          destruct (eval a b c d e f g h) as [[[n t] tab1]|] eqn:E; [|reflexivity]
      end;
      eapply eval_keeps; eassumption.
  Qed.

  (* ---- the proven model satisfies the monitored property ---- *)
  Lemma sim_nil dflt (tab : alist F) sched : sim F pinterp dflt tab [] sched = Some (tab, [], []).
  Proof. unfold sim. destruct sched; reflexivity. Qed.

  Lemma monitor_calls tab d v cs sched l :
    all2b admits_call (calls_out interp pinterp tab d v cs sched) l = true ->
    calls_ok_b interp pinterp tab d v cs sched l = true.
  Proof.
    unfold calls_out, calls_ok_b.
    destruct (sim F pinterp (pdflt_in pinterp d v) tab (map call_key cs) sched)
      as [[[tab' pool] ent]|] eqn:S.
    - apply calls_list. eapply sim_inv. exact S.
    - destruct cs as [|c r]; [simpl in S; rewrite sim_nil in S; discriminate|].
      destruct l as [|y l']; simpl; [discriminate|].
      unfold admits_call. simpl. rewrite andb_false_r. discriminate.
  Qed.

  Lemma monitor_step h o b :
    admits (obs_at interp pinterp h o) b = true -> op_ok_b interp pinterp h o b = true.
  Proof.
    rewrite obs_at_history.
    destruct o as [ty f|d'|v'|ty p|ty p|rt p|rt p|f|f|ty|ty|cs sc|a i sv];
      try (destruct b as [|n|po|evs|l| | |l]; try discriminate; apply monitor_at).
    destruct b as [|n|po|evs|l| | |l]; try discriminate. apply monitor_calls.
  Qed.

  Lemma monitor_all_from : forall ops hist bs,
    admits_all (snd (run_from interp pinterp (final interp pinterp hist) ops)) bs = true ->
    monitor_from interp pinterp hist ops bs = true.
  Proof.
    induction ops as [|o r IH]; intros hist bs; simpl.
    - destruct bs; [reflexivity | discriminate].
    - destruct (run_from interp pinterp (next pinterp (final interp pinterp hist) o) r) as [s2 ms] eqn:E.
      simpl. destruct bs as [|b br]; [discriminate|]. rewrite andb_true_iff. intros [A R].
      apply andb_true_iff. split.
      + apply monitor_step. exact A.
      + apply IH. rewrite final_snoc, E. exact R.
  Qed.

  Lemma monitor_all ops bs :
    admits_all (run interp pinterp ops) bs = true -> monitor_from interp pinterp [] ops bs = true.
  Proof. apply (monitor_all_from ops []). Qed.
End Hist.

(* C07_default in the property's own words: some node in working state lists a service of
   the type *)
Lemma call_default_exists reg v req t g m p rp n0 nd :
  reg t = None -> rule_param p = Some rp ->
  In nd v -> nstate nd = Working -> In [t; n0] (nsvcs nd) -> t <> empty -> n0 <> empty ->
  exists n q,
    working_instance v t n q
    /\ route reg (Some (app_default v)) p t = n
    /\ (unique_name v n -> reserved n = false ->
        forall evs, admissible (call reg (Some (app_default v)) v req [t; g; m] p) evs
                    <-> evs = [ESend q req g m]).
Proof.
  intros R P I W L Nt Nn.
  pose proof (work_list_nonempty v t n0 nd I W L Nt Nn) as NE.
  destruct (work_list v t) as [|it rest] eqn:E; [contradiction|].
  exists (it_name it), (item_pid v it). apply (call_default reg v req t g m p rp it rest R P E).
Qed.

(* without unique names the default route can reach an entry on a node that is NOT working:
   the directory is keyed by name only (cell2 logs "duplicate service name") *)
Definition dup_view : view := [Node 1 1 3 [[1; 1]]; Node 2 2 Working [[1; 1]]].

Lemma default_dup_witness :
  (forall evs, admissible (call (fun _ => None) (Some (app_default dup_view)) dup_view true
                                [1; 5; 6] PNil) evs <-> evs = [ESend (1, 1) true 5 6])
  /\ (exists q, working_instance dup_view 1 (default_route dup_view 1) q)
  /\ ~ working_instance dup_view 1 (default_route dup_view 1) (1, 1)
  /\ ~ unique_name dup_view (default_route dup_view 1).
Proof.
  split; [|split; [|split]].
  - intro evs.
    change (call (fun _ => None) (Some (app_default dup_view)) dup_view true [1; 5; 6] PNil)
      with (OSend [(1, 1); (1, 1)] true 5 6).
    split.
    + intros [p [[<-|[<-|[]]] ->]]; reflexivity.
    + intros ->. exists (1, 1). simpl. auto.
  - exists (2, 1). apply working_instance_b_spec. vm_compute. reflexivity.
  - intro H. apply working_instance_b_spec in H. vm_compute in H. discriminate.
  - intro H. apply unique_b_spec in H. vm_compute in H. discriminate.
Qed.
