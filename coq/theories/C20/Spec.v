(* C20 - the property as functions of the operation history alone (no zones, no index).
   [hents h] is "the entities present after history h with their current positions":
     OInit (valid)   a new, empty space
     OAdd id p       id becomes present at p - unless it is already present (AddEntity ignores it)
     OMove id p      a present id is now at p; an absent id stays absent
     ORemove id      id is absent
   [expected h p r f] is the answer the property demands of a range query after h. *)
From Cell2V Require Import Common.Tac Common.ListX Common.AList C20.Model.

Definition hstep (m : alist pos) (o : op) : alist pos :=
  match o with
  | OInit bx bz ex ez sz => if init_ok bx bz ex ez sz then [] else m
  | OAdd id x y z => match aget id m with Some _ => m | None => aset id (mkpos x y z) m end
  | OMove id x y z => match aget id m with Some _ => aset id (mkpos x y z) m | None => m end
  | ORemove id => adel id m
  | OSearch _ _ _ _ _ _ | OFloat _ _ => m
  end.

Definition hents (h : list op) : alist pos := fold_left hstep h [].

(* where entity id is after h, if it is present *)
Definition where_is (h : list op) (id : Z) : option pos := aget id (hents h).

(* "id must be reported by a query (p, r) with searcher filter f after h" *)
Definition must_report (h : list op) (p : pos) (r : Z) (f : Z -> bool) (id : Z) : Prop :=
  exists q, where_is h id = Some q /\ within p q r = true /\ f id = true.

Definition must_report_b (h : list op) (p : pos) (r : Z) (f : Z -> bool) (id : Z) : bool :=
  match where_is h id with Some q => within p q r && f id | None => false end.

(* the demanded answer as a sorted list (keys of [hents] are ascending) *)
Definition expected (h : list op) (p : pos) (r : Z) (f : Z -> bool) : list Z :=
  filter (must_report_b h p r f) (akeys (hents h)).

Definition valid_grid (g : grid) : Prop := 0 < gsize g /\ 1 <= gw g /\ 1 <= gh g.

(* what one observation must be, given the history before it - executable, run on the
   implementation's own trace *)
Definition obs_ok (h : list op) (o : op) (b : obs) : bool :=
  match o, b with
  | OInit bx bz ex ez sz, BUnit => init_ok bx bz ex ez sz
  | OInit bx bz ex ez sz, BBadInit => negb (init_ok bx bz ex ez sz)
  | (OAdd _ _ _ _ | OMove _ _ _ _ | ORemove _), BUnit => true
  | OSearch x y z r e mode, BFound ids simple =>
      simple && zlist_eqb ids (expected h (mkpos x y z) (radius r e) (searcher mode))
  | OFloat _ _, BFloat ok => ok
  | _, _ => false
  end.

Fixpoint trace_ok (h : list op) (ops : list op) (bs : list obs) : bool :=
  match ops, bs with
  | [], [] => true
  | o :: r, b :: br => obs_ok h o b && trace_ok (h ++ [o]) r br
  | _, _ => false
  end.

(* observation of op o issued after history h, in the model *)
Definition obs_at (h : list op) (o : op) : obs := snd (step (final h) o).
