(* C20 - correspondence entry point: executable comparison of the model's outputs with the
   implementation's observed outputs, and the property monitor (the history-function spec
   evaluated on the implementation's own trace).  Used by generated case files. *)
From Cell2V Require Import Common.Tac Common.ListX Common.AList C20.Model C20.Spec.

Definition obs_eqb (a b : obs) : bool :=
  match a, b with
  | BUnit, BUnit => true
  | BBadInit, BBadInit => true
  | BPanic, BPanic => true
  | BFound x sx, BFound y sy => zlist_eqb x y && Bool.eqb sx sy
  | BFloat x, BFloat y => Bool.eqb x y
  | _, _ => false
  end.

Definition case := (list op * list obs)%type.

Definition agree (c : case) : bool := list_eqb obs_eqb (run (fst c)) (snd c).

Definition monitor (c : case) : bool := trace_ok [] (fst c) (snd c).

Definition disagreeing (cs : list case) : list Z := failing agree cs.
Definition monitor_failing (cs : list case) : list Z := failing monitor cs.
