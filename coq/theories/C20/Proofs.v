(* C20 - all lemmas and proofs. *)
From Cell2V Require Import Common.Tac Common.ListX Common.AList C20.Model C20.Spec.
From Coq Require Import Permutation Sorting.Sorted.

(* ------------------------------------------------------------------ arithmetic *)
Lemma clampz_range q max : 1 <= max -> 0 <= clampz q max < max.
Proof.
  intro H. unfold clampz. destruct (Z.ltb_spec q 0); [lia|].
  destruct (Z.leb_spec max q); lia.
Qed.

Lemma clampz_mono q q' max : 1 <= max -> q <= q' -> clampz q max <= clampz q' max.
Proof.
  intros H L. unfold clampz.
  destruct (Z.ltb_spec q 0); destruct (Z.ltb_spec q' 0);
    destruct (Z.leb_spec max q); destruct (Z.leb_spec max q'); lia.
Qed.

Lemma zone_n_range n b step max : 1 <= max -> 0 <= zone_n n b step max < max.
Proof. intro H. unfold zone_n. apply clampz_range. exact H. Qed.

(* the key lemma: the coordinate -> zone map is monotone, clamping included *)
Lemma zone_n_mono n n' b step max :
  0 < step -> 1 <= max -> n <= n' -> zone_n n b step max <= zone_n n' b step max.
Proof.
  intros Hs Hm L. unfold zone_n. apply clampz_mono; [exact Hm|].
  apply Z.quot_le_mono; lia.
Qed.

(* truncation and floor only differ below zero, where both are clamped to zone 0 *)
Lemma zone_n_floor n b step max :
  0 < step -> 1 <= max -> zone_n n b step max = clampz ((n - b) / step) max.
Proof.
  intros Hs Hm. unfold zone_n.
  destruct (Z.le_gt_cases 0 (n - b)) as [P|N].
  - rewrite Z.quot_div_nonneg by lia. reflexivity.
  - assert (Q : Z.quot (n - b) step <= 0).
    { replace 0 with (Z.quot 0 step) by (apply Z.quot_0_l; lia). apply Z.quot_le_mono; lia. }
    assert (D : (n - b) / step < 0) by (apply Z.div_lt_upper_bound; lia).
    unfold clampz. destruct (Z.ltb_spec ((n - b) / step) 0); [|lia].
    destruct (Z.ltb_spec (Z.quot (n - b) step) 0); [reflexivity|].
    destruct (Z.leb_spec max (Z.quot (n - b) step)); lia.
Qed.

(* change of unit *)
Lemma zone_n_scale k n b step max :
  0 < k -> step <> 0 -> zone_n (k * n) (k * b) (k * step) max = zone_n n b step max.
Proof.
  intros Hk Hs. unfold zone_n.
  replace (k * n - k * b) with (k * (n - b)) by ring.
  rewrite Z.quot_mul_cancel_l by lia. reflexivity.
Qed.

Definition scale_pos (k : Z) (p : pos) : pos := mkpos (k * px p) (k * py p) (k * pz p).

Lemma dist2_scale k p q : dist2 (scale_pos k p) (scale_pos k q) = k * k * dist2 p q.
Proof. unfold dist2, scale_pos; cbn [px py pz]. ring. Qed.

Lemma within_scale k p q r :
  0 < k -> within (scale_pos k p) (scale_pos k q) (k * r) = within p q r.
Proof.
  intro Hk. unfold within. rewrite dist2_scale.
  replace (k * r * (k * r)) with (k * k * (r * r)) by ring.
  assert (K : 0 < k * k) by nia.
  destruct (Z.leb_spec 0 r); destruct (Z.leb_spec 0 (k * r)); try nia; cbn [andb]; try reflexivity.
Qed.

Lemma sq_le_abs a r : 0 <= r -> a * a <= r * r -> - r <= a <= r.
Proof. intros. nia. Qed.

Lemma within_box p q r :
  within p q r = true ->
  px p - r <= px q <= px p + r /\ pz p - r <= pz q <= pz p + r.
Proof.
  unfold within, dist2. intro H. apply andb_true_iff in H. destruct H as [R D].
  apply Z.leb_le in R. apply Z.leb_le in D.
  pose proof (Z.square_nonneg (px p - px q)) as SX.
  pose proof (Z.square_nonneg (py p - py q)) as SY.
  pose proof (Z.square_nonneg (pz p - pz q)) as SZ.
  assert (A : (px p - px q) * (px p - px q) <= r * r) by lia.
  assert (B : (pz p - pz q) * (pz p - pz q) <= r * r) by lia.
  apply sq_le_abs in A; [|exact R]. apply sq_le_abs in B; [|exact R]. lia.
Qed.

(* ------------------------------------------------------------------ lists *)
Lemma zrange_In a b x : In x (zrange a b) <-> a <= x <= b.
Proof.
  unfold zrange. rewrite in_map_iff. split.
  - intros [i [E I]]. apply in_seq in I. lia.
  - intro H. exists (Z.to_nat (x - a)). split; [lia|]. apply in_seq. lia.
Qed.

Lemma NoDup_map_inj {A B} (f : A -> B) l :
  (forall x y, In x l -> In y l -> f x = f y -> x = y) -> NoDup l -> NoDup (map f l).
Proof.
  intros Inj N. induction N as [|x l NI N IH]; cbn [map]; [constructor|].
  constructor.
  - intro I. apply in_map_iff in I. destruct I as [y [E I]].
    assert (y = x) by (apply Inj; [right; exact I | left; reflexivity | exact E]). subst. contradiction.
  - apply IH. intros a b Ia Ib. apply Inj; right; assumption.
Qed.

Lemma zrange_NoDup a b : NoDup (zrange a b).
Proof.
  unfold zrange. apply NoDup_map_inj; [|apply seq_NoDup]. intros x y _ _ E. lia.
Qed.

Lemma NoDup_app_intro {A} (l1 l2 : list A) :
  NoDup l1 -> NoDup l2 -> (forall x, In x l1 -> ~ In x l2) -> NoDup (l1 ++ l2).
Proof.
  intros N1 N2 D. induction N1 as [|x l NI N IH]; cbn [app]; [exact N2|].
  constructor.
  - intro I. apply in_app_or in I. destruct I as [I|I]; [contradiction|].
    apply (D x); [left; reflexivity | exact I].
  - apply IH. intros y Iy. apply D. right. exact Iy.
Qed.

Lemma NoDup_flat_map {A B} (F : A -> list B) l :
  NoDup l -> (forall a, In a l -> NoDup (F a)) ->
  (forall a a' x, In a l -> In a' l -> In x (F a) -> In x (F a') -> a = a') ->
  NoDup (flat_map F l).
Proof.
  intros N. induction N as [|a l NI N IH]; intros NF D; cbn [flat_map]; [constructor|].
  apply NoDup_app_intro.
  - apply NF. left. reflexivity.
  - apply IH; [intros; apply NF; right; assumption|].
    intros b b' x Ib Ib'. apply D; right; assumption.
  - intros x Ix I. apply in_flat_map in I. destruct I as [b [Ib Ixb]].
    assert (a = b) by (apply (D a b x); [left; reflexivity | right; exact Ib | exact Ix | exact Ixb]).
    subst. contradiction.
Qed.

Lemma in_snoc {A} (l : list A) x y : In x (l ++ [y]) <-> In x l \/ x = y.
Proof.
  rewrite in_app_iff. cbn [In]. split.
  - intros [H|[H|[]]]; [left; exact H | right; symmetry; exact H].
  - intros [H|H]; [left; exact H | right; left; symmetry; exact H].
Qed.

Lemma NoDup_snoc {A} (l : list A) y : NoDup l -> ~ In y l -> NoDup (l ++ [y]).
Proof.
  intros N NI. apply NoDup_app_intro; [exact N | constructor; [intros [] | constructor] |].
  intros x Ix [E|[]]. subst. contradiction.
Qed.

Lemma remove_first_In x y l : NoDup l -> (In x (remove_first y l) <-> x <> y /\ In x l).
Proof.
  intro N. induction N as [|z l NI N IH]; cbn [remove_first In]; [tauto|].
  destruct (Z.eqb_spec y z) as [E|NE].
  - subst. split.
    + intro I. split; [intro E; subst; contradiction | right; exact I].
    + intros [NE [E|I]]; [congruence | exact I].
  - cbn [In]. rewrite IH. split.
    + intros [E|[NE2 I]]; [subst; split; [congruence | left; reflexivity] | split; [exact NE2 | right; exact I]].
    + intros [NE2 [E|I]]; [left; exact E | right; split; assumption].
Qed.

Lemma remove_first_NoDup y l : NoDup l -> NoDup (remove_first y l).
Proof.
  intro N. induction N as [|z l NI N IH]; cbn [remove_first]; [constructor|].
  destruct (Z.eqb y z); [exact N|].
  constructor; [|exact IH]. intro I. apply remove_first_In in I; [|exact N]. tauto.
Qed.

(* ------------------------------------------------------------------ zones as a total map *)
Lemma zl_aset_same k v zs : zl (aset k v zs) k = v.
Proof. unfold zl. rewrite aget_aset_same. reflexivity. Qed.

Lemma zl_aset_other k k' v zs : k' <> k -> zl (aset k v zs) k' = zl zs k'.
Proof. intro N. unfold zl. rewrite aget_aset_other by exact N. reflexivity. Qed.

Lemma zl_nil k : zl [] k = [].
Proof. reflexivity. Qed.

(* ------------------------------------------------------------------ the index invariant *)
Record Inv (s : st) : Prop := mkInv {
  inv_sorted : sorted (ents s);
  inv_grid : valid_grid (sg s);
  (* every entity's recorded zone index is the zone of its current position *)
  inv_idx : forall id e, aget id (ents s) = Some e -> ezi e = zidx (sg s) (epos e);
  (* a zone lists exactly the entities whose recorded index it is *)
  inv_in : forall k id, In id (zl (zones s) k) <-> exists e, aget id (ents s) = Some e /\ ezi e = k;
  (* ... once *)
  inv_nodup : forall k, NoDup (zl (zones s) k) }.

Lemma zidx_range g p : valid_grid g -> 0 <= zidx g p < gw g * gh g.
Proof.
  intros [Hs [Hw Hh]]. unfold zidx, zz, zx.
  pose proof (zone_n_range (pz p) (gbz g) (gsize g) (gh g) Hh) as Z1.
  pose proof (zone_n_range (px p) (gbx g) (gsize g) (gw g) Hw) as X1.
  nia.
Qed.

Lemma mk_grid_valid bx bz ex ez sz : init_ok bx bz ex ez sz = true -> valid_grid (mk_grid bx bz ex ez sz).
Proof.
  unfold init_ok. intro H. apply andb_true_iff in H. destruct H as [H H3].
  apply andb_true_iff in H. destruct H as [H1 H2].
  apply Z.ltb_lt in H1. apply Z.leb_le in H2. apply Z.leb_le in H3.
  unfold valid_grid, mk_grid; cbn [gsize gw gh].
  pose proof (Z.quot_pos (ex - bx) sz) as A. pose proof (Z.quot_pos (ez - bz) sz) as B. lia.
Qed.

Lemma default_grid_valid : valid_grid default_grid.
Proof. apply mk_grid_valid. reflexivity. Qed.

Lemma Inv_fresh g : valid_grid g -> Inv (fresh g).
Proof.
  intro V. constructor; cbn [fresh ents zones sg].
  - exact I.
  - exact V.
  - intros id e H. discriminate H.
  - intros k id. rewrite zl_nil. split; [intros [] | intros [e [H _]]; discriminate H].
  - intro k. rewrite zl_nil. constructor.
Qed.

Lemma Inv_add s id p : Inv s -> Inv (add_entity s id p).
Proof.
  intros I0. pose proof I0 as [S G IX IN ND]. unfold add_entity.
  destruct (aget id (ents s)) eqn:A; [exact I0|].
  set (k := zidx (sg s) p).
  constructor; cbn [ents zones sg].
  - apply sorted_aset. exact S.
  - exact G.
  - intros id' e H. destruct (Z.eq_dec id' id) as [->|NE].
    + rewrite aget_aset_same in H. inv H. reflexivity.
    + rewrite aget_aset_other in H by exact NE. apply IX in H. exact H.
  - intros k' id'. destruct (Z.eq_dec k' k) as [->|NK].
    + rewrite zl_aset_same, in_snoc, IN. split.
      * intros [[e [H E]] | ->].
        -- exists e. split; [|exact E]. rewrite aget_aset_other; [exact H|]. intro; subst; congruence.
        -- exists (mkent p k). split; [apply aget_aset_same | reflexivity].
      * intros [e [H E]]. destruct (Z.eq_dec id' id) as [->|NE]; [right; reflexivity|].
        left. rewrite aget_aset_other in H by exact NE. exists e. split; assumption.
    + rewrite zl_aset_other by exact NK. rewrite IN. split.
      * intros [e [H E]]. exists e. split; [|exact E]. rewrite aget_aset_other; [exact H|]. intro; subst; congruence.
      * intros [e [H E]]. destruct (Z.eq_dec id' id) as [->|NE].
        -- rewrite aget_aset_same in H. inv H. cbn [ezi] in NK. exfalso. apply NK. reflexivity.
        -- rewrite aget_aset_other in H by exact NE. exists e. split; assumption.
  - intro k'. destruct (Z.eq_dec k' k) as [->|NK].
    + rewrite zl_aset_same. apply NoDup_snoc; [apply ND|].
      intro I1. apply IN in I1. destruct I1 as [e [H _]]. congruence.
    + rewrite zl_aset_other by exact NK. apply ND.
Qed.

Lemma Inv_remove s id : Inv s -> Inv (remove_entity s id).
Proof.
  intros I0. pose proof I0 as [S G IX IN ND]. unfold remove_entity.
  destruct (aget id (ents s)) as [e|] eqn:A; [|exact I0].
  constructor; cbn [ents zones sg].
  - apply sorted_adel. exact S.
  - exact G.
  - intros id' e' H. destruct (Z.eq_dec id' id) as [->|NE].
    + rewrite aget_adel_same in H. discriminate H.
    + rewrite aget_adel_other in H by exact NE. exact (IX _ _ H).
  - intros k' id'. destruct (Z.eq_dec k' (ezi e)) as [->|NK].
    + rewrite zl_aset_same. rewrite remove_first_In by apply ND. rewrite IN. split.
      * intros [NE [e' [H E]]]. exists e'. split; [|exact E]. rewrite aget_adel_other by exact NE. exact H.
      * intros [e' [H E]]. destruct (Z.eq_dec id' id) as [->|NE].
        -- rewrite aget_adel_same in H. discriminate H.
        -- rewrite aget_adel_other in H by exact NE. split; [exact NE|]. exists e'. split; assumption.
    + rewrite zl_aset_other by exact NK. rewrite IN. split.
      * intros [e' [H E]]. exists e'. split; [|exact E]. rewrite aget_adel_other; [exact H|].
        intro; subst. rewrite A in H. inv H. apply NK. reflexivity.
      * intros [e' [H E]]. destruct (Z.eq_dec id' id) as [->|NE].
        -- rewrite aget_adel_same in H. discriminate H.
        -- rewrite aget_adel_other in H by exact NE. exists e'. split; assumption.
  - intro k'. destruct (Z.eq_dec k' (ezi e)) as [->|NK].
    + rewrite zl_aset_same. apply remove_first_NoDup. apply ND.
    + rewrite zl_aset_other by exact NK. apply ND.
Qed.

(* the invariant only reads the table through [aget] *)
Lemma Inv_ext s es :
  Inv s -> sorted es -> (forall id, aget id es = aget id (ents s)) -> Inv (mkst (sg s) es (zones s)).
Proof.
  intros [S G IX IN ND] S' EQ. constructor; cbn [ents zones sg].
  - exact S'.
  - exact G.
  - intros id e H. rewrite EQ in H. exact (IX _ _ H).
  - intros k id. rewrite IN. split; intros [e [H E]]; exists e; (split; [|exact E]).
    + rewrite EQ. exact H.
    + rewrite <- EQ. exact H.
  - exact ND.
Qed.

(* UpdateEntityPos never reaches panic("unexpect") and keeps the invariant *)
Lemma move_spec s id p : Inv s -> snd (move_entity s id p) = false /\ Inv (fst (move_entity s id p)).
Proof.
  intros I0. pose proof I0 as [S G IX IN ND]. unfold move_entity.
  destruct (aget id (ents s)) as [e|] eqn:A; [|split; [reflexivity | exact I0]].
  cbv zeta.
  destruct (Z.eqb_spec (ezi e) (zidx (sg s) p)) as [EQ|NEQ].
  - split; [reflexivity|]. cbn [fst]. constructor; cbn [ents zones sg].
    + apply sorted_aset; exact S.
    + exact G.
    + intros id' e' H. destruct (Z.eq_dec id' id) as [->|N].
      * rewrite aget_aset_same in H. inv H. cbn [ezi epos]. exact EQ.
      * rewrite aget_aset_other in H by exact N. exact (IX _ _ H).
    + intros k id'. rewrite IN. split.
      * intros [e' [H E]]. destruct (Z.eq_dec id' id) as [->|N].
        -- exists (mkent p (ezi e)). split; [apply aget_aset_same|]. cbn [ezi]. rewrite A in H. inv H. reflexivity.
        -- exists e'. split; [rewrite aget_aset_other by exact N; exact H | exact E].
      * intros [e' [H E]]. destruct (Z.eq_dec id' id) as [->|N].
        -- rewrite aget_aset_same in H. inv H. cbn [ezi]. exists e. split; [exact A | reflexivity].
        -- rewrite aget_aset_other in H by exact N. exists e'. split; assumption.
    + exact ND.
  - assert (R : 0 <= ezi e) by (rewrite (IX _ _ A); apply zidx_range; exact G).
    destruct (Z.ltb_spec (ezi e) 0) as [L|_]; [lia|].
    assert (M : zmem id (zl (zones s) (ezi e)) = true).
    { apply zmem_In. apply IN. exists e. split; [exact A | reflexivity]. }
    rewrite M. cbn [negb]. split; [reflexivity|]. cbn [fst].
    (* this is "remove, then add" up to the representation of the table *)
    pose proof (Inv_add _ id p (Inv_remove _ id I0)) as I2.
    unfold remove_entity in I2. rewrite A in I2. unfold add_entity in I2. cbn [ents zones sg] in I2.
    rewrite aget_adel_same in I2.
    apply (Inv_ext _ (aset id (mkent p (zidx (sg s) p)) (ents s))) in I2.
    + cbn [ents zones sg] in I2. exact I2.
    + apply sorted_aset; exact S.
    + intro id'. cbn [ents]. destruct (Z.eq_dec id' id) as [->|N].
      * rewrite !aget_aset_same. reflexivity.
      * rewrite !aget_aset_other by exact N. rewrite aget_adel_other by exact N. reflexivity.
Qed.

Lemma step_Inv s o : Inv s -> Inv (fst (step s o)).
Proof.
  intro I0. destruct o as [bx bz ex ez sz|id x y z|id x y z|id|x y z r e mode|seed n]; cbn [step].
  - destruct (init_ok bx bz ex ez sz) eqn:OK; cbn [fst]; [|exact I0].
    apply Inv_fresh. apply mk_grid_valid. exact OK.
  - cbn [fst]. apply Inv_add. exact I0.
  - pose proof (move_spec s id (mkpos x y z) I0) as [_ I1].
    destruct (move_entity s id (mkpos x y z)) as [s1 pan]. exact I1.
  - cbn [fst]. apply Inv_remove. exact I0.
  - exact I0.
  - exact I0.
Qed.

(* ------------------------------------------------------------------ runs *)
Lemma run_from_cons s o r :
  run_from s (o :: r) =
  (fst (run_from (fst (step s o)) r), snd (step s o) :: snd (run_from (fst (step s o)) r)).
Proof.
  cbn [run_from]. destruct (step s o) as [s1 b]. cbn [fst snd]. destruct (run_from s1 r) as [s2 bs]. reflexivity.
Qed.

Lemma run_from_app s a b :
  run_from s (a ++ b) =
  (fst (run_from (fst (run_from s a)) b), snd (run_from s a) ++ snd (run_from (fst (run_from s a)) b)).
Proof.
  revert s. induction a as [|o a IH]; intro s.
  - cbn [app run_from fst snd]. destruct (run_from s b); reflexivity.
  - cbn [app]. rewrite !run_from_cons. cbn [fst snd]. rewrite IH. cbn [fst snd]. reflexivity.
Qed.

Lemma final_snoc h o : final (h ++ [o]) = fst (step (final h) o).
Proof.
  unfold final. rewrite run_from_app. cbn [fst]. rewrite run_from_cons. reflexivity.
Qed.

Lemma run_snoc h o : run (h ++ [o]) = run h ++ [obs_at h o].
Proof.
  unfold run, obs_at, final. rewrite run_from_app. cbn [snd]. rewrite run_from_cons. reflexivity.
Qed.

Lemma run_from_Inv ops : forall s, Inv s -> Inv (fst (run_from s ops)).
Proof.
  induction ops as [|o r IH]; intros s I0; [exact I0|].
  rewrite run_from_cons. cbn [fst]. apply IH. apply step_Inv. exact I0.
Qed.

Lemma final_Inv h : Inv (final h).
Proof. apply run_from_Inv. apply Inv_fresh. exact default_grid_valid. Qed.

(* ------------------------------------------------------------------ table = history function *)
Definition Proj (s : st) (m : alist pos) : Prop :=
  forall id, option_map epos (aget id (ents s)) = aget id m.

Lemma step_Proj s m o : Proj s m -> Proj (fst (step s o)) (hstep m o).
Proof.
  intro P. destruct o as [bx bz ex ez sz|id x y z|id x y z|id|x y z r e mode|seed n]; cbn [step hstep].
  - destruct (init_ok bx bz ex ez sz); cbn [fst]; [|exact P]. intro id. reflexivity.
  - cbn [fst]. unfold add_entity. pose proof (P id) as Pid.
    destruct (aget id (ents s)) as [e|] eqn:A; cbn [option_map] in Pid; rewrite <- Pid; [exact P|].
    intro id'. cbn [ents]. destruct (Z.eq_dec id' id) as [->|N].
    + rewrite !aget_aset_same. reflexivity.
    + rewrite !aget_aset_other by exact N. apply P.
  - pose proof (P id) as Pid. unfold move_entity.
    destruct (aget id (ents s)) as [e|] eqn:A; cbn [option_map] in Pid; rewrite <- Pid; [|exact P].
    cbv zeta.
    assert (K : forall zi zs, Proj (mkst (sg s) (aset id (mkent (mkpos x y z) zi) (ents s)) zs)
                                   (aset id (mkpos x y z) m)).
    { intros zi zs id'. cbn [ents]. destruct (Z.eq_dec id' id) as [->|N].
      - rewrite !aget_aset_same. reflexivity.
      - rewrite !aget_aset_other by exact N. apply P. }
    destruct (ezi e =? zidx (sg s) (mkpos x y z)); [apply K|].
    destruct (ezi e <? 0); [apply K|].
    destruct (negb (zmem id (zl (zones s) (ezi e)))); apply K.
  - cbn [fst]. unfold remove_entity. pose proof (P id) as Pid.
    destruct (aget id (ents s)) as [e|] eqn:A; cbn [option_map] in Pid.
    + intro id'. cbn [ents]. destruct (Z.eq_dec id' id) as [->|N].
      * rewrite !aget_adel_same. reflexivity.
      * rewrite !aget_adel_other by exact N. apply P.
    + intro id'. destruct (Z.eq_dec id' id) as [->|N].
      * rewrite aget_adel_same, A. reflexivity.
      * rewrite aget_adel_other by exact N. apply P.
  - exact P.
  - exact P.
Qed.

Lemma run_from_Proj ops : forall s m, Proj s m -> Proj (fst (run_from s ops)) (fold_left hstep ops m).
Proof.
  induction ops as [|o r IH]; intros s m P; [exact P|].
  rewrite run_from_cons. cbn [fst fold_left]. apply IH. apply step_Proj. exact P.
Qed.

Lemma final_Proj h : Proj (final h) (hents h).
Proof. apply run_from_Proj. intro id. reflexivity. Qed.

Lemma hstep_sorted m o : sorted m -> sorted (hstep m o).
Proof.
  intro S. destruct o as [bx bz ex ez sz|id x y z|id x y z|id|x y z r e mode|seed n]; cbn [hstep]; try exact S.
  - destruct (init_ok bx bz ex ez sz); [exact I | exact S].
  - destruct (aget id m); [exact S | apply sorted_aset; exact S].
  - destruct (aget id m); [apply sorted_aset; exact S | exact S].
  - apply sorted_adel. exact S.
Qed.

Lemma fold_hstep_sorted ops : forall m, sorted m -> sorted (fold_left hstep ops m).
Proof.
  induction ops as [|o r IH]; intros m S; [exact S|]. cbn [fold_left]. apply IH. apply hstep_sorted. exact S.
Qed.

Lemma hents_sorted h : sorted (hents h).
Proof. apply fold_hstep_sorted. exact I. Qed.

Lemma hents_snoc h o : hents (h ++ [o]) = hstep (hents h) o.
Proof. unfold hents. rewrite fold_left_app. reflexivity. Qed.

(* ------------------------------------------------------------------ the zone rectangle *)
Lemma rect_In g p r k :
  In k (rect g p r) <->
  exists z x, zz g (pz p - r) <= z <= zz g (pz p + r) /\
              zx g (px p - r) <= x <= zx g (px p + r) /\ k = z * gw g + x.
Proof.
  unfold rect. rewrite in_flat_map. split.
  - intros [z [Iz I1]]. apply in_map_iff in I1. destruct I1 as [x [E Ix]].
    apply zrange_In in Iz. apply zrange_In in Ix. exists z, x.
    split; [exact Iz | split; [exact Ix | symmetry; exact E]].
  - intros [z [x [Hz [Hx E]]]]. exists z. split; [apply zrange_In; exact Hz|].
    apply in_map_iff. exists x. split; [symmetry; exact E | apply zrange_In; exact Hx].
Qed.

Lemma rect_NoDup g p r : valid_grid g -> NoDup (rect g p r).
Proof.
  intros [Hs [Hw Hh]]. unfold rect. apply NoDup_flat_map.
  - apply zrange_NoDup.
  - intros z _. apply NoDup_map_inj; [|apply zrange_NoDup]. intros x y _ _ E. lia.
  - intros z z' k _ _ I1 I2. apply in_map_iff in I1. apply in_map_iff in I2.
    destruct I1 as [x [E Ix]]. destruct I2 as [x' [E' Ix']].
    apply zrange_In in Ix. apply zrange_In in Ix'.
    pose proof (zone_n_range (px p - r) (gbx g) (gsize g) (gw g) Hw) as A.
    pose proof (zone_n_range (px p + r) (gbx g) (gsize g) (gw g) Hw) as B.
    unfold zx in Ix, Ix'. nia.
Qed.

(* every zone the query dereferences exists *)
Lemma rect_range g p r k : valid_grid g -> In k (rect g p r) -> 0 <= k < gw g * gh g.
Proof.
  intros [Hs [Hw Hh]] I1. apply rect_In in I1. destruct I1 as [z [x [Hz [Hx E]]]].
  pose proof (zone_n_range (px p - r) (gbx g) (gsize g) (gw g) Hw) as A.
  pose proof (zone_n_range (px p + r) (gbx g) (gsize g) (gw g) Hw) as B.
  pose proof (zone_n_range (pz p - r) (gbz g) (gsize g) (gh g) Hh) as C.
  pose proof (zone_n_range (pz p + r) (gbz g) (gsize g) (gh g) Hh) as D.
  unfold zx, zz in Hz, Hx. nia.
Qed.

(* an entity within the radius lies in a visited zone - on borders and outside the map too *)
Lemma zidx_in_rect g p q r : valid_grid g -> within p q r = true -> In (zidx g q) (rect g p r).
Proof.
  intros [Hs [Hw Hh]] W. apply within_box in W. destruct W as [WX WZ].
  apply rect_In. exists (zz g (pz q)), (zx g (px q)). unfold zz, zx.
  split; [split; apply zone_n_mono; try assumption; lia|].
  split; [split; apply zone_n_mono; try assumption; lia|]. reflexivity.
Qed.

(* ------------------------------------------------------------------ search = brute force *)
Lemma search_In s p r f id : Inv s -> (In id (search s p r f) <-> hit s p r f id = true).
Proof.
  intros [S G IX IN ND]. unfold search. rewrite in_flat_map. split.
  - intros [k [_ I1]]. apply filter_In in I1. apply I1.
  - intro H. pose proof H as H0. unfold hit in H.
    destruct (aget id (ents s)) as [e|] eqn:A; [|discriminate H].
    apply andb_true_iff in H. destruct H as [W _].
    exists (ezi e). split.
    + rewrite (IX _ _ A). apply zidx_in_rect; assumption.
    + apply filter_In. split; [|exact H0]. apply IN. exists e. split; [exact A | reflexivity].
Qed.

Lemma search_NoDup s p r f : Inv s -> NoDup (search s p r f).
Proof.
  intros [S G IX IN ND]. unfold search. apply NoDup_flat_map.
  - apply rect_NoDup. exact G.
  - intros k _. apply NoDup_filter. apply ND.
  - intros k k' x _ _ I1 I2. apply filter_In in I1. apply filter_In in I2.
    destruct I1 as [I1 _]. destruct I2 as [I2 _]. apply IN in I1. apply IN in I2.
    destruct I1 as [e [H E]]. destruct I2 as [e' [H' E']]. rewrite H in H'. inv H'. reflexivity.
Qed.

Lemma akeys_In {V} (m : alist V) k : sorted m -> (In k (akeys m) <-> exists v, aget k m = Some v).
Proof.
  intro S. unfold akeys. rewrite in_map_iff. split.
  - intros [[k' v] [E I1]]. cbn [fst] in E. subst. exists v. apply in_aget; assumption.
  - intros [v H]. exists (k, v). split; [reflexivity | apply aget_in; exact H].
Qed.

Lemma brute_In s p r f id : Inv s -> (In id (brute s p r f) <-> hit s p r f id = true).
Proof.
  intros [S G IX IN ND]. unfold brute. rewrite filter_In. split; [tauto|].
  intro H. split; [|exact H]. apply akeys_In; [exact S|]. unfold hit in H.
  destruct (aget id (ents s)) as [e|]; [exists e; reflexivity | discriminate H].
Qed.

Lemma brute_NoDup s p r f : Inv s -> NoDup (brute s p r f).
Proof. intros [S _ _ _ _]. apply NoDup_filter. apply sorted_nodup_keys. exact S. Qed.

Lemma search_perm_brute s p r f : Inv s -> Permutation (search s p r f) (brute s p r f).
Proof.
  intro I0. apply NoDup_Permutation; [apply search_NoDup; exact I0 | apply brute_NoDup; exact I0 |].
  intro x. rewrite search_In, brute_In by exact I0. tauto.
Qed.

Lemma hit_must h p r f id : hit (final h) p r f id = must_report_b h p r f id.
Proof.
  unfold hit, must_report_b, where_is. rewrite <- (final_Proj h id).
  destruct (aget id (ents (final h))); reflexivity.
Qed.

Lemma must_report_b_spec h p r f id : must_report_b h p r f id = true <-> must_report h p r f id.
Proof.
  unfold must_report_b, must_report. destruct (where_is h id) as [q|]; split.
  - intro H. apply andb_true_iff in H. exists q. tauto.
  - intros [q' [E [W F]]]. inv E. rewrite W, F. reflexivity.
  - discriminate.
  - intros [q [E _]]. discriminate E.
Qed.

(* ------------------------------------------------------------------ the sorted projection *)
Lemma zinsert_In x y l : In y (zinsert x l) <-> y = x \/ In y l.
Proof.
  induction l as [|z t IH]; cbn [zinsert In].
  - split; [intros [E|[]]; left; symmetry; exact E | intros [E|[]]; left; symmetry; exact E].
  - destruct (x <=? z); cbn [In]; [|rewrite IH]; split; intro H.
    + destruct H as [E|H]; [left; symmetry; exact E | right; exact H].
    + destruct H as [E|H]; [left; symmetry; exact E | right; exact H].
    + destruct H as [E|[E|H]]; [right; left; exact E | left; exact E | right; right; exact H].
    + destruct H as [E|[E|H]]; [right; left; exact E | left; exact E | right; right; exact H].
Qed.

Lemma zinsert_ssorted x l :
  StronglySorted Z.lt l -> ~ In x l -> StronglySorted Z.lt (zinsert x l).
Proof.
  intro S. induction S as [|y t S IH F]; intro NI; cbn [zinsert].
  - constructor; constructor.
  - rewrite Forall_forall in F. destruct (Z.leb_spec x y) as [L|L].
    + assert (x <> y) by (intro; subst; apply NI; left; reflexivity).
      constructor; [constructor; [exact S | apply Forall_forall; exact F]|].
      apply Forall_forall. intros w [E|Iw]; [subst; lia | specialize (F w Iw); lia].
    + constructor; [apply IH; intro I1; apply NI; right; exact I1|].
      apply Forall_forall. intros w Iw. apply zinsert_In in Iw. destruct Iw as [E|Iw]; [subst; lia | apply F; exact Iw].
Qed.

Lemma zsort_In y l : In y (zsort l) <-> In y l.
Proof.
  induction l as [|x t IH]; cbn [zsort fold_right In]; [tauto|].
  fold (zsort t). rewrite zinsert_In, IH. split; intros [E|H]; auto.
Qed.

Lemma zsort_ssorted l : NoDup l -> StronglySorted Z.lt (zsort l).
Proof.
  intro N. induction N as [|x t NI N IH]; cbn [zsort fold_right]; [constructor|].
  fold (zsort t). apply zinsert_ssorted; [exact IH|]. rewrite zsort_In. exact NI.
Qed.

Lemma ssorted_unique l : forall l',
  StronglySorted Z.lt l -> StronglySorted Z.lt l' -> (forall x, In x l <-> In x l') -> l = l'.
Proof.
  induction l as [|x t IH]; intros [|y t'] S S' E.
  - reflexivity.
  - exfalso. apply (E y). left. reflexivity.
  - exfalso. apply (E x). left. reflexivity.
  - inv S. inv S'. rename H1 into St, H2 into Ft, H3 into St', H4 into Ft'.
    rewrite Forall_forall in Ft, Ft'.
    assert (x = y).
    { pose proof (proj1 (E x) (or_introl eq_refl)) as A. pose proof (proj2 (E y) (or_introl eq_refl)) as B.
      destruct A as [A|A]; [symmetry; exact A|]. destruct B as [B|B]; [exact B|].
      specialize (Ft' x A). specialize (Ft y B). lia. }
    subst y. f_equal. apply IH; [exact St | exact St' |].
    intro w. split; intro Iw.
    + destruct (proj1 (E w) (or_intror Iw)) as [A|A]; [|exact A]. specialize (Ft w Iw). lia.
    + destruct (proj2 (E w) (or_intror Iw)) as [A|A]; [|exact A]. specialize (Ft' w Iw). lia.
Qed.

Lemma lb_Forall {V} k (m : alist V) : lb k m -> Forall (Z.lt k) (akeys m).
Proof.
  induction m as [|[k' v] r IH]; cbn [lb akeys map]; intro L; [constructor|].
  destruct L as [L1 L2]. constructor; [exact L1 | apply IH; exact L2].
Qed.

Lemma akeys_ssorted {V} (m : alist V) : sorted m -> StronglySorted Z.lt (akeys m).
Proof.
  induction m as [|[k v] r IH]; cbn [sorted akeys map]; intro S; [constructor|].
  destruct S as [L S]. constructor; [apply IH; exact S | apply lb_Forall; exact L].
Qed.

Lemma filter_ssorted (f : Z -> bool) l : StronglySorted Z.lt l -> StronglySorted Z.lt (filter f l).
Proof.
  intro S. induction S as [|x t S IH F]; cbn [filter]; [constructor|].
  destruct (f x); [|exact IH]. constructor; [exact IH|].
  rewrite Forall_forall in F. apply Forall_forall. intros w Iw. apply filter_In in Iw. apply F. apply Iw.
Qed.

(* the model's observable IS the history function's demanded answer *)
Lemma zsort_search_expected h p r f : zsort (search (final h) p r f) = expected h p r f.
Proof.
  apply ssorted_unique.
  - apply zsort_ssorted. apply search_NoDup. apply final_Inv.
  - unfold expected. apply filter_ssorted. apply akeys_ssorted. apply hents_sorted.
  - intro x. rewrite zsort_In, search_In by apply final_Inv. rewrite hit_must.
    unfold expected. rewrite filter_In. split; [|tauto].
    intro H. split; [|exact H]. apply akeys_In; [apply hents_sorted|].
    unfold must_report_b, where_is in H. destruct (aget x (hents h)) as [q|]; [exists q; reflexivity | discriminate H].
Qed.

(* ------------------------------------------------------------------ statements for Props.v *)
Lemma table h id : option_map epos (aget id (ents (final h))) = where_is h id.
Proof. apply final_Proj. Qed.

Lemma nodup_zcount x l : NoDup l -> zcount x l = (if zmem x l then 1 else 0)%nat.
Proof.
  intro N. induction N as [|y t NI N IH]; [reflexivity|].
  cbn [zcount]. unfold zmem in *. cbn [existsb]. destruct (Z.eqb_spec x y) as [E|NE]; cbn [orb].
  - subst. rewrite IH. destruct (existsb (Z.eqb y) t) eqn:M; [|reflexivity].
    exfalso. apply NI. apply zmem_In. exact M.
  - rewrite IH. reflexivity.
Qed.

Lemma index_agrees h id e :
  aget id (ents (final h)) = Some e ->
  ezi e = zidx (sg (final h)) (epos e) /\
  forall k, zcount id (zl (zones (final h)) k) = (if Z.eqb k (ezi e) then 1%nat else 0%nat).
Proof.
  intro A. destruct (final_Inv h) as [S G IX IN ND]. split; [exact (IX _ _ A)|].
  intro k. rewrite nodup_zcount by apply ND.
  destruct (Z.eqb_spec k (ezi e)) as [E|NE].
  - assert (M : zmem id (zl (zones (final h)) k) = true).
    { apply zmem_In. apply IN. exists e. split; [exact A | symmetry; exact E]. }
    rewrite M. reflexivity.
  - destruct (zmem id (zl (zones (final h)) k)) eqn:M; [|reflexivity].
    apply zmem_In in M. apply IN in M. destruct M as [e' [A' E']]. rewrite A in A'. inv A'. contradiction.
Qed.

Lemma index_no_ghosts h k id :
  In id (zl (zones (final h)) k) -> exists e, aget id (ents (final h)) = Some e /\ ezi e = k.
Proof. destruct (final_Inv h) as [S G IX IN ND]. apply IN. Qed.

Lemma search_exact h p r f id : In id (search (final h) p r f) <-> must_report h p r f id.
Proof. rewrite search_In by apply final_Inv. rewrite hit_must. apply must_report_b_spec. Qed.

Lemma search_eq_brute h p r f : Permutation (search (final h) p r f) (brute (final h) p r f).
Proof. apply search_perm_brute. apply final_Inv. Qed.

Lemma at_most_once h p r f : NoDup (search (final h) p r f).
Proof. apply search_NoDup. apply final_Inv. Qed.

Lemma removed_never h id : where_is h id = None -> forall p r f, ~ In id (search (final h) p r f).
Proof.
  intros N p r f I1. apply search_exact in I1. destruct I1 as [q [E _]]. congruence.
Qed.

Lemma remove_removes h id : where_is (h ++ [ORemove id]) id = None.
Proof. unfold where_is. rewrite hents_snoc. cbn [hstep]. apply aget_adel_same. Qed.

Lemma init_removes h bx bz ex ez sz id :
  init_ok bx bz ex ez sz = true -> where_is (h ++ [OInit bx bz ex ez sz]) id = None.
Proof. intro OK. unfold where_is. rewrite hents_snoc. cbn [hstep]. rewrite OK. reflexivity. Qed.

Definition adds (o : op) (id : Z) : bool :=
  match o with OAdd id' _ _ _ => id =? id' | _ => false end.

Lemma stays_removed h o id :
  where_is h id = None -> adds o id = false -> where_is (h ++ [o]) id = None.
Proof.
  unfold where_is. intros N NA. rewrite hents_snoc.
  destruct o as [bx bz ex ez sz|id' x y z|id' x y z|id'|x y z r e mode|seed n]; cbn [hstep adds] in *; try exact N.
  - destruct (init_ok bx bz ex ez sz); [reflexivity | exact N].
  - destruct (aget id' (hents h)); [exact N|]. apply Z.eqb_neq in NA. rewrite aget_aset_other by exact NA. exact N.
  - destruct (aget id' (hents h)) eqn:A; [|exact N].
    destruct (Z.eq_dec id id') as [->|NE]; [congruence|]. rewrite aget_aset_other by exact NE. exact N.
  - destruct (Z.eq_dec id id') as [->|NE]; [apply aget_adel_same | rewrite aget_adel_other by exact NE; exact N].
Qed.

Lemma step_no_panic s o : Inv s -> snd (step s o) <> BPanic.
Proof.
  intro I0. destruct o as [bx bz ex ez sz|id x y z|id x y z|id|x y z r e mode|seed n]; cbn [step snd]; try discriminate.
  - destruct (init_ok bx bz ex ez sz); discriminate.
  - pose proof (move_spec s id (mkpos x y z) I0) as [NP _].
    destruct (move_entity s id (mkpos x y z)) as [s1 pan]. cbn [snd] in *. subst pan. discriminate.
Qed.

Lemma run_from_no_panic ops : forall s, Inv s -> ~ In BPanic (snd (run_from s ops)).
Proof.
  induction ops as [|o r IH]; intros s I0; [intros []|].
  rewrite run_from_cons. cbn [snd]. intros [E|I1].
  - apply (step_no_panic s o I0). exact E.
  - apply (IH (fst (step s o))); [apply step_Inv; exact I0 | exact I1].
Qed.

Lemma never_panics h : ~ In BPanic (run h).
Proof. apply run_from_no_panic. apply Inv_fresh. exact default_grid_valid. Qed.

Lemma indices_in_range h :
  (forall p r k, In k (rect (sg (final h)) p r) -> 0 <= k < gw (sg (final h)) * gh (sg (final h))) /\
  (forall id e, aget id (ents (final h)) = Some e -> 0 <= ezi e < gw (sg (final h)) * gh (sg (final h))).
Proof.
  destruct (final_Inv h) as [S G IX IN ND]. split.
  - intros p r k. apply rect_range. exact G.
  - intros id e A. rewrite (IX _ _ A). apply zidx_range. exact G.
Qed.

Lemma search_obs h x y z r e mode :
  obs_at h (OSearch x y z r e mode) = BFound (expected h (mkpos x y z) (radius r e) (searcher mode)) true.
Proof. unfold obs_at. cbn [step snd]. rewrite zsort_search_expected. reflexivity. Qed.

Lemma expected_spec h p r f id : In id (expected h p r f) <-> must_report h p r f id.
Proof.
  unfold expected. rewrite filter_In, must_report_b_spec. split; [tauto|].
  intro H. split; [|exact H]. destruct H as [q [E _]]. apply akeys_In; [apply hents_sorted|].
  exists q. exact E.
Qed.

Lemma obs_ok_model h o : obs_ok h o (obs_at h o) = true.
Proof.
  destruct o as [bx bz ex ez sz|id x y z|id x y z|id|x y z r e mode|seed n].
  - unfold obs_at. cbn [step]. destruct (init_ok bx bz ex ez sz) eqn:OK; cbn [snd obs_ok]; rewrite OK; reflexivity.
  - reflexivity.
  - unfold obs_at. cbn [step]. pose proof (move_spec (final h) id (mkpos x y z) (final_Inv h)) as [NP _].
    destruct (move_entity (final h) id (mkpos x y z)) as [s1 pan]. cbn [snd] in *. subst pan. reflexivity.
  - reflexivity.
  - rewrite search_obs. cbn [obs_ok andb]. apply zlist_eqb_spec. reflexivity.
  - reflexivity.
Qed.

Lemma trace_ok_model ops : forall h, trace_ok h ops (snd (run_from (final h) ops)) = true.
Proof.
  induction ops as [|o r IH]; intro h; [reflexivity|].
  rewrite run_from_cons. cbn [snd trace_ok]. apply andb_true_iff. split.
  - apply obs_ok_model.
  - rewrite <- final_snoc. apply IH.
Qed.

Lemma monitor_accepts_model h : trace_ok [] h (run h) = true.
Proof. apply (trace_ok_model h []). Qed.
