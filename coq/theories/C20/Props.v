(* C20 - property theorems only.  Each is closed by [exact] of a lemma from Proofs.v and
   followed by Print Assumptions.  [final h] is the model state after the operation history
   h; [where_is h id] (Spec.v) is the position of id after h as a function of the history
   alone.  All statements hold for ALL histories, positions, radii and searcher filters. *)
From Cell2V Require Import Common.Tac Common.ListX Common.AList C20.Model C20.Spec C20.Proofs.
From Coq Require Import Permutation.

(* the entity table, projected to positions, is the history function *)
Theorem C20_table : forall h id, option_map epos (aget id (ents (final h))) = where_is h id.
Proof. exact table. Qed.
Print Assumptions C20_table.

(* every entity sits in the zone of its CURRENT position, exactly once, and in no other zone *)
Theorem C20_index_agrees : forall h id e,
  aget id (ents (final h)) = Some e ->
  ezi e = zidx (sg (final h)) (epos e) /\
  forall k, zcount id (zl (zones (final h)) k) = (if Z.eqb k (ezi e) then 1%nat else 0%nat).
Proof. exact index_agrees. Qed.
Print Assumptions C20_index_agrees.

(* ... and zones hold nothing else *)
Theorem C20_index_no_ghosts : forall h k id,
  In id (zl (zones (final h)) k) -> exists e, aget id (ents (final h)) = Some e /\ ezi e = k.
Proof. exact index_no_ghosts. Qed.
Print Assumptions C20_index_no_ghosts.

(* a range query reports exactly the present entities within the radius that the searcher
   accepts - for every query point and radius, on zone borders and outside the map *)
Theorem C20_search_exact : forall h p r f id,
  In id (search (final h) p r f) <-> must_report h p r f id.
Proof. exact search_exact. Qed.
Print Assumptions C20_search_exact.

(* the same answer as the brute-force scan of all entities *)
Theorem C20_search_eq_brute : forall h p r f,
  Permutation (search (final h) p r f) (brute (final h) p r f).
Proof. exact search_eq_brute. Qed.
Print Assumptions C20_search_eq_brute.

Theorem C20_at_most_once : forall h p r f, NoDup (search (final h) p r f).
Proof. exact at_most_once. Qed.
Print Assumptions C20_at_most_once.

(* removed (or never added) entities are never reported; a removal removes; and an absent
   entity stays absent until it is added again *)
Theorem C20_removed_never : forall h id,
  where_is h id = None -> forall p r f, ~ In id (search (final h) p r f).
Proof. exact removed_never. Qed.
Print Assumptions C20_removed_never.

Theorem C20_remove_removes : forall h id, where_is (h ++ [ORemove id]) id = None.
Proof. exact remove_removes. Qed.
Print Assumptions C20_remove_removes.

Theorem C20_stays_removed : forall h o id,
  where_is h id = None -> adds o id = false -> where_is (h ++ [o]) id = None.
Proof. exact stays_removed. Qed.
Print Assumptions C20_stays_removed.

(* the key lemma: coordinate -> zone is monotone, clamping included *)
Theorem C20_zone_monotone : forall n n' b step max,
  0 < step -> 1 <= max -> n <= n' -> zone_n n b step max <= zone_n n' b step max.
Proof. exact zone_n_mono. Qed.
Print Assumptions C20_zone_monotone.

(* UpdateEntityPos never reaches its panic("unexpect"); every zone index the code
   dereferences exists *)
Theorem C20_never_panics : forall h, ~ In BPanic (run h).
Proof. exact never_panics. Qed.
Print Assumptions C20_never_panics.

Theorem C20_indices_in_range : forall h,
  (forall p r k, In k (rect (sg (final h)) p r) -> 0 <= k < gw (sg (final h)) * gh (sg (final h))) /\
  (forall id e, aget id (ents (final h)) = Some e -> 0 <= ezi e < gw (sg (final h)) * gh (sg (final h))).
Proof. exact indices_in_range. Qed.
Print Assumptions C20_indices_in_range.

(* what [run] emits for a query is the sorted list demanded by the history function, and
   that list contains exactly the entities that must be reported *)
Theorem C20_search_obs : forall h x y z r e mode,
  obs_at h (OSearch x y z r e mode) = BFound (expected h (mkpos x y z) (radius r e) (searcher mode)) true.
Proof. exact search_obs. Qed.
Print Assumptions C20_search_obs.

Theorem C20_expected_spec : forall h p r f id, In id (expected h p r f) <-> must_report h p r f id.
Proof. exact expected_spec. Qed.
Print Assumptions C20_expected_spec.

Theorem C20_run_snoc : forall h o, run (h ++ [o]) = run h ++ [obs_at h o].
Proof. exact run_snoc. Qed.
Print Assumptions C20_run_snoc.

(* the executable monitor (run on implementation traces) accepts the model's own trace of
   every history: a monitor failure is a deviation from the proven behaviour *)
Theorem C20_monitor_accepts_model : forall h, trace_ok [] h (run h) = true.
Proof. exact monitor_accepts_model. Qed.
Print Assumptions C20_monitor_accepts_model.

(* integers lose no generality: zone numbers and the distance test are invariant under a
   change of unit, so rational inputs can be brought to a common denominator *)
Theorem C20_scale_zone : forall k n b step max,
  0 < k -> step <> 0 -> zone_n (k * n) (k * b) (k * step) max = zone_n n b step max.
Proof. exact zone_n_scale. Qed.
Print Assumptions C20_scale_zone.

Theorem C20_scale_within : forall k p q r,
  0 < k -> within (scale_pos k p) (scale_pos k q) (k * r) = within p q r.
Proof. exact within_scale. Qed.
Print Assumptions C20_scale_within.

(* non-vacuity: production grid (13 x 13 zones of 5, unit 1/8).  Entities on a zone border
   (x = -5), outside the map (x = 100), moved across zones, removed and re-added; queries
   with radius 0, a radius reaching exactly to an entity, and radius 2^127 ("everything"). *)
Example C20_example :
  run [OAdd 1 (-40) 0 0; OAdd 2 800 0 0; OAdd 3 0 0 24; OAdd 1 8 8 8;
       OSearch 0 0 0 40 0 0; OSearch 0 0 0 39 0 0; OSearch 800 0 0 0 0 0;
       OMove 3 (-2000) 0 (-2000); OSearch 0 0 0 1 127 0; ORemove 2; OSearch 0 0 0 1 127 0;
       OAdd 2 0 0 0; OSearch 0 0 0 0 0 3; OMove 9 0 0 0; OSearch (-2000) 0 (-2000) 0 0 0]
  = [BUnit; BUnit; BUnit; BUnit;
     BFound [1; 3] true; BFound [3] true; BFound [2] true;
     BUnit; BFound [1; 2; 3] true; BUnit; BFound [1; 3] true;
     BUnit; BFound [2] true; BUnit; BFound [3] true].
Proof. vm_compute. reflexivity. Qed.

Example C20_example_index :
  let s := final [OAdd 1 (-40) 0 0; OAdd 2 800 0 0; OMove 1 239 0 (-241); ORemove 7] in
  map (fun ie => (fst ie, ezi (snd ie))) (ents s) = [(1, 11); (2, 90)] /\
  zones s = [(11, [1]); (83, []); (90, [2])].
Proof. vm_compute. split; reflexivity. Qed.
