(* C20 - model of mmo/servers/scene/space: ZoneSpace (zonespace.go), Zone (zone.go), and the
   searcher filter of searchers/findplayers.go.  No proofs in this file.

   Arithmetic is EXACT.  Every length (coordinates, radius, grid origin, zone size) is an
   integer number of one common unit; the harness uses the unit 1/8.  This loses no
   generality over the rationals: any finite history of rational inputs has a common
   denominator, and both the zone computation and the distance test are invariant under a
   change of unit (Props: C20_scale_zone, C20_scale_within).

   Go -> model:
     ZoneSpace.entities map[EntityID]*ZoneEntityInfo      ents  : alist ent (id -> position, zone index)
     ZoneSpace.zones    []*Zone, Zone.values []*Info      zones : alist (list Z)  (zone index -> ids, insertion order;
                                                                   an absent key is an empty zone)
     the *ZoneEntityInfo pointers shared by both           the id; a zone reads the position through [ents]
     nToZoneN (as repaired by hooks/C20-fix-zone-clamp-before-convert.patch):
         v := (n-begin)/step; !(v>=0) -> 0; v>=max -> max-1; int(v)    [zone_n] = clamp of the truncated quotient
     Vector3.Distance(..) > radius -> skip                 [within]: 0 <= r /\ dx^2+dy^2+dz^2 <= r^2
     panic("unexpect") in UpdateEntityPos                  observation [BPanic] (proved unreachable)
   Not modelled: float32 rounding (the harness feeds inputs for which every float32 operation
   before the comparison is exact, see bin/props/C20.py), NaN. *)
From Cell2V Require Import Common.Tac Common.ListX Common.AList.

Record pos := mkpos { px : Z; py : Z; pz : Z }.
Record grid := mkgrid { gbx : Z; gbz : Z; gsize : Z; gw : Z; gh : Z }.
Record ent := mkent { epos : pos; ezi : Z }.
Record st := mkst { sg : grid; ents : alist ent; zones : alist (list Z) }.

(* ---- coordinate -> zone number ---- *)
Definition clampz (q max : Z) : Z :=
  if q <? 0 then 0 else if max <=? q then max - 1 else q.

(* Go's float -> int conversion truncates toward zero: Z.quot *)
Definition zone_n (n b step max : Z) : Z := clampz (Z.quot (n - b) step) max.

Definition zx (g : grid) (x : Z) : Z := zone_n x (gbx g) (gsize g) (gw g).
Definition zz (g : grid) (z : Z) : Z := zone_n z (gbz g) (gsize g) (gh g).
Definition zidx (g : grid) (p : pos) : Z := zz g (pz p) * gw g + zx g (px p).

(* ZoneSpace.Init(beginX, beginZ, endX, endZ, zoneSize) *)
Definition init_ok (bx bz ex ez sz : Z) : bool := (0 <? sz) && (bx <=? ex) && (bz <=? ez).
Definition mk_grid (bx bz ex ez sz : Z) : grid :=
  mkgrid bx bz sz (Z.quot (ex - bx) sz + 1) (Z.quot (ez - bz) sz + 1).

(* the production grid: Init(-MaxWidth, -MaxWidth, MaxWidth, MaxWidth, 5), MaxWidth = 30, unit 1/8 *)
Definition default_grid : grid := mk_grid (-240) (-240) 240 240 40.
Definition fresh (g : grid) : st := mkst g [] [].
Definition init : st := fresh default_grid.

(* ---- zones ---- *)
Definition zl (zs : alist (list Z)) (k : Z) : list Z :=
  match aget k zs with Some l => l | None => [] end.

Definition add_entity (s : st) (id : Z) (p : pos) : st :=
  match aget id (ents s) with
  | Some _ => s                                        (* if s.entities[id] != nil { return } *)
  | None =>
      let k := zidx (sg s) p in
      mkst (sg s) (aset id (mkent p k) (ents s)) (aset k (zl (zones s) k ++ [id]) (zones s))
  end.

Definition remove_entity (s : st) (id : Z) : st :=
  match aget id (ents s) with
  | None => s
  | Some e =>
      mkst (sg s) (adel id (ents s))
           (aset (ezi e) (remove_first id (zl (zones s) (ezi e))) (zones s))
  end.

(* UpdateEntityPos; the boolean is "panicked" *)
Definition move_entity (s : st) (id : Z) (p : pos) : st * bool :=
  match aget id (ents s) with
  | None => (s, false)
  | Some e =>
      let k' := zidx (sg s) p in
      let upd := aset id (mkent p (ezi e)) (ents s) in          (* info.Pos = pos *)
      if ezi e =? k' then (mkst (sg s) upd (zones s), false)
      else if ezi e <? 0 then (mkst (sg s) upd (zones s), true)
      else if negb (zmem id (zl (zones s) (ezi e))) then (mkst (sg s) upd (zones s), true)
      else
        let zs1 := aset (ezi e) (remove_first id (zl (zones s) (ezi e))) (zones s) in
        let zs2 := aset k' (zl zs1 k' ++ [id]) zs1 in
        (mkst (sg s) (aset id (mkent p k') (ents s)) zs2, false)
  end.

(* ---- search ---- *)
Definition dist2 (p q : pos) : Z :=
  (px p - px q) * (px p - px q) + (py p - py q) * (py p - py q) + (pz p - pz q) * (pz p - pz q).

Definition within (p q : pos) (r : Z) : bool := (0 <=? r) && (dist2 p q <=? r * r).

Definition zrange (a b : Z) : list Z :=
  map (fun i => a + Z.of_nat i) (seq 0 (Z.to_nat (b - a + 1))).

(* zone indices visited by SearchCircleTargets, in visiting order *)
Definition rect (g : grid) (p : pos) (r : Z) : list Z :=
  flat_map (fun z => map (fun x => z * gw g + x) (zrange (zx g (px p - r)) (zx g (px p + r))))
           (zrange (zz g (pz p - r)) (zz g (pz p + r))).

(* distance test + searcher.Validate, reading the position through the shared info *)
Definition hit (s : st) (p : pos) (r : Z) (f : Z -> bool) (id : Z) : bool :=
  match aget id (ents s) with
  | Some e => within p (epos e) r && f id
  | None => false
  end.

Definition search (s : st) (p : pos) (r : Z) (f : Z -> bool) : list Z :=
  flat_map (fun k => filter (hit s p r f) (zl (zones s) k)) (rect (sg s) p r).

(* the brute-force scan of every entity *)
Definition brute (s : st) (p : pos) (r : Z) (f : Z -> bool) : list Z :=
  filter (hit s p r f) (akeys (ents s)).

(* ---- searchers ----
   mode 0 (or any mode outside 1..world_n): the harness's collect-everything searcher.
   mode m in 1..world_n: the real searchers.FindPlayers with owner m.  The harness's entity
   world holds entities 1..world_n whose unit type is a fixed function of the id:
   id mod 4 = 0 monster, 1 dead avatar, 2 and 3 living avatar.  FindPlayers.Validate accepts
   a target iff it is not the owner, is in the world, is not dead and is an avatar. *)
Definition world_n : Z := 40.
Definition players_ok (owner id : Z) : bool :=
  negb (id =? owner) && (1 <=? id) && (id <=? world_n) && (2 <=? id mod 4).
Definition searcher (mode : Z) : Z -> bool :=
  if (1 <=? mode) && (mode <=? world_n) then players_ok mode else fun _ => true.

(* ---- operations ---- *)
Inductive op :=
| OInit (bx bz ex ez sz : Z)         (* new ZoneSpace; Init(bx,bz,ex,ez,sz) *)
| OAdd (id x y z : Z)                (* AddEntity *)
| OMove (id x y z : Z)               (* UpdateEntityPos *)
| ORemove (id : Z)                   (* RemoveEntity *)
| OSearch (x y z r e mode : Z)       (* SearchCircleTargets(pos, r * 2^e, searcher mode) *)
| OFloat (seed n : Z).               (* search support on random floats: no model content *)

Inductive obs :=
| BUnit
| BBadInit                           (* degenerate grid parameters: the harness does not call Init *)
| BPanic
| BFound (ids : list Z) (simple_agrees : bool)   (* sorted ids; SimpleSpace returned the same set *)
| BFloat (ok : bool).

Fixpoint zinsert (x : Z) (l : list Z) : list Z :=
  match l with
  | [] => [x]
  | y :: r => if x <=? y then x :: l else y :: zinsert x r
  end.
Definition zsort (l : list Z) : list Z := fold_right zinsert [] l.

Definition radius (r e : Z) : Z := r * 2 ^ e.

Definition step (s : st) (o : op) : st * obs :=
  match o with
  | OInit bx bz ex ez sz =>
      if init_ok bx bz ex ez sz then (fresh (mk_grid bx bz ex ez sz), BUnit) else (s, BBadInit)
  | OAdd id x y z => (add_entity s id (mkpos x y z), BUnit)
  | OMove id x y z =>
      let '(s1, pan) := move_entity s id (mkpos x y z) in (s1, if pan then BPanic else BUnit)
  | ORemove id => (remove_entity s id, BUnit)
  | OSearch x y z r e mode =>
      (s, BFound (zsort (search s (mkpos x y z) (radius r e) (searcher mode))) true)
  | OFloat _ _ => (s, BFloat true)
  end.

Fixpoint run_from (s : st) (ops : list op) : st * list obs :=
  match ops with
  | [] => (s, [])
  | o :: r =>
      let '(s1, b) := step s o in
      let '(s2, bs) := run_from s1 r in
      (s2, b :: bs)
  end.

Definition run (ops : list op) : list obs := snd (run_from init ops).
Definition final (ops : list op) : st := fst (run_from init ops).
