(* C19 - all lemmas and proofs. *)
From Cell2V Require Import Common.Tac Common.ListX Common.AList C19.Model C19.Spec.

(* ------------------------------------------------------------------ generic lists / alists *)
Lemma filter_id {A} (f : A -> bool) l : (forall x, In x l -> f x = true) -> filter f l = l.
Proof.
  induction l as [|x r IH]; intro H; cbn [filter]; [reflexivity|].
  rewrite (H x (or_introl eq_refl)). f_equal. apply IH. intros y Iy. apply H. right. exact Iy.
Qed.

Lemma filter_none {A} (f : A -> bool) l : (forall x, In x l -> f x = false) -> filter f l = [].
Proof.
  induction l as [|x r IH]; intro H; cbn [filter]; [reflexivity|].
  rewrite (H x (or_introl eq_refl)). apply IH. intros y Iy. apply H. right. exact Iy.
Qed.

Lemma filter_filter {A} (f g : A -> bool) l : filter f (filter g l) = filter (fun x => g x && f x) l.
Proof.
  induction l as [|x r IH]; cbn [filter]; [reflexivity|].
  destruct (g x); cbn [filter andb]; [destruct (f x)|]; rewrite IH; reflexivity.
Qed.

Lemma adel_filter {V} k (m : alist V) : adel k m = filter (fun kv => negb (fst kv =? k)) m.
Proof.
  induction m as [|[k' v] r IH]; cbn [adel filter fst]; [reflexivity|].
  rewrite (Z.eqb_sym k' k). destruct (Z.eqb k k'); cbn [negb]; rewrite IH; reflexivity.
Qed.

Lemma aget_filter_key {V} (g : Z -> bool) (m : alist V) k :
  aget k (filter (fun kv => g (fst kv)) m) = if g k then aget k m else None.
Proof.
  induction m as [|[k' v] r IH]; cbn [filter aget fst]; [destruct (g k); reflexivity|].
  destruct (g k') eqn:G; cbn [aget].
  - destruct (Z.eqb_spec k k') as [->|NE]; [rewrite G; reflexivity | exact IH].
  - destruct (Z.eqb_spec k k') as [->|NE]; [rewrite IH, G; reflexivity | exact IH].
Qed.

Lemma lb_filter {V} (f : Z * V -> bool) k (m : alist V) : lb k m -> lb k (filter f m).
Proof.
  induction m as [|[k' v] r IH]; cbn [lb filter]; [tauto|]. intros [L1 L2].
  destruct (f (k', v)); cbn [lb]; [split; [exact L1 | apply IH; exact L2] | apply IH; exact L2].
Qed.

Lemma sorted_filter {V} (f : Z * V -> bool) (m : alist V) : sorted m -> sorted (filter f m).
Proof.
  induction m as [|[k v] r IH]; cbn [sorted filter]; [tauto|]. intros [L S].
  destruct (f (k, v)); cbn [sorted]; [split; [apply lb_filter; exact L | apply IH; exact S] | apply IH; exact S].
Qed.

Lemma akeys_In {V} (m : alist V) k : sorted m -> (In k (akeys m) <-> exists v, aget k m = Some v).
Proof.
  intro S. unfold akeys. rewrite in_map_iff. split.
  - intros [[k' v] [E I1]]. cbn [fst] in E. subst. exists v. apply in_aget; assumption.
  - intros [v H]. exists (k, v). split; [reflexivity | apply aget_in; exact H].
Qed.

(* ------------------------------------------------------------------ runs *)
Lemma run_from_app a : forall s b, run_from s (a ++ b) = run_from (run_from s a) b.
Proof. induction a as [|o r IH]; intros s b; [reflexivity|]. cbn [app run_from]. apply IH. Qed.

Lemma final_snoc h o : final (h ++ [o]) = fst (step (final h) o).
Proof. unfold final. rewrite run_from_app. reflexivity. Qed.

Lemma created_app a b : created (a ++ b) = created a ++ created b.
Proof.
  induction a as [|o r IH]; [reflexivity|]. cbn [app created].
  destruct o; cbn [app]; rewrite IH; reflexivity.
Qed.

(* ------------------------------------------------------------------ one configuration's lines *)
Lemma lsorted_weaken lo lo' l : lo <= lo' -> lsorted lo' l -> lsorted lo l.
Proof. destruct l as [|[ln sid] r]; cbn [lsorted]; [tauto|]. intros L [H1 H2]. split; [lia | exact H2]. Qed.

Lemma lsorted_ge lo l e : lsorted lo l -> In e l -> lo <= fst e.
Proof.
  revert lo. induction l as [|[ln sid] r IH]; intros lo S I1; [destruct I1|].
  cbn [lsorted] in S. destruct S as [S1 S2]. destruct I1 as [<-|I1]; [exact S1|].
  specialize (IH _ S2 I1). lia.
Qed.

(* FineIdleLineId returns the least unused line number *)
Lemma fine_from_spec l : forall i, lsorted i l ->
  i <= fine_from i l /\ ~ In (fine_from i l) (map fst l) /\
  forall m, i <= m < fine_from i l -> In m (map fst l).
Proof.
  induction l as [|[ln sid] r IH]; intros i S; cbn [fine_from map fst In].
  - split; [lia|]. split; [tauto | intros m H; lia].
  - cbn [lsorted] in S. destruct S as [S1 S2]. destruct (Z.eqb_spec ln i) as [->|NE].
    + destruct (IH _ S2) as [A [B C]]. split; [lia|]. split.
      * intros [E|I1]; [lia | contradiction].
      * intros m Hm. destruct (Z.eq_dec m i) as [->|NM]; [left; reflexivity | right; apply C; lia].
    + split; [lia|]. split.
      * intros [E|I1]; [congruence|]. apply in_map_iff in I1. destruct I1 as [e [E I1]].
        pose proof (lsorted_ge _ _ _ S2 I1). lia.
      * intros m Hm. lia.
Qed.

Lemma fine_idle_least l : lsorted 0 l -> least_free l (fine_idle l).
Proof. intro S. unfold least_free, fine_idle. destruct (fine_from_spec l 0 S) as [A [B C]]. auto. Qed.

Lemma least_free_unique l n m : least_free l n -> least_free l m -> n = m.
Proof.
  intros [A [B C]] [A' [B' C']]. destruct (Z.lt_trichotomy n m) as [L|[E|L]]; [|exact E|].
  - exfalso. apply B. apply C'. lia.
  - exfalso. apply B'. apply C. lia.
Qed.

Lemma line_insert_In e e' l : In e' (line_insert e l) <-> e' = e \/ In e' l.
Proof.
  induction l as [|x r IH]; cbn [line_insert In].
  - split; [intros [E|[]]; left; symmetry; exact E | intros [E|[]]; left; symmetry; exact E].
  - destruct (fst e <? fst x); cbn [In]; [|rewrite IH]; split; intro H.
    + destruct H as [E|H]; [left; symmetry; exact E | right; exact H].
    + destruct H as [E|H]; [left; symmetry; exact E | right; exact H].
    + destruct H as [E|[E|H]]; [right; left; exact E | left; exact E | right; right; exact H].
    + destruct H as [E|[E|H]]; [right; left; exact E | left; exact E | right; right; exact H].
Qed.

Lemma line_insert_lsorted ln sid l : forall lo,
  lsorted lo l -> lo <= ln -> ~ In ln (map fst l) -> lsorted lo (line_insert (ln, sid) l).
Proof.
  induction l as [|[a b] r IH]; intros lo S L NI; cbn [line_insert fst].
  - cbn [lsorted]. split; [exact L | exact I].
  - cbn [lsorted] in S. destruct S as [S1 S2]. cbn [map fst In] in NI.
    destruct (Z.ltb_spec ln a) as [LT|GE].
    + cbn [lsorted]. split; [exact L|]. split; [lia | exact S2].
    + cbn [lsorted]. split; [exact S1|]. apply IH; [exact S2 | | tauto].
      assert (ln <> a) by (intro; subst; apply NI; left; reflexivity). lia.
Qed.

Lemma lsorted_filter (f : line -> bool) l : forall lo, lsorted lo l -> lsorted lo (filter f l).
Proof.
  induction l as [|[a b] r IH]; intros lo S; cbn [filter]; [exact I|].
  cbn [lsorted] in S. destruct S as [S1 S2]. destruct (f (a, b)).
  - cbn [lsorted]. split; [exact S1 | apply IH; exact S2].
  - apply IH. apply lsorted_weaken with (a + 1); [lia | exact S2].
Qed.

(* remove(lineId) of the entry (ln, sid) = dropping every entry of scene sid *)
Lemma line_remove_filter ln sid l : forall lo,
  lsorted lo l -> In (ln, sid) l -> (forall ln', In (ln', sid) l -> ln' = ln) ->
  line_remove ln l = filter (fun e => negb (snd e =? sid)) l.
Proof.
  induction l as [|[a b] r IH]; intros lo S I1 U; [destruct I1|].
  cbn [lsorted] in S. destruct S as [S1 S2]. cbn [line_remove filter fst snd].
  destruct (Z.eqb_spec a ln) as [->|NE].
  - assert (b = sid).
    { destruct I1 as [E|I1]; [inv E; reflexivity|]. pose proof (lsorted_ge _ _ _ S2 I1) as G. cbn [fst] in G. lia. }
    subst b. rewrite Z.eqb_refl. cbn [negb]. symmetry. apply filter_id.
    intros [a' b'] I2. cbn [snd]. destruct (Z.eqb_spec b' sid) as [->|]; [|reflexivity].
    pose proof (lsorted_ge _ _ _ S2 I2) as G. cbn [fst] in G.
    assert (a' = ln) by (apply U; right; exact I2). lia.
  - destruct (Z.eqb_spec b sid) as [->|NB].
    + exfalso. apply NE. apply U. left. reflexivity.
    + cbn [negb]. f_equal. apply (IH (a + 1)); [exact S2 | | intros ln' I2; apply U; right; exact I2].
      destruct I1 as [E|I1]; [inv E; contradiction | exact I1].
Qed.

(* ------------------------------------------------------------------ lines of a state *)
Lemma lines_of_set sc ls sv n i cfg :
  lines_of (mkst sc ls sv n i) cfg = match aget cfg ls with Some l => l | None => [] end.
Proof. reflexivity. Qed.

Lemma lget_aset_same cfg (v : list line) ls :
  match aget cfg (aset cfg v ls) with Some l => l | None => [] end = v.
Proof. rewrite aget_aset_same. reflexivity. Qed.

Lemma lget_aset_other cfg cfg' (v : list line) ls : cfg' <> cfg ->
  match aget cfg' (aset cfg v ls) with Some l => l | None => [] end =
  match aget cfg' ls with Some l => l | None => [] end.
Proof. intro N. rewrite aget_aset_other by exact N. reflexivity. Qed.

(* ------------------------------------------------------------------ the invariant *)
Lemma Consistent_init : Consistent init.
Proof.
  constructor; cbn [init scenes lines services]; try exact I.
  - intros sid o H. discriminate H.
  - intros cfg ln sid H. destruct H.
  - intro cfg. exact I.
Qed.

(* OnSceneCreateSucc with a scene id that is not live *)
Lemma create_consistent s cfg sid svc :
  Consistent s -> aget sid (scenes s) = None -> Consistent (create s cfg sid svc).
Proof.
  intros [SS SL SV C1 C2 C3] NL. unfold create.
  pose proof (fine_idle_least _ (C3 cfg)) as [LF0 [LF1 LF2]].
  set (ln := fine_idle (lines_of s cfg)) in *.
  constructor; cbn [scenes lines services].
  - apply sorted_aset. exact SS.
  - apply sorted_aset. exact SL.
  - exact SV.
  - intros sid' o H. destruct (Z.eq_dec sid' sid) as [->|NE].
    + rewrite aget_aset_same in H. inv H. cbn [osid oline ocfg]. split; [reflexivity|].
      rewrite lines_of_set, lget_aset_same. apply line_insert_In. left; reflexivity.
    + rewrite aget_aset_other in H by exact NE. destruct (C1 _ _ H) as [A B]. split; [exact A|].
      rewrite lines_of_set. destruct (Z.eq_dec (ocfg o) cfg) as [E|NC].
      * rewrite E. rewrite lget_aset_same. apply line_insert_In. right. rewrite <- E. exact B.
      * rewrite lget_aset_other by exact NC. exact B.
  - intros cfg' ln' sid' H. rewrite lines_of_set in H. destruct (Z.eq_dec cfg' cfg) as [->|NC].
    + rewrite lget_aset_same in H. apply line_insert_In in H. destruct H as [E|H].
      * inv E. exists (mkobj cfg ln svc sid). rewrite aget_aset_same. split; [reflexivity | split; reflexivity].
      * destruct (C2 _ _ _ H) as [o [A BC]]. exists o. split; [|exact BC].
        rewrite aget_aset_other; [exact A|]. intro; subst; congruence.
    + rewrite lget_aset_other in H by exact NC. destruct (C2 _ _ _ H) as [o [A BC]]. exists o. split; [|exact BC].
      rewrite aget_aset_other; [exact A|]. intro; subst; congruence.
  - intro cfg'. rewrite lines_of_set. destruct (Z.eq_dec cfg' cfg) as [->|NC].
    + rewrite lget_aset_same. apply line_insert_lsorted; [apply C3 | exact LF0 | exact LF1].
    + rewrite lget_aset_other by exact NC. apply C3.
Qed.

Lemma adel_absent {V} k (m : alist V) : sorted m -> aget k m = None -> adel k m = m.
Proof.
  intros S N. rewrite adel_filter. apply filter_id. intros [k' v] I1. cbn [fst].
  destruct (Z.eqb_spec k' k) as [->|]; [|reflexivity].
  rewrite (in_aget _ _ _ S I1) in N. discriminate N.
Qed.

(* OnSceneEnd: exactly that scene goes, exactly its line is freed; an unknown scene changes nothing *)
Lemma end_scene_exact s sid : Consistent s ->
  scenes (end_scene s sid) = adel sid (scenes s) /\
  (forall cfg, lines_of (end_scene s sid) cfg = filter (fun e => negb (snd e =? sid)) (lines_of s cfg)) /\
  services (end_scene s sid) = services s /\ now (end_scene s sid) = now s /\
  nextid (end_scene s sid) = nextid s /\ sorted (lines (end_scene s sid)).
Proof.
  intros [SS SL SV C1 C2 C3]. unfold end_scene. destruct (aget sid (scenes s)) as [o|] eqn:A.
  - cbn [scenes lines services now nextid]. split; [reflexivity|].
    destruct (C1 _ _ A) as [_ IN].
    destruct (aget (ocfg o) (lines s)) as [l|] eqn:L.
    2: { unfold lines_of in IN. rewrite L in IN. destruct IN. }
    assert (LL : lines_of s (ocfg o) = l) by (unfold lines_of; rewrite L; reflexivity).
    unfold free_line. rewrite L.
    split; [|split; [reflexivity | split; [reflexivity | split; [reflexivity | apply sorted_aset; exact SL]]]].
    intro cfg. rewrite lines_of_set. destruct (Z.eq_dec cfg (ocfg o)) as [->|NC].
    + rewrite lget_aset_same. rewrite LL. apply (line_remove_filter _ _ _ 0).
      * rewrite <- LL. apply C3.
      * rewrite <- LL. exact IN.
      * intros ln' I1. rewrite <- LL in I1. destruct (C2 _ _ _ I1) as [o' [A' [_ E]]].
        rewrite A in A'. inv A'. reflexivity.
    + rewrite lget_aset_other by exact NC. symmetry. apply filter_id. intros [ln' sid'] I1. cbn [snd].
      destruct (Z.eqb_spec sid' sid) as [->|]; [|reflexivity]. exfalso.
      destruct (C2 cfg ln' sid I1) as [o' [A' [B _]]]. rewrite A in A'. inv A'. apply NC. reflexivity.
  - split; [symmetry; apply adel_absent; assumption|].
    split; [|split; [reflexivity | split; [reflexivity | split; [reflexivity | exact SL]]]].
    intro cfg. symmetry. apply filter_id. intros [ln' sid'] I1. cbn [snd].
    destruct (Z.eqb_spec sid' sid) as [->|]; [|reflexivity]. exfalso.
    destruct (C2 cfg ln' sid I1) as [o' [A' _]]. congruence.
Qed.

Lemma end_scene_consistent s sid : Consistent s -> Consistent (end_scene s sid).
Proof.
  intro C. pose proof (end_scene_exact s sid C) as [E1 [E2 [E3 [_ [_ SL']]]]].
  destruct C as [SS SL SV C1 C2 C3]. constructor.
  - rewrite E1. apply sorted_adel; exact SS.
  - exact SL'.
  - rewrite E3; exact SV.
  - intros sid' o H. rewrite E1 in H. destruct (Z.eq_dec sid' sid) as [->|NE].
    + rewrite aget_adel_same in H. discriminate H.
    + rewrite aget_adel_other in H by exact NE. destruct (C1 _ _ H) as [A B]. split; [exact A|].
      rewrite E2. apply filter_In. split; [exact B|]. cbn [snd]. apply negb_true_iff. apply Z.eqb_neq. exact NE.
  - intros cfg ln sid' H. rewrite E2 in H. apply filter_In in H. destruct H as [H N]. cbn [snd] in N.
    apply negb_true_iff in N. apply Z.eqb_neq in N. destruct (C2 _ _ _ H) as [o [A BC]].
    exists o. split; [|exact BC]. rewrite E1. rewrite aget_adel_other by exact N. exact A.
  - intro cfg. rewrite E2. apply lsorted_filter. apply C3.
Qed.

(* operations that leave scenes and lines alone *)
Lemma consistent_same_world s s' :
  scenes s' = scenes s -> lines s' = lines s -> sorted (services s') -> Consistent s -> Consistent s'.
Proof.
  intros E1 E2 SV' [SS SL SV C1 C2 C3].
  assert (LO : forall cfg, lines_of s' cfg = lines_of s cfg) by (intro; unfold lines_of; rewrite E2; reflexivity).
  constructor.
  - rewrite E1; exact SS.
  - rewrite E2; exact SL.
  - exact SV'.
  - intros sid o H. rewrite E1 in H. rewrite LO. apply C1. exact H.
  - intros cfg ln sid H. rewrite LO in H. rewrite E1. apply (C2 _ _ _ H).
  - intro cfg. rewrite LO. apply C3.
Qed.

(* ending a list of scenes *)
Definition ends (s : st) (L : list Z) : st := fold_left end_scene L s.

Lemma zmem_cons x y L : zmem x (y :: L) = (x =? y) || zmem x L.
Proof. reflexivity. Qed.

Lemma ends_exact L : forall s, Consistent s ->
  Consistent (ends s L) /\
  scenes (ends s L) = filter (fun ko => negb (zmem (fst ko) L)) (scenes s) /\
  (forall cfg, lines_of (ends s L) cfg = filter (fun e => negb (zmem (snd e) L)) (lines_of s cfg)) /\
  services (ends s L) = services s /\ now (ends s L) = now s /\ nextid (ends s L) = nextid s.
Proof.
  induction L as [|x L IH]; intros s C.
  - cbn [ends fold_left]. split; [exact C|].
    split; [symmetry; apply filter_id; reflexivity|].
    split; [intro cfg; symmetry; apply filter_id; reflexivity|]. auto.
  - pose proof (end_scene_exact s x C) as [E1 [E2 [E3 [E4 [E5 _]]]]].
    destruct (IH _ (end_scene_consistent s x C)) as [C' [F1 [F2 [F3 [F4 F5]]]]].
    change (ends s (x :: L)) with (ends (end_scene s x) L).
    split; [exact C'|]. split; [|split; [|split; [congruence | split; congruence]]].
    + rewrite F1, E1, adel_filter, filter_filter. apply filter_ext. intros [k v]. cbn [fst].
      rewrite zmem_cons, negb_orb. reflexivity.
    + intro cfg. rewrite F2, E2, filter_filter. apply filter_ext. intros [k v]. cbn [snd].
      rewrite zmem_cons, negb_orb. reflexivity.
Qed.

Lemma zmem_scenes_on s svc sid : sorted (scenes s) -> zmem sid (scenes_on s svc) = on_service s svc sid.
Proof.
  intro SS. apply Bool.eq_iff_eq_true. rewrite zmem_In. unfold scenes_on, on_service. rewrite in_map_iff. split.
  - intros [[k o] [E I1]]. cbn [fst] in E. subst k. apply filter_In in I1. destruct I1 as [I1 F]. cbn [snd] in F.
    rewrite (in_aget _ _ _ SS I1). exact F.
  - intro H. destruct (aget sid (scenes s)) as [o|] eqn:A; [|discriminate H].
    exists (sid, o). split; [reflexivity|]. apply filter_In. split; [apply aget_in; exact A | exact H].
Qed.

(* World.OnServiceLost: exactly the scenes hosted by that service go, their lines are freed *)
Lemma world_lost_exact s svc : Consistent s ->
  Consistent (world_lost s svc) /\ removed_exactly s (world_lost s svc) (on_service s svc) /\
  services (world_lost s svc) = services s.
Proof.
  intro C. destruct (ends_exact (scenes_on s svc) s C) as [C' [F1 [F2 [F3 [F4 F5]]]]].
  unfold ends in *. fold (world_lost s svc) in *.
  split; [exact C'|]. split; [|exact F3]. unfold removed_exactly.
  split; [|split; [|split; assumption]].
  - rewrite F1. apply filter_ext. intros [k o]. cbn [fst]. rewrite zmem_scenes_on by apply C. reflexivity.
  - intro cfg. rewrite F2. apply filter_ext. intros [k v]. cbn [snd]. rewrite zmem_scenes_on by apply C. reflexivity.
Qed.

Lemma set_services_consistent s sv : Consistent s -> sorted sv -> Consistent (set_services s sv).
Proof. intros C S. apply (consistent_same_world s); [reflexivity | reflexivity | exact S | exact C]. Qed.

Definition lost_services (s : st) (svc : Z) : alist stat :=
  match aget svc (services s) with
  | Some t => aset svc (mkstat (snum t) false (slast t) (sfail t)) (services s)
  | None => services s
  end.

Lemma lost_exact s svc : Consistent s ->
  Consistent (lost s svc) /\ removed_exactly s (lost s svc) (on_service s svc) /\
  services (lost s svc) = lost_services s svc.
Proof.
  intro C. unfold lost, lost_services. destruct (aget svc (services s)) as [t|] eqn:A.
  - set (s0 := set_services s (aset svc (mkstat (snum t) false (slast t) (sfail t)) (services s))).
    assert (C0 : Consistent s0) by (apply set_services_consistent; [exact C | apply sorted_aset; apply C]).
    destruct (world_lost_exact s0 svc C0) as [C' [R F]]. split; [exact C'|]. split; [exact R | exact F].
  - apply world_lost_exact. exact C.
Qed.

(* ------------------------------------------------------------------ removed_exactly algebra *)
Lemma removed_exactly_ext s a g g' :
  Consistent s -> (forall sid o, aget sid (scenes s) = Some o -> g sid = g' sid) ->
  removed_exactly s a g -> removed_exactly s a g'.
Proof.
  intros C EXT [R1 [R2 R3]]. split; [|split; [|exact R3]].
  - rewrite R1. apply filter_ext_in. intros [k o] I1. cbn [fst].
    rewrite (EXT k o); [reflexivity|]. apply in_aget; [apply C | exact I1].
  - intro cfg. rewrite R2. apply filter_ext_in. intros [ln sid] I1. cbn [snd].
    destruct (c_line_scene s C cfg ln sid I1) as [o [A _]]. rewrite (EXT sid o A). reflexivity.
Qed.

Lemma removed_exactly_trans s a b g1 g2 :
  removed_exactly s a g1 -> removed_exactly a b g2 -> removed_exactly s b (fun x => g1 x || g2 x).
Proof.
  intros [R1 [R2 [R3 R4]]] [Q1 [Q2 [Q3 Q4]]]. split; [|split; [|split; congruence]].
  - rewrite Q1, R1, filter_filter. apply filter_ext. intros [k o]. cbn [fst]. rewrite negb_orb. reflexivity.
  - intro cfg. rewrite Q2, R2, filter_filter. apply filter_ext. intros [ln sid]. cbn [snd]. rewrite negb_orb. reflexivity.
Qed.

Lemma removed_exactly_refl s : removed_exactly s s (fun _ => false).
Proof.
  split; [symmetry; apply filter_id; reflexivity|].
  split; [intro cfg; symmetry; apply filter_id; reflexivity | split; reflexivity].
Qed.

(* ------------------------------------------------------------------ the 1 s timer *)
Definition tgone (s : st) (P : list Z) (sid : Z) : bool :=
  match aget sid (scenes s) with
  | Some o => zmem (osvc o) P && lost_by_tick s (osvc o)
  | None => false
  end.

Record TI (s cur : st) (P : list Z) : Prop := mkTI {
  ti_c : Consistent cur;
  ti_now : now cur = now s;
  ti_nid : nextid cur = nextid s;
  ti_sv : forall k, aget k (services cur) =
                    if zmem k P then option_map (tick_stat s) (aget k (services s)) else aget k (services s);
  ti_rm : removed_exactly s cur (tgone s P) }.

Lemma tgone_skip s P k :
  Consistent s -> lost_by_tick s k = false ->
  forall sid o, aget sid (scenes s) = Some o -> tgone s P sid = tgone s (k :: P) sid.
Proof.
  intros C NL sid o A. unfold tgone. rewrite A, zmem_cons.
  destruct (Z.eqb_spec (osvc o) k) as [->|NE]; [rewrite NL, !andb_false_r; reflexivity | reflexivity].
Qed.

Lemma ti_sv_step s cur P k (t' : option stat) sv' :
  zmem k P = false ->
  (forall k0, aget k0 (services cur) =
              if zmem k0 P then option_map (tick_stat s) (aget k0 (services s)) else aget k0 (services s)) ->
  aget k sv' = option_map (tick_stat s) (aget k (services s)) ->
  (forall k0, k0 <> k -> aget k0 sv' = aget k0 (services cur)) ->
  forall k0, aget k0 sv' =
             if zmem k0 (k :: P) then option_map (tick_stat s) (aget k0 (services s)) else aget k0 (services s).
Proof.
  intros ZP SV AK OTH k0. rewrite zmem_cons. destruct (Z.eqb_spec k0 k) as [->|NE]; cbn [orb].
  - exact AK.
  - rewrite (OTH k0 NE). apply SV.
Qed.

Lemma tick_one_TI s cur P k :
  Consistent s -> zmem k P = false -> TI s cur P -> TI s (tick_one cur k) (k :: P).
Proof.
  intros C ZP [CC NOW NID SV RM]. unfold tick_one.
  pose proof (SV k) as SVk. rewrite ZP in SVk.
  destruct (aget k (services cur)) as [t|] eqn:A.
  - assert (EX : expired cur t = expired s t) by (unfold expired; rewrite NOW; reflexivity).
    rewrite EX. destruct (expired s t) eqn:E.
    + (* a strike *)
      set (t1 := mkstat (snum t) true (now cur) (sfail t + 1)).
      set (s1 := set_services cur (aset k t1 (services cur))).
      assert (C1 : Consistent s1) by (apply set_services_consistent; [exact CC | apply sorted_aset; apply CC]).
      cbn [sfail t1]. destruct (3 <? sfail t + 1) eqn:F.
      * (* 4th strike: lost *)
        destruct (lost_exact s1 k C1) as [C2 [R2 S2]].
        assert (LT : lost_by_tick s k = true) by (unfold lost_by_tick; rewrite <- SVk, E, F; reflexivity).
        constructor.
        -- exact C2.
        -- destruct R2 as [_ [_ [N _]]]. rewrite N. exact NOW.
        -- destruct R2 as [_ [_ [_ N]]]. rewrite N. exact NID.
        -- apply (ti_sv_step s cur P k None); [exact ZP | exact SV | |].
           ++ rewrite S2. unfold lost_services. cbn [s1 set_services services]. rewrite aget_aset_same, aget_aset_same.
              rewrite <- SVk. cbn [option_map]. unfold tick_stat, t1. cbn [snum slast sfail]. rewrite E, F, NOW. reflexivity.
           ++ intros k0 NE. rewrite S2. unfold lost_services. cbn [s1 set_services services]. rewrite aget_aset_same.
              rewrite !aget_aset_other by exact NE. reflexivity.
        -- apply (removed_exactly_ext s _ (fun x => tgone s P x || on_service s1 k x)); [exact C | |].
           ++ intros sid o Ao.
              assert (OS : on_service s1 k sid = negb (tgone s P sid) && (osvc o =? k)).
              { unfold on_service. cbn [s1 set_services scenes]. destruct RM as [R1 _]. rewrite R1.
                rewrite (aget_filter_key (fun x => negb (tgone s P x))). rewrite Ao.
                destruct (tgone s P sid); reflexivity. }
              rewrite OS. unfold tgone. rewrite Ao, zmem_cons.
              destruct (Z.eqb_spec (osvc o) k) as [EQ|NE].
              ** rewrite EQ, LT. destruct (zmem k P); reflexivity.
              ** rewrite andb_false_r, orb_false_r. reflexivity.
           ++ apply (removed_exactly_trans s s1 _ _ _); [exact RM | exact R2].
      * (* strike 1..3 *)
        assert (NL : lost_by_tick s k = false) by (unfold lost_by_tick; rewrite <- SVk, E, F; reflexivity).
        constructor; try assumption.
        -- apply (ti_sv_step s cur P k None); [exact ZP | exact SV | |].
           ++ cbn [s1 set_services services]. rewrite aget_aset_same. rewrite <- SVk. cbn [option_map].
              unfold tick_stat, t1. rewrite E, F, NOW. reflexivity.
           ++ intros k0 NE. cbn [s1 set_services services]. rewrite aget_aset_other by exact NE. reflexivity.
        -- apply (removed_exactly_ext s _ (tgone s P)); [exact C | apply tgone_skip; assumption | exact RM].
    + (* not expired *)
      assert (NL : lost_by_tick s k = false) by (unfold lost_by_tick; rewrite <- SVk, E; reflexivity).
      constructor; try assumption.
      * apply (ti_sv_step s cur P k None); [exact ZP | exact SV | | reflexivity].
        rewrite A, <- SVk. cbn [option_map]. unfold tick_stat. rewrite E. reflexivity.
      * apply (removed_exactly_ext s _ (tgone s P)); [exact C | apply tgone_skip; assumption | exact RM].
  - assert (NL : lost_by_tick s k = false) by (unfold lost_by_tick; rewrite <- SVk; reflexivity).
    constructor; try assumption.
    + apply (ti_sv_step s cur P k None); [exact ZP | exact SV | | reflexivity].
      rewrite A, <- SVk. reflexivity.
    + apply (removed_exactly_ext s _ (tgone s P)); [exact C | apply tgone_skip; assumption | exact RM].
Qed.

Lemma tick_fold s : Consistent s -> forall K cur P,
  NoDup K -> (forall k, In k K -> zmem k P = false) -> TI s cur P ->
  TI s (fold_left tick_one K cur) (rev K ++ P).
Proof.
  intro C. induction K as [|k K IH]; intros cur P ND NP T; [exact T|].
  cbn [fold_left rev]. rewrite <- app_assoc. cbn [app]. inv ND. apply IH.
  - assumption.
  - intros k' I1. rewrite zmem_cons. rewrite (NP k' (or_intror I1)).
    destruct (Z.eqb_spec k' k) as [->|]; [contradiction | reflexivity].
  - apply tick_one_TI; [exact C | apply NP; left; reflexivity | exact T].
Qed.

Definition tick_gone (s : st) (sid : Z) : bool :=
  match aget sid (scenes s) with Some o => lost_by_tick s (osvc o) | None => false end.

Lemma tick_exact s : Consistent s ->
  Consistent (tick s) /\ removed_exactly s (tick s) (tick_gone s) /\
  forall k, aget k (services (tick s)) = option_map (tick_stat s) (aget k (services s)).
Proof.
  intro C. unfold tick.
  assert (T0 : TI s s []).
  { constructor; try reflexivity; [exact C |].
    apply (removed_exactly_ext s _ (fun _ => false)); [exact C | | apply removed_exactly_refl].
      intros sid o A. unfold tgone. rewrite A. reflexivity. }
  pose proof (tick_fold s C (akeys (services s)) s [] (sorted_nodup_keys _ (c_services_sorted s C))
                        (fun _ _ => eq_refl) T0) as [CC NOW NID SV RM].
  rewrite app_nil_r in SV, RM.
  assert (KN : forall k, zmem k (rev (akeys (services s))) = true <-> exists t, aget k (services s) = Some t).
  { intro k. rewrite zmem_In, <- in_rev. apply akeys_In. apply C. }
  split; [exact CC|]. split.
  - apply (removed_exactly_ext s _ (tgone s (rev (akeys (services s))))); [exact C | | exact RM].
    intros sid o A. unfold tgone, tick_gone. rewrite A.
    destruct (lost_by_tick s (osvc o)) eqn:L; [|apply andb_false_r].
    rewrite andb_true_r. apply KN. unfold lost_by_tick in L.
    destruct (aget (osvc o) (services s)) as [t|]; [exists t; reflexivity | discriminate L].
  - intro k. rewrite SV. destruct (zmem k (rev (akeys (services s)))) eqn:Z; [reflexivity|].
    destruct (aget k (services s)) as [t|] eqn:A; [|reflexivity].
    assert (zmem k (rev (akeys (services s))) = true) by (apply KN; exists t; exact A). congruence.
Qed.

(* ------------------------------------------------------------------ FindIdleService *)
Lemma weight_le_cap t : weight t <= 5000.
Proof. unfold weight. destruct (swork t); lia. Qed.

Lemma min_weight_cons x w : min_weight (x :: w) = Z.min (weight (snd x)) (min_weight w).
Proof. reflexivity. Qed.

Lemma min_weight_le w x : In x w -> min_weight w <= weight (snd x).
Proof.
  induction w as [|y w IH]; [intros []|]. rewrite min_weight_cons. intros [->|I1]; [lia|].
  specialize (IH I1). lia.
Qed.

Lemma min_weight_glb w a : a <= 5000 -> (forall x, In x w -> a <= weight (snd x)) -> a <= min_weight w.
Proof.
  intros A H. induction w as [|y w IH]; [exact A|]. rewrite min_weight_cons.
  apply Z.min_glb; [apply H; left; reflexivity | apply IH; intros x I1; apply H; right; exact I1].
Qed.

Lemma min_weight_attained w : w <> [] -> exists x, In x w /\ weight (snd x) = min_weight w.
Proof.
  induction w as [|y w IH]; [congruence|]. intros _. rewrite min_weight_cons.
  destruct w as [|z w'].
  - exists y. split; [left; reflexivity|]. cbn [min_weight fold_right]. pose proof (weight_le_cap (snd y)). lia.
  - destruct IH as [x [I1 E]]; [discriminate|].
    destruct (Z.le_gt_cases (weight (snd y)) (min_weight (z :: w'))) as [L|G].
    + exists y. split; [left; reflexivity | lia].
    + exists x. split; [right; exact I1 | lia].
Qed.

Lemma idle_set_spec s svc : sorted (services s) -> (In svc (idle_set s) <-> idlest s svc).
Proof.
  intro S. unfold idle_set, idlest, working. rewrite in_map_iff. split.
  - intros [[k t] [E I1]]. cbn [fst] in E. subst k. apply filter_In in I1. destruct I1 as [I1 W].
    cbn [snd] in W. apply Z.eqb_eq in W. apply filter_In in I1. destruct I1 as [I1 WK]. cbn [snd] in WK.
    exists t. split; [apply in_aget; assumption|]. split; [exact WK|].
    intros svc' t' A' W'. rewrite W. apply (min_weight_le _ (svc', t')). apply filter_In.
    split; [apply aget_in; exact A' | exact W'].
  - intros [t [A [W M]]]. exists (svc, t). split; [reflexivity|]. apply filter_In. split.
    + apply filter_In. split; [apply aget_in; exact A | exact W].
    + cbn [snd]. apply Z.eqb_eq. apply Z.le_antisymm.
      * apply min_weight_glb; [apply weight_le_cap|]. intros [k' t'] I1. apply filter_In in I1.
        destruct I1 as [I1 W']. cbn [snd] in *. apply (M k' t'); [apply in_aget; assumption | exact W'].
      * apply (min_weight_le _ (svc, t)). apply filter_In. split; [apply aget_in; exact A | exact W].
Qed.

Lemma idle_set_nil s : idle_set s = [] ->
  forall svc t, aget svc (services s) = Some t -> swork t = false.
Proof.
  intros NIL svc t A. destruct (swork t) eqn:W; [exfalso | reflexivity].
  assert (I1 : In (svc, t) (working s)) by (apply filter_In; split; [apply aget_in; exact A | exact W]).
  destruct (min_weight_attained (working s)) as [x [Ix Wx]]; [intro E; rewrite E in I1; destruct I1|].
  assert (I2 : In (fst x) (idle_set s)).
  { unfold idle_set. apply in_map. apply filter_In. split; [exact Ix | apply Z.eqb_eq; exact Wx]. }
  rewrite NIL in I2. destruct I2.
Qed.

Lemma alloc_spec s cfg r : sorted (services s) -> In r (snd (step s (OAlloc cfg))) ->
  (r = RAlloc None /\ forall svc t, aget svc (services s) = Some t -> swork t = false) \/
  (exists svc, r = RAlloc (Some (svc, nextid s)) /\ idlest s svc).
Proof.
  intro S. cbn [step]. destruct (idle_set s) as [|a l] eqn:IS; cbn [snd].
  - intros [<-|[]]. left. split; [reflexivity | apply idle_set_nil; exact IS].
  - intro I1. apply in_map_iff in I1. destruct I1 as [svc [E I1]]. right. exists svc.
    split; [symmetry; exact E|]. apply idle_set_spec; [exact S|]. rewrite IS. exact I1.
Qed.

Lemma alloc_frame s cfg :
  scenes (fst (step s (OAlloc cfg))) = scenes s /\ lines (fst (step s (OAlloc cfg))) = lines s /\
  services (fst (step s (OAlloc cfg))) = services s /\ now (fst (step s (OAlloc cfg))) = now s.
Proof. cbn [step]. destruct (idle_set s); cbn [fst scenes lines services now]; auto. Qed.

(* ------------------------------------------------------------------ ReqSceneByCfgId *)
Lemma req_spec s cfg r :
  Consistent s -> (forall sid o, aget sid (scenes s) = Some o -> sid <> 0) -> In r (req_results s cfg) ->
  (r = RReq None /\ forall sid, ~ live_of s cfg sid) \/
  (exists sid o, aget sid (scenes s) = Some o /\ ocfg o = cfg /\ r = RReq (Some (sid, cfg, oline o, osvc o))).
Proof.
  intros C NZ. unfold req_results.
  assert (EMPTY : lines_of s cfg = [] -> forall sid, ~ live_of s cfg sid).
  { intros E sid [o [A B]]. destruct (c_scene_line s C _ _ A) as [_ I1]. rewrite B, E in I1. destruct I1. }
  destruct (aget cfg (lines s)) as [l|] eqn:L.
  - destruct l as [|e l'].
    + intros [<-|[]]. left. split; [reflexivity|]. apply EMPTY. unfold lines_of. rewrite L. reflexivity.
    + intro I1. apply in_map_iff in I1. destruct I1 as [[ln sid] [E I1]]. cbn [snd] in E. right.
      assert (I2 : In (ln, sid) (lines_of s cfg)) by (unfold lines_of; rewrite L; exact I1).
      destruct (c_line_scene s C _ _ _ I2) as [o [A [B D]]]. exists sid, o.
      split; [exact A|]. split; [exact B|]. rewrite <- E. unfold req_of.
      destruct (Z.eqb_spec sid 0) as [Z0|_]; [exfalso; apply (NZ _ _ A Z0)|]. rewrite A.
      destruct (c_scene_line s C _ _ A) as [OS _]. rewrite OS, B. reflexivity.
  - intros [<-|[]]. left. split; [reflexivity|]. apply EMPTY. unfold lines_of. rewrite L. reflexivity.
Qed.

(* ------------------------------------------------------------------ all histories *)
Definition is_create (o : op) : bool := match o with OCreate _ _ _ => true | _ => false end.

Lemma step_consistent s o : is_create o = false -> Consistent s -> Consistent (fst (step s o)).
Proof.
  intros NC C. destruct o as [cfg sid svc|sid|svc n| |dt|svc|cfg|cfg]; cbn [step fst]; try discriminate NC.
  - apply end_scene_consistent. exact C.
  - apply (consistent_same_world s); [reflexivity | reflexivity | apply sorted_aset; apply C | exact C].
  - apply tick_exact. exact C.
  - apply (consistent_same_world s); [reflexivity | reflexivity | apply C | exact C].
  - apply lost_exact. exact C.
  - destruct (idle_set s); cbn [fst]; [exact C|].
    apply (consistent_same_world s); [reflexivity | reflexivity | apply C | exact C].
  - exact C.
Qed.

Lemma removed_live_sub s s' g sid o :
  removed_exactly s s' g -> aget sid (scenes s') = Some o -> aget sid (scenes s) = Some o.
Proof.
  intros [R1 _] H. rewrite R1 in H. rewrite (aget_filter_key (fun x => negb (g x))) in H.
  destruct (negb (g sid)); [exact H | discriminate H].
Qed.

Lemma step_live_sub s o sid ob : is_create o = false -> Consistent s ->
  aget sid (scenes (fst (step s o))) = Some ob -> aget sid (scenes s) = Some ob.
Proof.
  intros NC C. destruct o as [cfg sid0 svc|sid0|svc n| |dt|svc|cfg|cfg]; cbn [step fst]; try discriminate NC.
  - destruct (end_scene_exact s sid0 C) as [E1 _]. rewrite E1. destruct (Z.eq_dec sid sid0) as [->|NE].
    + rewrite aget_adel_same. discriminate.
    + rewrite aget_adel_other by exact NE. tauto.
  - tauto.
  - destruct (tick_exact s C) as [_ [R _]]. apply (removed_live_sub _ _ _ _ _ R).
  - tauto.
  - destruct (lost_exact s svc C) as [_ [R _]]. apply (removed_live_sub _ _ _ _ _ R).
  - destruct (idle_set s); cbn [fst scenes]; tauto.
  - tauto.
Qed.

Lemma created_snoc h o : created (h ++ [o]) = created h ++ (match o with OCreate _ sid _ => [sid] | _ => [] end).
Proof. rewrite created_app. destruct o; reflexivity. Qed.

Lemma NoDup_app_l {A} (a b : list A) : NoDup (a ++ b) -> NoDup a.
Proof.
  induction a as [|x a IH]; cbn [app]; intro N; [constructor|]. inv N.
  constructor; [intro I1; apply H1; apply in_or_app; left; exact I1 | apply IH; assumption].
Qed.

Lemma wf_snoc h o : wf (h ++ [o]) -> wf h.
Proof.
  unfold wf. rewrite created_snoc. intros [N F]. split.
  - apply NoDup_app_l in N. exact N.
  - apply Forall_app in F. apply F.
Qed.

Definition J (h : list op) (s : st) : Prop :=
  Consistent s /\ forall sid o, aget sid (scenes s) = Some o -> In sid (created h).

Lemma final_J h : wf h -> J h (final h).
Proof.
  induction h as [|o h IH] using rev_ind; intro W.
  - split; [exact Consistent_init | intros sid o H; discriminate H].
  - destruct (IH (wf_snoc _ _ W)) as [C L]. rewrite final_snoc.
    destruct (is_create o) eqn:IC.
    + destruct o as [cfg sid svc|sid|svc n| |dt|svc|cfg|cfg]; try discriminate IC.
      destruct W as [N _]. rewrite created_snoc in N. apply NoDup_remove_2 in N. rewrite app_nil_r in N.
      assert (NL : aget sid (scenes (final h)) = None).
      { destruct (aget sid (scenes (final h))) as [o'|] eqn:A; [|reflexivity]. exfalso. apply N. apply (L _ _ A). }
      cbn [step fst]. split; [apply create_consistent; assumption|].
      intros sid' o' H. rewrite created_snoc. apply in_or_app. unfold create in H. cbn [scenes] in H.
      destruct (Z.eq_dec sid' sid) as [->|NE]; [right; left; reflexivity|].
      rewrite aget_aset_other in H by exact NE. left. apply (L _ _ H).
    + split; [apply step_consistent; assumption|].
      intros sid' o' H. rewrite created_snoc. apply in_or_app. left.
      apply (L sid' o'). apply (step_live_sub _ _ _ _ IC C H).
Qed.

Lemma final_consistent h : wf h -> Consistent (final h).
Proof. intro W. apply (final_J h W). Qed.

Lemma live_positive h sid o : wf h -> aget sid (scenes (final h)) = Some o -> 0 < sid.
Proof.
  intros W A. destruct (final_J h W) as [_ L]. destruct W as [_ F].
  rewrite Forall_forall in F. apply F. apply (L _ _ A).
Qed.

Lemma wf_non_create h o : is_create o = false -> wf h -> wf (h ++ [o]).
Proof.
  intros NC W. unfold wf. rewrite created_snoc. destruct o; try discriminate NC; rewrite app_nil_r; exact W.
Qed.

(* ---- statements for Props.v ---- *)
Lemma lsorted_nodup l : forall lo, lsorted lo l -> NoDup (map fst l).
Proof.
  induction l as [|[a b] r IH]; intros lo S; cbn [map fst]; [constructor|].
  cbn [lsorted] in S. destruct S as [S1 S2]. constructor; [|apply (IH _ S2)].
  intro I1. apply in_map_iff in I1. destruct I1 as [e [E I1]]. pose proof (lsorted_ge _ _ _ S2 I1). lia.
Qed.

Lemma count_one ln sid l : forall lo,
  lsorted lo l -> In (ln, sid) l -> (forall ln', In (ln', sid) l -> ln' = ln) ->
  length (filter (fun e => snd e =? sid) l) = 1%nat.
Proof.
  induction l as [|[a b] r IH]; intros lo S I1 U; [destruct I1|].
  cbn [lsorted] in S. destruct S as [S1 S2]. cbn [filter snd].
  destruct (Z.eqb_spec b sid) as [->|NB].
  - assert (a = ln) by (apply U; left; reflexivity). subst a. cbn [length]. f_equal.
    replace (filter (fun e => snd e =? sid) r) with (@nil line); [reflexivity|].
    symmetry. apply filter_none. intros [a' b'] I2. cbn [snd]. apply Z.eqb_neq. intro; subst b'.
    pose proof (lsorted_ge _ _ _ S2 I2) as G. cbn [fst] in G.
    assert (a' = ln) by (apply U; right; exact I2). lia.
  - apply (IH (a + 1)); [exact S2 | | intros ln' I2; apply U; right; exact I2].
    destruct I1 as [E|I1]; [inv E; contradiction | exact I1].
Qed.

Lemma one_line h sid o : wf h -> aget sid (scenes (final h)) = Some o ->
  (forall cfg ln, In (ln, sid) (lines_of (final h) cfg) -> cfg = ocfg o /\ ln = oline o) /\
  length (filter (fun e => snd e =? sid) (lines_of (final h) (ocfg o))) = 1%nat.
Proof.
  intros W A. pose proof (final_consistent h W) as C.
  assert (U : forall cfg ln, In (ln, sid) (lines_of (final h) cfg) -> cfg = ocfg o /\ ln = oline o).
  { intros cfg ln I1. destruct (c_line_scene _ C _ _ _ I1) as [o' [A' [B D]]]. rewrite A in A'. inv A'. auto. }
  split; [exact U|]. apply (count_one (oline o) sid _ 0).
  - apply C.
  - apply (c_scene_line _ C _ _ A).
  - intros ln' I1. apply (U _ _ I1).
Qed.

Lemma line_numbers_unique h cfg : wf h -> NoDup (map fst (lines_of (final h) cfg)).
Proof. intro W. apply (lsorted_nodup _ 0). apply (final_consistent h W). Qed.

Lemma create_takes_smallest h cfg sid svc :
  wf (h ++ [OCreate cfg sid svc]) ->
  let s := final h in let s' := final (h ++ [OCreate cfg sid svc]) in
  exists ln, least_free (lines_of s cfg) ln /\
    aget sid (scenes s') = Some (mkobj cfg ln svc sid) /\
    (forall sid', sid' <> sid -> aget sid' (scenes s') = aget sid' (scenes s)) /\
    (forall e, In e (lines_of s' cfg) <-> e = (ln, sid) \/ In e (lines_of s cfg)) /\
    (forall cfg', cfg' <> cfg -> lines_of s' cfg' = lines_of s cfg') /\
    services s' = services s.
Proof.
  intros W s s'. pose proof (final_consistent h (wf_snoc _ _ W)) as C.
  exists (fine_idle (lines_of s cfg)). split; [apply fine_idle_least; apply C|].
  unfold s'. rewrite final_snoc. cbn [step fst]. unfold create. fold s. cbn [scenes services].
  split; [apply aget_aset_same|]. split; [intros sid' NE; apply aget_aset_other; exact NE|].
  split; [|split; [|reflexivity]].
  - intro e. rewrite lines_of_set, lget_aset_same. apply line_insert_In.
  - intros cfg' NE. rewrite lines_of_set. apply lget_aset_other. exact NE.
Qed.

Lemma end_exact h sid : wf h ->
  removed_exactly (final h) (final (h ++ [OEnd sid])) (fun x => x =? sid) /\
  services (final (h ++ [OEnd sid])) = services (final h).
Proof.
  intro W. pose proof (final_consistent h W) as C. rewrite final_snoc. cbn [step fst].
  destruct (end_scene_exact _ sid C) as [E1 [E2 [E3 [E4 [E5 _]]]]].
  split; [|exact E3]. split; [rewrite E1; apply adel_filter|]. split; [exact E2 | split; assumption].
Qed.

Lemma end_unknown h sid : wf h -> aget sid (scenes (final h)) = None ->
  final (h ++ [OEnd sid]) = final h.
Proof. intros W N. rewrite final_snoc. cbn [step fst]. unfold end_scene. rewrite N. reflexivity. Qed.

Lemma lost_exact_h h svc : wf h ->
  removed_exactly (final h) (final (h ++ [OLost svc])) (on_service (final h) svc) /\
  services (final (h ++ [OLost svc])) = lost_services (final h) svc.
Proof.
  intro W. pose proof (final_consistent h W) as C. rewrite final_snoc. cbn [step fst].
  destruct (lost_exact _ svc C) as [_ [R S]]. split; assumption.
Qed.

Lemma tick_exact_h h : wf h ->
  removed_exactly (final h) (final (h ++ [OTick])) (tick_gone (final h)) /\
  forall k, aget k (services (final (h ++ [OTick]))) = option_map (tick_stat (final h)) (aget k (services (final h))).
Proof.
  intro W. pose proof (final_consistent h W) as C. rewrite final_snoc. cbn [step fst].
  destruct (tick_exact _ C) as [_ [R S]]. split; assumption.
Qed.

Lemma req_live h cfg r : wf h -> In r (results_at h (OReq cfg)) ->
  (r = RReq None /\ forall sid, ~ live_of (final h) cfg sid) \/
  (exists sid o, aget sid (scenes (final h)) = Some o /\ ocfg o = cfg /\
                 r = RReq (Some (sid, cfg, oline o, osvc o))).
Proof.
  intros W I1. unfold results_at in I1. cbn [step snd] in I1. apply req_spec; [apply final_consistent; exact W | | exact I1].
  intros sid o A. pose proof (live_positive h sid o W A). lia.
Qed.

Lemma alloc_working_argmin h cfg r : wf h -> In r (results_at h (OAlloc cfg)) ->
  (r = RAlloc None /\ forall svc t, aget svc (services (final h)) = Some t -> swork t = false) \/
  (exists svc, r = RAlloc (Some (svc, nextid (final h))) /\ idlest (final h) svc).
Proof. intros W I1. apply (alloc_spec _ cfg); [apply (final_consistent h W) | exact I1]. Qed.

Definition world_frame (o : op) : bool :=
  match o with ORefresh _ _ | OAdvance _ | OAlloc _ | OReq _ => true | _ => false end.

Lemma frame_others h o : world_frame o = true ->
  scenes (final (h ++ [o])) = scenes (final h) /\ lines (final (h ++ [o])) = lines (final h).
Proof.
  intro F. rewrite final_snoc. destruct o; try discriminate F; cbn [step fst]; try (split; reflexivity).
  destruct (idle_set (final h)); split; reflexivity.
Qed.

(* ------------------------------------------------------------------ the boolean monitor accepts what the
   propositions allow: each executable check used on implementation dumps is implied by the
   proposition the theorems are stated with (so a failing check refutes that proposition) *)
Lemma line_eqb_refl e : line_eqb e e = true.
Proof. unfold line_eqb. rewrite !Z.eqb_refl. reflexivity. Qed.

Lemma lines_eqb_refl l : lines_eqb l l = true.
Proof. induction l as [|e r IH]; [reflexivity|]. cbn. rewrite line_eqb_refl. exact IH. Qed.

Lemma obj_eqb_refl o : obj_eqb o o = true.
Proof. unfold obj_eqb. rewrite !Z.eqb_refl. reflexivity. Qed.

Lemma alist_eqb_refl {V} (e : V -> V -> bool) (m : alist V) :
  (forall v, e v v = true) -> alist_eqb e m m = true.
Proof.
  intro R. induction m as [|[k v] r IH]; [reflexivity|]. unfold alist_eqb in *. cbn [list_eqb fst snd].
  rewrite Z.eqb_refl, R, IH. reflexivity.
Qed.

Lemma keys_asc_complete {V} (m : alist V) : forall lo,
  match lo with Some p => lb p m | None => True end -> sorted m -> keys_ascending lo (akeys m) = true.
Proof.
  induction m as [|[k v] r IH]; intros lo B S; [reflexivity|].
  cbn [akeys map fst keys_ascending]. cbn [sorted] in S. destruct S as [L S].
  apply andb_true_iff. split.
  - destruct lo as [p|]; [|reflexivity]. cbn [lb] in B. apply Z.ltb_lt. apply B.
  - apply (IH (Some k)); assumption.
Qed.

Lemma asorted_b_complete {V} (m : alist V) : sorted m -> asorted_b m = true.
Proof. intro S. apply (keys_asc_complete m None); [exact I | exact S]. Qed.

Lemma lsorted_b_complete l : forall lo, lsorted lo l -> lsorted_b lo l = true.
Proof.
  induction l as [|[a b] r IH]; intros lo S; [reflexivity|]. cbn [lsorted] in S. destruct S as [S1 S2].
  cbn [lsorted_b]. apply andb_true_iff. split; [apply Z.leb_le; exact S1 | apply IH; exact S2].
Qed.

Lemma consistent_b_complete s : Consistent s -> consistent_b s = true.
Proof.
  intros [SS SL SV C1 C2 C3]. unfold consistent_b.
  rewrite (asorted_b_complete _ SS), (asorted_b_complete _ SL), (asorted_b_complete _ SV). cbn [andb].
  apply andb_true_iff. split.
  - apply forallb_forall. intros [sid o] I1. cbn [fst snd].
    destruct (C1 sid o (in_aget _ _ _ SS I1)) as [A B]. apply andb_true_iff. split; [apply Z.eqb_eq; exact A|].
    apply existsb_exists. exists (oline o, sid). split; [exact B | apply line_eqb_refl].
  - apply forallb_forall. intros [cfg l] I1. cbn [fst snd].
    assert (LL : lines_of s cfg = l) by (unfold lines_of; rewrite (in_aget _ _ _ SL I1); reflexivity).
    apply andb_true_iff. split; [apply lsorted_b_complete; rewrite <- LL; apply C3|].
    apply forallb_forall. intros [ln sid] I2. cbn [fst snd]. rewrite <- LL in I2.
    destruct (C2 _ _ _ I2) as [o [A [B D]]]. rewrite A. apply andb_true_iff. split; apply Z.eqb_eq; assumption.
Qed.

Lemma removed_exactly_b_complete s s' g : removed_exactly s s' g -> removed_exactly_b s s' g = true.
Proof.
  intros [R1 [R2 _]]. unfold removed_exactly_b. apply andb_true_iff. split.
  - rewrite R1. apply alist_eqb_refl. apply obj_eqb_refl.
  - apply forallb_forall. intros cfg _. rewrite R2. apply lines_eqb_refl.
Qed.

Lemma idlest_b_complete s svc : sorted (services s) -> idlest s svc -> idlest_b s svc = true.
Proof.
  intros S [t [A [W M]]]. unfold idlest_b. rewrite A, W. cbn [andb]. apply forallb_forall.
  intros [k t'] I1. cbn [snd]. destruct (swork t') eqn:W'; [|reflexivity]. cbn [negb orb].
  apply Z.leb_le. apply (M k t'); [apply in_aget; assumption | exact W'].
Qed.

Lemma least_free_b_complete l n : least_free l n -> least_free_b l n = true.
Proof.
  intros [A [B C]]. unfold least_free_b. apply andb_true_iff. split; [apply andb_true_iff; split|].
  - apply Z.leb_le. exact A.
  - apply negb_true_iff. destruct (zmem n (map fst l)) eqn:M; [|reflexivity]. apply zmem_In in M. contradiction.
  - apply forallb_forall. intros m I1. apply in_map_iff in I1. destruct I1 as [i [E I1]]. apply in_seq in I1.
    apply zmem_In. apply C. lia.
Qed.

(* the converses: what the executable clauses accept IS what the spec says (so a green monitor on an
   implementation trace means the allocated line really was the least free one, the chosen service
   really an idlest working one) *)
Lemma least_free_b_sound l n : least_free_b l n = true -> least_free l n.
Proof.
  unfold least_free_b. rewrite !andb_true_iff. intros [[A B] C].
  apply Z.leb_le in A. apply negb_true_iff in B. rewrite forallb_forall in C.
  split; [exact A|]. split.
  - intro I1. apply zmem_In in I1. rewrite I1 in B. discriminate.
  - intros m Hm. apply zmem_In. apply C. apply in_map_iff. exists (Z.to_nat m).
    split; [apply Z2Nat.id; lia|]. apply in_seq. lia.
Qed.

Lemma least_free_b_exact l n : least_free_b l n = true <-> least_free l n.
Proof. split; [apply least_free_b_sound | apply least_free_b_complete]. Qed.

Lemma idlest_b_sound s svc : idlest_b s svc = true -> idlest s svc.
Proof.
  unfold idlest_b. destruct (aget svc (services s)) as [t|] eqn:A; [|discriminate].
  rewrite andb_true_iff. intros [W F]. rewrite forallb_forall in F.
  exists t. split; [exact A|]. split; [exact W|].
  intros svc' t' A' W'. specialize (F (svc', t') (aget_in _ _ _ A')). cbn [snd] in F.
  rewrite W' in F. cbn [negb orb] in F. apply Z.leb_le. exact F.
Qed.

Lemma idlest_b_exact s svc : sorted (services s) -> (idlest_b s svc = true <-> idlest s svc).
Proof. intro S. split; [apply idlest_b_sound | apply idlest_b_complete; exact S]. Qed.

(* ================================================================== monitor_accepts_model
   Every implementation trace the model accepts ([agree_from]) passes the monitor.  So a monitor
   failure on an implementation trace is a behaviour the model excludes. *)

(* ---- decoding the boolean equalities ---- *)
Lemma zeq_spec : forall a b : Z, (a =? b) = true <-> a = b.
Proof. intros. apply Z.eqb_eq. Qed.

Lemma beq_spec : forall a b : bool, Bool.eqb a b = true <-> a = b.
Proof. intros. apply Bool.eqb_true_iff. Qed.

Lemma lines_eqb_spec a b : lines_eqb a b = true <-> a = b.
Proof. unfold lines_eqb. apply list_eqb_spec. intros x y. apply (pair_eqb_spec Z.eqb Z.eqb zeq_spec zeq_spec). Qed.

Lemma res_eqb_eq a b : res_eqb a b = true -> a = b.
Proof.
  destruct a as [|x|x], b as [|y|y]; cbn [res_eqb]; intro H; try discriminate H; try reflexivity.
  - f_equal. revert H. apply option_eqb_spec. apply pair_eqb_spec; apply zeq_spec.
  - f_equal. revert H. apply option_eqb_spec.
    repeat (apply pair_eqb_spec; try apply zeq_spec).
Qed.

Lemma dump_eqb_eq a b : dump_eqb a b = true -> a = b.
Proof.
  destruct a as [[sa la] va], b as [[sb lb0] vb]. cbn [dump_eqb]. intro H.
  apply andb_true_iff in H. destruct H as [H H3]. apply andb_true_iff in H. destruct H as [H1 H2].
  assert (sa = sb).
  { revert H1. apply list_eqb_spec. repeat (apply pair_eqb_spec; try apply zeq_spec). }
  assert (la = lb0).
  { revert H2. apply list_eqb_spec. apply pair_eqb_spec; [apply zeq_spec | apply lines_eqb_spec]. }
  assert (va = vb).
  { revert H3. apply list_eqb_spec. repeat (apply pair_eqb_spec; try apply zeq_spec; try apply beq_spec). }
  subst. reflexivity.
Qed.

Lemma wf_b_spec h : wf_b h = true <-> wf h.
Proof.
  unfold wf_b, wf. rewrite andb_true_iff, nodupb_NoDup, forallb_forall, Forall_forall.
  split; intros [A B]; (split; [exact A|]); intros x I1; specialize (B x I1); lia.
Qed.

(* ---- a dump determines the state ---- *)
Definition keys_ok (s : st) : Prop := forall k o, In (k, o) (scenes s) -> osid o = k.

Lemma st_of_dump_of s : keys_ok s -> st_of_dump (dump_of s) (now s) (nextid s) = s.
Proof.
  intro K. destruct s as [sc ln sv n i]. unfold keys_ok in K. cbn [scenes] in K.
  unfold dump_of, st_of_dump. cbn [scenes lines services now nextid]. f_equal.
  - rewrite map_map. rewrite <- (map_id sc) at 2. apply map_ext_in. intros [k o] I1. cbn [fst snd].
    rewrite <- (K k o I1). destruct o; reflexivity.
  - rewrite map_map. rewrite <- (map_id sv) at 2. apply map_ext. intros [k t]. cbn [fst snd].
    destruct t; reflexivity.
Qed.

Lemma aset_In_inv {V} k (v : V) m x : In x (aset k v m) -> x = (k, v) \/ In x m.
Proof.
  induction m as [|[k' v'] r IH]; cbn [aset In]; [intros [E|[]]; left; symmetry; exact E|].
  destruct (k <? k'); [cbn [In]; intros [E|H]; [left; symmetry; exact E | right; exact H]|].
  destruct (k =? k'); cbn [In].
  - intros [E|H]; [left; symmetry; exact E | right; right; exact H].
  - intros [E|H]; [right; left; exact E|]. destruct (IH H) as [E|H2]; [left; exact E | right; right; exact H2].
Qed.

Lemma end_scene_keys s sid : keys_ok s -> keys_ok (end_scene s sid).
Proof.
  intros K k o. unfold end_scene. destruct (aget sid (scenes s)); [|apply K].
  cbn [scenes]. rewrite adel_filter. intro I1. apply filter_In in I1. apply K. apply I1.
Qed.

Lemma ends_keys L : forall s, keys_ok s -> keys_ok (fold_left end_scene L s).
Proof. induction L as [|x L IH]; intros s K; [exact K|]. cbn [fold_left]. apply IH. apply end_scene_keys. exact K. Qed.

Lemma lost_keys s svc : keys_ok s -> keys_ok (lost s svc).
Proof. intro K. unfold lost. destruct (aget svc (services s)); apply ends_keys; exact K. Qed.

Lemma tick_one_keys s svc : keys_ok s -> keys_ok (tick_one s svc).
Proof.
  intro K. unfold tick_one. destruct (aget svc (services s)) as [t|]; [|exact K].
  destruct (expired s t); [|exact K]. cbv zeta.
  destruct (3 <? sfail (mkstat (snum t) true (now s) (sfail t + 1))); [apply lost_keys|]; exact K.
Qed.

Lemma tick_keys s : keys_ok s -> keys_ok (tick s).
Proof.
  unfold tick. generalize (akeys (services s)). intro L. revert s.
  induction L as [|x L IH]; intros s K; [exact K|]. cbn [fold_left]. apply IH. apply tick_one_keys. exact K.
Qed.

Lemma step_keys s o : keys_ok s -> keys_ok (fst (step s o)).
Proof.
  intro K. destruct o as [cfg sid svc|sid|svc n| |dt|svc|cfg|cfg]; cbn [step fst]; try exact K.
  - intros k o I1. unfold create in I1. cbn [scenes] in I1. apply aset_In_inv in I1.
    destruct I1 as [E|I1]; [inv E; reflexivity | apply K; exact I1].
  - apply end_scene_keys. exact K.
  - apply tick_keys. exact K.
  - apply lost_keys. exact K.
  - destruct (idle_set s); exact K.
Qed.

(* ---- more alist facts ---- *)
Lemma adel_absent' {V} k (m : alist V) : aget k m = None -> adel k m = m.
Proof.
  induction m as [|[k' v] r IH]; cbn [aget adel]; [reflexivity|].
  destruct (k =? k'); [discriminate|]. intro H. f_equal. apply IH. exact H.
Qed.

Lemma adel_aset_absent {V} k (v : V) m : aget k m = None -> adel k (aset k v m) = m.
Proof.
  induction m as [|[k' v'] r IH]; cbn [aget aset]; intro H.
  - cbn [adel]. rewrite Z.eqb_refl. reflexivity.
  - destruct (Z.eqb_spec k k') as [E|NE]; [discriminate H|].
    destruct (k <? k').
    + cbn [adel]. rewrite Z.eqb_refl. destruct (Z.eqb_spec k k'); [contradiction|].
      f_equal. apply adel_absent'. exact H.
    + cbn [adel]. destruct (Z.eqb_spec k k'); [contradiction|]. f_equal. apply IH. exact H.
Qed.

Lemma lb_aget {V} k j (m : alist V) v : lb k m -> aget j m = Some v -> k < j.
Proof.
  induction m as [|[k' v'] r IH]; cbn [lb aget]; [discriminate|]. intros [L1 L2].
  destruct (Z.eqb_spec j k') as [->|NE]; [intros _; exact L1 | apply IH; exact L2].
Qed.

Lemma sorted_ext {V} (a : alist V) : forall b, sorted a -> sorted b ->
  (forall k, aget k a = aget k b) -> a = b.
Proof.
  induction a as [|[k v] ra IH]; intros [|[k' v'] rb] SA SB E.
  - reflexivity.
  - specialize (E k'). cbn [aget] in E. rewrite Z.eqb_refl in E. discriminate E.
  - specialize (E k). cbn [aget] in E. rewrite Z.eqb_refl in E. discriminate E.
  - cbn [sorted] in SA, SB. destruct SA as [LA SA]. destruct SB as [LB SB].
    assert (k = k').
    { pose proof (E k) as E1. pose proof (E k') as E2. cbn [aget] in E1, E2. rewrite Z.eqb_refl in E1, E2.
      destruct (Z.eqb_spec k k') as [|NE]; [assumption|].
      destruct (Z.eqb_spec k' k) as [|NE2]; [congruence|].
      symmetry in E1. pose proof (lb_aget _ _ _ _ LB E1). pose proof (lb_aget _ _ _ _ LA E2). lia. }
    subst k'. pose proof (E k) as E1. cbn [aget] in E1. rewrite Z.eqb_refl in E1. inv E1. f_equal.
    apply IH; [exact SA | exact SB|]. intro j. destruct (Z.eq_dec j k) as [->|NE].
    + rewrite (lb_not_in _ _ LA), (lb_not_in _ _ LB). reflexivity.
    + specialize (E j). cbn [aget] in E. destruct (Z.eqb_spec j k); [contradiction | exact E].
Qed.

Lemma amap_lb {V} (f : V -> V) k (m : alist V) : lb k m -> lb k (map (fun kt => (fst kt, f (snd kt))) m).
Proof. induction m as [|[k' v] r IH]; cbn [lb map fst snd]; [tauto|]. intros [L1 L2]. split; [exact L1 | apply IH; exact L2]. Qed.

Lemma amap_sorted {V} (f : V -> V) (m : alist V) : sorted m -> sorted (map (fun kt => (fst kt, f (snd kt))) m).
Proof.
  induction m as [|[k v] r IH]; cbn [sorted map fst snd]; [tauto|]. intros [L S].
  split; [apply amap_lb; exact L | apply IH; exact S].
Qed.

Lemma amap_aget {V} (f : V -> V) k (m : alist V) :
  aget k (map (fun kt => (fst kt, f (snd kt))) m) = option_map f (aget k m).
Proof.
  induction m as [|[k' v] r IH]; cbn [aget map fst snd]; [reflexivity|].
  destruct (k =? k'); [reflexivity | exact IH].
Qed.

Lemma stat_eqb_refl t : stat_eqb t t = true.
Proof. unfold stat_eqb. rewrite !Z.eqb_refl, Bool.eqb_reflx. reflexivity. Qed.

Lemma same_services_refl s s' : services s' = services s -> same_services_b s s' = true.
Proof. intro E. unfold same_services_b. rewrite E. apply alist_eqb_refl. apply stat_eqb_refl. Qed.

Lemma same_world_refl s s' : scenes s' = scenes s -> lines s' = lines s -> same_world_b s s' = true.
Proof.
  intros E1 E2. unfold same_world_b. rewrite E1. rewrite (alist_eqb_refl _ _ obj_eqb_refl). cbn [andb].
  apply forallb_forall. intros cfg _. unfold lines_of. rewrite E2. apply lines_eqb_refl.
Qed.

Lemma filter_line_insert ln sid l :
  (forall e, In e l -> snd e <> sid) ->
  filter (fun e => negb (snd e =? sid)) (line_insert (ln, sid) l) = l.
Proof.
  induction l as [|x r IH]; intro H; cbn [line_insert filter fst snd].
  - rewrite Z.eqb_refl. reflexivity.
  - assert (HX : negb (snd x =? sid) = true).
    { apply negb_true_iff. apply Z.eqb_neq. apply H. left. reflexivity. }
    destruct (ln <? fst x); cbn [filter snd].
    + rewrite Z.eqb_refl. cbn [negb]. rewrite HX. f_equal. apply filter_id. intros e I1.
      apply negb_true_iff. apply Z.eqb_neq. apply H. right. exact I1.
    + rewrite HX. f_equal. apply IH. intros e I1. apply H. right. exact I1.
Qed.

(* ---- one step of the invariant, the clock and the id allocator ---- *)
Lemma fresh_not_live h s cfg sid svc :
  J h s -> wf (h ++ [OCreate cfg sid svc]) -> aget sid (scenes s) = None.
Proof.
  intros [C L] [N _]. rewrite created_snoc in N. apply NoDup_remove_2 in N. rewrite app_nil_r in N.
  destruct (aget sid (scenes s)) as [o'|] eqn:A; [|reflexivity]. exfalso. apply N. apply (L _ _ A).
Qed.

Lemma step_J h s o : J h s -> wf (h ++ [o]) -> J (h ++ [o]) (fst (step s o)).
Proof.
  intros JJ W. pose proof JJ as [C L]. destruct (is_create o) eqn:IC.
  - destruct o as [cfg sid svc|sid|svc n| |dt|svc|cfg|cfg]; try discriminate IC.
    pose proof (fresh_not_live _ _ _ _ _ JJ W) as NL.
    cbn [step fst]. split; [apply create_consistent; assumption|].
    intros sid' o' H. rewrite created_snoc. apply in_or_app. unfold create in H. cbn [scenes] in H.
    destruct (Z.eq_dec sid' sid) as [->|NE]; [right; left; reflexivity|].
    rewrite aget_aset_other in H by exact NE. left. apply (L _ _ H).
  - split; [apply step_consistent; assumption|].
    intros sid' o' H. rewrite created_snoc. apply in_or_app. left.
    apply (L sid' o'). apply (step_live_sub _ _ _ _ IC C H).
Qed.

Lemma step_now s o : Consistent s -> now (fst (step s o)) = next_clk (now s) o.
Proof.
  intro C. destruct o as [cfg sid svc|sid|svc n| |dt|svc|cfg|cfg]; cbn [step fst next_clk]; try reflexivity.
  - apply (end_scene_exact s sid C).
  - destruct (tick_exact s C) as [_ [[_ [_ [N _]]] _]]. exact N.
  - destruct (lost_exact s svc C) as [_ [[_ [_ [N _]]] _]]. exact N.
  - destruct (idle_set s); reflexivity.
Qed.

Lemma req_results_shape s cfg rs : In rs (req_results s cfg) -> exists r, rs = RReq r.
Proof.
  unfold req_results. destruct (aget cfg (lines s)) as [[|e l]|].
  - intros [<-|[]]. exists None. reflexivity.
  - intro I1. apply in_map_iff in I1. destruct I1 as [x [<- _]]. unfold req_of.
    destruct (snd x =? 0); [exists None; reflexivity|].
    destruct (aget (snd x) (scenes s)) as [o|]; [eexists; reflexivity | exists None; reflexivity].
  - intros [<-|[]]. exists None. reflexivity.
Qed.

Lemma step_nid s o rs : Consistent s -> In rs (snd (step s o)) ->
  nextid (fst (step s o)) = next_nid (nextid s) rs.
Proof.
  intros C. destruct o as [cfg sid svc|sid|svc n| |dt|svc|cfg|cfg]; cbn [step fst snd].
  - intros [<-|[]]. reflexivity.
  - intros [<-|[]]. apply (end_scene_exact s sid C).
  - intros [<-|[]]. reflexivity.
  - intros [<-|[]]. destruct (tick_exact s C) as [_ [[_ [_ [_ N]]] _]]. exact N.
  - intros [<-|[]]. reflexivity.
  - intros [<-|[]]. destruct (lost_exact s svc C) as [_ [[_ [_ [_ N]]] _]]. exact N.
  - destruct (idle_set s) as [|a l]; cbn [fst snd].
    + intros [<-|[]]. reflexivity.
    + intro I1. apply in_map_iff in I1. destruct I1 as [x [<- _]]. reflexivity.
  - intro I1. destruct (req_results_shape _ _ _ I1) as [r ->]. reflexivity.
Qed.

(* ---- the model's step passes the per-operation check ---- *)
Lemma op_ok_model h s o rs :
  J h s -> wf (h ++ [o]) -> In rs (snd (step s o)) ->
  op_ok s (fst (step s o)) (nextid s) o rs = true.
Proof.
  intros JJ W IN. pose proof JJ as [C L]. pose proof (wf_snoc _ _ W) as W0.
  destruct o as [cfg sid svc|sid|svc n| |dt|svc|cfg|cfg]; cbn [step fst snd] in *.
  - (* OnSceneCreateSucc *)
    destruct IN as [<-|[]]. pose proof (fresh_not_live _ _ _ _ _ JJ W) as NL.
    set (ln := fine_idle (lines_of s cfg)).
    assert (F1 : aget sid (scenes (create s cfg sid svc)) = Some (mkobj cfg ln svc sid))
      by (unfold create; cbn [scenes]; apply aget_aset_same).
    assert (F2 : lines_of (create s cfg sid svc) cfg = line_insert (ln, sid) (lines_of s cfg))
      by (unfold create; rewrite lines_of_set; apply lget_aset_same).
    assert (F3 : forall c, c <> cfg -> lines_of (create s cfg sid svc) c = lines_of s c)
      by (intros c NE; unfold create; rewrite lines_of_set; apply lget_aset_other; exact NE).
    assert (Hc : least_free_b (lines_of s cfg) ln = true)
      by (apply least_free_b_complete; apply fine_idle_least; apply C).
    assert (Hd : lines_eqb (filter (fun e => negb (snd e =? sid)) (lines_of (create s cfg sid svc) cfg))
                           (lines_of s cfg) = true).
    { rewrite F2, filter_line_insert; [apply lines_eqb_refl|].
      intros [ln' sid'] I1 E. cbn [snd] in E. subst sid'.
      destruct (c_line_scene s C _ _ _ I1) as [o' [A _]]. congruence. }
    assert (He : existsb (line_eqb (ln, sid)) (lines_of (create s cfg sid svc) cfg) = true).
    { rewrite F2. apply existsb_exists. exists (ln, sid).
      split; [apply line_insert_In; left; reflexivity | apply line_eqb_refl]. }
    assert (Hf : alist_eqb obj_eqb (filter (fun ko => negb (fst ko =? sid)) (scenes (create s cfg sid svc)))
                           (scenes s) = true).
    { rewrite <- adel_filter. unfold create. cbn [scenes]. rewrite adel_aset_absent by exact NL.
      apply alist_eqb_refl. apply obj_eqb_refl. }
    assert (Hg : forallb (fun c => (c =? cfg) || lines_eqb (lines_of (create s cfg sid svc) c) (lines_of s c))
                         (cfg_keys s (create s cfg sid svc)) = true).
    { apply forallb_forall. intros c _. destruct (Z.eqb_spec c cfg) as [|NE]; [reflexivity|].
      rewrite (F3 c NE). apply lines_eqb_refl. }
    assert (Hh : same_services_b s (create s cfg sid svc) = true) by (apply same_services_refl; reflexivity).
    cbn [op_ok]. rewrite F1. cbn [ocfg osvc oline]. rewrite !Z.eqb_refl, Hc, Hd, He, Hf, Hg, Hh. reflexivity.
  - (* OnSceneEnd *)
    destruct IN as [<-|[]]. destruct (end_scene_exact s sid C) as [E1 [E2 [E3 [E4 [E5 _]]]]].
    cbn [op_ok]. apply andb_true_iff. split; [|apply same_services_refl; exact E3].
    apply removed_exactly_b_complete. split; [rewrite E1; apply adel_filter|]. split; [exact E2 | split; assumption].
  - (* OnServiceRefresh *)
    destruct IN as [<-|[]]. cbn [op_ok]. apply andb_true_iff. split; [apply same_world_refl; reflexivity|].
    unfold refresh. cbn [services]. apply alist_eqb_refl. apply stat_eqb_refl.
  - (* the 1 s timer *)
    destruct IN as [<-|[]]. destruct (tick_exact s C) as [C' [R S]].
    cbn [op_ok]. apply andb_true_iff. split; [exact (removed_exactly_b_complete _ _ _ R)|].
    replace (services (tick s)) with (map (fun kt => (fst kt, tick_stat s (snd kt))) (services s)).
    + apply alist_eqb_refl. apply stat_eqb_refl.
    + symmetry. apply sorted_ext; [apply C' | apply amap_sorted; apply C|].
      intro k. rewrite S, amap_aget. reflexivity.
  - (* clock *)
    destruct IN as [<-|[]]. cbn [op_ok]. apply andb_true_iff.
    split; [apply same_world_refl; reflexivity | apply same_services_refl; reflexivity].
  - (* service lost *)
    destruct IN as [<-|[]]. destruct (lost_exact s svc C) as [_ [R S]].
    cbn [op_ok]. apply andb_true_iff. split; [exact (removed_exactly_b_complete _ _ _ R)|].
    rewrite S. unfold lost_services. apply alist_eqb_refl. apply stat_eqb_refl.
  - (* AllocScene *)
    destruct (idle_set s) as [|a l] eqn:IS; cbn [fst snd] in *.
    + destruct IN as [<-|[]]. cbn [op_ok].
      rewrite (same_world_refl s s eq_refl eq_refl), (same_services_refl s s eq_refl). cbn [andb].
      apply forallb_forall. intros [k t] I1. cbn [snd]. apply negb_true_iff.
      apply (idle_set_nil s IS k t). apply in_aget; [apply C | exact I1].
    + apply in_map_iff in IN. destruct IN as [x [<- I1]]. cbn [op_ok].
      rewrite same_world_refl by reflexivity. rewrite same_services_refl by reflexivity.
      rewrite Z.eqb_refl. cbn [andb]. rewrite andb_true_r.
      apply idlest_b_complete; [apply C|]. apply idle_set_spec; [apply C|]. rewrite IS. exact I1.
  - (* ReqSceneByCfgId *)
    assert (NZ : forall sid o, aget sid (scenes s) = Some o -> sid <> 0).
    { intros sid o A. destruct W0 as [_ F]. rewrite Forall_forall in F. specialize (F sid (L _ _ A)). lia. }
    destruct (req_spec s cfg rs C NZ IN) as [[-> NONE]|[sid [o [A [B ->]]]]]; cbn [op_ok].
    + rewrite (same_world_refl s s eq_refl eq_refl), (same_services_refl s s eq_refl). cbn [andb].
      apply forallb_forall. intros [k o] I1. cbn [snd]. apply negb_true_iff. apply Z.eqb_neq. intro E.
      apply (NONE k). exists o. split; [apply in_aget; [apply C | exact I1] | exact E].
    + rewrite (same_world_refl s s eq_refl eq_refl), (same_services_refl s s eq_refl). cbn [andb].
      rewrite Z.eqb_refl, A. cbn [andb]. destruct (c_scene_line s C _ _ A) as [OS _].
      unfold obj_eqb. cbn [ocfg oline osvc osid]. rewrite B, OS, !Z.eqb_refl. reflexivity.
Qed.

(* ---- along a whole trace ---- *)
Lemma monitor_model ops : forall hist s d clk nid bs,
  (wf hist -> J hist s /\ keys_ok s /\ d = dump_of s /\ clk = now s /\ nid = nextid s) ->
  agree_from s ops bs = true -> monitor_from hist d clk nid ops bs = true.
Proof.
  induction ops as [|o r IH]; intros hist s d clk nid bs INV AG;
    destruct bs as [|[rs d'] br]; cbn [agree_from] in AG; try discriminate AG; [reflexivity|].
  destruct (step s o) as [s1 adm] eqn:ST.
  assert (S1 : s1 = fst (step s o)) by (rewrite ST; reflexivity).
  assert (AD : adm = snd (step s o)) by (rewrite ST; reflexivity).
  apply andb_true_iff in AG. destruct AG as [AG AG3]. apply andb_true_iff in AG. destruct AG as [AG1 AG2].
  apply existsb_exists in AG1. destruct AG1 as [r0 [I0 E0]]. apply res_eqb_eq in E0. subst r0.
  apply dump_eqb_eq in AG2. subst d'.
  assert (STEP : wf (hist ++ [o]) ->
                 J (hist ++ [o]) s1 /\ keys_ok s1 /\ next_clk clk o = now s1 /\ next_nid nid rs = nextid s1 /\
                 J hist s /\ keys_ok s /\ d = dump_of s /\ clk = now s /\ nid = nextid s).
  { intro W. destruct (INV (wf_snoc _ _ W)) as [JJ [K [D [CK NI]]]]. subst d clk nid.
    pose proof JJ as [C _]. rewrite S1.
    split; [apply step_J; assumption|]. split; [apply step_keys; exact K|].
    split; [symmetry; apply step_now; exact C|].
    split; [symmetry; apply step_nid; [exact C | rewrite <- AD; exact I0]|]. auto. }
  cbn [monitor_from]. cbv zeta. apply andb_true_iff. split.
  - destruct (wf_b (hist ++ [o])) eqn:G; [|reflexivity]. cbn [negb orb]. apply wf_b_spec in G.
    destruct (STEP G) as [J1 [K1 [CK1 [NI1 [JJ [K [D [CK NI]]]]]]]]. subst d clk nid.
    rewrite CK1, NI1. rewrite (st_of_dump_of s K), (st_of_dump_of s1 K1).
    apply andb_true_iff. split; [apply consistent_b_complete; apply J1|].
    rewrite S1. apply (op_ok_model hist); [exact JJ | exact G | rewrite <- AD; exact I0].
  - apply (IH (hist ++ [o]) s1); [|exact AG3].
    intro W. destruct (STEP W) as [J1 [K1 [CK1 [NI1 _]]]]. auto.
Qed.

Lemma monitor_accepts_model h bs : agree_from init h bs = true -> monitor_trace h bs = true.
Proof.
  intro AG. unfold monitor_trace. apply (monitor_model h [] init); [|exact AG].
  intros _. split; [split; [exact Consistent_init | intros sid o H; discriminate H]|].
  split; [intros k o []|]. repeat split.
Qed.

(* ---- the model's own trace ---- *)
Lemma res_eqb_refl r : res_eqb r r = true.
Proof.
  destruct r as [|x|x]; cbn [res_eqb]; [reflexivity | |].
  - apply option_eqb_spec; [apply pair_eqb_spec; apply zeq_spec | reflexivity].
  - apply option_eqb_spec; [repeat (apply pair_eqb_spec; try apply zeq_spec) | reflexivity].
Qed.

Lemma dump_eqb_refl d : dump_eqb d d = true.
Proof.
  destruct d as [[a b] c]. cbn [dump_eqb]. apply andb_true_iff. split; [apply andb_true_iff; split|].
  - apply list_eqb_spec; [repeat (apply pair_eqb_spec; try apply zeq_spec) | reflexivity].
  - apply list_eqb_spec; [apply pair_eqb_spec; [apply zeq_spec | apply lines_eqb_spec] | reflexivity].
  - apply list_eqb_spec; [repeat (apply pair_eqb_spec; try apply zeq_spec; try apply beq_spec) | reflexivity].
Qed.

Lemma step_adm_nonempty s o : snd (step s o) <> [].
Proof.
  destruct o as [cfg sid svc|sid|svc n| |dt|svc|cfg|cfg]; cbn [step snd]; try discriminate.
  - destruct (idle_set s); cbn [snd map]; discriminate.
  - unfold req_results. destruct (aget cfg (lines s)) as [[|e l]|]; cbn [map]; discriminate.
Qed.

Lemma run_obs_agrees ops : forall s, agree_from s ops (run_obs s ops) = true.
Proof.
  induction ops as [|o r IH]; intro s; [reflexivity|]. cbn [run_obs].
  pose proof (step_adm_nonempty s o) as NE. destruct (step s o) as [s1 adm] eqn:ST. cbn [snd] in NE.
  cbn [agree_from]. rewrite ST. rewrite dump_eqb_refl, IH, !andb_true_r.
  destruct adm as [|r0 adm']; [congruence|]. cbn [pick existsb]. rewrite res_eqb_refl. reflexivity.
Qed.

Lemma monitor_accepts_run h : monitor_trace h (run h) = true.
Proof. apply monitor_accepts_model. apply run_obs_agrees. Qed.
