(* C19 - property theorems only.  Each is closed by [exact] of a lemma from Proofs.v and
   followed by Print Assumptions.  [final h] is the model state after the history h of
   create / end / refresh / tick / advance / lost / alloc / request operations;
   [wf h] is the guard "scene ids passed to OnSceneCreateSucc are positive and created once"
   (they come from allocSceneId).  [removed_exactly s s' gone] (Spec.v) says: exactly the scenes
   selected by [gone] left, exactly their lines were freed, all other scenes and lines - and
   the clock and id allocator - are untouched. *)
From Cell2V Require Import Common.Tac Common.ListX Common.AList C19.Model C19.Spec C19.Proofs C19.Corr.

(* after any history: every live scene is under a line of its configuration and vice versa,
   line numbers unique, >= 0 and sorted, all three tables canonical *)
Theorem C19_consistent : forall h, wf h -> Consistent (final h).
Proof. exact final_consistent. Qed.
Print Assumptions C19_consistent.

(* ... under EXACTLY one line: no other configuration or number lists it, and its own
   configuration lists it once *)
Theorem C19_one_line : forall h sid o, wf h -> aget sid (scenes (final h)) = Some o ->
  (forall cfg ln, In (ln, sid) (lines_of (final h) cfg) -> cfg = ocfg o /\ ln = oline o) /\
  length (filter (fun e => snd e =? sid) (lines_of (final h) (ocfg o))) = 1%nat.
Proof. exact one_line. Qed.
Print Assumptions C19_one_line.

Theorem C19_line_numbers_unique : forall h cfg, wf h -> NoDup (map fst (lines_of (final h) cfg)).
Proof. exact line_numbers_unique. Qed.
Print Assumptions C19_line_numbers_unique.

(* FineIdleLineId returns the least line number >= 0 that is not in use *)
Theorem C19_smallest_free : forall l, lsorted 0 l -> least_free l (fine_idle l).
Proof. exact fine_idle_least. Qed.
Print Assumptions C19_smallest_free.

(* a new scene takes that number; every other scene, every other line, and the services are
   untouched *)
Theorem C19_create_takes_smallest : forall h cfg sid svc,
  wf (h ++ [OCreate cfg sid svc]) ->
  let s := final h in let s' := final (h ++ [OCreate cfg sid svc]) in
  exists ln, least_free (lines_of s cfg) ln /\
    aget sid (scenes s') = Some (mkobj cfg ln svc sid) /\
    (forall sid', sid' <> sid -> aget sid' (scenes s') = aget sid' (scenes s)) /\
    (forall e, In e (lines_of s' cfg) <-> e = (ln, sid) \/ In e (lines_of s cfg)) /\
    (forall cfg', cfg' <> cfg -> lines_of s' cfg' = lines_of s cfg') /\
    services s' = services s.
Proof. exact create_takes_smallest. Qed.
Print Assumptions C19_create_takes_smallest.

(* ending a scene removes exactly it and frees exactly its line; an unknown scene changes nothing *)
Theorem C19_end_exact : forall h sid, wf h ->
  removed_exactly (final h) (final (h ++ [OEnd sid])) (fun x => x =? sid) /\
  services (final (h ++ [OEnd sid])) = services (final h).
Proof. exact end_exact. Qed.
Print Assumptions C19_end_exact.

Theorem C19_end_unknown : forall h sid, wf h -> aget sid (scenes (final h)) = None ->
  final (h ++ [OEnd sid]) = final h.
Proof. exact end_unknown. Qed.
Print Assumptions C19_end_unknown.

(* losing a scene service removes exactly the scenes it hosts (also when reported repeatedly or
   for a service never seen); only that service's working flag changes *)
Theorem C19_lost_exact : forall h svc, wf h ->
  removed_exactly (final h) (final (h ++ [OLost svc])) (on_service (final h) svc) /\
  services (final (h ++ [OLost svc])) = lost_services (final h) svc.
Proof. exact lost_exact_h. Qed.
Print Assumptions C19_lost_exact.

(* the 1 s timer: a working service silent for 3 keep-alive periods gets a strike; exactly the
   scenes of the services on their 4th strike go; every service's record is as [tick_stat] says *)
Theorem C19_tick_exact : forall h, wf h ->
  removed_exactly (final h) (final (h ++ [OTick])) (tick_gone (final h)) /\
  forall k, aget k (services (final (h ++ [OTick]))) =
            option_map (tick_stat (final h)) (aget k (services (final h))).
Proof. exact tick_exact_h. Qed.
Print Assumptions C19_tick_exact.

(* keep-alives, clock steps, allocations and requests never touch scenes or lines *)
Theorem C19_frame_others : forall h o, world_frame o = true ->
  scenes (final (h ++ [o])) = scenes (final h) /\ lines (final (h ++ [o])) = lines (final h).
Proof. exact frame_others. Qed.
Print Assumptions C19_frame_others.

(* a request returns a live scene of that configuration, or nothing - and nothing only when
   the configuration has no live scene *)
Theorem C19_req_live : forall h cfg r, wf h -> In r (results_at h (OReq cfg)) ->
  (r = RReq None /\ forall sid, ~ live_of (final h) cfg sid) \/
  (exists sid o, aget sid (scenes (final h)) = Some o /\ ocfg o = cfg /\
                 r = RReq (Some (sid, cfg, oline o, osvc o))).
Proof. exact req_live. Qed.
Print Assumptions C19_req_live.

(* a new scene is placed on a service currently considered working whose busy weight is
   minimal among the working ones, with the next scene id; or on none if none is working *)
Theorem C19_alloc_working_argmin : forall h cfg r, wf h -> In r (results_at h (OAlloc cfg)) ->
  (r = RAlloc None /\ forall svc t, aget svc (services (final h)) = Some t -> swork t = false) \/
  (exists svc, r = RAlloc (Some (svc, nextid (final h))) /\ idlest (final h) svc).
Proof. exact alloc_working_argmin. Qed.
Print Assumptions C19_alloc_working_argmin.

(* the boolean checks run on implementation dumps accept whatever the propositions allow *)
Theorem C19_monitor_consistent : forall s, Consistent s -> consistent_b s = true.
Proof. exact consistent_b_complete. Qed.
Print Assumptions C19_monitor_consistent.

Theorem C19_monitor_removed : forall s s' g, removed_exactly s s' g -> removed_exactly_b s s' g = true.
Proof. exact removed_exactly_b_complete. Qed.
Print Assumptions C19_monitor_removed.

Theorem C19_monitor_idlest : forall s svc, sorted (services s) -> idlest s svc -> idlest_b s svc = true.
Proof. exact idlest_b_complete. Qed.
Print Assumptions C19_monitor_idlest.

Theorem C19_monitor_least_free : forall l n, least_free l n -> least_free_b l n = true.
Proof. exact least_free_b_complete. Qed.
Print Assumptions C19_monitor_least_free.

(* ... and, for the two allocation clauses, nothing else: a line the monitor accepts IS the least free
   line number of that configuration, a service it accepts IS an idlest working one *)
Theorem C19_monitor_least_free_exact : forall l n, least_free_b l n = true <-> least_free l n.
Proof. exact least_free_b_exact. Qed.
Print Assumptions C19_monitor_least_free_exact.

Theorem C19_monitor_idlest_exact : forall s svc,
  sorted (services s) -> (idlest_b s svc = true <-> idlest s svc).
Proof. exact idlest_b_exact. Qed.
Print Assumptions C19_monitor_idlest_exact.

(* END TO END: every implementation trace that the model accepts ([agree]: same dump after every
   operation, result among the model's admissible results) passes the monitor - for ALL
   histories; the guard is the one the monitor itself evaluates (a step is checked iff the
   history up to and including it is [wf], exactly as in Spec.monitor_from / Corr.monitor).
   Hence a monitor failure on an implementation trace is a behaviour the model excludes. *)
Theorem C19_monitor_accepts_model : forall h bs, agree (h, bs) = true -> monitor (h, bs) = true.
Proof. exact monitor_accepts_model. Qed.
Print Assumptions C19_monitor_accepts_model.

(* in particular the model's own trace [run h] (first admissible result wherever the code's
   answer depends on map order or math/rand) passes, with or without the guard *)
Theorem C19_monitor_accepts_run : forall h, monitor (h, run h) = true.
Proof. exact monitor_accepts_run. Qed.
Print Assumptions C19_monitor_accepts_run.

Theorem C19_run_is_accepted : forall h, agree (h, run h) = true.
Proof. exact (fun h => run_obs_agrees h init). Qed.
Print Assumptions C19_run_is_accepted.

(* non-vacuity.  Two services; five scenes over two configurations; line 1 of cfg 100 freed and
   re-used; service 1 driven to its 4th strike while service 2 keeps refreshing: its scenes
   (1, 3 and 6) go, 4 and 5 stay with their lines. *)
Definition ex_history : list op :=
  [ORefresh 1 0; ORefresh 2 3; OCreate 100 1 1; OCreate 100 2 2; OCreate 100 3 1; OCreate 101 4 2;
   OEnd 2; OCreate 100 5 2; OEnd 77; OCreate 101 6 1;
   OAdvance 3000; ORefresh 2 3; OTick; OAdvance 3000; ORefresh 2 3; OTick;
   OAdvance 3000; ORefresh 2 3; OTick; OAdvance 3000; ORefresh 2 3; OTick].

Example C19_example_guard : wf_b ex_history = true.
Proof. vm_compute. reflexivity. Qed.

Example C19_example_before_loss :
  dump_of (final (firstn 10 ex_history)) =
  ([(1, (100, 0, 1)); (3, (100, 2, 1)); (4, (101, 0, 2)); (5, (100, 1, 2)); (6, (101, 1, 1))],
   [(100, [(0, 1); (1, 5); (2, 3)]); (101, [(0, 4); (1, 6)])],
   [(1, (0, true, 1000000, 0)); (2, (3, true, 1000000, 0))]).
Proof. vm_compute. reflexivity. Qed.

Example C19_example_after_loss :
  dump_of (final ex_history) =
  ([(4, (101, 0, 2)); (5, (100, 1, 2))],
   [(100, [(1, 5)]); (101, [(0, 4)])],
   [(1, (0, false, 1012000, 4)); (2, (3, true, 1012000, 0))]) /\
  results_at ex_history (OAlloc 100) = [RAlloc (Some (2, 1))] /\
  results_at ex_history (OReq 100) = [RReq (Some (5, 100, 1, 2))] /\
  consistent_b (final ex_history) = true.
Proof. vm_compute. repeat split; reflexivity. Qed.

(* the guard is needed: re-using a live scene id leaves a line without a scene's agreement *)
Example C19_guard_needed :
  wf_b [OCreate 100 1 1; OCreate 101 1 1] = false /\
  consistent_b (final [OCreate 100 1 1; OCreate 101 1 1]) = false.
Proof. vm_compute. split; reflexivity. Qed.
