(* C19 - model of mmo/servers/scenem: World (world.go), SceneLines (sceneline.go),
   SceneServiceMgr (mgr.go), SceneServiceStat.GetBusyWeight (sceneobj.go).  No proofs here.

   Go -> model:
     World.scenes      map[uint64]*SceneObj     scenes   : alist obj        (scene id -> object)
     World.sceneLines  map[int32]*SceneLines    lines    : alist (list (line * scene id)), the list in slice order
     SceneServiceMgr.services map[string]*Stat  services : alist stat       (service-name token -> stat)
     common.NowMs()                             now      (virtual clock, build tag verif)
     SceneServiceMgr.nextSceneId                nextid
   Go map iteration order and math/rand are not observable in a model: where the code's answer
   depends on them (FindIdleService among equally idle services, RandGetScene) [step] returns the
   LIST OF ADMISSIBLE RESULTS and the comparison with the implementation is membership.
   SceneObj.Token (random), TimeStart, PlayerNum and the public-scene spawner (publicscenes.go:
   a timer on the service's run loop that calls SpawnScene = AllocScene + a remote request whose
   success continuation is OnSceneCreateSucc) are not part of the state: the operations below are
   exactly the calls that spawner and the message handlers make.
   SceneServiceStat.CPURate is never assigned anywhere in mmo (always 0), so
     GetBusyWeight = if !Working then 1 else min 1 (0.2 * (n / 1000)) = min 1 (n / 5000);
   [weight] is 5000 times that rational, an integer.  float32 evaluates the same expression
   monotonically, strictly so for |n| < 10^6 below the cap, and to exactly 1 from n = 5000 on
   (checked by the harness on the real GetBusyWeight at start-up). *)
From Cell2V Require Import Common.Tac Common.ListX Common.AList.

Record obj := mkobj { ocfg : Z; oline : Z; osvc : Z; osid : Z }.
Record stat := mkstat { snum : Z; swork : bool; slast : Z; sfail : Z }.
Definition line := (Z * Z)%type.      (* (line number, scene id) *)

Record st := mkst {
  scenes : alist obj;
  lines : alist (list line);
  services : alist stat;
  now : Z;
  nextid : Z }.

Definition clock0 : Z := 1000000.
Definition init : st := mkst [] [] [] clock0 1.

Definition lines_of (s : st) (cfg : Z) : list line :=
  match aget cfg (lines s) with Some l => l | None => [] end.

(* ---- sceneline.go ---- *)
(* FineIdleLineId: idleId = 0; for v in lines { if v.lineId != idleId { break }; idleId++ } *)
Fixpoint fine_from (i : Z) (l : list line) : Z :=
  match l with
  | [] => i
  | (ln, _) :: r => if ln =? i then fine_from (i + 1) r else i
  end.
Definition fine_idle (l : list line) : Z := fine_from 0 l.

(* add: append, then sort by line number (the new number is never present, so the place is unique) *)
Fixpoint line_insert (e : line) (l : list line) : list line :=
  match l with
  | [] => [e]
  | x :: r => if fst e <? fst x then e :: l else x :: line_insert e r
  end.

(* remove(lineId): delete the first entry with that line number *)
Fixpoint line_remove (ln : Z) (l : list line) : list line :=
  match l with
  | [] => []
  | x :: r => if fst x =? ln then r else x :: line_remove ln r
  end.

(* ---- world.go ---- *)
(* OnSceneCreateSucc(obj): NewSceneLine(cfg, sid) ; obj.LineId = line ; scenes[sid] = obj *)
Definition create (s : st) (cfg sid svc : Z) : st :=
  let l := lines_of s cfg in
  let ln := fine_idle l in
  mkst (aset sid (mkobj cfg ln svc sid) (scenes s))
       (aset cfg (line_insert (ln, sid) l) (lines s))
       (services s) (now s) (nextid s).

(* FreeSceneLine(cfg, line): nothing if the configuration has no SceneLines object *)
Definition free_line (ls : alist (list line)) (cfg ln : Z) : alist (list line) :=
  match aget cfg ls with
  | Some l => aset cfg (line_remove ln l) ls
  | None => ls
  end.

(* OnSceneEnd(sid): unknown scene -> warning only *)
Definition end_scene (s : st) (sid : Z) : st :=
  match aget sid (scenes s) with
  | None => s
  | Some o =>
      mkst (adel sid (scenes s)) (free_line (lines s) (ocfg o) (oline o))
           (services s) (now s) (nextid s)
  end.

(* OnServiceLost(svc): collect the scenes of that service, then OnSceneEnd each *)
Definition scenes_on (s : st) (svc : Z) : list Z :=
  map fst (filter (fun ko => osvc (snd ko) =? svc) (scenes s)).

Definition world_lost (s : st) (svc : Z) : st := fold_left end_scene (scenes_on s svc) s.

(* ---- mgr.go ---- *)
Definition keepalive : Z := 1000.          (* define.SceneToSceneMKeepAlive *)

(* OnServiceRefresh(svc, n) *)
Definition refresh (s : st) (svc n : Z) : st :=
  mkst (scenes s) (lines s) (aset svc (mkstat n true (now s) 0) (services s)) (now s) (nextid s).

Definition set_services (s : st) (sv : alist stat) : st :=
  mkst (scenes s) (lines s) sv (now s) (nextid s).

(* onServiceLost(svc, stat): stat.Working = false; world.OnServiceLost(svc) *)
Definition lost (s : st) (svc : Z) : st :=
  match aget svc (services s) with
  | Some t => world_lost (set_services s (aset svc (mkstat (snum t) false (slast t) (sfail t)) (services s))) svc
  | None => world_lost s svc            (* harness: World.OnServiceLost for a service the manager never saw *)
  end.

Definition expired (s : st) (t : stat) : bool := swork t && (slast t + 3 * keepalive <=? now s).

(* one service in updateWorkingState: onServiceKeepAliveFailed when expired *)
Definition tick_one (s : st) (svc : Z) : st :=
  match aget svc (services s) with
  | None => s
  | Some t =>
      if expired s t then
        let t1 := mkstat (snum t) true (now s) (sfail t + 1) in
        let s1 := set_services s (aset svc t1 (services s)) in
        if 3 <? sfail t1 then lost s1 svc else s1
      else s
  end.

Definition tick (s : st) : st := fold_left tick_one (akeys (services s)) s.

(* 5000 * GetBusyWeight *)
Definition weight (t : stat) : Z := if swork t then Z.min 5000 (snum t) else 5000.

(* FindIdleService: the working services of minimal weight (any of them, by map order) *)
Definition working (s : st) : list (Z * stat) := filter (fun kt => swork (snd kt)) (services s).
Definition min_weight (l : list (Z * stat)) : Z := fold_right (fun kt m => Z.min (weight (snd kt)) m) 5000 l.
Definition idle_set (s : st) : list Z :=
  let w := working s in
  map fst (filter (fun kt => weight (snd kt) =? min_weight w) w).

(* ---- operations ---- *)
Inductive op :=
| OCreate (cfg sid svc : Z)     (* mgr.OnSceneCreateSucc(&SceneObj{CfgId, SceneId, ServiceId}) *)
| OEnd (sid : Z)                (* mgr.OnSceneEnd(sid) *)
| ORefresh (svc n : Z)          (* mgr.OnServiceRefresh(svc, n) *)
| OTick                         (* mgr.onUpdate()  (the 1 s timer callback) *)
| OAdvance (dt : Z)             (* virtual clock += dt *)
| OLost (svc : Z)               (* mgr.onServiceLost(svc, stat) *)
| OAlloc (cfg : Z)              (* mgr.AllocScene(cfg) *)
| OReq (cfg : Z).               (* mgr.ReqSceneByCfgId(cfg) *)

Inductive res :=
| RUnit
| RAlloc (r : option (Z * Z))                 (* Some (service, scene id) *)
| RReq (r : option (Z * Z * Z * Z)).          (* Some (scene id, cfg, line, service) *)

(* ReqSceneByCfgId: RandGetScene picks any line; scene id 0 means "none"; then GetScene *)
Definition req_of (s : st) (sid : Z) : res :=
  if sid =? 0 then RReq None
  else match aget sid (scenes s) with
       | Some o => RReq (Some (osid o, ocfg o, oline o, osvc o))
       | None => RReq None
       end.

Definition req_results (s : st) (cfg : Z) : list res :=
  match aget cfg (lines s) with
  | None => [RReq None]
  | Some [] => [RReq None]
  | Some l => map (fun e => req_of s (snd e)) l
  end.

(* next state, and the admissible results *)
Definition step (s : st) (o : op) : st * list res :=
  match o with
  | OCreate cfg sid svc => (create s cfg sid svc, [RUnit])
  | OEnd sid => (end_scene s sid, [RUnit])
  | ORefresh svc n => (refresh s svc n, [RUnit])
  | OTick => (tick s, [RUnit])
  | OAdvance dt => (mkst (scenes s) (lines s) (services s) (now s + dt) (nextid s), [RUnit])
  | OLost svc => (lost s svc, [RUnit])
  | OAlloc cfg =>
      match idle_set s with
      | [] => (s, [RAlloc None])
      | l => (mkst (scenes s) (lines s) (services s) (now s) (nextid s + 1),
              map (fun svc => RAlloc (Some (svc, nextid s))) l)
      end
  | OReq cfg => (s, req_results s cfg)
  end.

Fixpoint run_from (s : st) (ops : list op) : st :=
  match ops with
  | [] => s
  | o :: r => run_from (fst (step s o)) r
  end.

Definition final (ops : list op) : st := run_from init ops.

(* admissible results of op o issued after history h *)
Definition results_at (h : list op) (o : op) : list res := snd (step (final h) o).

(* ---- the canonical dump the harness prints after every operation ---- *)
Definition dump := (list (Z * (Z * Z * Z)) * list (Z * list line) * list (Z * (Z * bool * Z * Z)))%type.

Definition dump_of (s : st) : dump :=
  (map (fun ko => (fst ko, (ocfg (snd ko), oline (snd ko), osvc (snd ko)))) (scenes s),
   lines s,
   map (fun kt => (fst kt, (snum (snd kt), swork (snd kt), slast (snd kt), sfail (snd kt)))) (services s)).

(* one concrete trace of the model: where several results are admissible, take the first *)
Definition pick (l : list res) : res := match l with r :: _ => r | [] => RUnit end.

Fixpoint run_obs (s : st) (ops : list op) : list (res * dump) :=
  match ops with
  | [] => []
  | o :: r => let '(s1, adm) := step s o in (pick adm, dump_of s1) :: run_obs s1 r
  end.

Definition run (ops : list op) : list (res * dump) := run_obs init ops.
