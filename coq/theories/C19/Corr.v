(* C19 - correspondence entry point.  An implementation trace is, per operation, the result
   of the call and the canonical dump of World/manager state after it.  [agree] runs the model
   along the trace: the dump must be equal, the result must be one of the model's admissible
   results (membership, because FindIdleService / RandGetScene depend on map order and
   math/rand).  [monitor] evaluates the property (Spec.v, section "executable monitor") on the
   implementation's own dumps, without the model's transition function. *)
From Cell2V Require Import Common.Tac Common.ListX Common.AList C19.Model C19.Spec.

Definition obs := (res * dump)%type.
Definition case := (list op * list obs)%type.

(* [agree_from] (the model run along an implementation trace) is defined in Spec.v *)
Definition agree (c : case) : bool := agree_from init (fst c) (snd c).

Definition monitor (c : case) : bool := monitor_trace (fst c) (snd c).

Definition disagreeing (cs : list case) : list Z := failing agree cs.
Definition monitor_failing (cs : list case) : list Z := failing monitor cs.

(* for replay reports: the model's dumps and admissible results along a history *)
Fixpoint show_from (s : st) (ops : list op) : list (list res * dump) :=
  match ops with
  | [] => []
  | o :: r => let '(s1, adm) := step s o in (adm, dump_of s1) :: show_from s1 r
  end.
Definition show (ops : list op) := show_from init ops.
