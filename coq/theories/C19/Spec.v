(* C19 - the property.  No proofs in this file. *)
From Cell2V Require Import Common.Tac Common.ListX Common.AList C19.Model.

(* line numbers of one configuration: ascending, hence unique, and >= lo *)
Fixpoint lsorted (lo : Z) (l : list line) : Prop :=
  match l with
  | [] => True
  | (ln, _) :: r => lo <= ln /\ lsorted (ln + 1) r
  end.

(* "live scenes and their line numbers are consistent" *)
Record Consistent (s : st) : Prop := mkConsistent {
  c_scenes_sorted : sorted (scenes s);
  c_lines_sorted : sorted (lines s);
  c_services_sorted : sorted (services s);
  (* every live scene is registered under a line of its configuration, with its line number *)
  c_scene_line : forall sid o, aget sid (scenes s) = Some o ->
                   osid o = sid /\ In (oline o, sid) (lines_of s (ocfg o));
  (* and vice versa: every registered line belongs to a live scene of that configuration *)
  c_line_scene : forall cfg ln sid, In (ln, sid) (lines_of s cfg) ->
                   exists o, aget sid (scenes s) = Some o /\ ocfg o = cfg /\ oline o = ln;
  (* line numbers of a configuration are >= 0, unique and kept sorted *)
  c_lines_unique : forall cfg, lsorted 0 (lines_of s cfg) }.

(* guard: scene ids are created once and are positive (they come from allocSceneId: 1, 2, ...) *)
Fixpoint created (h : list op) : list Z :=
  match h with
  | [] => []
  | OCreate _ sid _ :: r => sid :: created r
  | _ :: r => created r
  end.

Definition wf (h : list op) : Prop := NoDup (created h) /\ Forall (fun sid => 0 < sid) (created h).

Definition wf_b (h : list op) : bool := nodupb (created h) && forallb (fun sid => 0 <? sid) (created h).

(* n is the least line number >= 0 not used in l *)
Definition least_free (l : list line) (n : Z) : Prop :=
  0 <= n /\ ~ In n (map fst l) /\ forall m, 0 <= m < n -> In m (map fst l).

(* scene sid is hosted by service svc in state s *)
Definition on_service (s : st) (svc sid : Z) : bool :=
  match aget sid (scenes s) with Some o => osvc o =? svc | None => false end.

(* "exactly the scenes selected by [gone] were removed from s, their lines freed, everything else
   about scenes and lines untouched" *)
Definition removed_exactly (s s' : st) (gone : Z -> bool) : Prop :=
  scenes s' = filter (fun ko => negb (gone (fst ko))) (scenes s) /\
  (forall cfg, lines_of s' cfg = filter (fun e => negb (gone (snd e))) (lines_of s cfg)) /\
  now s' = now s /\ nextid s' = nextid s.

(* service svc counts as lost by this tick: it was working, silent for 3 keep-alive periods and
   this is its 4th strike *)
Definition struck (s : st) (svc : Z) : bool :=
  match aget svc (services s) with
  | Some t => expired s t
  | None => false
  end.
Definition lost_by_tick (s : st) (svc : Z) : bool :=
  match aget svc (services s) with
  | Some t => expired s t && (3 <? sfail t + 1)
  | None => false
  end.

(* the service table after a tick *)
Definition tick_stat (s : st) (t : stat) : stat :=
  if expired s t then mkstat (snum t) (negb (3 <? sfail t + 1)) (now s) (sfail t + 1) else t.

(* a service is admissible for a new scene: working, and no working service is less busy *)
Definition idlest (s : st) (svc : Z) : Prop :=
  exists t, aget svc (services s) = Some t /\ swork t = true /\
            forall svc' t', aget svc' (services s) = Some t' -> swork t' = true -> weight t <= weight t'.

Definition some_working (s : st) : Prop :=
  exists svc t, aget svc (services s) = Some t /\ swork t = true.

(* a live scene of configuration cfg *)
Definition live_of (s : st) (cfg sid : Z) : Prop :=
  exists o, aget sid (scenes s) = Some o /\ ocfg o = cfg.

(* ================================================================== executable monitor
   The statements above, as boolean checks on what the implementation shows: the canonical
   dump before and after each operation and the operation's result.  A state is rebuilt from
   a dump (the dump carries everything the property talks about; the clock is driven by the
   harness, so it is known from the OAdvance operations).  None of these checks uses the
   model's transition function [step]. *)
Definition st_of_dump (d : dump) (clk nid : Z) : st :=
  let '(sc, ln, sv) := d in
  mkst (map (fun ko => (fst ko, mkobj (fst (fst (snd ko))) (snd (fst (snd ko))) (snd (snd ko)) (fst ko))) sc)
       ln
       (map (fun kt => (fst kt, mkstat (fst (fst (fst (snd kt)))) (snd (fst (fst (snd kt))))
                                       (snd (fst (snd kt))) (snd (snd kt)))) sv)
       clk nid.

Definition line_eqb (a b : line) : bool := (fst a =? fst b) && (snd a =? snd b).
Definition lines_eqb (a b : list line) : bool := list_eqb line_eqb a b.
Definition obj_eqb (a b : obj) : bool :=
  (ocfg a =? ocfg b) && (oline a =? oline b) && (osvc a =? osvc b) && (osid a =? osid b).
Definition stat_eqb (a b : stat) : bool :=
  (snum a =? snum b) && Bool.eqb (swork a) (swork b) && (slast a =? slast b) && (sfail a =? sfail b).
Definition alist_eqb {V} (e : V -> V -> bool) (a b : alist V) : bool :=
  list_eqb (fun x y => (fst x =? fst y) && e (snd x) (snd y)) a b.

Fixpoint keys_ascending (lo : option Z) (l : list Z) : bool :=
  match l with
  | [] => true
  | k :: r => (match lo with Some p => p <? k | None => true end) && keys_ascending (Some k) r
  end.
Definition asorted_b {V} (m : alist V) : bool := keys_ascending None (akeys m).

Fixpoint lsorted_b (lo : Z) (l : list line) : bool :=
  match l with
  | [] => true
  | (ln, _) :: r => (lo <=? ln) && lsorted_b (ln + 1) r
  end.

Definition consistent_b (s : st) : bool :=
  asorted_b (scenes s) && asorted_b (lines s) && asorted_b (services s) &&
  forallb (fun ko => (osid (snd ko) =? fst ko) &&
                     existsb (line_eqb (oline (snd ko), fst ko)) (lines_of s (ocfg (snd ko)))) (scenes s) &&
  forallb (fun cl => lsorted_b 0 (snd cl) &&
                     forallb (fun e => match aget (snd e) (scenes s) with
                                       | Some o => (ocfg o =? fst cl) && (oline o =? fst e)
                                       | None => false end) (snd cl)) (lines s).

Definition least_free_b (l : list line) (n : Z) : bool :=
  (0 <=? n) && negb (zmem n (map fst l)) &&
  forallb (fun m => zmem m (map fst l)) (map Z.of_nat (seq 0 (Z.to_nat n))).

Definition cfg_keys (s s' : st) : list Z := akeys (lines s) ++ akeys (lines s').

Definition removed_exactly_b (s s' : st) (gone : Z -> bool) : bool :=
  alist_eqb obj_eqb (scenes s') (filter (fun ko => negb (gone (fst ko))) (scenes s)) &&
  forallb (fun cfg => lines_eqb (lines_of s' cfg) (filter (fun e => negb (gone (snd e))) (lines_of s cfg)))
          (cfg_keys s s').

Definition same_world_b (s s' : st) : bool :=
  alist_eqb obj_eqb (scenes s') (scenes s) &&
  forallb (fun cfg => lines_eqb (lines_of s' cfg) (lines_of s cfg)) (cfg_keys s s').

Definition same_services_b (s s' : st) : bool := alist_eqb stat_eqb (services s') (services s).

Definition idlest_b (s : st) (svc : Z) : bool :=
  match aget svc (services s) with
  | Some t => swork t && forallb (fun kt => negb (swork (snd kt)) || (weight t <=? weight (snd kt))) (services s)
  | None => false
  end.

(* one operation: s before, s' after, rs the result, nid the next scene id the allocator must hand out
   (the OCreate / OReq clauses rely on the guard) *)
Definition op_ok (s s' : st) (nid : Z) (o : op) (rs : res) : bool :=
  match o, rs with
  | OCreate cfg sid svc, RUnit =>
      (match aget sid (scenes s') with
       | Some o' => (ocfg o' =? cfg) && (osvc o' =? svc) && least_free_b (lines_of s cfg) (oline o') &&
                    lines_eqb (filter (fun e => negb (snd e =? sid)) (lines_of s' cfg)) (lines_of s cfg) &&
                    existsb (line_eqb (oline o', sid)) (lines_of s' cfg)
       | None => false
       end &&
       alist_eqb obj_eqb (filter (fun ko => negb (fst ko =? sid)) (scenes s')) (scenes s) &&
       forallb (fun c => (c =? cfg) || lines_eqb (lines_of s' c) (lines_of s c)) (cfg_keys s s') &&
       same_services_b s s')
  | OEnd sid, RUnit => removed_exactly_b s s' (fun x => x =? sid) && same_services_b s s'
  | OLost svc, RUnit =>
      removed_exactly_b s s' (on_service s svc) &&
      alist_eqb stat_eqb (services s')
        (match aget svc (services s) with
         | Some t => aset svc (mkstat (snum t) false (slast t) (sfail t)) (services s)
         | None => services s end)
  | OTick, RUnit =>
      removed_exactly_b s s' (fun sid => match aget sid (scenes s) with
                                         | Some o' => lost_by_tick s (osvc o') | None => false end) &&
      alist_eqb stat_eqb (services s') (map (fun kt => (fst kt, tick_stat s (snd kt))) (services s))
  | ORefresh svc n, RUnit =>
      same_world_b s s' && alist_eqb stat_eqb (services s') (aset svc (mkstat n true (now s) 0) (services s))
  | OAdvance _, RUnit => same_world_b s s' && same_services_b s s'
  | OAlloc cfg, RAlloc r =>
      same_world_b s s' && same_services_b s s' &&
      match r with
      | None => forallb (fun kt => negb (swork (snd kt))) (services s)
      | Some (svc, sid) => idlest_b s svc && (sid =? nid)
      end
  | OReq cfg, RReq r =>
      same_world_b s s' && same_services_b s s' &&
      match r with
      | None => forallb (fun ko => negb (ocfg (snd ko) =? cfg)) (scenes s)
      | Some (sid, c, ln, svc) =>
          (c =? cfg) && match aget sid (scenes s) with
                        | Some o' => obj_eqb o' (mkobj c ln svc sid)
                        | None => false end
      end
  | _, _ => false
  end.

Definition next_nid (nid : Z) (rs : res) : Z :=
  match rs with RAlloc (Some _) => nid + 1 | _ => nid end.
Definition next_clk (clk : Z) (o : op) : Z :=
  match o with OAdvance dt => clk + dt | _ => clk end.

(* hist: operations so far; d: dump before; clk, nid as above.  The property is demanded of
   every step whose history (this operation included) satisfies the guard [wf]: scene ids
   created once and positive. *)
Fixpoint monitor_from (hist : list op) (d : dump) (clk nid : Z) (ops : list op) (bs : list (res * dump)) : bool :=
  match ops, bs with
  | [], [] => true
  | o :: r, (rs, d') :: br =>
      let guard := wf_b (hist ++ [o]) in
      let s := st_of_dump d clk nid in
      let clk' := next_clk clk o in
      let s' := st_of_dump d' clk' (next_nid nid rs) in
      (negb guard || (consistent_b s' && op_ok s s' nid o rs)) &&
      monitor_from (hist ++ [o]) d' clk' (next_nid nid rs) r br
  | _, _ => false
  end.

Definition monitor_trace (ops : list op) (bs : list (res * dump)) : bool :=
  monitor_from [] ([], [], []) clock0 1 ops bs.

(* equality used by the correspondence *)
Definition opt_eqb {A} (e : A -> A -> bool) (a b : option A) : bool := option_eqb e a b.
Definition res_eqb (a b : res) : bool :=
  match a, b with
  | RUnit, RUnit => true
  | RAlloc x, RAlloc y => option_eqb (pair_eqb Z.eqb Z.eqb) x y
  | RReq x, RReq y =>
      option_eqb (pair_eqb (pair_eqb (pair_eqb Z.eqb Z.eqb) Z.eqb) Z.eqb) x y
  | _, _ => false
  end.

Definition dump_eqb (a b : dump) : bool :=
  let '(sa, la, va) := a in let '(sb, lb, vb) := b in
  list_eqb (pair_eqb Z.eqb (pair_eqb (pair_eqb Z.eqb Z.eqb) Z.eqb)) sa sb &&
  list_eqb (pair_eqb Z.eqb lines_eqb) la lb &&
  list_eqb (pair_eqb Z.eqb (pair_eqb (pair_eqb (pair_eqb Z.eqb Bool.eqb) Z.eqb) Z.eqb)) va vb.

(* the model as an acceptor of implementation traces (used by Corr.agree): along the trace the
   dump must be the model's, the result one of the model's admissible results *)
Fixpoint agree_from (s : st) (ops : list op) (bs : list (res * dump)) : bool :=
  match ops, bs with
  | [], [] => true
  | o :: r, (rs, d) :: br =>
      let '(s1, adm) := step s o in
      existsb (res_eqb rs) adm && dump_eqb (dump_of s1) d && agree_from s1 r br
  | _, _ => false
  end.
