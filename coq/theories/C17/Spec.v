(* C17 - the property, as a predicate on traces alone.  [view_of pre] (Model.v) is the
   history function: who is subscribed where, which publications are open and whom they have
   already invoked, what is pending in which queue - all computed from the events that
   happened, never from the model state.  [ok_ev w e] says when event [e] is allowed to
   happen after a history with view [w]; [Holds t] = every event of [t] is allowed after its
   prefix.  [holds_b] is the same as an executable monitor (run on implementation traces).

   Goroutines: every listener invocation [VInv p l args g] must happen on the goroutine that owns
   the centre of l at that moment - [owner w c]: the loop goroutine of the centre's run service
   from Start() until that loop has ended, the driver otherwise - whoever published the event
   and whatever the service is doing (busy, being stopped by a foreign goroutine with events
   still queued, stopping itself).  Stop() clears the centre: afterwards nothing is received
   from its queue, nobody is invoked, nothing can be subscribed; the loop then ends. *)
From Cell2V Require Import Common.Tac Common.ListX Common.AList C17.Model.

(* centre c has a live listener that was GSubscribe'd to n *)
Definition has_g_live (w : view) (c n : Z) : bool :=
  existsb (fun i => at_cn c n i && i_g i) (live w).

(* queue lengths reported after k global publications of n:
   - a centre with a live global subscription gets every copy that fits (cap QCAP)
   - a centre with no listener for n at all gets nothing
   - a centre whose global subscribers have left but which still has listeners for n may or
     may not still be registered (the code keeps it registered until the list is empty) *)
Fixpoint gpub_ok (w : view) (n k : Z) (cs qlens : list Z) : bool :=
  match cs, qlens with
  | [], [] => true
  | c :: cr, q :: qr =>
      let old := qlen w c in
      let full := Z.min QCAP (old + k) in
      (if has_g_live w c n then q =? full
       else match members w c n with
            | [] => q =? old
            | _ => (q =? old) || (q =? full)
            end)
      && gpub_ok w n k cr qr
  | _, _ => false
  end.

(* probes: a registered probe gets every copy that fits, an unregistered one nothing; while a
   probe's Subscribe / Unsubscribe of that very name is held inside the global centre either is
   acceptable - once the call has returned (VDone) the outcome must be the sequential one,
   whatever the other centres did in between *)
Definition held (w : view) (c n : Z) : bool :=
  match aget c (pp w) with Some (n', _) => n' =? n | None => false end.
Fixpoint pgpub_ok (w : view) (n k : Z) (cs qlens : list Z) : bool :=
  match cs, qlens with
  | [], [] => true
  | c :: cr, q :: qr =>
      let old := qlen w c in
      let full := Z.min QCAP (old + k) in
      (if held w c n then (q =? old) || (q =? full)
       else if pair_mem c n (pr w) then q =? full else q =? old)
      && pgpub_ok w n k cr qr
  | _, _ => false
  end.

Definition queue_eqb (a b : queue) : bool := list_eqb (pair_eqb Z.eqb zlist_eqb) a b.

Definition ok_ev (w : view) (e : ev) : bool :=
  negb (dead w) &&
  (if lastfull w then match e with VDeadlock => true | _ => false end
   else
     match e with
     | VSub l c n g _ =>
         (* ids are fresh; a cleared centre accepts no subscription *)
         (l =? fresh w) && negb (zmem c (cleared w)) && (is_local c || is_light c)
         && implb g (is_local c)
     | VBegin p _ _ _ => p =? npub w
     | VInv p l fa g =>
         (* l is subscribed NOW, to the centre and name of publication p, has not been invoked
            by p yet, receives bound args followed by published args, and runs on the goroutine
            that owns its centre *)
         match aget p (frames w), find_live w l with
         | Some f, Some i =>
             at_cn (f_c f) (f_n f) i && negb (zmem l (f_seen f))
             && zlist_eqb fa (i_bound i ++ f_args f)
             && (g =? owner w (f_c f))
         | _, _ => false
         end
     | VEnd p =>
         (* everyone subscribed at the start of p and still subscribed has been invoked *)
         match aget p (frames w) with
         | Some f =>
             forallb (fun l => match find_live w l with
                               | Some _ => zmem l (f_seen f)
                               | None => true
                               end) (f_snap f)
         | None => false
         end
     | VRet _ kept => kept
     | VGPub n _ k qlens => (0 <=? k) && gpub_ok w n k local_centres qlens
     | VDeq c n a =>
         (* FIFO: the owner receives the oldest pending event; the queue of a run service is
            received from by its loop only, and not after Stop() *)
         match queue_of w c with
         | (n', a') :: _ => (n =? n') && zlist_eqb a a'
         | [] => false
         end
         && implb (is_svc c) (loop_alive w c && negb (zmem c (stopped w)))
     | VDrop c runs =>
         (* the owner receives a prefix of the pending events, in order *)
         queue_eqb (expand runs) (firstn (length (expand runs)) (queue_of w c))
     | VSkip c k =>
         (* the loop received the k oldest pending events and invoked nobody: nobody listens to them *)
         loop_alive w c && negb (zmem c (stopped w)) && (0 <? k) && (k <=? qlen w c)
         && forallb (noone w c) (firstn (Z.to_nat k) (queue_of w c))
     | VStart c => can_start w c
     | VStop c => can_stop w c
     | VLoopEnd c => loop_alive w c && zmem c (stopped w)   (* a loop ends only after Stop() *)
     | VReg c _ | VUnreg c _ | VPark c _ _ => probe_free w c
     | VDone c => match aget c (pp w) with Some _ => true | None => false end
     | VProbe n _ k qlens => (0 <=? k) && pgpub_ok w n k probe_centres qlens
     | VDeadlock => false   (* blocking is only legal right after a send on a full queue *)
     | VOp | VSubFail | VUnsub _ _ _ | VUnsubCb _ _ _ | VAmbig | VClear _ | VEnq _ _ _ | VNop => true
     end).

Definition Holds (t : list ev) : Prop :=
  forall pre e post, t = pre ++ e :: post -> ok_ev (view_of pre) e = true.

Fixpoint holds_from (w : view) (t : list ev) : bool :=
  match t with
  | [] => true
  | e :: r => ok_ev w e && holds_from (vstep w e) r
  end.
Definition holds_b (t : list ev) : bool := holds_from view0 t.

(* invariants of the view of any trace that Holds (used by the derived theorems) *)
Definition VInv1 (w : view) : Prop := forall i, In i (live w) -> i_l i < fresh w.
Definition VInv2 (w : view) : Prop := forall i, In i (live w) -> zmem (i_c i) (cleared w) = false.
Definition VInv3 (w : view) : Prop := forall p f, aget p (frames w) = Some f -> p < npub w.
Definition VI (w : view) : Prop := VInv1 w /\ VInv2 w /\ VInv3 w.
