(* C17 - property theorems only.  Each is closed by [exact] of a lemma from Proofs.v and
   followed by Print Assumptions.  [run g ops] is the trace the model emits for history [ops]
   when the publications visit their snapshots in the order suggested by guide [g] (Go map
   order); [view_of pre] is the history function of Spec/Model: subscriptions, open
   publications and queues as determined by the events [pre] alone. *)
From Cell2V Require Import Common.Tac Common.ListX Common.AList C17.Model C17.Spec C17.Proofs C17.Corr.

(* Master statement: for every history, every listener program and every iteration order the
   model emits only events that the specification [ok_ev] allows after their prefix. *)
Theorem C17_holds : forall g ops, Holds (run g ops).
Proof. exact m_holds. Qed.
Print Assumptions C17_holds.

(* the view used by the model IS the history function of its own trace *)
Theorem C17_view_is_history : forall g ops, vw (final g ops) = view_of (run g ops).
Proof. exact m_view. Qed.
Print Assumptions C17_view_is_history.

(* Exactly once per publication: every listener subscribed to (c, n) when publication p begins
   and still subscribed when it ends is invoked by p; nobody is invoked twice by p. *)
Theorem C17_current_subscribers_once : forall g ops,
  (forall t1 p c n a t2 t3, run g ops = t1 ++ VBegin p c n a :: t2 ++ VEnd p :: t3 ->
     forall i, In i (members (view_of t1) c n) ->
               find_live (view_of (t1 ++ VBegin p c n a :: t2)) (i_l i) <> None ->
               exists fa, In (VInv p (i_l i) fa) t2) /\
  (forall t1 p l a1 t2 a2 t3, run g ops <> t1 ++ VInv p l a1 :: t2 ++ VInv p l a2 :: t3).
Proof. exact m_once. Qed.
Print Assumptions C17_current_subscribers_once.

(* every invocation made by a publication of args a passes bound args followed by a *)
Theorem C17_args_bound_then_published : forall g ops t1 p c n a t2 l fa t3,
  run g ops = t1 ++ VBegin p c n a :: t2 ++ VInv p l fa :: t3 ->
  exists i, find_live (view_of (t1 ++ VBegin p c n a :: t2)) l = Some i /\ fa = i_bound i ++ a.
Proof. exact m_args. Qed.
Print Assumptions C17_args_bound_then_published.

(* ... and is of a listener subscribed, at that very moment, to that centre and that name *)
Theorem C17_no_other_names : forall g ops t1 p c n a t2 l fa t3,
  run g ops = t1 ++ VBegin p c n a :: t2 ++ VInv p l fa :: t3 ->
  exists i, find_live (view_of (t1 ++ VBegin p c n a :: t2)) l = Some i /\ i_c i = c /\ i_n i = n.
Proof. exact m_names. Qed.
Print Assumptions C17_no_other_names.

(* no invocation outside an open publication *)
Theorem C17_invoked_only_by_open_publication : forall g ops pre p l fa post,
  run g ops = pre ++ VInv p l fa :: post ->
  exists f i, aget p (frames (view_of pre)) = Some f /\ find_live (view_of pre) l = Some i /\
              i_c i = f_c f /\ i_n i = f_n f /\ fa = i_bound i ++ f_args f /\ ~ In l (f_seen f).
Proof. exact m_inv_open. Qed.
Print Assumptions C17_invoked_only_by_open_publication.

(* once unsubscribed (by id or by callback) - from anywhere, including from inside a listener
   of a publication that has not reached it yet - a listener is never invoked again *)
Theorem C17_unsubscribed_never_again : forall g ops t1 c n l t2 p fa t3 gl b,
  In (VSub l c n gl b) t1 ->
  run g ops <> t1 ++ VUnsub c n l :: t2 ++ VInv p l fa :: t3 /\
  run g ops <> t1 ++ VUnsubCb c n l :: t2 ++ VInv p l fa :: t3.
Proof. exact m_unsub. Qed.
Print Assumptions C17_unsubscribed_never_again.

(* after Clear() none of the centre's listeners is invoked again and the centre accepts no
   new subscription *)
Theorem C17_cleared_never_again : forall g ops t1 c t2 t3,
  (forall l n gl b p fa, In (VSub l c n gl b) t1 ->
     run g ops <> t1 ++ VClear c :: t2 ++ VInv p l fa :: t3) /\
  (forall l n gl b, run g ops <> t1 ++ VClear c :: t2 ++ VSub l c n gl b :: t3).
Proof. exact m_clear. Qed.
Print Assumptions C17_cleared_never_again.

(* k global publications of (n, a): a local centre with a live GSubscribe'd listener for n gets
   exactly the copies that fit under the cap 999, appended at the tail of its queue (k = 1:
   one copy unless the queue is full); a centre without any listener for n gets nothing *)
Theorem C17_global_once_per_centre : forall g ops pre n a k qlens post,
  run g ops = pre ++ VGPub n a k qlens :: post ->
  0 <= k /\
  forall c, In c local_centres ->
    (has_g_live (view_of pre) c n = true ->
       queue_of (view_of (pre ++ [VGPub n a k qlens])) c =
       queue_of (view_of pre) c ++
       repeat (n, a) (Z.to_nat (Z.min QCAP (qlen (view_of pre) c + k) - qlen (view_of pre) c))) /\
    (members (view_of pre) c n = [] ->
       queue_of (view_of (pre ++ [VGPub n a k qlens])) c = queue_of (view_of pre) c).
Proof. exact m_global. Qed.
Print Assumptions C17_global_once_per_centre.

(* ... in particular a subscribed centre whose own queue has room for the k copies gets all
   of them, whatever the other centres' queues hold (a full queue elsewhere starves nobody) *)
Theorem C17_global_not_starved : forall g ops pre n a k qlens post,
  run g ops = pre ++ VGPub n a k qlens :: post ->
  forall c, In c local_centres -> has_g_live (view_of pre) c n = true ->
    qlen (view_of pre) c + k <= QCAP ->
    queue_of (view_of (pre ++ [VGPub n a k qlens])) c =
    queue_of (view_of pre) c ++ repeat (n, a) (Z.to_nat k).
Proof. exact m_not_starved. Qed.
Print Assumptions C17_global_not_starved.

(* a bulk receive by the owner returns a prefix of the pending events, in queue order
   ([items] is run-length encoded: [expand] writes the runs out) *)
Theorem C17_discard_prefix : forall g ops pre c items post,
  run g ops = pre ++ VDrop c items :: post ->
  queue_of (view_of pre) c = expand items ++ queue_of (view_of (pre ++ [VDrop c items])) c.
Proof. exact m_drop. Qed.
Print Assumptions C17_discard_prefix.

(* the owner receives queued events oldest first, each once (it is then dispatched by DoEvent
   as a publication to which the theorems above apply) *)
Theorem C17_queue_fifo : forall g ops pre c n a post,
  run g ops = pre ++ VDeq c n a :: post ->
  exists r, queue_of (view_of pre) c = (n, a) :: r /\ queue_of (view_of (pre ++ [VDeq c n a])) c = r.
Proof. exact m_fifo. Qed.
Print Assumptions C17_queue_fifo.

(* Nothing a listener does blocks: the only blocking event in any run is a channel-mode
   Publish on a queue that already holds 999 events, and it is terminal. *)
Theorem C17_reentrant_ok : forall g ops pre post,
  run g ops = pre ++ VDeadlock :: post ->
  post = [] /\ exists pre' c n a, pre = pre' ++ [VEnq c n a] /\ QCAP <= qlen (view_of pre') c.
Proof. exact m_block. Qed.
Print Assumptions C17_reentrant_ok.

(* the executable monitor run on implementation traces is the specification *)
Theorem C17_monitor_is_spec : forall t, holds_b t = true <-> Holds t.
Proof. exact m_monitor. Qed.
Print Assumptions C17_monitor_is_spec.

(* the order oracle reaches every iteration order: whichever listener of the remaining
   snapshot the guide names is the one visited next *)
Theorem C17_any_order : forall p l todo fa g s,
  In l todo -> guide s = VInv p l fa :: g ->
  pick (hint p s) todo = Some (l, remove_first l todo).
Proof. exact m_any_order. Qed.
Print Assumptions C17_any_order.

(* ---- non-vacuity *)
(* two listeners that unsubscribe each other: whoever map order visits first wins *)
Definition ex1 : list op :=
  [ODef 1 [AUnsub 0 7 2]; ODef 2 [AUnsub 0 7 1];
   OAct (ASub 0 7 0 0 [10] 1); OAct (ASub 0 7 0 0 [20] 2); OAct (APub 0 7 [5]); OAct (APub 0 7 [6])].
Example C17_example_order_a :
  run [] ex1 =
  [VOp; VOp; VOp; VSub 1 0 7 false [10]; VOp; VSub 2 0 7 false [20]; VOp; VBegin 1 0 7 [5];
   VInv 1 1 [10; 5]; VUnsub 0 7 2; VRet 1 true; VEnd 1; VOp; VBegin 2 0 7 [6]; VInv 2 1 [10; 6];
   VUnsub 0 7 2; VRet 1 true; VEnd 2].
Proof. vm_compute. reflexivity. Qed.
Example C17_example_order_b :
  run [VOp; VOp; VOp; VSub 1 0 7 false [10]; VOp; VSub 2 0 7 false [20]; VOp; VBegin 1 0 7 [5];
       VInv 1 2 [20; 5]] ex1 =
  [VOp; VOp; VOp; VSub 1 0 7 false [10]; VOp; VSub 2 0 7 false [20]; VOp; VBegin 1 0 7 [5];
   VInv 1 2 [20; 5]; VUnsub 0 7 1; VRet 2 true; VEnd 1; VOp; VBegin 2 0 7 [6]; VInv 2 2 [20; 6];
   VUnsub 0 7 1; VRet 2 true; VEnd 2].
Proof. vm_compute. reflexivity. Qed.

(* Clear() inside the first listener (light centre): the other two are not invoked (F7b),
   later publications reach nobody, later subscriptions are refused *)
Example C17_example_clear_inside :
  run [] [ODef 1 [AClear 10]; OAct (ASub 10 7 1 0 [1] 1); OAct (ASub 10 7 1 0 [2] 0);
          OAct (ASub 10 7 1 0 [3] 0); OAct (APub 10 7 [5]); OAct (APub 10 7 [6]);
          OAct (ASub 10 7 1 0 [] 0)] =
  [VOp; VOp; VSub 1 10 7 false [1]; VOp; VSub 2 10 7 false [2]; VOp; VSub 3 10 7 false [3]; VOp;
   VBegin 1 10 7 [5]; VInv 1 1 [1; 5]; VClear 10; VRet 1 true; VEnd 1; VOp; VBegin 2 10 7 [6];
   VEnd 2; VOp; VSubFail].
Proof. vm_compute. reflexivity. Qed.

(* Subscribe + unsubscribe-self inside a listener of a LocalEventCenter (F7a: used to
   deadlock): the new listener is not part of this publication, it gets the next one;
   a publication to another name reaches nobody *)
Example C17_example_subscribe_inside :
  run [] [ODef 1 [ASub 0 7 0 0 [9] 0; AUnsubSelf]; OAct (ASub 0 7 0 0 [1] 1);
          OAct (APub 0 7 [5]); OAct (APub 0 7 [6]); OAct (APub 0 8 [7])] =
  [VOp; VOp; VSub 1 0 7 false [1]; VOp; VBegin 1 0 7 [5]; VInv 1 1 [1; 5]; VSub 2 0 7 false [9];
   VUnsub 0 7 1; VRet 1 true; VEnd 1; VOp; VBegin 2 0 7 [6]; VInv 2 2 [9; 6]; VRet 2 true; VEnd 2;
   VOp; VBegin 3 0 8 [7]; VEnd 3].
Proof. vm_compute. reflexivity. Qed.

(* global publication: centre 1 (GSubscribe) and 2 (GSubscribe) get it, centre 0 (plain
   Subscribe) does not; queue cap; the owner's own channel-mode Publish on a full queue blocks *)
Example C17_example_global_and_full_queue :
  run [] [OAct (ASub 1 7 1 0 [] 0); OAct (ASub 0 7 0 0 [3] 0); OAct (AGPub 7 [1] 998);
          OAct (AGPub 7 [2] 1); OAct (AGPub 7 [3] 1); ODrain 1 1; OAct (APub 1 7 [4]);
          OAct (APub 1 7 [5])] =
  [VOp; VSub 1 1 7 true []; VOp; VSub 2 0 7 false [3]; VOp; VGPub 7 [1] 998 [0; 998; 0; 0]; VOp;
   VGPub 7 [2] 1 [0; 999; 0; 0]; VOp; VGPub 7 [3] 1 [0; 999; 0; 0]; VOp; VDeq 1 7 [1]; VBegin 1 1 7 [1];
   VInv 1 1 [1]; VRet 1 true; VEnd 1; VOp; VEnq 1 7 [4]; VOp; VEnq 1 7 [5]; VDeadlock].
Proof. vm_compute. reflexivity. Qed.

(* centre 1 full (999, filled through its private name 8), centres 2 and 3 healthy, all three
   GSubscribe'd to name 7: 2 and 3 get the publication, 1 drops it; bulk receive shows the content *)
Example C17_example_one_full_others_served :
  run [] [OAct (ASub 1 7 1 0 [1] 0); OAct (ASub 2 7 1 0 [2] 0); OAct (ASub 3 7 1 0 [3] 0);
          OAct (ASub 1 8 1 0 [] 0); OAct (AGPub 8 [0] 999); OAct (AGPub 7 [5] 1);
          ODiscard 2 10; ODrain 3 1; ODiscard 1 1200] =
  [VOp; VSub 1 1 7 true [1]; VOp; VSub 2 2 7 true [2]; VOp; VSub 3 3 7 true [3]; VOp;
   VSub 4 1 8 true []; VOp; VGPub 8 [0] 999 [0; 999; 0; 0]; VOp; VGPub 7 [5] 1 [0; 999; 1; 1];
   VOp; VDrop 2 [(1, (7, [5]))]; VOp; VDeq 3 7 [5]; VBegin 1 3 7 [5]; VInv 1 3 [3; 5]; VRet 3 true; VEnd 1;
   VOp; VDrop 1 [(999, (8, [0]))]].
Proof. vm_compute. reflexivity. Qed.

(* light centre: Subscribe de-duplicates by code pointer (codes 1 and 5 are the same function
   literal), SubscribeWithReceiver is refused by a receiver-less listener with that code,
   SubscribeNoCheck is not; unsubscribe-by-callback with two candidates is not issued *)
Example C17_example_light_dedup :
  run [] [OAct (ASub 10 7 0 1 [1] 0); OAct (ASub 10 7 0 5 [2] 0); OAct (ASub 10 7 0 2 [3] 0);
          OAct (ASub 10 7 2 1 [4] 0); OAct (ASub 10 7 1 1 [5] 0); OAct (AUnsubCb 10 7 0 1);
          OAct (AUnsubCb 10 7 0 2); OAct (APub 10 7 [])] =
  [VOp; VSub 1 10 7 false [1]; VOp; VSubFail; VOp; VSub 2 10 7 false [3]; VOp; VSubFail; VOp;
   VSub 3 10 7 false [5]; VOp; VAmbig; VOp; VUnsubCb 10 7 2; VOp; VBegin 1 10 7 []; VInv 1 1 [1];
   VRet 1 true; VInv 1 3 [5]; VRet 3 true; VEnd 1].
Proof. vm_compute. reflexivity. Qed.

(* the monitor rejects the three defects as they showed on the unrepaired code:
   F7a Subscribe inside a listener never returns; F7b the second listener is invoked after the
   first one cleared the centre; F7c the arguments of the outer invocation change under it *)
Example C17_monitor_rejects_F7a :
  holds_b [VOp; VSub 1 0 7 false []; VOp; VBegin 1 0 7 []; VInv 1 1 []; VDeadlock] = false.
Proof. vm_compute. reflexivity. Qed.
Example C17_monitor_rejects_F7b :
  holds_b [VOp; VSub 1 0 7 false []; VOp; VSub 2 0 7 false []; VOp; VBegin 1 0 7 []; VInv 1 1 [];
           VClear 0; VRet 1 true; VInv 1 2 []; VRet 2 true; VEnd 1] = false.
Proof. vm_compute. reflexivity. Qed.
Example C17_monitor_rejects_F7c :
  holds_b [VOp; VSub 1 0 7 false [4]; VOp; VBegin 1 0 7 [1]; VInv 1 1 [4; 1]; VBegin 2 0 7 [2];
           VInv 2 1 [4; 2]; VRet 1 true; VEnd 2; VRet 1 false; VEnd 1] = false.
Proof. vm_compute. reflexivity. Qed.
