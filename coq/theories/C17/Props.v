(* C17 - property theorems only.  Each is closed by [exact] of a lemma from Proofs.v and
   followed by Print Assumptions.  [run g ops] is the trace the model emits for history [ops]
   when the publications visit their snapshots in the order suggested by guide [g] (Go map
   order); [view_of pre] is the history function of Spec/Model: subscriptions, open
   publications and queues as determined by the events [pre] alone. *)
From Cell2V Require Import Common.Tac Common.ListX Common.AList C17.Model C17.Spec C17.Proofs C17.Corr.

(* Master statement: for every history, every listener program and every iteration order the
   model emits only events that the specification [ok_ev] allows after their prefix. *)
Theorem C17_holds : forall g ops, Holds (run g ops).
Proof. exact m_holds. Qed.
Print Assumptions C17_holds.

(* the view used by the model IS the history function of its own trace *)
Theorem C17_view_is_history : forall g ops, vw (final g ops) = view_of (run g ops).
Proof. exact m_view. Qed.
Print Assumptions C17_view_is_history.

(* Exactly once per publication: every listener subscribed to (c, n) when publication p begins
   and still subscribed when it ends is invoked by p; nobody is invoked twice by p. *)
Theorem C17_current_subscribers_once : forall g ops,
  (forall t1 p c n a t2 t3, run g ops = t1 ++ VBegin p c n a :: t2 ++ VEnd p :: t3 ->
     forall i, In i (members (view_of t1) c n) ->
               find_live (view_of (t1 ++ VBegin p c n a :: t2)) (i_l i) <> None ->
               exists fa gr, In (VInv p (i_l i) fa gr) t2) /\
  (forall t1 p l a1 g1 t2 a2 g2 t3, run g ops <> t1 ++ VInv p l a1 g1 :: t2 ++ VInv p l a2 g2 :: t3).
Proof. exact m_once. Qed.
Print Assumptions C17_current_subscribers_once.

(* every invocation made by a publication of args a passes bound args followed by a *)
Theorem C17_args_bound_then_published : forall g ops t1 p c n a t2 l fa gr t3,
  run g ops = t1 ++ VBegin p c n a :: t2 ++ VInv p l fa gr :: t3 ->
  exists i, find_live (view_of (t1 ++ VBegin p c n a :: t2)) l = Some i /\ fa = i_bound i ++ a.
Proof. exact m_args. Qed.
Print Assumptions C17_args_bound_then_published.

(* ... and is of a listener subscribed, at that very moment, to that centre and that name *)
Theorem C17_no_other_names : forall g ops t1 p c n a t2 l fa gr t3,
  run g ops = t1 ++ VBegin p c n a :: t2 ++ VInv p l fa gr :: t3 ->
  exists i, find_live (view_of (t1 ++ VBegin p c n a :: t2)) l = Some i /\ i_c i = c /\ i_n i = n.
Proof. exact m_names. Qed.
Print Assumptions C17_no_other_names.

(* no invocation outside an open publication *)
Theorem C17_invoked_only_by_open_publication : forall g ops pre p l fa gr post,
  run g ops = pre ++ VInv p l fa gr :: post ->
  exists f i, aget p (frames (view_of pre)) = Some f /\ find_live (view_of pre) l = Some i /\
              i_c i = f_c f /\ i_n i = f_n f /\ fa = i_bound i ++ f_args f /\ ~ In l (f_seen f).
Proof. exact m_inv_open. Qed.
Print Assumptions C17_invoked_only_by_open_publication.

(* once unsubscribed (by id or by callback) - from anywhere, including from inside a listener
   of a publication that has not reached it yet - a listener is never invoked again *)
Theorem C17_unsubscribed_never_again : forall g ops t1 c n l t2 p fa gr t3 gl b,
  In (VSub l c n gl b) t1 ->
  run g ops <> t1 ++ VUnsub c n l :: t2 ++ VInv p l fa gr :: t3 /\
  run g ops <> t1 ++ VUnsubCb c n l :: t2 ++ VInv p l fa gr :: t3.
Proof. exact m_unsub. Qed.
Print Assumptions C17_unsubscribed_never_again.

(* after Clear() none of the centre's listeners is invoked again and the centre accepts no
   new subscription *)
Theorem C17_cleared_never_again : forall g ops t1 c t2 t3,
  (forall l n gl b p fa gr, In (VSub l c n gl b) t1 ->
     run g ops <> t1 ++ VClear c :: t2 ++ VInv p l fa gr :: t3) /\
  (forall l n gl b, run g ops <> t1 ++ VClear c :: t2 ++ VSub l c n gl b :: t3).
Proof. exact m_clear. Qed.
Print Assumptions C17_cleared_never_again.

(* k global publications of (n, a): a local centre with a live GSubscribe'd listener for n gets
   exactly the copies that fit under the cap 999, appended at the tail of its queue (k = 1:
   one copy unless the queue is full); a centre without any listener for n gets nothing *)
Theorem C17_global_once_per_centre : forall g ops pre n a k qlens post,
  run g ops = pre ++ VGPub n a k qlens :: post ->
  0 <= k /\
  forall c, In c local_centres ->
    (has_g_live (view_of pre) c n = true ->
       queue_of (view_of (pre ++ [VGPub n a k qlens])) c =
       queue_of (view_of pre) c ++
       repeat (n, a) (Z.to_nat (Z.min QCAP (qlen (view_of pre) c + k) - qlen (view_of pre) c))) /\
    (members (view_of pre) c n = [] ->
       queue_of (view_of (pre ++ [VGPub n a k qlens])) c = queue_of (view_of pre) c).
Proof. exact m_global. Qed.
Print Assumptions C17_global_once_per_centre.

(* ... in particular a subscribed centre whose own queue has room for the k copies gets all
   of them, whatever the other centres' queues hold (a full queue elsewhere starves nobody) *)
Theorem C17_global_not_starved : forall g ops pre n a k qlens post,
  run g ops = pre ++ VGPub n a k qlens :: post ->
  forall c, In c local_centres -> has_g_live (view_of pre) c n = true ->
    qlen (view_of pre) c + k <= QCAP ->
    queue_of (view_of (pre ++ [VGPub n a k qlens])) c =
    queue_of (view_of pre) c ++ repeat (n, a) (Z.to_nat k).
Proof. exact m_not_starved. Qed.
Print Assumptions C17_global_not_starved.

(* a bulk receive by the owner returns a prefix of the pending events, in queue order
   ([items] is run-length encoded: [expand] writes the runs out) *)
Theorem C17_discard_prefix : forall g ops pre c items post,
  run g ops = pre ++ VDrop c items :: post ->
  queue_of (view_of pre) c = expand items ++ queue_of (view_of (pre ++ [VDrop c items])) c.
Proof. exact m_drop. Qed.
Print Assumptions C17_discard_prefix.

(* the owner receives queued events oldest first, each once (it is then dispatched by DoEvent
   as a publication to which the theorems above apply) *)
Theorem C17_queue_fifo : forall g ops pre c n a post,
  run g ops = pre ++ VDeq c n a :: post ->
  exists r, queue_of (view_of pre) c = (n, a) :: r /\ queue_of (view_of (pre ++ [VDeq c n a])) c = r.
Proof. exact m_fifo. Qed.
Print Assumptions C17_queue_fifo.

(* Nothing a listener does blocks: the only blocking event in any run is a channel-mode
   Publish on a queue that already holds 999 events, and it is terminal. *)
Theorem C17_reentrant_ok : forall g ops pre post,
  run g ops = pre ++ VDeadlock :: post ->
  post = [] /\ exists pre' c n a, pre = pre' ++ [VEnq c n a] /\ QCAP <= qlen (view_of pre') c.
Proof. exact m_block. Qed.
Print Assumptions C17_reentrant_ok.

(* the executable monitor run on implementation traces is the specification *)
Theorem C17_monitor_is_spec : forall t, holds_b t = true <-> Holds t.
Proof. exact m_monitor. Qed.
Print Assumptions C17_monitor_is_spec.

(* the order oracle reaches every iteration order: whichever listener of the remaining
   snapshot the guide names is the one visited next *)
Theorem C17_any_order : forall p l todo fa gr g s,
  In l todo -> guide s = VInv p l fa gr :: g ->
  pick (hint p s) todo = Some (l, remove_first l todo).
Proof. exact m_any_order. Qed.
Print Assumptions C17_any_order.

(* ---- run services: whose goroutine, and teardown *)

(* Every listener invocation of a centre happens on the goroutine that owns the centre at that
   moment, for every history - whoever published, whatever the service is doing, including
   Stop() called from a foreign goroutine while events are still queued. *)
Theorem C17_owner_context : forall g ops pre p l fa gr post,
  run g ops = pre ++ VInv p l fa gr :: post ->
  exists i, find_live (view_of pre) l = Some i /\ gr = owner (view_of pre) (i_c i).
Proof. exact m_owner. Qed.
Print Assumptions C17_owner_context.

(* ... where the owner of a centre is the loop goroutine of its run service exactly from Start()
   until that loop has ended, and the driver goroutine otherwise *)
Theorem C17_owner_is_the_live_loop : forall t c,
  let P := is_svc c = true /\ exists t1 t2, t = t1 ++ VStart c :: t2 /\ ~ In (VLoopEnd c) t2 in
  (owner (view_of t) c = c /\ P) \/ (owner (view_of t) c = 0 /\ ~ P).
Proof. exact m_owner_char. Qed.
Print Assumptions C17_owner_is_the_live_loop.

(* Stop() is final, whoever calls it: afterwards no listener of the centre is invoked (on any
   goroutine), nothing is received from its queue (neither dispatched nor skipped), nothing can
   be subscribed, the service is neither stopped nor started again *)
Theorem C17_stop_is_final : forall g ops t1 c t2 t3,
  (forall l n gl b p fa gr, In (VSub l c n gl b) t1 ->
     run g ops <> t1 ++ VStop c :: t2 ++ VInv p l fa gr :: t3) /\
  (forall e, run g ops = t1 ++ VStop c :: t2 ++ e :: t3 ->
     match e with
     | VDeq c' _ _ | VSkip c' _ | VStop c' | VStart c' | VSub _ c' _ _ _ => c' <> c
     | _ => True
     end).
Proof. exact m_stop. Qed.
Print Assumptions C17_stop_is_final.

(* events queued for a run service are received by its loop only, and only before Stop(): what
   is pending at Stop() is dropped (with C17_owner_context: delivered by the owner or not at all) *)
Theorem C17_queue_received_by_live_loop_only : forall g ops pre c n a post,
  run g ops = pre ++ VDeq c n a :: post -> is_svc c = true ->
  loop_alive (view_of pre) c = true /\ ~ In (VStop c) pre.
Proof. exact m_deq_by_loop. Qed.
Print Assumptions C17_queue_received_by_live_loop_only.

(* events the loop received without invoking anybody were the oldest pending ones and had no
   listener at that centre *)
Theorem C17_skipped_had_no_listener : forall g ops pre c k post,
  run g ops = pre ++ VSkip c k :: post ->
  0 < k <= qlen (view_of pre) c /\ loop_alive (view_of pre) c = true /\ ~ In (VStop c) pre /\
  (forall x, In x (firstn (Z.to_nat k) (queue_of (view_of pre) c)) ->
             members (view_of pre) c (fst x) = []) /\
  queue_of (view_of (pre ++ [VSkip c k])) c = skipn (Z.to_nat k) (queue_of (view_of pre) c).
Proof. exact m_skip. Qed.
Print Assumptions C17_skipped_had_no_listener.

(* a loop ends only after Stop(); what is still queued is never received; the centre is the
   driver's again *)
Theorem C17_loop_ends_after_stop : forall g ops pre c post,
  run g ops = pre ++ VLoopEnd c :: post ->
  In (VStop c) pre /\ loop_alive (view_of pre) c = true /\
  queue_of (view_of (pre ++ [VLoopEnd c])) c = [] /\ owner (view_of (pre ++ [VLoopEnd c])) c = 0.
Proof. exact m_loop_end. Qed.
Print Assumptions C17_loop_ends_after_stop.

(* ---- probes: calls held inside the global centre *)

(* A Subscribe / Unsubscribe of a probe centre that was held inside the global centre (between
   the lookup of the name's list and the call on the centre object) has, once it returns, the
   sequential outcome - registered / not registered - for every interleaving of operations of the
   other centres (their subscriptions, last unsubscriptions, Clear, publications) in between *)
Theorem C17_held_call_has_sequential_outcome : forall g ops t1 c n b t2 t3,
  run g ops = t1 ++ VPark c n b :: t2 ++ VDone c :: t3 -> ~ In (VDone c) t2 ->
  pair_mem c n (pr (view_of (t1 ++ VPark c n b :: t2 ++ [VDone c]))) = b /\
  aget c (pp (view_of (t1 ++ VPark c n b :: t2 ++ [VDone c]))) = None.
Proof. exact m_held_call. Qed.
Print Assumptions C17_held_call_has_sequential_outcome.

(* ... and a global publication reaches every registered probe whose registration is not in
   flight (every copy that fits under the cap), and no unregistered one *)
Theorem C17_probe_delivery : forall g ops pre n a k qlens post,
  run g ops = pre ++ VProbe n a k qlens :: post ->
  forall c, In c probe_centres -> held (view_of pre) c n = false ->
    queue_of (view_of (pre ++ [VProbe n a k qlens])) c =
    queue_of (view_of pre) c ++
    repeat (n, a) (Z.to_nat (if pair_mem c n (pr (view_of pre))
                             then Z.min QCAP (qlen (view_of pre) c + k) - qlen (view_of pre) c else 0)).
Proof. exact m_probe. Qed.
Print Assumptions C17_probe_delivery.

(* ---- non-vacuity *)
(* two listeners that unsubscribe each other: whoever map order visits first wins *)
Definition ex1 : list op :=
  [ODef 1 [AUnsub 0 7 2]; ODef 2 [AUnsub 0 7 1];
   OAct (ASub 0 7 0 0 [10] 1); OAct (ASub 0 7 0 0 [20] 2); OAct (APub 0 7 [5]); OAct (APub 0 7 [6])].
Example C17_example_order_a :
  run [] ex1 =
  [VOp; VOp; VOp; VSub 1 0 7 false [10]; VOp; VSub 2 0 7 false [20]; VOp; VBegin 1 0 7 [5];
   VInv 1 1 [10; 5] 0; VUnsub 0 7 2; VRet 1 true; VEnd 1; VOp; VBegin 2 0 7 [6]; VInv 2 1 [10; 6] 0;
   VUnsub 0 7 2; VRet 1 true; VEnd 2].
Proof. vm_compute. reflexivity. Qed.
Example C17_example_order_b :
  run [VOp; VOp; VOp; VSub 1 0 7 false [10]; VOp; VSub 2 0 7 false [20]; VOp; VBegin 1 0 7 [5];
       VInv 1 2 [20; 5] 0] ex1 =
  [VOp; VOp; VOp; VSub 1 0 7 false [10]; VOp; VSub 2 0 7 false [20]; VOp; VBegin 1 0 7 [5];
   VInv 1 2 [20; 5] 0; VUnsub 0 7 1; VRet 2 true; VEnd 1; VOp; VBegin 2 0 7 [6]; VInv 2 2 [20; 6] 0;
   VUnsub 0 7 1; VRet 2 true; VEnd 2].
Proof. vm_compute. reflexivity. Qed.

(* Clear() inside the first listener (light centre): the other two are not invoked (F7b),
   later publications reach nobody, later subscriptions are refused *)
Example C17_example_clear_inside :
  run [] [ODef 1 [AClear 10]; OAct (ASub 10 7 1 0 [1] 1); OAct (ASub 10 7 1 0 [2] 0);
          OAct (ASub 10 7 1 0 [3] 0); OAct (APub 10 7 [5]); OAct (APub 10 7 [6]);
          OAct (ASub 10 7 1 0 [] 0)] =
  [VOp; VOp; VSub 1 10 7 false [1]; VOp; VSub 2 10 7 false [2]; VOp; VSub 3 10 7 false [3]; VOp;
   VBegin 1 10 7 [5]; VInv 1 1 [1; 5] 0; VClear 10; VRet 1 true; VEnd 1; VOp; VBegin 2 10 7 [6];
   VEnd 2; VOp; VSubFail].
Proof. vm_compute. reflexivity. Qed.

(* Subscribe + unsubscribe-self inside a listener of a LocalEventCenter (F7a: used to
   deadlock): the new listener is not part of this publication, it gets the next one;
   a publication to another name reaches nobody *)
Example C17_example_subscribe_inside :
  run [] [ODef 1 [ASub 0 7 0 0 [9] 0; AUnsubSelf]; OAct (ASub 0 7 0 0 [1] 1);
          OAct (APub 0 7 [5]); OAct (APub 0 7 [6]); OAct (APub 0 8 [7])] =
  [VOp; VOp; VSub 1 0 7 false [1]; VOp; VBegin 1 0 7 [5]; VInv 1 1 [1; 5] 0; VSub 2 0 7 false [9];
   VUnsub 0 7 1; VRet 1 true; VEnd 1; VOp; VBegin 2 0 7 [6]; VInv 2 2 [9; 6] 0; VRet 2 true; VEnd 2;
   VOp; VBegin 3 0 8 [7]; VEnd 3].
Proof. vm_compute. reflexivity. Qed.

(* global publication: centre 1 (GSubscribe) and 2 (GSubscribe) get it, centre 0 (plain
   Subscribe) does not; queue cap; the owner's own channel-mode Publish on a full queue blocks *)
Example C17_example_global_and_full_queue :
  run [] [OAct (ASub 1 7 1 0 [] 0); OAct (ASub 0 7 0 0 [3] 0); OAct (AGPub 7 [1] 998);
          OAct (AGPub 7 [2] 1); OAct (AGPub 7 [3] 1); ODrain 1 1; OAct (APub 1 7 [4]);
          OAct (APub 1 7 [5])] =
  [VOp; VSub 1 1 7 true []; VOp; VSub 2 0 7 false [3]; VOp; VGPub 7 [1] 998 [0; 998; 0; 0; 0; 0]; VOp;
   VGPub 7 [2] 1 [0; 999; 0; 0; 0; 0]; VOp; VGPub 7 [3] 1 [0; 999; 0; 0; 0; 0]; VOp; VDeq 1 7 [1]; VBegin 1 1 7 [1];
   VInv 1 1 [1] 0; VRet 1 true; VEnd 1; VOp; VEnq 1 7 [4]; VOp; VEnq 1 7 [5]; VDeadlock].
Proof. vm_compute. reflexivity. Qed.

(* centre 1 full (999, filled through its private name 8), centres 2 and 3 healthy, all three
   GSubscribe'd to name 7: 2 and 3 get the publication, 1 drops it; bulk receive shows the content *)
Example C17_example_one_full_others_served :
  run [] [OAct (ASub 1 7 1 0 [1] 0); OAct (ASub 2 7 1 0 [2] 0); OAct (ASub 3 7 1 0 [3] 0);
          OAct (ASub 1 8 1 0 [] 0); OAct (AGPub 8 [0] 999); OAct (AGPub 7 [5] 1);
          ODiscard 2 10; ODrain 3 1; ODiscard 1 1200] =
  [VOp; VSub 1 1 7 true [1]; VOp; VSub 2 2 7 true [2]; VOp; VSub 3 3 7 true [3]; VOp;
   VSub 4 1 8 true []; VOp; VGPub 8 [0] 999 [0; 999; 0; 0; 0; 0]; VOp; VGPub 7 [5] 1 [0; 999; 1; 1; 0; 0];
   VOp; VDrop 2 [(1, (7, [5]))]; VOp; VDeq 3 7 [5]; VBegin 1 3 7 [5]; VInv 1 3 [3; 5] 0; VRet 3 true; VEnd 1;
   VOp; VDrop 1 [(999, (8, [0]))]].
Proof. vm_compute. reflexivity. Qed.

(* light centre: Subscribe de-duplicates by code pointer (codes 1 and 5 are the same function
   literal), SubscribeWithReceiver is refused by a receiver-less listener with that code,
   SubscribeNoCheck is not; unsubscribe-by-callback with two candidates is not issued *)
Example C17_example_light_dedup :
  run [] [OAct (ASub 10 7 0 1 [1] 0); OAct (ASub 10 7 0 5 [2] 0); OAct (ASub 10 7 0 2 [3] 0);
          OAct (ASub 10 7 2 1 [4] 0); OAct (ASub 10 7 1 1 [5] 0); OAct (AUnsubCb 10 7 0 1);
          OAct (AUnsubCb 10 7 0 2); OAct (APub 10 7 [])] =
  [VOp; VSub 1 10 7 false [1]; VOp; VSubFail; VOp; VSub 2 10 7 false [3]; VOp; VSubFail; VOp;
   VSub 3 10 7 false [5]; VOp; VAmbig; VOp; VUnsubCb 10 7 2; VOp; VBegin 1 10 7 []; VInv 1 1 [1] 0;
   VRet 1 true; VInv 1 3 [5] 0; VRet 3 true; VEnd 1].
Proof. vm_compute. reflexivity. Qed.

(* the monitor rejects the three defects as they showed on the unrepaired code:
   F7a Subscribe inside a listener never returns; F7b the second listener is invoked after the
   first one cleared the centre; F7c the arguments of the outer invocation change under it *)
Example C17_monitor_rejects_F7a :
  holds_b [VOp; VSub 1 0 7 false []; VOp; VBegin 1 0 7 []; VInv 1 1 [] 0; VDeadlock] = false.
Proof. vm_compute. reflexivity. Qed.
Example C17_monitor_rejects_F7b :
  holds_b [VOp; VSub 1 0 7 false []; VOp; VSub 2 0 7 false []; VOp; VBegin 1 0 7 []; VInv 1 1 [] 0;
           VClear 0; VRet 1 true; VInv 1 2 [] 0; VRet 2 true; VEnd 1] = false.
Proof. vm_compute. reflexivity. Qed.
Example C17_monitor_rejects_F7c :
  holds_b [VOp; VSub 1 0 7 false [4]; VOp; VBegin 1 0 7 [1]; VInv 1 1 [4; 1] 0; VBegin 2 0 7 [2];
           VInv 2 1 [4; 2] 0; VRet 1 true; VEnd 2; VRet 1 false; VEnd 1] = false.
Proof. vm_compute. reflexivity. Qed.

(* run service 4: one delivery on the loop goroutine; three global publications stay queued
   (the loop is busy); Stop() from the driver; a fourth publication reaches nobody (the centre
   is no longer registered); the loop ends without having invoked anybody; later publications,
   subscriptions and sends find a dead centre *)
Definition ex_stop_foreign : list op :=
  [OAct (ASub 4 7 1 0 [1] 0); OStart 4; OAct (AGPub 7 [0] 1); ORun 4;
   OAct (AGPub 7 [1] 1); OAct (AGPub 7 [2] 1); OAct (AGPub 7 [3] 1); OAct (AStop 4);
   OAct (AGPub 7 [4] 1); ORun 4; OAct (AGPub 7 [99] 1); OAct (ASub 4 7 1 0 [2] 0); OAct (APub 4 7 [5])].
Example C17_example_stop_foreign_pending :
  run [] ex_stop_foreign =
  [VOp; VSub 1 4 7 true [1]; VOp; VStart 4; VOp; VGPub 7 [0] 1 [0; 0; 0; 0; 1; 0]; VOp; VDeq 4 7 [0];
   VBegin 1 4 7 [0]; VInv 1 1 [1; 0] 4; VRet 1 true; VEnd 1; VOp; VGPub 7 [1] 1 [0; 0; 0; 0; 1; 0]; VOp;
   VGPub 7 [2] 1 [0; 0; 0; 0; 2; 0]; VOp; VGPub 7 [3] 1 [0; 0; 0; 0; 3; 0]; VOp; VStop 4; VOp;
   VGPub 7 [4] 1 [0; 0; 0; 0; 3; 0]; VOp; VLoopEnd 4; VOp; VGPub 7 [99] 1 [0; 0; 0; 0; 0; 0]; VOp; VSubFail;
   VOp; VEnq 4 7 [5]].
Proof. vm_compute. reflexivity. Qed.

(* the loop subscribes two listeners, the driver may not (VNop); events nobody listens to are
   skipped... here they are behind the first delivery, whose second listener stops the service
   from inside: its later send is queued and dropped, the loop ends; a second Start is refused *)
Example C17_example_stop_inside_listener :
  run [] [ODef 1 [AStop 4; APub 4 7 [8]]; OStart 4; OOwn 4 (ASub 4 7 1 0 [1] 0); OOwn 4 (ASub 4 7 0 0 [2] 1);
          OAct (ASub 4 7 0 0 [3] 0); OAct (AGPub 8 [0] 2); OAct (AGPub 7 [1] 2); OOwn 4 (APub 4 9 [6]);
          OOwn 4 (APub 4 7 [7]); OOwn 4 (APub 0 7 [1]); ORun 4; ORun 4; OStart 4] =
  [VOp; VOp; VStart 4; VOp; VSub 1 4 7 true [1]; VOp; VSub 2 4 7 false [2]; VOp; VNop; VOp;
   VGPub 8 [0] 2 [0; 0; 0; 0; 0; 0]; VOp; VGPub 7 [1] 2 [0; 0; 0; 0; 2; 0]; VOp; VEnq 4 9 [6]; VOp; VEnq 4 7 [7];
   VOp; VNop; VOp; VDeq 4 7 [1]; VBegin 1 4 7 [1]; VInv 1 1 [1; 1] 4; VRet 1 true; VInv 1 2 [2; 1] 4; VStop 4;
   VEnq 4 7 [8]; VRet 2 true; VEnd 1; VLoopEnd 4; VOp; VNop; VOp; VNop].
Proof. vm_compute. reflexivity. Qed.

(* a backlog queued before Start() (two events nobody listens to, then one that is listened to) *)
Example C17_example_backlog_and_skip :
  run [] [OAct (ASub 4 7 1 0 [1] 0); OAct (APub 4 8 [0]); OAct (APub 4 8 [1]); OAct (AGPub 7 [2] 1);
          OAct (APub 4 9 [3]); OStart 4] =
  [VOp; VSub 1 4 7 true [1]; VOp; VEnq 4 8 [0]; VOp; VEnq 4 8 [1]; VOp; VGPub 7 [2] 1 [0; 0; 0; 0; 3; 0];
   VOp; VEnq 4 9 [3]; VOp; VStart 4; VSkip 4 2; VDeq 4 7 [2]; VBegin 1 4 7 [2]; VInv 1 1 [1; 2] 4; VRet 1 true;
   VEnd 1; VSkip 4 1].
Proof. vm_compute. reflexivity. Qed.

(* the monitor rejects the seeded teardown defect C17-6 as it shows on the changed code: Stop()
   called by the driver "flushes" the pending events itself - the listener runs on goroutine 0
   while the centre is owned by the loop goroutine 4 *)
Example C17_monitor_rejects_flush_on_stop_caller :
  holds_b [VOp; VSub 1 4 7 true [1]; VOp; VStart 4; VOp; VGPub 7 [1] 1 [0; 0; 0; 0; 1; 0]; VOp;
           VDeq 4 7 [1]; VBegin 1 4 7 [1]; VInv 1 1 [1; 1] 0; VRet 1 true; VEnd 1; VStop 4] = false.
Proof. vm_compute. reflexivity. Qed.
(* ... while the same delivery by the loop itself, before Stop(), is what the property asks for *)
Example C17_monitor_accepts_delivery_by_owner :
  holds_b [VOp; VSub 1 4 7 true [1]; VOp; VStart 4; VOp; VGPub 7 [1] 1 [0; 0; 0; 0; 1; 0]; VOp;
           VDeq 4 7 [1]; VBegin 1 4 7 [1]; VInv 1 1 [1; 1] 4; VRet 1 true; VEnd 1; VOp; VStop 4; VOp; VLoopEnd 4] = true.
Proof. vm_compute. reflexivity. Qed.
(* a listener invoked after Stop(), a queue received from after Stop(), a delivery by the driver
   after the loop has ended: all rejected *)
Example C17_monitor_rejects_delivery_after_stop :
  holds_b [VOp; VSub 1 4 7 true [1]; VOp; VStart 4; VOp; VGPub 7 [1] 1 [0; 0; 0; 0; 1; 0]; VOp; VStop 4; VOp;
           VDeq 4 7 [1]; VBegin 1 4 7 [1]; VEnd 1; VLoopEnd 4] = false.
Proof. vm_compute. reflexivity. Qed.

(* probes: 7 is registered; the Subscribe of 6 is held inside the global centre while a
   publication reaches 7 only and 7 leaves (the name now has no registered centre at all); once
   the held call has returned 6 is registered and gets the next publication *)
Example C17_example_held_subscribe :
  run [] [OReg 7 1 true; OPark 6 1 true; OAct (AGPub 1 [0] 1); OReg 7 1 false; ORelease 6;
          OAct (AGPub 1 [1] 1); OReg 6 1 false; OAct (AGPub 1 [2] 1)] =
  [VOp; VReg 7 1; VOp; VPark 6 1 true; VOp; VGPub 1 [0] 1 [0; 0; 0; 0; 0; 0]; VProbe 1 [0] 1 [0; 1]; VOp;
   VUnreg 7 1; VOp; VDone 6; VOp; VGPub 1 [1] 1 [0; 0; 0; 0; 0; 0]; VProbe 1 [1] 1 [1; 1]; VOp; VUnreg 6 1;
   VOp; VGPub 1 [2] 1 [0; 0; 0; 0; 0; 0]].
Proof. vm_compute. reflexivity. Qed.

(* the monitor rejects the seeded defect C17-10 as it shows on the changed code: the last centre
   leaving deleted the name's list while 6 was held; 6 ends up in the orphaned list and the
   publication after its Subscribe returned does not reach it *)
Example C17_monitor_rejects_orphaned_registration :
  holds_b [VOp; VReg 7 1; VOp; VPark 6 1 true; VOp; VUnreg 7 1; VOp; VDone 6; VOp;
           VGPub 1 [1] 1 [0; 0; 0; 0; 0; 0]; VProbe 1 [1] 1 [0; 0]] = false.
Proof. vm_compute. reflexivity. Qed.
