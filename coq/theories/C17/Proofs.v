(* C17 - proofs.  Part A: traces and views (no model state).  Part B: the model only emits
   allowed events (induction over nesting depth, loop invariant of the dispatch loop).
   Part C: consequences of [Holds] stated on traces. *)
From Cell2V Require Import Common.Tac Common.ListX Common.AList C17.Model C17.Spec.

(* ================================================================ Part A *)
Lemma view_of_snoc t e : view_of (t ++ [e]) = vstep (view_of t) e.
Proof. unfold view_of. rewrite fold_left_app. reflexivity. Qed.

Lemma view_of_app_fold t u : view_of (t ++ u) = fold_left vstep u (view_of t).
Proof. unfold view_of. apply fold_left_app. Qed.

Lemma holds_from_spec : forall t w,
  holds_from w t = true <->
  (forall pre e post, t = pre ++ e :: post -> ok_ev (fold_left vstep pre w) e = true).
Proof.
  induction t as [|x r IH]; intro w; cbn [holds_from].
  - split; [|reflexivity]. intros _ pre e post E. destruct pre; discriminate.
  - rewrite andb_true_iff, IH. split.
    + intros [H1 H2] pre e post E. destruct pre as [|y pre]; cbn in E; inv E.
      * exact H1.
      * cbn [fold_left]. eapply H2. reflexivity.
    + intro H. split.
      * apply (H [] x r). reflexivity.
      * intros pre e post E. subst r. apply (H (x :: pre) e post). reflexivity.
Qed.

Lemma holds_b_spec t : holds_b t = true <-> Holds t.
Proof. unfold holds_b, Holds, view_of. apply holds_from_spec. Qed.

Lemma Holds_nil : Holds [].
Proof. intros pre e post E. destruct pre; discriminate. Qed.

Lemma app_snoc_inv {A} (t pre post : list A) (e x : A) :
  t ++ [x] = pre ++ e :: post ->
  (post = [] /\ pre = t /\ e = x) \/ (exists post', post = post' ++ [x] /\ t = pre ++ e :: post').
Proof.
  intro E. destruct (exists_last (l := e :: post)) as [l' [a Ea]]; [discriminate|].
  destruct post as [|y post].
  - left. apply app_inj_tail in E. destruct E as [-> ->]. auto.
  - right. destruct (exists_last (l := y :: post)) as [m [b Eb]]; [discriminate|].
    rewrite Eb in E. change (pre ++ e :: m ++ [b]) with (pre ++ (e :: m) ++ [b]) in E.
    rewrite app_assoc in E. apply app_inj_tail in E. destruct E as [E1 E2]. subst.
    exists m. rewrite Eb. auto.
Qed.

Lemma Holds_snoc t e : Holds (t ++ [e]) <-> Holds t /\ ok_ev (view_of t) e = true.
Proof.
  split.
  - intro H. split.
    + intros pre x post E. apply (H pre x (post ++ [e])). subst t. rewrite <- app_assoc. reflexivity.
    + apply (H t e []). reflexivity.
  - intros [H1 H2] pre x post E. apply app_snoc_inv in E.
    destruct E as [[-> [-> ->]] | [post' [-> ->]]]; [exact H2|].
    eapply H1. reflexivity.
Qed.

Lemma Holds_prefix t u : Holds (t ++ u) -> Holds t.
Proof.
  intros H pre e post E. apply (H pre e (post ++ u)). subst t. rewrite <- app_assoc. reflexivity.
Qed.

(* ---- how one event changes each component of the view *)
Lemma grow_other w x : forall cs qs,
  live (grow w x cs qs) = live w /\ fresh (grow w x cs qs) = fresh w /\
  cleared (grow w x cs qs) = cleared w /\ frames (grow w x cs qs) = frames w /\
  npub (grow w x cs qs) = npub w /\ dead (grow w x cs qs) = dead w /\
  alive (grow w x cs qs) = alive w /\ stopped (grow w x cs qs) = stopped w /\
  pr (grow w x cs qs) = pr w /\ pp (grow w x cs qs) = pp w.
Proof.
  intros cs. revert w. induction cs as [|c cr IH]; intros w [|q qr]; cbn [grow]; try tauto.
  destruct (IH (set_queue w c (queue_of w c ++ repeat_ev x (q - qlen w c))) qr)
    as (A & B & C & D & E & F & G & H & I & J).
  rewrite A, B, C, D, E, F, G, H, I, J. cbn. tauto.
Qed.

Arguments grow : simpl never.

Lemma vstep_live w e :
  live (vstep w e) =
  match e with
  | VSub l c n g b => live w ++ [LI l c n g b]
  | VUnsub c n l | VUnsubCb c n l => filter (fun i => negb ((i_l i =? l) && at_cn c n i)) (live w)
  | VClear c | VStop c => filter (fun i => negb (i_c i =? c)) (live w)
  | _ => live w
  end.
Proof.
  destruct e; cbn; try reflexivity.
  - destruct (aget p (frames w)); reflexivity.
  - destruct (qlen w c <? QCAP); reflexivity.
  - apply grow_other.
  - apply grow_other.
Qed.

Lemma vstep_fresh w e :
  fresh (vstep w e) = match e with VSub l _ _ _ _ => l + 1 | _ => fresh w end.
Proof.
  destruct e; cbn; try reflexivity.
  - destruct (aget p (frames w)); reflexivity.
  - destruct (qlen w c <? QCAP); reflexivity.
  - apply grow_other.
  - apply grow_other.
Qed.

Lemma vstep_cleared w e :
  cleared (vstep w e) = match e with VClear c | VStop c => c :: cleared w | _ => cleared w end.
Proof.
  destruct e; cbn; try reflexivity.
  - destruct (aget p (frames w)); reflexivity.
  - destruct (qlen w c <? QCAP); reflexivity.
  - apply grow_other.
  - apply grow_other.
Qed.

Lemma vstep_npub w e :
  npub (vstep w e) = match e with VBegin p _ _ _ => p + 1 | _ => npub w end.
Proof.
  destruct e; cbn; try reflexivity.
  - destruct (aget p (frames w)); reflexivity.
  - destruct (qlen w c <? QCAP); reflexivity.
  - apply grow_other.
  - apply grow_other.
Qed.

Lemma vstep_frames w e :
  frames (vstep w e) =
  match e with
  | VBegin p c n a => aset p (FR c n a (map i_l (members w c n)) []) (frames w)
  | VInv p l _ _ =>
      match aget p (frames w) with
      | Some f => aset p (FR (f_c f) (f_n f) (f_args f) (f_snap f) (l :: f_seen f)) (frames w)
      | None => frames w
      end
  | VEnd p => adel p (frames w)
  | _ => frames w
  end.
Proof.
  destruct e; cbn; try reflexivity.
  - destruct (aget p (frames w)); reflexivity.
  - destruct (qlen w c <? QCAP); reflexivity.
  - apply grow_other.
  - apply grow_other.
Qed.

Lemma vstep_dead w e :
  dead (vstep w e) = match e with VDeadlock => true | _ => dead w end.
Proof.
  destruct e; cbn; try reflexivity.
  - destruct (aget p (frames w)); reflexivity.
  - destruct (qlen w c <? QCAP); reflexivity.
  - apply grow_other.
  - apply grow_other.
Qed.

Lemma vstep_alive w e :
  alive (vstep w e) =
  match e with
  | VStart c => c :: alive w
  | VLoopEnd c => filter (fun x => negb (x =? c)) (alive w)
  | _ => alive w
  end.
Proof.
  destruct e; cbn; try reflexivity.
  - destruct (aget p (frames w)); reflexivity.
  - destruct (qlen w c <? QCAP); reflexivity.
  - apply grow_other.
  - apply grow_other.
Qed.

Lemma vstep_stopped w e :
  stopped (vstep w e) = match e with VStop c => c :: stopped w | _ => stopped w end.
Proof.
  destruct e; cbn; try reflexivity.
  - destruct (aget p (frames w)); reflexivity.
  - destruct (qlen w c <? QCAP); reflexivity.
  - apply grow_other.
  - apply grow_other.
Qed.

Lemma vstep_lastfull w e :
  lastfull (vstep w e) = match e with VEnq c _ _ => QCAP <=? qlen w c | _ => false end.
Proof. reflexivity. Qed.

(* ---- ok_ev, unfolded for a live, not-blocked view *)
Lemma ok_ev_alive w e : ok_ev w e = true -> dead w = false.
Proof. unfold ok_ev. destruct (dead w); [discriminate | reflexivity]. Qed.

(* ---- invariants of views *)
Definition VInv4 (w : view) : Prop := NoDup (map i_l (live w)).

Lemma NoDup_map_filter {A B} (f : A -> B) (g : A -> bool) l :
  NoDup (map f l) -> NoDup (map f (filter g l)).
Proof.
  induction l as [|x r IH]; cbn; intro H; [constructor|]. inv H.
  destruct (g x); cbn; [constructor|]; auto.
  intro I. apply H2. apply in_map_iff in I. destruct I as [y [E I]].
  apply filter_In in I. apply in_map_iff. exists y. tauto.
Qed.

Lemma NoDup_snoc {A} (l : list A) x : NoDup l -> ~ In x l -> NoDup (l ++ [x]).
Proof.
  induction l as [|y r IH]; cbn; intros H N; [constructor; [tauto | constructor]|].
  inv H. constructor.
  - intro I. apply in_app_iff in I. destruct I as [I|[E|[]]]; [tauto | subst; tauto].
  - apply IH; tauto.
Qed.

Lemma VI_step w e : VI w -> VInv4 w -> ok_ev w e = true -> VI (vstep w e) /\ VInv4 (vstep w e).
Proof.
  intros (I1 & I2 & I3) I4 OK. unfold VI, VInv1, VInv2, VInv3, VInv4 in *.
  rewrite vstep_live, vstep_fresh, vstep_cleared, vstep_npub, vstep_frames.
  unfold ok_ev in OK. apply andb_true_iff in OK. destruct OK as [_ OK].
  destruct (lastfull w).
  { destruct e; try discriminate. repeat split; auto. }
  destruct e; try (repeat split; solve [auto]).
  - (* VSub *)
    repeat rewrite andb_true_iff in OK. destruct OK as [[[E C] _] _].
    apply Z.eqb_eq in E. subst l. apply negb_true_iff in C.
    repeat split.
    + intros i Hi. apply in_app_iff in Hi. destruct Hi as [Hi|[<-|[]]]; [specialize (I1 i Hi); lia | cbn; lia].
    + intros i Hi. apply in_app_iff in Hi. destruct Hi as [Hi|[<-|[]]]; [auto | exact C].
    + exact I3.
    + rewrite map_app. cbn. apply NoDup_snoc; [exact I4|].
      intro Hin. apply in_map_iff in Hin. destruct Hin as [i [Ei Hi]]. specialize (I1 i Hi). lia.
  - (* VUnsub *)
    repeat split; auto.
    + intros i Hi. apply filter_In in Hi. apply I1. tauto.
    + intros i Hi. apply filter_In in Hi. apply I2. tauto.
    + apply NoDup_map_filter. exact I4.
  - repeat split; auto.
    + intros i Hi. apply filter_In in Hi. apply I1. tauto.
    + intros i Hi. apply filter_In in Hi. apply I2. tauto.
    + apply NoDup_map_filter. exact I4.
  - (* VClear *)
    repeat split; auto.
    + intros i Hi. apply filter_In in Hi. apply I1. tauto.
    + intros i Hi. apply filter_In in Hi. destruct Hi as [Hi Hc]. apply negb_true_iff in Hc.
      cbn [zmem existsb]. unfold zmem in I2. rewrite (I2 i Hi), Hc. reflexivity.
    + apply NoDup_map_filter. exact I4.
  - (* VBegin *)
    apply Z.eqb_eq in OK. subst p. repeat split; auto.
    intros q f Hq. destruct (Z.eq_dec q (npub w)) as [->|N]; [lia|].
    rewrite aget_aset_other in Hq by exact N. specialize (I3 q f Hq). lia.
  - (* VInv *)
    repeat split; auto. intros q f Hq. destruct (aget p (frames w)) as [f0|] eqn:Ef; [|eauto].
    destruct (Z.eq_dec q p) as [->|N]; [eapply I3; eauto|].
    rewrite aget_aset_other in Hq by exact N. eauto.
  - (* VEnd *)
    repeat split; auto. intros q f Hq. destruct (Z.eq_dec q p) as [->|N].
    + rewrite aget_adel_same in Hq. discriminate.
    + rewrite aget_adel_other in Hq by exact N. eauto.
  - (* VStop: clears the centre *)
    repeat split; auto.
    + intros i Hi. apply filter_In in Hi. apply I1. tauto.
    + intros i Hi. apply filter_In in Hi. destruct Hi as [Hi Hc]. apply negb_true_iff in Hc.
      cbn [zmem existsb]. unfold zmem in I2. rewrite (I2 i Hi), Hc. reflexivity.
    + apply NoDup_map_filter. exact I4.
Qed.

Lemma VI_view0 : VI view0 /\ VInv4 view0.
Proof.
  unfold VI, VInv1, VInv2, VInv3, VInv4. cbn. repeat split; try (intros; contradiction); try constructor.
  intros p f H. discriminate.
Qed.

Lemma Holds_VI t : Holds t -> VI (view_of t) /\ VInv4 (view_of t).
Proof.
  induction t as [|e t IH] using rev_ind; intro H.
  - apply VI_view0.
  - apply Holds_snoc in H. destruct H as [H1 H2]. rewrite view_of_snoc.
    destruct (IH H1) as [A B]. apply VI_step; assumption.
Qed.

Lemma find_live_In w l i : find_live w l = Some i -> In i (live w) /\ i_l i = l.
Proof.
  unfold find_live. intro H. apply find_some in H. destruct H as [H1 H2].
  apply Z.eqb_eq in H2. tauto.
Qed.

Lemma NoDup_ids_inj (l : list linfo) i j :
  NoDup (map i_l l) -> In i l -> In j l -> i_l i = i_l j -> i = j.
Proof.
  induction l as [|x r IH]; cbn; intros N Hi Hj E; [contradiction|]. inv N.
  destruct Hi as [<-|Hi], Hj as [<-|Hj]; auto.
  - exfalso. apply H1. rewrite E. apply in_map. exact Hj.
  - exfalso. apply H1. rewrite <- E. apply in_map. exact Hi.
Qed.

Lemma In_find_live w i : VInv4 w -> In i (live w) -> find_live w (i_l i) = Some i.
Proof.
  intros N Hi. unfold find_live.
  destruct (find (fun j => i_l j =? i_l i) (live w)) as [j|] eqn:F.
  - apply find_some in F. destruct F as [Hj E]. apply Z.eqb_eq in E.
    f_equal. eapply NoDup_ids_inj; eauto.
  - exfalso. eapply find_none in F; [|exact Hi]. rewrite Z.eqb_refl in F. discriminate.
Qed.

Lemma find_live_None w l : find_live w l = None <-> (forall i, In i (live w) -> i_l i <> l).
Proof.
  unfold find_live. split.
  - intros F i Hi E. eapply find_none in F; [|exact Hi]. cbn in F. subst l. rewrite Z.eqb_refl in F. discriminate.
  - intro H. destruct (find (fun i => i_l i =? l) (live w)) as [j|] eqn:F; [|reflexivity].
    apply find_some in F. destruct F as [Hj E]. apply Z.eqb_eq in E. exfalso. eapply H; eauto.
Qed.

(* ---- monotonicity of views along allowed events *)
Record Mono (w w' : view) : Prop := {
  m_npub : npub w <= npub w';
  m_fresh : fresh w <= fresh w';
  m_live : forall i, In i (live w') -> i_l i < fresh w -> In i (live w) }.

Lemma Mono_refl w : Mono w w.
Proof. split; auto; lia. Qed.

Lemma Mono_trans a b c : Mono a b -> Mono b c -> Mono a c.
Proof.
  intros [A1 A2 A3] [B1 B2 B3]. split; try lia.
  intros i Hi L. apply A3; [|exact L]. apply B3; [exact Hi | lia].
Qed.

Lemma Mono_step w e : ok_ev w e = true -> Mono w (vstep w e).
Proof.
  intro OK. split; rewrite ?vstep_npub, ?vstep_fresh, ?vstep_live;
    unfold ok_ev in OK; apply andb_true_iff in OK; destruct OK as [_ OK];
    (destruct (lastfull w); [destruct e; try discriminate; auto; lia|]).
  - destruct e; lia.
  - destruct e; lia.
  - destruct e; auto.
    + intros i Hi L. apply in_app_iff in Hi. destruct Hi as [Hi|[<-|[]]]; [exact Hi|].
      repeat rewrite andb_true_iff in OK. destruct OK as [[[E _] _] _]. apply Z.eqb_eq in E. cbn in L. lia.
    + intros i Hi _. apply filter_In in Hi. tauto.
    + intros i Hi _. apply filter_In in Hi. tauto.
    + intros i Hi _. apply filter_In in Hi. tauto.
    + intros i Hi _. apply filter_In in Hi. tauto.
Qed.

(* frames below b, other than p, are untouched *)
Definition keepx (p b : Z) (w w' : view) : Prop :=
  forall q, q < b -> q <> p -> aget q (frames w') = aget q (frames w).
Definition keep (b : Z) (w w' : view) : Prop :=
  forall q, q < b -> aget q (frames w') = aget q (frames w).

Lemma keep_keepx p b w w' : keep b w w' -> keepx p b w w'.
Proof. intros K q L _. apply K. exact L. Qed.

Lemma keepx_keep p b w w' : b <= p -> keepx p b w w' -> keep b w w'.
Proof. intros L K q Lq. apply K; lia. Qed.

Lemma keepx_trans p b b' a c d : b <= b' -> keepx p b a c -> keepx p b' c d -> keepx p b a d.
Proof. intros L K1 K2 q Lq N. rewrite K2 by (lia || exact N). apply K1; assumption. Qed.

Lemma keep_trans b b' a c d : b <= b' -> keep b a c -> keep b' c d -> keep b a d.
Proof. intros L K1 K2 q Lq. rewrite K2 by lia. apply K1; assumption. Qed.

Lemma keep_step w e : ok_ev w e = true ->
  match e with VInv _ _ _ _ | VEnd _ => False | _ => True end -> keep (npub w) w (vstep w e).
Proof.
  intros OK NE q L. rewrite vstep_frames. destruct e; try reflexivity; try contradiction.
  unfold ok_ev in OK. apply andb_true_iff in OK. destruct OK as [_ OK].
  destruct (lastfull w); [discriminate|]. apply Z.eqb_eq in OK. subst p.
  apply aget_aset_other. lia.
Qed.

(* [Ext w w']: w' extends w the way a nested call can: ids and publication numbers grow, open
   frames are left alone, and no loop goroutine comes or goes (so ownership is unchanged) *)
Definition Ext (w w' : view) : Prop := Mono w w' /\ keep (npub w) w w' /\ alive w' = alive w.

Lemma Ext_refl w : Ext w w.
Proof. split; [apply Mono_refl | split; [intros q _; reflexivity | reflexivity]]. Qed.

Lemma Ext_trans a b c : Ext a b -> Ext b c -> Ext a c.
Proof.
  intros (M1 & K1 & A1) (M2 & K2 & A2). split; [eapply Mono_trans; eauto|]. split.
  - eapply keep_trans; [apply (m_npub _ _ M1) | exact K1 | exact K2].
  - congruence.
Qed.

Lemma owner_alive w w' c : alive w' = alive w -> owner w' c = owner w c.
Proof. unfold owner, loop_alive. intros ->. reflexivity. Qed.
Lemma loop_alive_alive w w' c : alive w' = alive w -> loop_alive w' c = loop_alive w c.
Proof. unfold loop_alive. intros ->. reflexivity. Qed.

(* ================================================================ Part B *)
Definition WFa (s : st) : Prop :=
  forall c n, has_g_live (vw s) c n = true -> pair_mem c n (greg s) = true.
Definition WFb (s : st) : Prop :=
  forall c n, pair_mem c n (greg s) = true -> is_local c = true /\ members (vw s) c n <> [].

Record Good0 (s : st) : Prop := {
  g_view : vw s = view_of (rev (log s));
  g_holds : Holds (rev (log s));
  g_a : WFa s;
  g_b : WFb s }.
Definition Good (s : st) : Prop := Good0 s /\ lastfull (vw s) = false.

Lemma Good_VI s : Good0 s -> VI (vw s) /\ VInv4 (vw s).
Proof. intros G. rewrite (g_view _ G). apply Holds_VI. apply G. Qed.

Lemma emit_dead e s : dead (vw s) = true -> emit e s = s.
Proof. unfold emit. intros ->. reflexivity. Qed.

Lemma emit_alive e s : dead (vw s) = false ->
  emit e s = ST (vstep (vw s) e) (attrs s) (chanm s) (greg s) (progs s) (tl (guide s)) (e :: log s).
Proof. unfold emit. intros ->. reflexivity. Qed.

Lemma emit_greg e s : greg (emit e s) = greg s.
Proof. unfold emit. destruct (dead (vw s)); reflexivity. Qed.

Lemma emit_trace e s :
  vw s = view_of (rev (log s)) -> Holds (rev (log s)) -> dead (vw s) = false ->
  ok_ev (vw s) e = true ->
  vw (emit e s) = view_of (rev (log (emit e s))) /\ Holds (rev (log (emit e s))).
Proof.
  intros Hv Hh D OK. rewrite emit_alive by exact D. cbn [vw log rev].
  rewrite view_of_snoc, <- Hv. split; [reflexivity|]. apply Holds_snoc. rewrite <- Hv. tauto.
Qed.

Lemma members_live w w' c n : live w' = live w -> members w' c n = members w c n.
Proof. unfold members. intros ->. reflexivity. Qed.
Lemma has_g_live_live w w' c n : live w' = live w -> has_g_live w' c n = has_g_live w c n.
Proof. unfold has_g_live. intros ->. reflexivity. Qed.

(* emitting an allowed event that leaves the subscriptions alone *)
Lemma emit_good0 e s :
  Good0 s -> (dead (vw s) = false -> ok_ev (vw s) e = true) ->
  live (vstep (vw s) e) = live (vw s) -> Good0 (emit e s).
Proof.
  intros G OK L. destruct (dead (vw s)) eqn:D; [rewrite emit_dead by exact D; exact G|].
  specialize (OK eq_refl). destruct (emit_trace e s (g_view _ G) (g_holds _ G) D OK) as [A B].
  split; [exact A | exact B | |].
  - intros c n H. rewrite emit_greg. apply (g_a _ G). rewrite emit_alive in H by exact D. cbn [vw] in H.
    rewrite (has_g_live_live _ _ _ _ L) in H. exact H.
  - intros c n H. rewrite emit_greg in H. destruct (g_b _ G c n H) as [H1 H2]. split; [exact H1|].
    rewrite emit_alive by exact D. cbn [vw]. rewrite (members_live _ _ _ _ L). exact H2.
Qed.

Lemma emit_lastfull e s : dead (vw s) = false ->
  lastfull (vw (emit e s)) = match e with VEnq c _ _ => QCAP <=? qlen (vw s) c | _ => false end.
Proof. intro D. rewrite emit_alive by exact D. reflexivity. Qed.

Lemma emit_good e s :
  Good s -> (dead (vw s) = false -> ok_ev (vw s) e = true) ->
  live (vstep (vw s) e) = live (vw s) ->
  match e with VEnq _ _ _ => False | _ => True end -> Good (emit e s).
Proof.
  intros [G LF] OK L NE. split; [apply emit_good0; assumption|].
  destruct (dead (vw s)) eqn:D; [rewrite emit_dead by exact D; exact LF|].
  rewrite emit_lastfull by exact D. destruct e; try reflexivity. contradiction.
Qed.

Lemma emit_ext e s :
  (dead (vw s) = false -> ok_ev (vw s) e = true) ->
  match e with VInv _ _ _ _ | VEnd _ | VStart _ | VLoopEnd _ => False | _ => True end ->
  Ext (vw s) (vw (emit e s)).
Proof.
  intros OK NE. destruct (dead (vw s)) eqn:D; [rewrite emit_dead by exact D; apply Ext_refl|].
  rewrite emit_alive by exact D. cbn [vw]. specialize (OK eq_refl).
  split; [apply Mono_step; exact OK|]. split.
  - apply keep_step; [exact OK|]. destruct e; auto.
  - rewrite vstep_alive. destruct e; try reflexivity; contradiction.
Qed.

Lemma ok_simple w e : dead w = false -> lastfull w = false ->
  match e with
  | VOp | VSubFail | VUnsub _ _ _ | VUnsubCb _ _ _ | VAmbig | VClear _ | VEnq _ _ _ | VNop
  | VRet _ true => True
  | _ => False
  end -> ok_ev w e = true.
Proof.
  intros D L H. unfold ok_ev. rewrite D, L. destruct e; try contradiction; try reflexivity.
  destruct kept; [reflexivity | contradiction].
Qed.

(* programs: state transformers that keep [Good] and only extend the view *)
Definition Prog (f : st -> st) : Prop :=
  forall s, Good s -> Good (f s) /\ Ext (vw s) (vw (f s)).
Definition AProg (f : st -> st) : Prop :=
  forall s, Good s -> dead (vw s) = false -> Good (f s) /\ Ext (vw s) (vw (f s)).

Lemma Prog_emit_simple e :
  match e with
  | VOp | VSubFail | VAmbig | VNop | VRet _ true => True
  | _ => False
  end -> Prog (emit e).
Proof.
  intros H s G. split.
  - apply emit_good; try exact G.
    + intro D. apply ok_simple; [exact D | apply G |]. destruct e; try contradiction; auto.
    + rewrite vstep_live. destruct e; try contradiction; reflexivity.
    + destruct e; try contradiction; auto.
  - apply emit_ext.
    + intro D. apply ok_simple; [exact D | apply G |]. destruct e; try contradiction; auto.
    + destruct e; try contradiction; auto.
Qed.

(* ---- small facts about the lookup functions *)
Lemma pair_mem_In c n l : pair_mem c n l = true <-> In (c, n) l.
Proof.
  unfold pair_mem. rewrite existsb_exists. split.
  - intros [[a b] [H E]]. cbn in E. apply andb_true_iff in E. destruct E as [E1 E2].
    apply Z.eqb_eq in E1, E2. subst. exact H.
  - intro H. exists (c, n). split; [exact H|]. cbn. rewrite !Z.eqb_refl. reflexivity.
Qed.

Lemma at_cn_iff c n i : at_cn c n i = true <-> i_c i = c /\ i_n i = n.
Proof. unfold at_cn. rewrite andb_true_iff, !Z.eqb_eq. tauto. Qed.

Lemma has_g_live_iff w c n :
  has_g_live w c n = true <-> exists i, In i (live w) /\ at_cn c n i = true /\ i_g i = true.
Proof.
  unfold has_g_live. rewrite existsb_exists. split; intros [i [H E]]; exists i.
  - apply andb_true_iff in E. tauto.
  - split; [exact H|]. apply andb_true_iff. tauto.
Qed.

Lemma members_ne_iff w c n :
  members w c n <> [] <-> exists i, In i (live w) /\ at_cn c n i = true.
Proof.
  unfold members. split.
  - intro H. destruct (filter (at_cn c n) (live w)) as [|i r] eqn:E; [contradiction|].
    exists i. apply filter_In. rewrite E. left. reflexivity.
  - intros [i Hi] E. apply filter_In in Hi. rewrite E in Hi. contradiction.
Qed.

Lemma light_not_local c : is_light c = true -> is_local c = false.
Proof. unfold is_light, is_local. lia. Qed.

Lemma emit_good0_gen e s s2 :
  Good0 s -> vw s2 = vw s -> log s2 = log s -> dead (vw s) = false -> ok_ev (vw s) e = true ->
  (forall c n, has_g_live (vstep (vw s) e) c n = true -> pair_mem c n (greg s2) = true) ->
  (forall c n, pair_mem c n (greg s2) = true ->
               is_local c = true /\ members (vstep (vw s) e) c n <> []) ->
  Good0 (emit e s2).
Proof.
  intros G Ev El D OK A B. rewrite <- Ev in D, OK.
  assert (Hv : vw s2 = view_of (rev (log s2))) by (rewrite Ev, El; apply G).
  assert (Hh : Holds (rev (log s2))) by (rewrite El; apply G).
  destruct (emit_trace e s2 Hv Hh D OK) as [X Y].
  split; [exact X | exact Y | |].
  - intros c n H. rewrite emit_greg. apply A. rewrite emit_alive in H by exact D. cbn [vw] in H.
    rewrite Ev in H. exact H.
  - intros c n H. rewrite emit_greg in H. rewrite emit_alive by exact D. cbn [vw]. rewrite Ev. auto.
Qed.

Lemma ext_gen e s s2 :
  vw s2 = vw s -> dead (vw s) = false -> ok_ev (vw s) e = true ->
  match e with VInv _ _ _ _ | VEnd _ | VStart _ | VLoopEnd _ => False | _ => True end ->
  Ext (vw s) (vw (emit e s2)).
Proof.
  intros Ev D OK NE. rewrite <- Ev. apply emit_ext; [|exact NE]. intros _. rewrite Ev. exact OK.
Qed.

Lemma lastfull_gen e s2 : dead (vw s2) = false ->
  match e with VEnq _ _ _ => False | _ => True end -> lastfull (vw (emit e s2)) = false.
Proof. intros D NE. rewrite emit_lastfull by exact D. destruct e; try reflexivity. contradiction. Qed.

(* ---- Subscribe *)
Lemma do_sub_prog c n how code bound pid : AProg (do_sub c n how code bound pid).
Proof.
  intros s G D. unfold do_sub.
  destruct (negb (is_local c || is_light c)) eqn:V; [apply Prog_emit_simple; [exact I | exact G]|].
  destruct (negb (running s c)) eqn:R; [apply Prog_emit_simple; [exact I | exact G]|].
  match goal with |- context [if ?b then emit VSubFail s else _] => destruct b eqn:Ref end;
    [apply Prog_emit_simple; [exact I | exact G]|].
  clear Ref. apply negb_false_iff in V, R. unfold running in R. apply negb_true_iff in R.
  destruct G as [G LF].
  set (g := is_local c && negb (how =? 0)).
  set (l := fresh (vw s)).
  match goal with |- context [emit (VSub l c n g bound) ?x] => set (s2 := x) end.
  assert (Ev : vw s2 = vw s) by (subst s2; match goal with |- context [if ?b then _ else _] => destruct b end; reflexivity).
  assert (El : log s2 = log s) by (subst s2; match goal with |- context [if ?b then _ else _] => destruct b end; reflexivity).
  assert (Eg : forall c' n', pair_mem c' n' (greg s2) = true <->
                             pair_mem c' n' (greg s) = true \/ (g = true /\ c' = c /\ n' = n)).
  { intros c' n'. subst s2. cbn [greg set_attrs].
    destruct (g && negb (pair_mem c n (greg s))) eqn:Cg; cbn [greg set_greg set_attrs].
    - apply andb_true_iff in Cg. destruct Cg as [Cg _]. rewrite !pair_mem_In. cbn [In]. split.
      + intros [E|H]; [inv E; auto | auto].
      + intros [H|[_ [-> ->]]]; auto.
    - split; [auto|]. intros [H|[Hg [-> ->]]]; [exact H|]. rewrite Hg in Cg. cbn in Cg.
      apply negb_false_iff in Cg. exact Cg. }
  assert (OK : ok_ev (vw s) (VSub l c n g bound) = true).
  { unfold ok_ev. rewrite D, LF. cbn [negb andb]. subst l. rewrite Z.eqb_refl, R, V. cbn [negb andb].
    subst g. destruct (is_local c), (negb (how =? 0)); reflexivity. }
  split; [split|].
  - apply (emit_good0_gen _ s); try assumption.
    + intros c' n' H. apply Eg. apply has_g_live_iff in H. destruct H as [i [Hi [Hc Hg]]].
      rewrite vstep_live in Hi. apply in_app_iff in Hi. destruct Hi as [Hi|[<-|[]]].
      * left. apply (g_a _ G). apply has_g_live_iff. eauto.
      * right. apply at_cn_iff in Hc. cbn in Hc, Hg. destruct Hc as [<- <-]. auto.
    + intros c' n' H. apply Eg in H. destruct H as [H|[Hg [-> ->]]].
      * destruct (g_b _ G c' n' H) as [H1 H2]. split; [exact H1|]. apply members_ne_iff.
        apply members_ne_iff in H2. destruct H2 as [i [Hi Hc]]. exists i. rewrite vstep_live.
        split; [apply in_app_iff; auto | exact Hc].
      * split; [subst g; apply andb_true_iff in Hg; tauto|]. apply members_ne_iff.
        exists (LI l c n g bound). rewrite vstep_live. split; [apply in_app_iff; cbn; auto|].
        apply at_cn_iff. cbn. auto.
  - apply lastfull_gen; [rewrite Ev; exact D | exact I].
  - apply ext_gen; auto.
Qed.

(* ---- Unsubscribe by id *)
Lemma do_unsub_prog c n l : AProg (do_unsub c n l).
Proof.
  intros s [G LF] D. unfold do_unsub.
  destruct (negb (is_local c || is_light c)) eqn:V;
    [apply Prog_emit_simple; [exact I | split; assumption]|].
  assert (OK : ok_ev (vw s) (VUnsub c n l) = true) by (apply ok_simple; auto).
  destruct (emit_trace _ s (g_view _ G) (g_holds _ G) D OK) as [X Y].
  set (s1 := emit (VUnsub c n l) s) in *.
  assert (E1 : vw s1 = vstep (vw s) (VUnsub c n l)) by (subst s1; rewrite emit_alive by exact D; reflexivity).
  assert (Eg1 : greg s1 = greg s) by apply emit_greg.
  assert (Lv : live (vw s1) = filter (fun i => negb ((i_l i =? l) && at_cn c n i)) (live (vw s)))
    by (rewrite E1, vstep_live; reflexivity).
  assert (F1 : forall i, In i (live (vw s1)) -> In i (live (vw s)))
    by (intros i Hi; rewrite Lv in Hi; apply filter_In in Hi; tauto).
  assert (F2 : forall i, In i (live (vw s)) -> at_cn c n i = false -> In i (live (vw s1))).
  { intros i Hi Hc. rewrite Lv. apply filter_In. split; [exact Hi|]. rewrite Hc, andb_false_r. reflexivity. }
  assert (Ev : vw (after_unsub c n s1) = vw s1 /\ log (after_unsub c n s1) = log s1).
  { unfold after_unsub. match goal with |- context [if ?b then _ else _] => destruct b end; auto. }
  destruct Ev as [Ev El].
  split; [split; [split|]|].
  - rewrite Ev, El. exact X.
  - rewrite El. exact Y.
  - (* WFa *)
    intros c' n' H. rewrite Ev in H. apply has_g_live_iff in H. destruct H as [i [Hi [Hc Hg]]].
    assert (P : pair_mem c' n' (greg s) = true)
      by (apply (g_a _ G); apply has_g_live_iff; exists i; auto).
    unfold after_unsub. rewrite ?Eg1.
    destruct (is_local c && pair_mem c n (greg s) &&
              match members (vw s1) c n with [] => true | _ => false end) eqn:Cd; [|rewrite ?Eg1; exact P].
    cbn [greg set_greg]. rewrite ?Eg1. apply pair_mem_In. unfold pair_del. apply filter_In.
    split; [apply pair_mem_In; exact P|]. cbn [fst snd].
    apply andb_true_iff in Cd. destruct Cd as [_ Cd].
    destruct (members (vw s1) c n) eqn:M; [|discriminate].
    destruct ((c' =? c) && (n' =? n)) eqn:Q; [|reflexivity]. exfalso.
    apply andb_true_iff in Q. destruct Q as [Q1 Q2]. apply Z.eqb_eq in Q1, Q2. subst c' n'.
    assert (N : members (vw s1) c n <> []) by (apply members_ne_iff; eauto). rewrite M in N. tauto.
  - (* WFb *)
    intros c' n' H. rewrite Ev.
    assert (P : pair_mem c' n' (greg s) = true).
    { revert H. unfold after_unsub. rewrite ?Eg1.
      match goal with |- context [if ?b then _ else _] => destruct b end; cbn [greg set_greg]; rewrite ?Eg1; [|auto].
      rewrite !pair_mem_In. unfold pair_del. intro H. apply filter_In in H. tauto. }
    destruct (g_b _ G c' n' P) as [H1 H2]. split; [exact H1|].
    apply members_ne_iff in H2. destruct H2 as [i [Hi Hc]].
    destruct (at_cn c n i) eqn:Hc2.
    + assert (Ec : c' = c /\ n' = n).
      { apply at_cn_iff in Hc, Hc2. destruct Hc, Hc2. split; congruence. }
      destruct Ec as [-> ->].
      revert H. unfold after_unsub. rewrite ?Eg1, H1, P. cbn [andb].
      destruct (members (vw s1) c n) eqn:M.
      * cbn [greg set_greg]. rewrite ?Eg1, pair_mem_In. unfold pair_del. intro H. apply filter_In in H.
        destruct H as [_ H]. cbn [fst snd] in H. rewrite !Z.eqb_refl in H. discriminate.
      * intros _. discriminate.
    + apply members_ne_iff. exists i. auto.
  - rewrite Ev, E1. reflexivity.
  - rewrite Ev. subst s1. apply emit_ext; [auto | exact I].
Qed.

(* ---- light: unsubscribe by callback *)
Lemma unsub_light_good c n l s e :
  Good s -> dead (vw s) = false -> is_light c = true ->
  e = VUnsubCb c n l -> Good (emit e s) /\ Ext (vw s) (vw (emit e s)).
Proof.
  intros [G LF] D Lc ->.
  assert (OK : ok_ev (vw s) (VUnsubCb c n l) = true) by (apply ok_simple; auto).
  split; [split|].
  - apply (emit_good0_gen _ s); auto.
    + intros c' n' H. apply (g_a _ G). apply has_g_live_iff in H. destruct H as [i [Hi Hx]].
      apply has_g_live_iff. exists i. split; [|exact Hx]. rewrite vstep_live in Hi. apply filter_In in Hi. tauto.
    + intros c' n' H. destruct (g_b _ G c' n' H) as [H1 H2]. split; [exact H1|].
      apply members_ne_iff in H2. destruct H2 as [i [Hi Hc]]. apply members_ne_iff. exists i.
      split; [|exact Hc]. rewrite vstep_live. apply filter_In. split; [exact Hi|].
      destruct (at_cn c n i) eqn:Q; [|rewrite andb_false_r; reflexivity]. exfalso.
      apply at_cn_iff in Hc, Q. destruct Hc as [A _], Q as [B _].
      apply light_not_local in Lc. congruence.
  - apply lastfull_gen; auto.
  - apply ext_gen; auto.
Qed.

Lemma do_unsub_cb_prog c n how code : AProg (do_unsub_cb c n how code).
Proof.
  intros s G D. unfold do_unsub_cb.
  destruct (negb (is_light c)) eqn:V; [apply Prog_emit_simple; [exact I | exact G]|].
  apply negb_false_iff in V.
  destruct (cb_matches s c n how code) as [|i [|j r]].
  - eapply unsub_light_good; eauto.
  - eapply unsub_light_good; eauto.
  - apply Prog_emit_simple; [exact I | exact G].
Qed.

(* ---- Clear *)
Lemma do_clear_prog c : AProg (do_clear c).
Proof.
  intros s [G LF] D. unfold do_clear.
  destruct (negb (is_local c || is_light c)) eqn:V;
    [apply Prog_emit_simple; [exact I | split; assumption]|].
  assert (OK : ok_ev (vw s) (VClear c) = true) by (apply ok_simple; auto).
  set (s2 := set_greg s (filter (fun x => negb (fst x =? c)) (greg s))).
  split; [split|].
  - apply (emit_good0_gen _ s); auto.
    + intros c' n' H. apply has_g_live_iff in H. destruct H as [i [Hi [Hc Hg]]].
      rewrite vstep_live in Hi. apply filter_In in Hi. destruct Hi as [Hi Hn].
      subst s2. cbn [greg set_greg]. apply pair_mem_In. apply filter_In. split.
      * apply pair_mem_In. apply (g_a _ G). apply has_g_live_iff. eauto.
      * cbn [fst]. apply at_cn_iff in Hc. destruct Hc as [<- _]. exact Hn.
    + intros c' n' H. subst s2. cbn [greg set_greg] in H. apply pair_mem_In in H. apply filter_In in H.
      destruct H as [H Hn]. cbn [fst] in Hn. apply pair_mem_In in H.
      destruct (g_b _ G c' n' H) as [H1 H2]. split; [exact H1|].
      apply members_ne_iff in H2. destruct H2 as [i [Hi Hc]]. apply members_ne_iff. exists i.
      split; [|exact Hc]. rewrite vstep_live. apply filter_In. split; [exact Hi|].
      apply at_cn_iff in Hc. destruct Hc as [-> _]. exact Hn.
  - apply lastfull_gen; auto.
  - apply ext_gen; auto.
Qed.

(* ---- Stop() of a run service: clears its centre *)
Lemma do_stop_prog c : AProg (do_stop c).
Proof.
  intros s [G LF] D. unfold do_stop.
  destruct (can_stop (vw s) c) eqn:CS; [|apply Prog_emit_simple; [exact I | split; assumption]].
  assert (OK : ok_ev (vw s) (VStop c) = true) by (unfold ok_ev; rewrite D, LF; exact CS).
  set (s2 := set_greg s (filter (fun x => negb (fst x =? c)) (greg s))).
  split; [split|].
  - apply (emit_good0_gen _ s); auto.
    + intros c' n' H. apply has_g_live_iff in H. destruct H as [i [Hi [Hc Hg]]].
      rewrite vstep_live in Hi. apply filter_In in Hi. destruct Hi as [Hi Hn].
      subst s2. cbn [greg set_greg]. apply pair_mem_In. apply filter_In. split.
      * apply pair_mem_In. apply (g_a _ G). apply has_g_live_iff. eauto.
      * cbn [fst]. apply at_cn_iff in Hc. destruct Hc as [<- _]. exact Hn.
    + intros c' n' H. subst s2. cbn [greg set_greg] in H. apply pair_mem_In in H. apply filter_In in H.
      destruct H as [H Hn]. cbn [fst] in Hn. apply pair_mem_In in H.
      destruct (g_b _ G c' n' H) as [H1 H2]. split; [exact H1|].
      apply members_ne_iff in H2. destruct H2 as [i [Hi Hc]]. apply members_ne_iff. exists i.
      split; [|exact Hc]. rewrite vstep_live. apply filter_In. split; [exact Hi|].
      apply at_cn_iff in Hc. destruct Hc as [-> _]. exact Hn.
  - apply lastfull_gen; auto.
  - apply ext_gen; auto.
Qed.

(* ---- global publication *)
Lemma gpub_ok_model s n k : Good0 s ->
  forall cs, gpub_ok (vw s) n k cs (map (gpub_len s n k) cs) = true.
Proof.
  intros G cs. induction cs as [|c cr IH]; cbn [gpub_ok map]; [reflexivity|].
  rewrite IH, andb_true_r. unfold gpub_len.
  destruct (has_g_live (vw s) c n) eqn:H.
  - rewrite (g_a _ G c n H). apply Z.eqb_refl.
  - destruct (members (vw s) c n) eqn:M.
    + destruct (pair_mem c n (greg s)) eqn:P; [|apply Z.eqb_refl].
      exfalso. destruct (g_b _ G c n P) as [_ N]. rewrite M in N. tauto.
    + destruct (pair_mem c n (greg s)); rewrite Z.eqb_refl; [apply orb_true_r | reflexivity].
Qed.

Lemma pgpub_ok_model w n k : forall cs, pgpub_ok w n k cs (map (pgpub_len w n k) cs) = true.
Proof.
  induction cs as [|c cr IH]; cbn [pgpub_ok map]; [reflexivity|]. rewrite IH, andb_true_r.
  unfold pgpub_len. destruct (held w c n); destruct (pair_mem c n (pr w));
    rewrite ?Z.eqb_refl, ?orb_true_r; reflexivity.
Qed.

Lemma do_gpub_prog n args k : Prog (do_gpub n args k).
Proof.
  intros s G. unfold do_gpub.
  assert (OK : dead (vw s) = false ->
               ok_ev (vw s) (VGPub n args (clampk k) (map (gpub_len s n (clampk k)) local_centres)) = true).
  { intro D. unfold ok_ev. destruct G as [G LF]. rewrite D, LF. cbn [negb andb].
    rewrite gpub_ok_model by exact G. rewrite andb_true_r. unfold clampk. lia. }
  assert (G1 : Good (emit (VGPub n args (clampk k) (map (gpub_len s n (clampk k)) local_centres)) s))
    by (apply emit_good; [exact G | exact OK | rewrite vstep_live; reflexivity | exact I]).
  assert (X1 : Ext (vw s) (vw (emit (VGPub n args (clampk k) (map (gpub_len s n (clampk k)) local_centres)) s)))
    by (apply emit_ext; [exact OK | exact I]).
  set (s1 := emit (VGPub n args (clampk k) (map (gpub_len s n (clampk k)) local_centres)) s) in *.
  destruct (probing (vw s1)); [|split; assumption].
  assert (OK2 : dead (vw s1) = false ->
                ok_ev (vw s1) (VProbe n args (clampk k) (map (pgpub_len (vw s1) n (clampk k)) probe_centres)) = true).
  { intro D. unfold ok_ev. rewrite D, (proj2 G1). cbn [negb andb].
    rewrite pgpub_ok_model, andb_true_r. unfold clampk. lia. }
  split.
  - apply emit_good; [exact G1 | exact OK2 | rewrite vstep_live; reflexivity | exact I].
  - eapply Ext_trans; [exact X1|]. apply emit_ext; [exact OK2 | exact I].
Qed.

(* ---- choosing the next listener of the snapshot *)
Lemma pick_spec h todo :
  match pick h todo with
  | None => todo = []
  | Some (l, rest) => In l todo /\ rest = remove_first l todo
  end.
Proof.
  destruct todo as [|x r]; [reflexivity|]. unfold pick.
  assert (Hd : In x (x :: r) /\ r = remove_first x (x :: r)).
  { split; [left; reflexivity|]. cbn. rewrite Z.eqb_refl. reflexivity. }
  destruct h as [l|]; [|exact Hd].
  destruct (zmem l (x :: r)) eqn:M; [|exact Hd].
  apply zmem_In in M. auto.
Qed.

Lemma rf_in x : forall l y, NoDup l -> (In y (remove_first x l) <-> In y l /\ y <> x).
Proof.
  induction l as [|z r IH]; intros y N; cbn; [tauto|]. inv N.
  destruct (Z.eqb_spec x z).
  - subst z. split.
    + intro H. split; [auto|]. intro E. subst. contradiction.
    + intros [[E|H] Ne]; [congruence | exact H].
  - cbn. rewrite IH by assumption. split.
    + intros [E|[H Ne]]; [subst; auto | auto].
    + intros [[E|H] Ne]; auto.
Qed.

Lemma rf_nodup x : forall l, NoDup l -> NoDup (remove_first x l).
Proof.
  induction l as [|z r IH]; intro N; cbn; [constructor|]. inv N.
  destruct (Z.eqb x z); [assumption|]. constructor; [|auto].
  intro H. apply rf_in in H; tauto.
Qed.

Lemma rf_len x : forall l, In x l -> S (length (remove_first x l)) = length l.
Proof.
  induction l as [|z r IH]; intro H; cbn; [contradiction|].
  destruct (Z.eqb_spec x z); [reflexivity|]. cbn. f_equal. apply IH. destruct H; congruence.
Qed.

Definition frame_add (f : frame) (l : Z) : frame :=
  FR (f_c f) (f_n f) (f_args f) (f_snap f) (l :: f_seen f).

(* what invoking one listener inside publication p guarantees *)
(* [g] is the goroutine that runs the dispatch loop: it must own the centre of the publication *)
Definition InvokeSpec (g : Z) (inv : Z -> linfo -> list Z -> st -> st) : Prop :=
  (forall p i a s, dead (vw s) = true -> inv p i a s = s) /\
  (forall p i s f, Good s -> dead (vw s) = false ->
     aget p (frames (vw s)) = Some f -> find_live (vw s) (i_l i) = Some i ->
     at_cn (f_c f) (f_n f) i = true -> zmem (i_l i) (f_seen f) = false ->
     g = owner (vw s) (f_c f) ->
     Good (inv p i (f_args f) s) /\ Mono (vw s) (vw (inv p i (f_args f) s)) /\
     keepx p (npub (vw s)) (vw s) (vw (inv p i (f_args f) s)) /\
     alive (vw (inv p i (f_args f) s)) = alive (vw s) /\
     (dead (vw (inv p i (f_args f) s)) = true \/
      aget p (frames (vw (inv p i (f_args f) s))) = Some (frame_add f (i_l i)))).

(* loop invariant of the dispatch loop *)
Record LInv (g p c n : Z) (args snap todo : list Z) (s : st) : Prop := {
  li_own : g = owner (vw s) c;
  li_frame : exists seen,
      aget p (frames (vw s)) = Some (FR c n args snap seen) /\
      (forall l, In l todo -> ~ In l seen) /\
      (forall l, In l snap -> In l todo \/ In l seen \/ find_live (vw s) l = None);
  li_sub : forall l, In l todo -> In l snap;
  li_fresh : forall l, In l snap -> l < fresh (vw s);
  li_at : forall l i, In l snap -> find_live (vw s) l = Some i -> at_cn c n i = true }.

Lemma not_live_stable w w' l :
  Mono w w' -> l < fresh w -> find_live w l = None -> find_live w' l = None.
Proof.
  intros M L F. apply find_live_None. intros i Hi E. subst l.
  apply (m_live _ _ M) in Hi; [|exact L]. eapply (proj1 (find_live_None _ _) F); eauto.
Qed.

Lemma live_back w w' l j :
  Mono w w' -> VInv4 w -> l < fresh w -> find_live w' l = Some j -> find_live w l = Some j.
Proof.
  intros M N L F. apply find_live_In in F. destruct F as [Hj E]. subst l.
  apply In_find_live; [exact N|]. apply (m_live _ _ M); assumption.
Qed.

Section LevelProofs.
  Variable g : Z.
  Variable inv : Z -> linfo -> list Z -> st -> st.
  Hypothesis Hinv : InvokeSpec g inv.

  Lemma visit_dead : forall k p c n args todo s,
    dead (vw s) = true -> visit inv k p c n args todo s = s.
  Proof.
    induction k as [|k IH]; intros p c n args todo s D; cbn [visit]; [reflexivity|].
    destruct (pick (hint p s) todo) as [[l rest]|]; [|reflexivity].
    assert (E : (if running s c
                 then match find_live (vw s) l with
                      | Some i => if at_cn c n i then inv p i args s else s
                      | None => s
                      end
                 else s) = s).
    { destruct (running s c); [|reflexivity]. destruct (find_live (vw s) l); [|reflexivity].
      destruct (at_cn c n l0); [|reflexivity]. apply Hinv. exact D. }
    rewrite E. apply IH. exact D.
  Qed.

  Lemma visit_spec p c n args snap : forall k todo s,
    Good s -> (length todo <= k)%nat -> NoDup todo -> LInv g p c n args snap todo s ->
    Good (visit inv k p c n args todo s) /\
    Mono (vw s) (vw (visit inv k p c n args todo s)) /\
    keepx p (npub (vw s)) (vw s) (vw (visit inv k p c n args todo s)) /\
    alive (vw (visit inv k p c n args todo s)) = alive (vw s) /\
    (dead (vw (visit inv k p c n args todo s)) = true \/
     LInv g p c n args snap [] (visit inv k p c n args todo s)).
  Proof.
    induction k as [|k IH]; intros todo s G Len ND LI.
    - destruct todo; [|cbn in Len; lia]. cbn [visit].
      split; [exact G|]. split; [apply Mono_refl|]. split; [intros q _ _; reflexivity|].
      split; [reflexivity|]. right. exact LI.
    - cbn [visit]. pose proof (pick_spec (hint p s) todo) as PS.
      destruct (pick (hint p s) todo) as [[l rest]|].
      2:{ subst todo. split; [exact G|]. split; [apply Mono_refl|].
          split; [intros q _ _; reflexivity|]. split; [reflexivity|]. right. exact LI. }
      destruct PS as [Hl ->].
      set (s1 := if running s c
                 then match find_live (vw s) l with
                      | Some i => if at_cn c n i then inv p i args s else s
                      | None => s
                      end
                 else s).
      assert (H1 : Good s1 /\ Mono (vw s) (vw s1) /\ keepx p (npub (vw s)) (vw s) (vw s1) /\
                   alive (vw s1) = alive (vw s) /\
                   (dead (vw s1) = true \/ LInv g p c n args snap (remove_first l todo) s1)).
      { destruct LI as [Own [seen [Fr [Ns Cv]]] Sub Fre At].
        destruct (Good_VI s (proj1 G)) as [(V1 & V2 & V3) V4].
        assert (Skip : find_live (vw s) l = None ->
                       LInv g p c n args snap (remove_first l todo) s).
        { intro FN. split; auto.
          - exists seen. split; [exact Fr|]. split.
            + intros x Hx. apply rf_in in Hx; [|exact ND]. apply Ns. tauto.
            + intros x Hx. destruct (Z.eq_dec x l) as [->|Nx]; [auto|].
              destruct (Cv x Hx) as [H|H]; [|auto]. left. apply rf_in; auto.
          - intros x Hx. apply rf_in in Hx; [|exact ND]. apply Sub. tauto. }
        assert (Same : Good s /\ Mono (vw s) (vw s) /\ keepx p (npub (vw s)) (vw s) (vw s) /\
                       alive (vw s) = alive (vw s)).
        { split; [exact G|]. split; [apply Mono_refl|]. split; [|reflexivity]. intros q _ _. reflexivity. }
        subst s1. destruct (running s c) eqn:Run.
        - destruct (find_live (vw s) l) as [i|] eqn:F.
          + destruct (at_cn c n i) eqn:A.
            * (* invoke *)
              destruct (dead (vw s)) eqn:D.
              { destruct Hinv as [Hd _]. rewrite Hd by exact D. tauto. }
              destruct Hinv as [_ Hi]. pose proof (find_live_In _ _ _ F) as [Hin El]. subst l.
              assert (Z0 : zmem (i_l i) seen = false).
              { destruct (zmem (i_l i) seen) eqn:Zm; [|reflexivity]. apply zmem_In in Zm.
                exfalso. eapply Ns; eauto. }
              specialize (Hi p i s (FR c n args snap seen) G D Fr F A Z0 Own). cbn [f_args] in Hi.
              destruct Hi as (G1 & M1 & K1 & A1 & Fin).
              split; [exact G1|]. split; [exact M1|]. split; [exact K1|]. split; [exact A1|].
              destruct Fin as [Dd|Fr1]; [auto|]. right. unfold frame_add in Fr1. cbn in Fr1.
              split.
              { rewrite (owner_alive _ _ _ A1). exact Own. }
              { exists (i_l i :: seen). split; [exact Fr1|]. split.
                - intros x Hx. apply rf_in in Hx; [|exact ND]. intros [E|H]; [intuition congruence|].
                  eapply Ns; [|exact H]. tauto.
                - intros x Hx. destruct (Z.eq_dec x (i_l i)) as [->|Nx]; [right; left; left; reflexivity|].
                  destruct (Cv x Hx) as [H|[H|H]].
                  + left. apply rf_in; auto.
                  + right. left. right. exact H.
                  + right. right. eapply not_live_stable; eauto. }
              { intros x Hx. apply rf_in in Hx; [|exact ND]. apply Sub. tauto. }
              { intros x Hx. pose proof (m_fresh _ _ M1). specialize (Fre x Hx). lia. }
              { intros x j Hx Fj. eapply At; [exact Hx|]. eapply live_back; eauto. }
            * (* a listener of the snapshot is never at another centre/name *)
              exfalso. rewrite (At l i (Sub l Hl) F) in A. discriminate.
          + destruct Same as (S1 & S2 & S3 & S4). auto 7.
        - (* centre cleared: its listeners are gone *)
          destruct Same as (S1 & S2 & S3 & S4).
          split; [exact S1|]. split; [exact S2|]. split; [exact S3|]. split; [exact S4|]. right. apply Skip.
          destruct (find_live (vw s) l) as [i|] eqn:F; [|reflexivity]. exfalso.
          pose proof (At l i (Sub l Hl) F) as A. apply at_cn_iff in A. destruct A as [A _].
          apply find_live_In in F. destruct F as [Hin _]. specialize (V2 i Hin).
          unfold running in Run. apply negb_false_iff in Run. rewrite A in V2. congruence. }
      destruct H1 as (G1 & M1 & K1 & A1 & Fin).
      destruct Fin as [Dd|LI1].
      + rewrite visit_dead by exact Dd. auto 7.
      + assert (Len1 : (length (remove_first l todo) <= k)%nat)
          by (pose proof (rf_len l todo Hl); lia).
        destruct (IH _ s1 G1 Len1 (rf_nodup l todo ND) LI1) as (G2 & M2 & K2 & A2 & Fin2).
        split; [exact G2|]. split; [eapply Mono_trans; eauto|].
        split; [|split; [congruence | exact Fin2]].
        eapply keepx_trans; [apply (m_npub _ _ M1) | exact K1 | exact K2].
  Qed.
End LevelProofs.

(* a program that may only be run by the goroutine owning centre c *)
Definition OProg (g c : Z) (f : st -> st) : Prop :=
  forall s, Good s -> g = owner (vw s) c -> Good (f s) /\ Ext (vw s) (vw (f s)).

Section LevelProofs2.
  Variable g : Z.
  Variable inv : Z -> linfo -> list Z -> st -> st.
  Hypothesis Hinv : InvokeSpec g inv.

  Lemma dispatch_prog c n args : OProg g c (dispatch inv c n args).
  Proof.
    intros s G Own. unfold dispatch.
    destruct (dead (vw s)) eqn:D.
    { rewrite (emit_dead _ s) by exact D. rewrite (visit_dead g) by (exact Hinv || exact D).
      rewrite emit_dead by exact D. split; [exact G | apply Ext_refl]. }
    set (p := npub (vw s)). set (snap := map i_l (members (vw s) c n)).
    set (s1 := emit (VBegin p c n args) s).
    destruct (Good_VI s (proj1 G)) as [(V1 & V2 & V3) V4].
    assert (OK1 : ok_ev (vw s) (VBegin p c n args) = true).
    { unfold ok_ev. rewrite D, (proj2 G). cbn. apply Z.eqb_refl. }
    assert (G1 : Good s1) by (apply emit_good; auto; rewrite vstep_live; reflexivity).
    assert (E1 : vw s1 = vstep (vw s) (VBegin p c n args)) by (subst s1; rewrite emit_alive by exact D; reflexivity).
    assert (Lv1 : live (vw s1) = live (vw s)) by (rewrite E1, vstep_live; reflexivity).
    assert (Al1 : alive (vw s1) = alive (vw s)) by (rewrite E1, vstep_alive; reflexivity).
    assert (M01 : Mono (vw s) (vw s1)) by (rewrite E1; apply Mono_step; exact OK1).
    assert (Np1 : npub (vw s1) = p + 1) by (rewrite E1, vstep_npub; reflexivity).
    assert (Fr1 : frames (vw s1) = aset p (FR c n args snap []) (frames (vw s)))
      by (rewrite E1, vstep_frames; reflexivity).
    assert (ND : NoDup snap) by (subst snap; unfold members; apply NoDup_map_filter; exact V4).
    assert (LI1 : LInv g p c n args snap snap s1).
    { split.
      - rewrite (owner_alive _ _ _ Al1). exact Own.
      - exists []. split; [rewrite Fr1; apply aget_aset_same|]. split; [intros l _ []|]. intros l Hl. auto.
      - auto.
      - intros l Hl. subst snap. apply in_map_iff in Hl. destruct Hl as [i [<- Hi]].
        unfold members in Hi. apply filter_In in Hi. rewrite E1, vstep_fresh. apply V1. tauto.
      - intros l j Hl Fj. subst snap. apply in_map_iff in Hl. destruct Hl as [i [<- Hi]].
        unfold members in Hi. apply filter_In in Hi. destruct Hi as [Hi A].
        apply find_live_In in Fj. destruct Fj as [Hj E]. rewrite Lv1 in Hj.
        rewrite (NoDup_ids_inj _ j i V4 Hj Hi E). exact A. }
    destruct (visit_spec g inv Hinv p c n args snap (length snap) snap s1 G1 (le_n _) ND LI1)
      as (G2 & M12 & K12 & A12 & Fin).
    set (s2 := visit inv (length snap) p c n args snap s1) in *.
    assert (K02 : keep p (vw s) (vw s2)).
    { intros q Lq. rewrite K12 by lia. rewrite Fr1. apply aget_aset_other. lia. }
    destruct (dead (vw s2)) eqn:D2.
    { rewrite emit_dead by exact D2. split; [exact G2|]. split; [eapply Mono_trans; eauto|].
      split; [exact K02 | congruence]. }
    destruct Fin as [Dd|LI2]; [congruence|].
    destruct LI2 as [_ [seen [Fr2 [_ Cv]]] _ _ _].
    assert (OK2 : ok_ev (vw s2) (VEnd p) = true).
    { unfold ok_ev. rewrite D2, (proj2 G2). cbn [negb andb]. rewrite Fr2. cbn [f_snap f_seen].
      apply forallb_forall. intros l Hl. destruct (find_live (vw s2) l) eqn:F; [|reflexivity].
      destruct (Cv l Hl) as [[]|[H|H]]; [apply zmem_In; exact H | congruence]. }
    split.
    - apply emit_good; auto; try (rewrite vstep_live; reflexivity).
    - rewrite emit_alive by exact D2. cbn [vw]. split; [|split].
      + eapply Mono_trans; [exact M01|]. eapply Mono_trans; [exact M12|]. apply Mono_step. exact OK2.
      + intros q Lq. rewrite vstep_frames. rewrite aget_adel_other by (fold p in Lq; lia).
        apply K02. exact Lq.
      + rewrite vstep_alive. congruence.
  Qed.

  Lemma mine_spec s c : mine g s c = true -> g = owner (vw s) c.
  Proof. unfold mine. apply Z.eqb_eq. Qed.

  Lemma publish_prog c n args : Prog (publish g inv c n args).
  Proof.
    intros s G. unfold publish.
    destruct (is_light c).
    { destruct (mine g s c) eqn:Mi; [apply dispatch_prog; [exact G | apply mine_spec; exact Mi]|].
      apply Prog_emit_simple; [exact I | exact G]. }
    destruct (is_local c); [|apply Prog_emit_simple; [exact I | exact G]].
    destruct (zmem c (chanm s)).
    2:{ destruct (mine g s c) eqn:Mi; [apply dispatch_prog; [exact G | apply mine_spec; exact Mi]|].
        apply Prog_emit_simple; [exact I | exact G]. }
    destruct (dead (vw s)) eqn:D.
    { rewrite (emit_dead _ s) by exact D. destruct (lastfull (vw s)); [rewrite emit_dead by exact D|];
        (split; [exact G | apply Ext_refl]). }
    assert (OK1 : ok_ev (vw s) (VEnq c n args) = true) by (apply ok_simple; [exact D | apply G | exact I]).
    assert (G1 : Good0 (emit (VEnq c n args) s)).
    { apply emit_good0; [apply G | auto |]. rewrite vstep_live. reflexivity. }
    assert (X1 : Ext (vw s) (vw (emit (VEnq c n args) s))) by (apply emit_ext; auto).
    set (s1 := emit (VEnq c n args) s) in *.
    destruct (lastfull (vw s1)) eqn:LF1; [|split; [split; assumption | exact X1]].
    assert (D1 : dead (vw s1) = false).
    { subst s1. rewrite emit_alive by exact D. cbn [vw]. rewrite vstep_dead. exact D. }
    assert (OK2 : ok_ev (vw s1) VDeadlock = true) by (unfold ok_ev; rewrite D1, LF1; reflexivity).
    split; [split|].
    - apply emit_good0; auto; try (rewrite vstep_live; reflexivity).
    - rewrite emit_lastfull by exact D1. reflexivity.
    - eapply Ext_trans; [exact X1|]. apply emit_ext; auto.
  Qed.

  Lemma exec_act_prog self a : Prog (exec_act g inv self a).
  Proof.
    intros s G. unfold exec_act. destruct (dead (vw s)) eqn:D; [split; [exact G | apply Ext_refl]|].
    assert (Nop : Good (emit VNop s) /\ Ext (vw s) (vw (emit VNop s)))
      by (apply Prog_emit_simple; [exact I | exact G]).
    destruct a.
    - destruct (mine g s c); [apply do_sub_prog; assumption | exact Nop].
    - destruct (mine g s c); [apply do_unsub_prog; assumption | exact Nop].
    - destruct self as [i|]; [|exact Nop].
      destruct (mine g s (i_c i)); [apply do_unsub_prog; assumption | exact Nop].
    - destruct (mine g s c); [apply do_unsub_cb_prog; assumption | exact Nop].
    - destruct (mine g s c); [apply do_clear_prog; assumption | exact Nop].
    - apply publish_prog; assumption.
    - apply do_gpub_prog; assumption.
    - apply do_stop_prog; assumption.
  Qed.

  Lemma run_prog_prog self acts : Prog (run_prog g inv self acts).
  Proof.
    unfold run_prog. induction acts as [|a r IH]; intros s G; cbn [fold_left].
    - split; [exact G | apply Ext_refl].
    - destruct (exec_act_prog self a s G) as [G1 X1]. destruct (IH _ G1) as [G2 X2].
      split; [exact G2 | eapply Ext_trans; eauto].
  Qed.
End LevelProofs2.

(* ---- induction over the nesting depth *)
Lemma invoke_shape g (body : linfo -> st -> st) :
  (forall i, Prog (body i)) -> (forall i s, dead (vw s) = true -> body i s = s) ->
  InvokeSpec g (fun p i args s =>
                  emit (VRet (i_l i) true) (body i (emit (VInv p (i_l i) (i_bound i ++ args) g) s))).
Proof.
  intros PB DB. split.
  - intros p i a s D. rewrite (emit_dead _ s) by exact D. rewrite DB by exact D. apply emit_dead. exact D.
  - intros p i s f G D Fr F A Z0 Own.
    assert (OK : ok_ev (vw s) (VInv p (i_l i) (i_bound i ++ f_args f) g) = true).
    { unfold ok_ev. rewrite D, (proj2 G). cbn [negb andb]. rewrite Fr, F, A, Z0. cbn [negb andb].
      apply andb_true_iff. split; [apply zlist_eqb_spec; reflexivity | apply Z.eqb_eq; exact Own]. }
    set (s1 := emit (VInv p (i_l i) (i_bound i ++ f_args f) g) s).
    assert (G1 : Good s1) by (apply emit_good; auto; rewrite vstep_live; reflexivity).
    assert (E1 : vw s1 = vstep (vw s) (VInv p (i_l i) (i_bound i ++ f_args f) g))
      by (subst s1; rewrite emit_alive by exact D; reflexivity).
    assert (Fr1 : frames (vw s1) = aset p (frame_add f (i_l i)) (frames (vw s)))
      by (rewrite E1, vstep_frames, Fr; reflexivity).
    assert (Al1 : alive (vw s1) = alive (vw s)) by (rewrite E1, vstep_alive; reflexivity).
    assert (M1 : Mono (vw s) (vw s1)) by (rewrite E1; apply Mono_step; exact OK).
    assert (Np1 : npub (vw s1) = npub (vw s)) by (rewrite E1, vstep_npub; reflexivity).
    destruct (PB i s1 G1) as [G2 (M2 & K2 & A2)].
    set (s2 := body i s1) in *.
    assert (PR : Prog (emit (VRet (i_l i) true))) by (apply Prog_emit_simple; exact I).
    destruct (PR s2 G2) as [G3 (M3 & K3 & A3)].
    destruct (Good_VI s (proj1 G)) as [(_ & _ & V3) _]. specialize (V3 p f Fr).
    pose proof (m_npub _ _ M2) as N2.
    split; [exact G3|]. split; [eapply Mono_trans; [exact M1|]; eapply Mono_trans; eauto|]. split; [|split].
    + intros q Lq Nq. rewrite K3 by lia. rewrite K2 by lia. rewrite Fr1. apply aget_aset_other. exact Nq.
    + congruence.
    + right. rewrite K3 by lia. rewrite K2 by lia. rewrite Fr1. apply aget_aset_same.
Qed.

Lemma run_prog_dead g inv self acts s : dead (vw s) = true -> run_prog g inv self acts s = s.
Proof.
  intro D. induction acts as [|x r IHr]; [reflexivity|]. unfold run_prog. cbn [fold_left].
  unfold exec_act at 2. rewrite D. exact IHr.
Qed.

Lemma invoke_spec g : forall d, InvokeSpec g (invoke g d).
Proof.
  induction d as [|d IH].
  - apply (invoke_shape g (fun _ s => s)).
    + intros i s G. split; [exact G | apply Ext_refl].
    + reflexivity.
  - apply (invoke_shape g (fun i s1 =>
             if in_budget s1 then run_prog g (invoke g d) (Some i) (prog_of s1 (i_l i)) s1 else s1)).
    + intros i s G. destruct (in_budget s); [apply run_prog_prog; [exact IH | exact G]|].
      split; [exact G | apply Ext_refl].
    + intros i s D. destruct (in_budget s); [apply run_prog_dead; exact D | reflexivity].
Qed.

Lemma Good_same s s' :
  vw s' = vw s -> log s' = log s -> greg s' = greg s -> Good s -> Good s'.
Proof.
  intros Ev El Eg [[A B C D] LF]. split; [split|].
  - rewrite Ev, El. exact A.
  - rewrite El. exact B.
  - intros c n H. rewrite Eg. apply C. rewrite <- Ev. exact H.
  - intros c n H. rewrite Eg in H. rewrite Ev. apply D. exact H.
  - rewrite Ev. exact LF.
Qed.

Lemma drv_owner w c : is_drv c = true -> owner w c = 0.
Proof.
  intro H. unfold owner, loop_alive.
  assert (E : is_svc c = false) by (unfold is_drv, is_svc in *; lia). rewrite E. reflexivity.
Qed.

Lemma loop_owner w c : loop_alive w c = true -> owner w c = c.
Proof. unfold owner. intros ->. reflexivity. Qed.

Lemma drain_prog : forall k c, is_drv c = true -> Prog (drain k c).
Proof.
  induction k as [|k IH]; intros c Dc s G; cbn [drain]; [split; [exact G | apply Ext_refl]|].
  destruct (queue_of (vw s) c) as [|[n a] r] eqn:Q; [split; [exact G | apply Ext_refl]|].
  destruct (dead (vw s)) eqn:D; [split; [exact G | apply Ext_refl]|].
  assert (OK : ok_ev (vw s) (VDeq c n a) = true).
  { unfold ok_ev. rewrite D, (proj2 G). cbn [negb andb]. rewrite Q, Z.eqb_refl. cbn [andb].
    assert (E : is_svc c = false) by (unfold is_drv, is_svc in *; lia). rewrite E. cbn [implb].
    rewrite andb_true_r. apply zlist_eqb_spec. reflexivity. }
  assert (G1 : Good (emit (VDeq c n a) s)) by (apply emit_good; auto; rewrite vstep_live; reflexivity).
  assert (X1 : Ext (vw s) (vw (emit (VDeq c n a) s))) by (apply emit_ext; auto).
  destruct (dispatch_prog 0 (invoke 0 DEPTH) (invoke_spec 0 DEPTH) c n a _ G1) as [G2 X2].
  { symmetry. apply drv_owner. exact Dc. }
  destruct (IH c Dc _ G2) as [G3 X3].
  split; [exact G3|]. eapply Ext_trans; [exact X1|]. eapply Ext_trans; eauto.
Qed.

(* ---- the loop of a run service *)
Lemma noone_prefix_spec w c : forall q,
  (noone_prefix w c q <= length q)%nat /\ forallb (noone w c) (firstn (noone_prefix w c q) q) = true.
Proof.
  induction q as [|x r [IH1 IH2]]; cbn [noone_prefix]; [split; [apply le_n | reflexivity]|].
  destruct (noone w c x) eqn:N; cbn [length firstn forallb].
  - split; [lia|]. rewrite N, IH2. reflexivity.
  - split; [lia | reflexivity].
Qed.

(* what one turn of the loop needs and keeps: the loop goroutine exists *)
Lemma loop_good : forall k c s,
  Good s -> loop_alive (vw s) c = true ->
  Good (loop k c s) /\ alive (vw (loop k c s)) = alive (vw s).
Proof.
  induction k as [|k IH]; intros c s G LA; cbn [loop]; [split; [exact G | reflexivity]|].
  destruct (dead (vw s)) eqn:D; cbn [orb]; [split; [exact G | reflexivity]|].
  destruct (zmem c (stopped (vw s))) eqn:St; [split; [exact G | reflexivity]|].
  set (sk := noone_prefix (vw s) c (queue_of (vw s) c)).
  set (s1 := match sk with O => s | S _ => emit (VSkip c (Z.of_nat sk)) s end).
  assert (H1 : Good s1 /\ Ext (vw s) (vw s1) /\ stopped (vw s1) = stopped (vw s) /\ dead (vw s1) = false).
  { subst s1. destruct sk as [|m] eqn:Esk; [split; [exact G|]; split; [apply Ext_refl | auto]|].
    destruct (noone_prefix_spec (vw s) c (queue_of (vw s) c)) as [P1 P2]. fold sk in P1, P2.
    rewrite Esk in P1, P2.
    assert (OK : ok_ev (vw s) (VSkip c (Z.of_nat (S m))) = true).
    { unfold ok_ev. rewrite D, (proj2 G). cbn [negb andb]. rewrite LA, St. cbn [negb andb].
      rewrite Nat2Z.id, P2, andb_true_r. unfold qlen. lia. }
    split; [apply emit_good; auto; rewrite vstep_live; reflexivity|].
    split; [apply emit_ext; auto|].
    rewrite emit_alive by exact D. cbn [vw]. rewrite vstep_stopped, vstep_dead. auto. }
  destruct H1 as (G1 & (M1 & K1 & A1) & S1 & D1).
  destruct (queue_of (vw s1) c) as [|[n a] r] eqn:Q; [split; [exact G1 | exact A1]|].
  assert (LA1 : loop_alive (vw s1) c = true) by (rewrite (loop_alive_alive _ _ _ A1); exact LA).
  assert (OK : ok_ev (vw s1) (VDeq c n a) = true).
  { unfold ok_ev. rewrite D1, (proj2 G1). cbn [negb andb]. rewrite Q, Z.eqb_refl. cbn [andb].
    rewrite LA1, S1, St. cbn [negb andb]. rewrite implb_true_r, andb_true_r. apply zlist_eqb_spec. reflexivity. }
  assert (G2 : Good (emit (VDeq c n a) s1)) by (apply emit_good; auto; rewrite vstep_live; reflexivity).
  assert (X2 : Ext (vw s1) (vw (emit (VDeq c n a) s1))) by (apply emit_ext; auto).
  destruct X2 as (M2 & K2 & A2).
  assert (LA2 : loop_alive (vw (emit (VDeq c n a) s1)) c = true)
    by (rewrite (loop_alive_alive _ _ _ A2); exact LA1).
  destruct (dispatch_prog c (invoke c DEPTH) (invoke_spec c DEPTH) c n a _ G2) as [G3 (M3 & K3 & A3)].
  { symmetry. apply loop_owner. exact LA2. }
  destruct (IH c _ G3) as [G4 A4].
  { rewrite (loop_alive_alive _ _ _ A3). exact LA2. }
  split; [exact G4 | congruence].
Qed.

Lemma run_loop_good c s : Good s -> loop_alive (vw s) c = true -> Good (run_loop c s).
Proof.
  intros G LA. unfold run_loop. destruct (loop_good LOOPFUEL c s G LA) as [G1 A1].
  destruct (zmem c (stopped (vw (loop LOOPFUEL c s)))) eqn:St; [|exact G1].
  apply emit_good; [exact G1 | | rewrite vstep_live; reflexivity | exact I].
  intro D. unfold ok_ev. rewrite D, (proj2 G1). cbn [negb andb].
  rewrite (loop_alive_alive _ _ _ A1), LA, St. reflexivity.
Qed.

Lemma Good_init g : Good (init g).
Proof.
  split; [split|]; cbn.
  - reflexivity.
  - apply Holds_nil.
  - intros c n H. discriminate.
  - intros c n H. discriminate.
  - reflexivity.
Qed.

Lemma queue_eqb_spec a b : queue_eqb a b = true <-> a = b.
Proof.
  unfold queue_eqb. apply list_eqb_spec. apply pair_eqb_spec.
  - intros; apply Z.eqb_eq.
  - apply zlist_eqb_spec.
Qed.

Lemma firstn_firstn_len {A} k (q : list A) : firstn (length (firstn k q)) q = firstn k q.
Proof.
  rewrite firstn_length. destruct (Nat.le_ge_cases k (length q)) as [H|H].
  - rewrite Nat.min_l by exact H. reflexivity.
  - rewrite Nat.min_r by exact H. rewrite !firstn_all2; auto.
Qed.

Lemma rle_pos q : Forall (fun p => 0 < fst p) (rle q).
Proof.
  induction q as [|x r IH]; cbn [rle]; [constructor|].
  destruct (rle r) as [|[k y] t]; [repeat constructor; cbn; lia|].
  inv IH. cbn in H1. destruct (qev_eqb x y); repeat constructor; cbn; auto; lia.
Qed.

Lemma qev_eqb_eq x y : qev_eqb x y = true -> x = y.
Proof.
  destruct x as [a b], y as [c d]. unfold qev_eqb. cbn. intro H. apply andb_true_iff in H.
  destruct H as [H1 H2]. apply Z.eqb_eq in H1. apply zlist_eqb_spec in H2. congruence.
Qed.

Lemma expand_rle q : expand (rle q) = q.
Proof.
  induction q as [|x r IH]; cbn [rle]; [reflexivity|].
  pose proof (rle_pos r) as P. destruct (rle r) as [|[k y] t]; cbn [expand] in *.
  - subst r. cbn. reflexivity.
  - apply Forall_inv in P. cbn in P. destruct (qev_eqb x y) eqn:E; cbn [expand].
    + apply qev_eqb_eq in E. subst y. rewrite <- IH. unfold repeat_ev.
      replace (Z.to_nat (k + 1)) with (S (Z.to_nat k)) by lia. reflexivity.
    + rewrite <- IH. reflexivity.
Qed.

Lemma drop_prog c k : Prog (fun s => emit (VDrop c (rle (firstn k (queue_of (vw s) c)))) s).
Proof.
  intros s G.
  assert (OK : dead (vw s) = false ->
               ok_ev (vw s) (VDrop c (rle (firstn k (queue_of (vw s) c)))) = true).
  { intro D. unfold ok_ev. rewrite D, (proj2 G). cbn [negb andb]. rewrite expand_rle.
    apply queue_eqb_spec. symmetry. apply firstn_firstn_len. }
  split.
  - apply emit_good; [exact G | exact OK | rewrite vstep_live; reflexivity | exact I].
  - apply emit_ext; [exact OK | exact I].
Qed.

Lemma exec_op_good s o : Good s -> Good (exec_op s o).
Proof.
  intro G. unfold exec_op.
  set (s' := set_guide s (resync (guide s))).
  assert (G' : Good s') by (apply (Good_same s); auto).
  assert (G0 : Good (emit VOp s')) by (apply Prog_emit_simple; [exact I | exact G']).
  assert (Nop : Good (emit VNop (emit VOp s'))) by (apply Prog_emit_simple; [exact I | exact G0]).
  destruct o.
  - apply (Good_same (emit VOp s')); auto.
  - apply exec_act_prog; [apply invoke_spec | exact G0].
  - destruct (is_drv c) eqn:Dc; [apply drain_prog; [exact Dc | exact G0] | exact Nop].
  - destruct (is_drv c); [apply (drop_prog c _ _ G0) | exact Nop].
  - destruct (is_drv c); [apply (Good_same (emit VOp s')); auto | exact Nop].
  - (* OStart *)
    destruct (can_start (vw (emit VOp s')) c) eqn:CS; [|exact Nop].
    destruct (dead (vw (emit VOp s'))) eqn:D.
    { rewrite (emit_dead (VStart c)) by exact D. unfold run_loop.
      assert (E : forall k, loop k c (emit VOp s') = emit VOp s')
        by (destruct k; cbn [loop]; [reflexivity | rewrite D; reflexivity]).
      rewrite E. destruct (zmem c (stopped (vw (emit VOp s')))); [rewrite emit_dead by exact D|]; exact G0. }
    assert (OK : ok_ev (vw (emit VOp s')) (VStart c) = true)
      by (unfold ok_ev; rewrite D, (proj2 G0); exact CS).
    apply run_loop_good.
    + apply emit_good; [exact G0 | auto | rewrite vstep_live; reflexivity | exact I].
    + rewrite emit_alive by exact D. cbn [vw]. unfold loop_alive. rewrite vstep_alive.
      unfold can_start in CS. repeat rewrite andb_true_iff in CS. destruct CS as [[CS _] _].
      rewrite CS. cbn. rewrite Z.eqb_refl. reflexivity.
  - (* ORun *)
    destruct (loop_alive (vw (emit VOp s')) c) eqn:LA; [|exact Nop].
    apply run_loop_good; assumption.
  - (* OOwn *)
    destruct (loop_alive (vw (emit VOp s')) c); [|exact Nop].
    apply exec_act_prog; [apply invoke_spec | exact G0].
  - (* OReg *)
    destruct (probe_free (vw (emit VOp s')) c) eqn:PF; [|exact Nop].
    destruct b; (apply emit_good; [exact G0 | | rewrite vstep_live; reflexivity | exact I]);
      intro D; unfold ok_ev; rewrite D, (proj2 G0); exact PF.
  - (* OPark *)
    destruct (probe_free (vw (emit VOp s')) c) eqn:PF; [|exact Nop].
    apply emit_good; [exact G0 | | rewrite vstep_live; reflexivity | exact I].
    intro D. unfold ok_ev. rewrite D, (proj2 G0). exact PF.
  - (* ORelease *)
    destruct (aget c (pp (vw (emit VOp s')))) eqn:A; [|exact Nop].
    apply emit_good; [exact G0 | | rewrite vstep_live; reflexivity | exact I].
    intro D. unfold ok_ev. rewrite D, (proj2 G0), A. reflexivity.
Qed.

Lemma final_good g ops : Good (final g ops).
Proof.
  unfold final. generalize (init g) (Good_init g). induction ops as [|o r IH]; intros s G; cbn [fold_left].
  - exact G.
  - apply IH. apply exec_op_good. exact G.
Qed.

(* the model only ever emits events that the property allows, whatever the guide *)
Theorem run_holds g ops : Holds (run g ops).
Proof. unfold run. apply (g_holds _ (proj1 (final_good g ops))). Qed.

Theorem run_view g ops : vw (final g ops) = view_of (run g ops).
Proof. unfold run. apply (g_view _ (proj1 (final_good g ops))). Qed.

(* ================================================================ Part C: consequences of Holds *)
Lemma Holds_at t pre e post :
  Holds t -> t = pre ++ e :: post ->
  Holds pre /\ ok_ev (view_of pre) e = true /\ Holds (pre ++ [e]).
Proof.
  intros H E. assert (H2 : Holds (pre ++ [e])).
  { apply (Holds_prefix _ post). rewrite <- app_assoc. cbn. rewrite <- E. exact H. }
  apply Holds_snoc in H2. destruct H2 as [A B]. split; [exact A|]. split; [exact B|].
  apply Holds_snoc. tauto.
Qed.

Lemma Mono_trace t0 : forall t2, Holds (t0 ++ t2) -> Mono (view_of t0) (view_of (t0 ++ t2)).
Proof.
  induction t2 as [|e t2 IH] using rev_ind; intro H.
  - rewrite app_nil_r. apply Mono_refl.
  - rewrite app_assoc in H. apply Holds_snoc in H. destruct H as [H1 H2].
    rewrite app_assoc, view_of_snoc. eapply Mono_trans; [apply IH; exact H1|]. apply Mono_step. exact H2.
Qed.

(* 1. an invoked listener is subscribed at that moment, to the centre and name of the
      publication, has not yet been invoked by it, and gets bound ++ published args *)
Lemma inv_current t pre p l fa gr post :
  Holds t -> t = pre ++ VInv p l fa gr :: post ->
  exists f i, aget p (frames (view_of pre)) = Some f /\ find_live (view_of pre) l = Some i /\
              i_c i = f_c f /\ i_n i = f_n f /\ fa = i_bound i ++ f_args f /\ ~ In l (f_seen f) /\
              gr = owner (view_of pre) (i_c i).
Proof.
  intros H E. destruct (Holds_at _ _ _ _ H E) as (_ & OK & _).
  unfold ok_ev in OK. destruct (dead (view_of pre)); [discriminate|].
  destruct (lastfull (view_of pre)); [discriminate|]. cbn [negb andb] in OK.
  destruct (aget p (frames (view_of pre))) as [f|]; [|discriminate].
  destruct (find_live (view_of pre) l) as [i|]; [|discriminate].
  repeat rewrite andb_true_iff in OK. destruct OK as [[[A B] C] O].
  apply at_cn_iff in A. apply zlist_eqb_spec in C. apply negb_true_iff in B. apply Z.eqb_eq in O.
  exists f, i. repeat split; try tauto.
  - intro Hin. apply zmem_In in Hin. congruence.
  - destruct A as [A _]. rewrite A. exact O.
Qed.

(* 2. the frame of an open publication records exactly what happened since its VBegin *)
Lemma frame_track t1 p c n a : forall t2,
  Holds (t1 ++ VBegin p c n a :: t2) ->
  p < npub (view_of (t1 ++ VBegin p c n a :: t2)) /\
  forall f, aget p (frames (view_of (t1 ++ VBegin p c n a :: t2))) = Some f ->
    f_c f = c /\ f_n f = n /\ f_args f = a /\ f_snap f = map i_l (members (view_of t1) c n) /\
    (forall l, In l (f_seen f) <-> exists fa gr, In (VInv p l fa gr) t2) /\ ~ In (VEnd p) t2.
Proof.
  induction t2 as [|e t2 IH] using rev_ind; intro H.
  - change (t1 ++ [VBegin p c n a]) with (t1 ++ [VBegin p c n a]) in *. rewrite view_of_snoc.
    split; [rewrite vstep_npub; lia|]. intros f Hf. rewrite vstep_frames, aget_aset_same in Hf. inv Hf.
    cbn. repeat split; auto; try tauto. intros [fa [gr []]].
  - assert (E : t1 ++ VBegin p c n a :: t2 ++ [e] = (t1 ++ VBegin p c n a :: t2) ++ [e])
      by (rewrite <- app_assoc; reflexivity).
    rewrite E in *. apply Holds_snoc in H. destruct H as [H1 OK]. destruct (IH H1) as [Lp IHf]. clear IH.
    set (w := view_of (t1 ++ VBegin p c n a :: t2)) in *. rewrite view_of_snoc. fold w.
    split; [pose proof (m_npub _ _ (Mono_step w e OK)); lia|].
    intros f Hf. rewrite vstep_frames in Hf.
    assert (Keep : aget p (frames w) = Some f ->
                   (forall l fa gr, e <> VInv p l fa gr) -> e <> VEnd p ->
                   f_c f = c /\ f_n f = n /\ f_args f = a /\ f_snap f = map i_l (members (view_of t1) c n) /\
                   (forall l, In l (f_seen f) <-> exists fa gr, In (VInv p l fa gr) (t2 ++ [e])) /\
                   ~ In (VEnd p) (t2 ++ [e])).
    { intros Hf0 N1 N2. destruct (IHf f Hf0) as (A & B & C & D & S & Nend).
      repeat split; auto.
      - intro Hl. apply S in Hl. destruct Hl as [fa [gr Hfa]]. exists fa, gr. apply in_app_iff. auto.
      - intros [fa [gr Hfa]]. apply in_app_iff in Hfa. destruct Hfa as [Hfa|[Hfa|[]]]; [apply S; eauto|].
        exfalso. eapply N1. eauto.
      - intro Hin. apply in_app_iff in Hin. destruct Hin as [Hin|[Hin|[]]]; [tauto | congruence]. }
    unfold ok_ev in OK. destruct (dead w); [discriminate|]. cbn [negb andb] in OK.
    destruct (lastfull w); [destruct e; try discriminate; apply Keep; auto; discriminate|].
    destruct e; try (apply Keep; [exact Hf | discriminate | discriminate]).
    + (* VBegin *)
      apply Z.eqb_eq in OK. subst p0. rewrite aget_aset_other in Hf by lia.
      apply Keep; [exact Hf | discriminate | discriminate].
    + (* VInv *)
      destruct (Z.eq_dec p0 p) as [->|Np].
      * destruct (aget p (frames w)) as [f0|] eqn:F0; [|congruence].
        rewrite aget_aset_same in Hf. inv Hf. destruct (IHf f0 eq_refl) as (A & B & C & D & S & Nend).
        cbn. repeat split; auto.
        -- intros [<-|Hl]; [exists args, g; apply in_app_iff; cbn; auto|].
           apply S in Hl. destruct Hl as [fa [gr Hfa]]. exists fa, gr. apply in_app_iff. auto.
        -- intros [fa [gr Hfa]]. apply in_app_iff in Hfa. destruct Hfa as [Hfa|[Hfa|[]]].
           ++ right. apply S. eauto.
           ++ inv Hfa. auto.
        -- intro Hin. apply in_app_iff in Hin. destruct Hin as [Hin|[Hin|[]]]; [tauto | discriminate].
      * assert (Hf0 : aget p (frames w) = Some f).
        { destruct (aget p0 (frames w)); [rewrite aget_aset_other in Hf by auto|]; exact Hf. }
        apply Keep; [exact Hf0 | intros l0 fa0 gr0 E0; inv E0; tauto | discriminate].
    + (* VEnd *)
      destruct (Z.eq_dec p0 p) as [->|Np]; [rewrite aget_adel_same in Hf; discriminate|].
      rewrite aget_adel_other in Hf by auto.
      apply Keep; [exact Hf | discriminate | intro E0; inv E0; tauto].
Qed.

(* 3a. once a publication has invoked l, every later state of that publication remembers it *)
Lemma seen_persist t0 p l : forall t2,
  Holds (t0 ++ t2) -> p < npub (view_of t0) ->
  (forall f, aget p (frames (view_of t0)) = Some f -> In l (f_seen f)) ->
  forall f, aget p (frames (view_of (t0 ++ t2))) = Some f -> In l (f_seen f).
Proof.
  induction t2 as [|e t2 IH] using rev_ind; intros H Lp H0 f Hf.
  - rewrite app_nil_r in Hf. auto.
  - rewrite app_assoc in *. apply Holds_snoc in H. destruct H as [H1 OK].
    specialize (IH H1 Lp H0). pose proof (m_npub _ _ (Mono_trace t0 t2 H1)) as Np.
    set (w := view_of (t0 ++ t2)) in *. rewrite view_of_snoc in Hf. fold w in Hf.
    rewrite vstep_frames in Hf.
    unfold ok_ev in OK. destruct (dead w); [discriminate|]. cbn [negb andb] in OK.
    destruct (lastfull w); [destruct e; try discriminate; auto|].
    destruct e; auto.
    + apply Z.eqb_eq in OK. subst p0. rewrite aget_aset_other in Hf by lia. auto.
    + destruct (aget p0 (frames w)) as [f0|] eqn:F0; [|auto].
      destruct (Z.eq_dec p0 p) as [->|N].
      * rewrite aget_aset_same in Hf. inv Hf. cbn. right. auto.
      * rewrite aget_aset_other in Hf by auto. auto.
    + destruct (Z.eq_dec p0 p) as [->|N]; [rewrite aget_adel_same in Hf; discriminate|].
      rewrite aget_adel_other in Hf by auto. auto.
Qed.

Theorem at_most_once t t1 p l a1 g1 t2 a2 g2 t3 :
  Holds t -> t = t1 ++ VInv p l a1 g1 :: t2 ++ VInv p l a2 g2 :: t3 -> False.
Proof.
  intros H E.
  destruct (inv_current t t1 p l a1 g1 (t2 ++ VInv p l a2 g2 :: t3) H E) as (f & i & Fr & _).
  assert (E2 : t = ((t1 ++ [VInv p l a1 g1]) ++ t2) ++ VInv p l a2 g2 :: t3)
    by (rewrite E, <- !app_assoc; reflexivity).
  destruct (inv_current t _ p l a2 g2 t3 H E2) as (f2 & i2 & Fr2 & _ & _ & _ & _ & Ns & _).
  apply Ns. destruct (Holds_at _ _ _ _ H E2) as (Hp & _ & _).
  destruct (Holds_VI _ (Holds_prefix _ _ (Holds_prefix _ _ Hp))) as [(_ & _ & V3) _].
  eapply (seen_persist (t1 ++ [VInv p l a1 g1]) p l t2 Hp); [| |exact Fr2].
  - rewrite view_of_snoc, vstep_npub. eapply V3. exact Fr.
  - intros f0 Hf0. rewrite view_of_snoc, vstep_frames, Fr, aget_aset_same in Hf0. inv Hf0. cbn. auto.
Qed.

(* 3b. whoever was subscribed when the publication began and still is when it ends was invoked *)
Theorem at_least_once t t1 p c n a t2 t3 :
  Holds t -> t = t1 ++ VBegin p c n a :: t2 ++ VEnd p :: t3 ->
  forall i, In i (members (view_of t1) c n) ->
            find_live (view_of (t1 ++ VBegin p c n a :: t2)) (i_l i) <> None ->
            exists fa gr, In (VInv p (i_l i) fa gr) t2.
Proof.
  intros H E i Hi Lv.
  assert (E2 : t = (t1 ++ VBegin p c n a :: t2) ++ VEnd p :: t3)
    by (rewrite E, <- app_assoc; reflexivity).
  destruct (Holds_at _ _ _ _ H E2) as (Hp & OK & _).
  destruct (frame_track t1 p c n a t2 Hp) as [_ FT].
  set (w := view_of (t1 ++ VBegin p c n a :: t2)) in *.
  unfold ok_ev in OK. destruct (dead w); [discriminate|]. destruct (lastfull w); [discriminate|].
  cbn [negb andb] in OK. destruct (aget p (frames w)) as [f|] eqn:Fr; [|discriminate].
  destruct (FT f eq_refl) as (_ & _ & _ & Sn & Seen & _).
  rewrite forallb_forall in OK. specialize (OK (i_l i)). rewrite Sn in OK.
  specialize (OK (in_map i_l _ _ Hi)). destruct (find_live w (i_l i)); [|congruence].
  apply zmem_In in OK. apply Seen. exact OK.
Qed.

(* 2'. every invocation between VBegin p c n a and the end of p is of a current subscriber of
       (c, n) and passes its bound arguments followed by a *)
Theorem inv_in_pub t t1 p c n a t2 l fa gr t3 :
  Holds t -> t = t1 ++ VBegin p c n a :: t2 ++ VInv p l fa gr :: t3 ->
  exists i, find_live (view_of (t1 ++ VBegin p c n a :: t2)) l = Some i /\
            i_c i = c /\ i_n i = n /\ fa = i_bound i ++ a.
Proof.
  intros H E.
  assert (E2 : t = (t1 ++ VBegin p c n a :: t2) ++ VInv p l fa gr :: t3)
    by (rewrite E, <- app_assoc; reflexivity).
  destruct (inv_current _ _ _ _ _ _ _ H E2) as (f & i & Fr & Fl & A & B & C & _).
  destruct (Holds_at _ _ _ _ H E2) as (Hp & _ & _).
  destruct (frame_track t1 p c n a t2 Hp) as [_ FT]. destruct (FT f Fr) as (Fc & Fn & Fa & _).
  exists i. split; [exact Fl|]. split; [congruence|]. split; [congruence|].
  rewrite C. f_equal. exact Fa.
Qed.

(* 4. identity of a listener: VSub l c n ... is the only source of a live listener with id l *)
Lemma sub_info a l c n g b : forall r,
  Holds (a ++ VSub l c n g b :: r) ->
  l < fresh (view_of (a ++ VSub l c n g b :: r)) /\
  forall i, In i (live (view_of (a ++ VSub l c n g b :: r))) -> i_l i = l -> i = LI l c n g b.
Proof.
  intros r H.
  assert (E : a ++ VSub l c n g b :: r = (a ++ [VSub l c n g b]) ++ r) by (rewrite <- app_assoc; reflexivity).
  rewrite E in *. pose proof (Mono_trace _ _ H) as M. apply Holds_prefix in H.
  destruct (Holds_VI _ H) as [_ V4].
  assert (F0 : fresh (view_of (a ++ [VSub l c n g b])) = l + 1) by (rewrite view_of_snoc, vstep_fresh; reflexivity).
  split; [pose proof (m_fresh _ _ M); lia|].
  intros i Hi El. apply (m_live _ _ M) in Hi; [|lia].
  eapply NoDup_ids_inj; [exact V4 | exact Hi | | exact El].
  rewrite view_of_snoc, vstep_live. apply in_app_iff. cbn. auto.
Qed.

Lemma gone_stays t0 l t2 :
  Holds (t0 ++ t2) -> l < fresh (view_of t0) -> find_live (view_of t0) l = None ->
  find_live (view_of (t0 ++ t2)) l = None.
Proof. intros H L F. eapply not_live_stable; eauto. apply Mono_trace. exact H. Qed.

Theorem removed_never_again t t1 e t2 p l fa gr t3 c n g b :
  Holds t -> t = t1 ++ e :: t2 ++ VInv p l fa gr :: t3 ->
  In (VSub l c n g b) t1 ->
  (e = VUnsub c n l \/ e = VUnsubCb c n l \/ e = VClear c \/ e = VStop c) -> False.
Proof.
  intros H E Hs He.
  assert (E2 : t = ((t1 ++ [e]) ++ t2) ++ VInv p l fa gr :: t3) by (rewrite E, <- !app_assoc; reflexivity).
  destruct (inv_current _ _ _ _ _ _ _ H E2) as (f & i & _ & Fl & _).
  destruct (Holds_at _ _ _ _ H E2) as (Hp & _ & _).
  apply in_split in Hs. destruct Hs as [a [r Et1]].
  assert (H1 : Holds (a ++ VSub l c n g b :: r)) by (rewrite <- Et1; eapply Holds_prefix, Holds_prefix; exact Hp).
  destruct (sub_info a l c n g b r H1) as [Lf Uq]. rewrite <- Et1 in Lf, Uq.
  assert (G0 : find_live (view_of (t1 ++ [e])) l = None).
  { apply find_live_None. intros j Hj Ej. rewrite view_of_snoc, vstep_live in Hj.
    destruct He as [->|[->|[->| ->]]]; apply filter_In in Hj; destruct Hj as [Hj Hn];
      rewrite (Uq j Hj Ej) in Hn; cbn in Hn; unfold at_cn in Hn; cbn in Hn;
      rewrite ?Z.eqb_refl in Hn; discriminate. }
  assert (L1 : l < fresh (view_of (t1 ++ [e]))).
  { rewrite view_of_snoc, vstep_fresh. destruct He as [->|[->|[->| ->]]]; exact Lf. }
  rewrite (gone_stays _ _ _ Hp L1 G0) in Fl. discriminate.
Qed.

(* 5. a cleared centre accepts no subscription *)
Lemma cleared_stays t0 c : forall t2,
  Holds (t0 ++ t2) -> zmem c (cleared (view_of t0)) = true -> zmem c (cleared (view_of (t0 ++ t2))) = true.
Proof.
  induction t2 as [|e t2 IH] using rev_ind; intros H Z0.
  - rewrite app_nil_r. exact Z0.
  - rewrite app_assoc in *. apply Holds_snoc in H. destruct H as [H1 _].
    rewrite view_of_snoc, vstep_cleared. specialize (IH H1 Z0).
    destruct e; auto; unfold zmem in *; cbn [existsb]; rewrite IH; apply orb_true_r.
Qed.

Theorem no_sub_after_clear t t1 e c t2 l n g b t3 :
  Holds t -> t = t1 ++ e :: t2 ++ VSub l c n g b :: t3 -> (e = VClear c \/ e = VStop c) -> False.
Proof.
  intros H E He.
  assert (E2 : t = ((t1 ++ [e]) ++ t2) ++ VSub l c n g b :: t3) by (rewrite E, <- !app_assoc; reflexivity).
  destruct (Holds_at _ _ _ _ H E2) as (Hp & OK & _).
  assert (Z0 : zmem c (cleared (view_of ((t1 ++ [e]) ++ t2))) = true).
  { apply cleared_stays; [exact Hp|]. rewrite view_of_snoc, vstep_cleared.
    destruct He as [-> | ->]; cbn; rewrite Z.eqb_refl; reflexivity. }
  unfold ok_ev in OK. destruct (dead _); [discriminate|]. destruct (lastfull _); [discriminate|].
  rewrite Z0 in OK. cbn in OK. rewrite andb_false_r in OK. discriminate.
Qed.

(* 7. the only way to block: a channel send on a full queue; and nothing happens afterwards *)
Theorem deadlock_only_full_queue t pre post :
  Holds t -> t = pre ++ VDeadlock :: post ->
  post = [] /\ exists pre' c n a, pre = pre' ++ [VEnq c n a] /\ QCAP <= qlen (view_of pre') c.
Proof.
  intros H E. destruct (Holds_at _ _ _ _ H E) as (_ & OK & H2). split.
  - destruct post as [|x r]; [reflexivity|]. exfalso.
    assert (E2 : t = (pre ++ [VDeadlock]) ++ x :: r) by (rewrite E, <- app_assoc; reflexivity).
    destruct (Holds_at _ _ _ _ H E2) as (_ & OK2 & _).
    apply ok_ev_alive in OK2. rewrite view_of_snoc, vstep_dead in OK2. discriminate.
  - unfold ok_ev in OK. destruct (dead (view_of pre)); [discriminate|].
    destruct (lastfull (view_of pre)) eqn:LF; [|discriminate].
    destruct pre as [|x r] using rev_ind; [discriminate|]. clear IHr.
    rewrite view_of_snoc, vstep_lastfull in LF. destruct x; try discriminate.
    exists r, c, n, args. split; [reflexivity | lia].
Qed.

(* 6b. FIFO: the owner receives the oldest pending event and it leaves the queue *)
Theorem deq_fifo t pre c n a post :
  Holds t -> t = pre ++ VDeq c n a :: post ->
  exists r, queue_of (view_of pre) c = (n, a) :: r /\ queue_of (view_of (pre ++ [VDeq c n a])) c = r.
Proof.
  intros H E. destruct (Holds_at _ _ _ _ H E) as (_ & OK & _).
  unfold ok_ev in OK. destruct (dead (view_of pre)); [discriminate|].
  destruct (lastfull (view_of pre)); [discriminate|]. cbn [negb andb] in OK.
  destruct (queue_of (view_of pre) c) as [|[n' a'] r] eqn:Q; [discriminate|].
  apply andb_true_iff in OK. destruct OK as [OK _].
  apply andb_true_iff in OK. destruct OK as [A B]. apply Z.eqb_eq in A. apply zlist_eqb_spec in B. subst.
  exists r. split; [reflexivity|]. rewrite view_of_snoc. unfold vstep, vstep0, queue_of. cbn.
  rewrite aget_aset_same. unfold queue_of in Q. rewrite Q. reflexivity.
Qed.

(* 6a. global publication: who gets how many copies *)
Lemma grow_cons w x c cr q qr :
  grow w x (c :: cr) (q :: qr) =
  grow (set_queue w c (queue_of w c ++ repeat_ev x (q - qlen w c))) x cr qr.
Proof. reflexivity. Qed.
Lemma grow_nil w x qs : grow w x [] qs = w.
Proof. reflexivity. Qed.
Lemma grow_nil_r w x cs : grow w x cs [] = w.
Proof. destruct cs; reflexivity. Qed.

Lemma queue_set_same w c q : queue_of (set_queue w c q) c = q.
Proof. unfold queue_of, set_queue. cbn. rewrite aget_aset_same. reflexivity. Qed.
Lemma queue_set_other w c c' q : c' <> c -> queue_of (set_queue w c q) c' = queue_of w c'.
Proof. intro N. unfold queue_of, set_queue. cbn. rewrite aget_aset_other by exact N. reflexivity. Qed.

Lemma grow_notin x c : forall cs qs w, ~ In c cs -> queue_of (grow w x cs qs) c = queue_of w c.
Proof.
  induction cs as [|c0 cr IH]; intros qs w N; [reflexivity|].
  destruct qs as [|q qr]; [reflexivity|]. rewrite grow_cons, IH by (cbn in N; tauto).
  apply queue_set_other. cbn in N. intro E. subst. tauto.
Qed.

Lemma grow_in x c : forall cs qs w i q,
  NoDup cs -> nth_error cs i = Some c -> nth_error qs i = Some q ->
  queue_of (grow w x cs qs) c = queue_of w c ++ repeat_ev x (q - qlen w c).
Proof.
  induction cs as [|c0 cr IH]; intros qs w i q ND Hc Hq; [destruct i; discriminate|].
  destruct qs as [|q0 qr]; [destruct i; discriminate|]. inv ND. rewrite grow_cons.
  destruct i as [|i]; cbn in Hc, Hq.
  - inv Hc. inv Hq. rewrite grow_notin by assumption. apply queue_set_same.
  - assert (N : c <> c0) by (intro E; subst; apply nth_error_In in Hc; tauto).
    rewrite (IH qr _ i q H2 Hc Hq). unfold qlen. rewrite queue_set_other by exact N. reflexivity.
Qed.

Lemma gpub_ok_nth w n k : forall cs qs,
  gpub_ok w n k cs qs = true ->
  length qs = length cs /\
  forall i c q, nth_error cs i = Some c -> nth_error qs i = Some q ->
    (has_g_live w c n = true -> q = Z.min QCAP (qlen w c + k)) /\
    (members w c n = [] -> q = qlen w c).
Proof.
  induction cs as [|c0 cr IH]; intros [|q0 qr] H; cbn [gpub_ok] in H; try discriminate.
  - split; [reflexivity|]. intros [|i]; discriminate.
  - apply andb_true_iff in H. destruct H as [H0 H1]. destruct (IH qr H1) as [L R].
    split; [cbn; congruence|]. intros [|i] c q Hc Hq; cbn in Hc, Hq; [|eauto].
    inv Hc. inv Hq. split; intro G.
    + rewrite G in H0. lia.
    + destruct (has_g_live w c n) eqn:HG.
      * exfalso. apply has_g_live_iff in HG. destruct HG as [j [Hj [A _]]].
        assert (X : members w c n <> []) by (apply members_ne_iff; eauto). tauto.
      * rewrite G in H0. lia.
Qed.

Theorem gpub_delivery t pre n a k qlens post :
  Holds t -> t = pre ++ VGPub n a k qlens :: post ->
  0 <= k /\
  forall c, In c local_centres ->
    (has_g_live (view_of pre) c n = true ->
       queue_of (view_of (pre ++ [VGPub n a k qlens])) c =
       queue_of (view_of pre) c ++
       repeat (n, a) (Z.to_nat (Z.min QCAP (qlen (view_of pre) c + k) - qlen (view_of pre) c))) /\
    (members (view_of pre) c n = [] ->
       queue_of (view_of (pre ++ [VGPub n a k qlens])) c = queue_of (view_of pre) c).
Proof.
  intros H E. destruct (Holds_at _ _ _ _ H E) as (_ & OK & _).
  set (w := view_of pre) in *. unfold ok_ev in OK. destruct (dead w); [discriminate|].
  destruct (lastfull w); [discriminate|]. cbn [negb andb] in OK.
  apply andb_true_iff in OK. destruct OK as [K OK]. split; [lia|].
  destruct (gpub_ok_nth _ _ _ _ _ OK) as [Len Nth].
  intros c Hc. apply In_nth_error in Hc. destruct Hc as [i Hi].
  assert (Hq : exists q, nth_error qlens i = Some q).
  { destruct (nth_error qlens i) eqn:Q; [eauto|]. apply nth_error_None in Q.
    assert (i < length local_centres)%nat by (apply nth_error_Some; congruence). lia. }
  destruct Hq as [q Hq]. destruct (Nth i c q Hi Hq) as [N1 N2].
  assert (ND : NoDup local_centres) by (repeat constructor; cbn; intuition discriminate).
  assert (Q : queue_of (view_of (pre ++ [VGPub n a k qlens])) c =
              queue_of w c ++ repeat_ev (n, a) (q - qlen w c)).
  { rewrite view_of_snoc. fold w. unfold vstep. cbn [vstep0].
    change (queue_of (set_lastfull ?x ?b) c) with (queue_of x c).
    eapply grow_in; eauto. }
  split; intro G.
  - rewrite Q, (N1 G). reflexivity.
  - rewrite Q, (N2 G), Z.sub_diag. cbn. apply app_nil_r.
Qed.

(* 6c. a subscribed centre with room gets every copy, whatever the other centres' queues hold *)
Theorem gpub_not_starved t pre n a k qlens post :
  Holds t -> t = pre ++ VGPub n a k qlens :: post ->
  forall c, In c local_centres -> has_g_live (view_of pre) c n = true ->
    qlen (view_of pre) c + k <= QCAP ->
    queue_of (view_of (pre ++ [VGPub n a k qlens])) c =
    queue_of (view_of pre) c ++ repeat (n, a) (Z.to_nat k).
Proof.
  intros H E c Hc Hg Room. destruct (gpub_delivery _ _ _ _ _ _ _ H E) as [K D].
  destruct (D c Hc) as [D1 _]. rewrite (D1 Hg). do 2 f_equal. lia.
Qed.

(* 6d. a bulk receive takes a prefix of the queue, in order *)
Theorem drop_prefix t pre c items post :
  Holds t -> t = pre ++ VDrop c items :: post ->
  queue_of (view_of pre) c = expand items ++ queue_of (view_of (pre ++ [VDrop c items])) c.
Proof.
  intros H E. destruct (Holds_at _ _ _ _ H E) as (_ & OK & _).
  unfold ok_ev in OK. destruct (dead (view_of pre)); [discriminate|].
  destruct (lastfull (view_of pre)); [discriminate|]. cbn [negb andb] in OK.
  apply queue_eqb_spec in OK. rewrite view_of_snoc. unfold vstep. cbn [vstep0].
  change (queue_of (set_lastfull ?x ?b) c) with (queue_of x c). rewrite queue_set_same.
  rewrite OK at 1. symmetry. apply firstn_skipn.
Qed.

(* 8. run services: who owns a centre, and what Stop() means *)
Lemma alive_snoc t e c :
  In c (alive (view_of (t ++ [e]))) <->
  (e = VStart c \/ (In c (alive (view_of t)) /\ e <> VLoopEnd c)).
Proof.
  rewrite view_of_snoc, vstep_alive.
  destruct e;
    try (split; [intro H; right; split; [exact H | discriminate] | intros [H|[H _]]; [discriminate | exact H]]).
  - cbn [In]. split.
    + intros [->|H]; [left; reflexivity | right; split; [exact H | discriminate]].
    + intros [H|[H _]]; [inv H; left; reflexivity | right; exact H].
  - rewrite filter_In. split.
    + intros [H N]. right. split; [exact H|]. intro E. inv E. rewrite Z.eqb_refl in N. discriminate.
    + intros [H|[H N]]; [discriminate|]. split; [exact H|].
      destruct (Z.eqb_spec c c0); [subst; exfalso; apply N; reflexivity | reflexivity].
Qed.

(* the loop goroutine of c exists exactly from Start() until it has ended *)
Lemma alive_iff c : forall t,
  In c (alive (view_of t)) <-> exists t1 t2, t = t1 ++ VStart c :: t2 /\ ~ In (VLoopEnd c) t2.
Proof.
  induction t as [|e t IH] using rev_ind.
  - cbn. split; [tauto|]. intros (t1 & t2 & E & _). destruct t1; discriminate.
  - rewrite alive_snoc. split.
    + intros [->|[H N]].
      * exists t, []. split; [reflexivity | intros []].
      * apply IH in H. destruct H as (t1 & t2 & -> & Ne). exists t1, (t2 ++ [e]).
        split; [rewrite <- app_assoc; reflexivity|]. intro Hin. apply in_app_iff in Hin.
        destruct Hin as [Hin|[Hin|[]]]; [tauto | congruence].
    + intros (t1 & t2 & E & Ne). apply app_snoc_inv in E.
      destruct E as [(-> & -> & ->) | (t2' & -> & ->)]; [left; reflexivity|].
      right. split.
      * apply IH. exists t1, t2'. split; [reflexivity|]. intro Hin. apply Ne. apply in_app_iff. auto.
      * intros ->. apply Ne. apply in_app_iff. cbn. auto.
Qed.

Lemma stopped_iff c : forall t, In c (stopped (view_of t)) <-> In (VStop c) t.
Proof.
  induction t as [|e t IH] using rev_ind; [cbn; tauto|].
  rewrite view_of_snoc, vstep_stopped, in_app_iff. cbn [In].
  destruct e; try (rewrite IH; split; [tauto | intros [H|[H|[]]]; [exact H | discriminate]]).
  cbn [In]. rewrite IH. split.
  - intros [->|H]; auto.
  - intros [H|[H|[]]]; [auto | inv H; auto].
Qed.

Theorem owner_char t c :
  let P := is_svc c = true /\ exists t1 t2, t = t1 ++ VStart c :: t2 /\ ~ In (VLoopEnd c) t2 in
  (owner (view_of t) c = c /\ P) \/ (owner (view_of t) c = 0 /\ ~ P).
Proof.
  intro P. subst P. unfold owner, loop_alive. destruct (is_svc c) eqn:S; cbn [andb].
  - destruct (zmem c (alive (view_of t))) eqn:Z0.
    + left. split; [reflexivity|]. split; [reflexivity|]. apply alive_iff. apply zmem_In. exact Z0.
    + right. split; [reflexivity|]. intros [_ H]. apply alive_iff in H. apply zmem_In in H. congruence.
  - right. split; [reflexivity|]. intros [H _]. discriminate.
Qed.

Theorem inv_owner t pre p l fa gr post :
  Holds t -> t = pre ++ VInv p l fa gr :: post ->
  exists i, find_live (view_of pre) l = Some i /\ gr = owner (view_of pre) (i_c i).
Proof.
  intros H E. destruct (inv_current _ _ _ _ _ _ _ H E) as (f & i & _ & Fl & _ & _ & _ & _ & O). eauto.
Qed.

Lemma can_stop_svc w c : can_stop w c = true -> is_svc c = true.
Proof. unfold can_stop, loop_alive. intro H. repeat rewrite andb_true_iff in H. tauto. Qed.

(* after Stop(): nothing is received from the queue any more, nobody can subscribe, the
   service is neither stopped nor started again (its listeners: [removed_never_again]) *)
Theorem stop_final t t1 c t2 e t3 :
  Holds t -> t = t1 ++ VStop c :: t2 ++ e :: t3 ->
  match e with
  | VDeq c' _ _ | VSkip c' _ | VStop c' | VStart c' | VSub _ c' _ _ _ => c' <> c
  | _ => True
  end.
Proof.
  intros H E.
  destruct (Holds_at _ _ _ _ H E) as (_ & OKs & _).
  assert (Sv : is_svc c = true).
  { unfold ok_ev in OKs. destruct (dead (view_of t1)); [discriminate|].
    destruct (lastfull (view_of t1)); [discriminate|]. apply can_stop_svc in OKs. exact OKs. }
  assert (E2 : t = ((t1 ++ [VStop c]) ++ t2) ++ e :: t3) by (rewrite E, <- !app_assoc; reflexivity).
  destruct (Holds_at _ _ _ _ H E2) as (Hp & OK & _).
  set (w := view_of ((t1 ++ [VStop c]) ++ t2)) in *.
  assert (St : zmem c (stopped w) = true).
  { apply zmem_In. apply stopped_iff. apply in_app_iff. left. apply in_app_iff. cbn. auto. }
  assert (Cl : zmem c (cleared w) = true).
  { apply cleared_stays; [exact Hp|]. rewrite view_of_snoc, vstep_cleared. cbn. rewrite Z.eqb_refl. reflexivity. }
  unfold ok_ev in OK. destruct (dead w); [discriminate|]. destruct (lastfull w); [destruct e; auto; discriminate|].
  cbn [negb andb] in OK. destruct e; auto; intros ->.
  - rewrite Cl in OK. cbn in OK. rewrite andb_false_r in OK. discriminate.
  - rewrite Sv, St in OK. cbn in OK. rewrite !andb_false_r in OK. discriminate.
  - unfold can_start in OK. rewrite St in OK. cbn in OK. rewrite andb_false_r in OK. discriminate.
  - unfold can_stop in OK. rewrite St in OK. cbn in OK. rewrite andb_false_r in OK. discriminate.
  - rewrite St in OK. cbn in OK. rewrite andb_false_r in OK. discriminate.
Qed.

(* the queue of a run service is received from by its loop only, before Stop() *)
Theorem deq_by_loop t pre c n a post :
  Holds t -> t = pre ++ VDeq c n a :: post -> is_svc c = true ->
  loop_alive (view_of pre) c = true /\ ~ In (VStop c) pre.
Proof.
  intros H E Sv. destruct (Holds_at _ _ _ _ H E) as (_ & OK & _).
  unfold ok_ev in OK. destruct (dead (view_of pre)); [discriminate|].
  destruct (lastfull (view_of pre)); [discriminate|]. cbn [negb andb] in OK.
  apply andb_true_iff in OK. destruct OK as [_ OK]. rewrite Sv in OK. cbn [implb] in OK.
  apply andb_true_iff in OK. destruct OK as [A B]. split; [exact A|].
  intro Hin. apply stopped_iff in Hin. apply zmem_In in Hin. rewrite Hin in B. discriminate.
Qed.

(* events the loop handled without invoking anybody had no listener *)
Theorem skip_noone t pre c k post :
  Holds t -> t = pre ++ VSkip c k :: post ->
  0 < k <= qlen (view_of pre) c /\ loop_alive (view_of pre) c = true /\ ~ In (VStop c) pre /\
  (forall x, In x (firstn (Z.to_nat k) (queue_of (view_of pre) c)) ->
             members (view_of pre) c (fst x) = []) /\
  queue_of (view_of (pre ++ [VSkip c k])) c = skipn (Z.to_nat k) (queue_of (view_of pre) c).
Proof.
  intros H E. destruct (Holds_at _ _ _ _ H E) as (_ & OK & _).
  unfold ok_ev in OK. destruct (dead (view_of pre)); [discriminate|].
  destruct (lastfull (view_of pre)); [discriminate|]. cbn [negb andb] in OK.
  repeat rewrite andb_true_iff in OK. destruct OK as [[[[A B] C] D] F].
  split; [lia|]. split; [exact A|]. split; [|split].
  - intro Hin. apply stopped_iff in Hin. apply zmem_In in Hin. rewrite Hin in B. discriminate.
  - intros x Hx. rewrite forallb_forall in F. specialize (F x Hx). unfold noone in F.
    destruct (members (view_of pre) c (fst x)); [reflexivity | discriminate].
  - rewrite view_of_snoc. unfold vstep. cbn [vstep0].
    change (queue_of (set_lastfull ?x ?b) c) with (queue_of x c). apply queue_set_same.
Qed.

Lemma zmem_filter_out c l : zmem c (filter (fun x => negb (x =? c)) l) = false.
Proof.
  destruct (zmem c (filter (fun x => negb (x =? c)) l)) eqn:Z0; [|reflexivity].
  apply zmem_In in Z0. apply filter_In in Z0. destruct Z0 as [_ N]. rewrite Z.eqb_refl in N. discriminate.
Qed.

(* a loop ends only after Stop(); what is still queued then is never received, and the centre
   belongs to the driver again *)
Theorem loop_end_after_stop t pre c post :
  Holds t -> t = pre ++ VLoopEnd c :: post ->
  In (VStop c) pre /\ loop_alive (view_of pre) c = true /\
  queue_of (view_of (pre ++ [VLoopEnd c])) c = [] /\ owner (view_of (pre ++ [VLoopEnd c])) c = 0.
Proof.
  intros H E. destruct (Holds_at _ _ _ _ H E) as (_ & OK & _).
  unfold ok_ev in OK. destruct (dead (view_of pre)); [discriminate|].
  destruct (lastfull (view_of pre)); [discriminate|]. cbn [negb andb] in OK.
  apply andb_true_iff in OK. destruct OK as [A B].
  split; [apply stopped_iff; apply zmem_In; exact B|]. split; [exact A|]. split.
  - rewrite view_of_snoc. unfold vstep. cbn [vstep0].
    change (queue_of (set_lastfull ?x ?b) c) with (queue_of x c).
    change (queue_of (set_alive ?x ?b) c) with (queue_of x c). apply queue_set_same.
  - unfold owner, loop_alive. rewrite view_of_snoc, vstep_alive, zmem_filter_out, andb_false_r. reflexivity.
Qed.

(* 9. probes: registration at the global centre by calls that may be held inside it *)
Lemma vstep_pp w e :
  pp (vstep w e) =
  match e with
  | VPark c n b => aset c (n, b) (pp w)
  | VDone c => adel c (pp w)
  | _ => pp w
  end.
Proof.
  destruct e; cbn; try reflexivity.
  - destruct (aget p (frames w)); reflexivity.
  - destruct (qlen w c <? QCAP); reflexivity.
  - apply grow_other.
  - apply grow_other.
Qed.

Lemma vstep_pr w e :
  pr (vstep w e) =
  match e with
  | VReg c n => pair_add c n (pr w)
  | VUnreg c n => pair_del c n (pr w)
  | VDone c => pr_after w c
  | _ => pr w
  end.
Proof.
  destruct e; cbn; try reflexivity.
  - destruct (aget p (frames w)); reflexivity.
  - destruct (qlen w c <? QCAP); reflexivity.
  - apply grow_other.
  - apply grow_other.
Qed.

Lemma pair_mem_add c n l : pair_mem c n (pair_add c n l) = true.
Proof.
  unfold pair_add. destruct (pair_mem c n l) eqn:M; [exact M|]. apply pair_mem_In. left. reflexivity.
Qed.
Lemma pair_mem_del c n l : pair_mem c n (pair_del c n l) = false.
Proof.
  destruct (pair_mem c n (pair_del c n l)) eqn:M; [|reflexivity]. apply pair_mem_In in M.
  unfold pair_del in M. apply filter_In in M. destruct M as [_ M]. cbn in M. rewrite !Z.eqb_refl in M. discriminate.
Qed.

Lemma probe_free_not_held w c x : aget c (pp w) = Some x -> probe_free w c = false.
Proof. unfold probe_free. intros ->. apply andb_false_r. Qed.

(* while the call of probe c is held, nothing the other centres do changes what is held *)
Lemma held_stays t1 c n b : forall t2,
  Holds (t1 ++ VPark c n b :: t2) -> ~ In (VDone c) t2 ->
  aget c (pp (view_of (t1 ++ VPark c n b :: t2))) = Some (n, b).
Proof.
  induction t2 as [|e t2 IH] using rev_ind; intros H N.
  - rewrite view_of_snoc, vstep_pp. apply aget_aset_same.
  - assert (E : t1 ++ VPark c n b :: t2 ++ [e] = (t1 ++ VPark c n b :: t2) ++ [e])
      by (rewrite <- app_assoc; reflexivity).
    rewrite E in *. apply Holds_snoc in H. destruct H as [H1 OK].
    assert (N1 : ~ In (VDone c) t2) by (intro X; apply N; apply in_app_iff; auto).
    specialize (IH H1 N1). set (w := view_of (t1 ++ VPark c n b :: t2)) in *.
    rewrite view_of_snoc. fold w. rewrite vstep_pp.
    unfold ok_ev in OK. destruct (dead w); [discriminate|]. cbn [negb andb] in OK.
    destruct (lastfull w); [destruct e; try discriminate; exact IH|].
    destruct e; try exact IH.
    + rewrite (probe_free_not_held _ _ _ IH) in OK || idtac.
      destruct (Z.eq_dec c0 c) as [->|Nc]; [rewrite (probe_free_not_held _ _ _ IH) in OK; discriminate|].
      rewrite aget_aset_other by auto. exact IH.
    + destruct (Z.eq_dec c0 c) as [->|Nc]; [exfalso; apply N; apply in_app_iff; cbn; auto|].
      rewrite aget_adel_other by auto. exact IH.
Qed.

(* once the held call has returned the probe is registered (Subscribe) / not registered
   (Unsubscribe) - the sequential outcome - whatever happened while it was held *)
Theorem held_call_outcome t t1 c n b t2 t3 :
  Holds t -> t = t1 ++ VPark c n b :: t2 ++ VDone c :: t3 -> ~ In (VDone c) t2 ->
  pair_mem c n (pr (view_of (t1 ++ VPark c n b :: t2 ++ [VDone c]))) = b /\
  aget c (pp (view_of (t1 ++ VPark c n b :: t2 ++ [VDone c]))) = None.
Proof.
  intros H E N.
  assert (E2 : t = (t1 ++ VPark c n b :: t2) ++ VDone c :: t3) by (rewrite E, <- app_assoc; reflexivity).
  destruct (Holds_at _ _ _ _ H E2) as (Hp & _ & _).
  pose proof (held_stays t1 c n b t2 Hp N) as Hd.
  assert (E3 : t1 ++ VPark c n b :: t2 ++ [VDone c] = (t1 ++ VPark c n b :: t2) ++ [VDone c])
    by (rewrite <- app_assoc; reflexivity).
  rewrite E3, view_of_snoc, vstep_pr, vstep_pp. split; [|apply aget_adel_same].
  unfold pr_after. rewrite Hd. destruct b; [apply pair_mem_add | apply pair_mem_del].
Qed.

Lemma pgpub_ok_nth w n k : forall cs qs,
  pgpub_ok w n k cs qs = true ->
  length qs = length cs /\
  forall i c q, nth_error cs i = Some c -> nth_error qs i = Some q -> held w c n = false ->
    q = if pair_mem c n (pr w) then Z.min QCAP (qlen w c + k) else qlen w c.
Proof.
  induction cs as [|c0 cr IH]; intros [|q0 qr] H; cbn [pgpub_ok] in H; try discriminate.
  - split; [reflexivity|]. intros [|i]; discriminate.
  - apply andb_true_iff in H. destruct H as [H0 H1]. destruct (IH qr H1) as [L R].
    split; [cbn; congruence|]. intros [|i] c q Hc Hq Hh; cbn in Hc, Hq; [|eauto].
    inv Hc. inv Hq. rewrite Hh in H0. destruct (pair_mem c n (pr w)); lia.
Qed.

(* a global publication reaches every registered probe whose registration is not in flight
   (exactly the copies that fit), and no unregistered one *)
Theorem probe_delivery t pre n a k qlens post :
  Holds t -> t = pre ++ VProbe n a k qlens :: post ->
  forall c, In c probe_centres -> held (view_of pre) c n = false ->
    queue_of (view_of (pre ++ [VProbe n a k qlens])) c =
    queue_of (view_of pre) c ++
    repeat (n, a) (Z.to_nat (if pair_mem c n (pr (view_of pre))
                             then Z.min QCAP (qlen (view_of pre) c + k) - qlen (view_of pre) c else 0)).
Proof.
  intros H E c Hc Hh. destruct (Holds_at _ _ _ _ H E) as (_ & OK & _).
  set (w := view_of pre) in *. unfold ok_ev in OK. destruct (dead w); [discriminate|].
  destruct (lastfull w); [discriminate|]. cbn [negb andb] in OK.
  apply andb_true_iff in OK. destruct OK as [K OK].
  destruct (pgpub_ok_nth _ _ _ _ _ OK) as [Len Nth].
  apply In_nth_error in Hc. destruct Hc as [i Hi].
  assert (Hq : exists q, nth_error qlens i = Some q).
  { destruct (nth_error qlens i) eqn:Q; [eauto|]. apply nth_error_None in Q.
    assert (i < length probe_centres)%nat by (apply nth_error_Some; congruence). lia. }
  destruct Hq as [q Hq]. pose proof (Nth i c q Hi Hq Hh) as Eq.
  assert (ND : NoDup probe_centres) by (repeat constructor; cbn; intuition discriminate).
  assert (Q : queue_of (view_of (pre ++ [VProbe n a k qlens])) c =
              queue_of w c ++ repeat_ev (n, a) (q - qlen w c)).
  { rewrite view_of_snoc. fold w. unfold vstep. cbn [vstep0].
    change (queue_of (set_lastfull ?x ?b) c) with (queue_of x c).
    eapply grow_in; eauto. }
  rewrite Q, Eq. unfold repeat_ev. destruct (pair_mem c n (pr w)); [reflexivity|].
  rewrite Z.sub_diag. reflexivity.
Qed.

(* ================================================================ Part D: the statements of Props.v *)
Lemma m_not_starved : forall g ops pre n a k qlens post,
  run g ops = pre ++ VGPub n a k qlens :: post ->
  forall c, In c local_centres -> has_g_live (view_of pre) c n = true ->
    qlen (view_of pre) c + k <= QCAP ->
    queue_of (view_of (pre ++ [VGPub n a k qlens])) c =
    queue_of (view_of pre) c ++ repeat (n, a) (Z.to_nat k).
Proof. intros. eapply gpub_not_starved; eauto using run_holds. Qed.

Lemma m_drop : forall g ops pre c items post,
  run g ops = pre ++ VDrop c items :: post ->
  queue_of (view_of pre) c = expand items ++ queue_of (view_of (pre ++ [VDrop c items])) c.
Proof. intros. eapply drop_prefix; eauto using run_holds. Qed.

Lemma m_holds : forall g ops, Holds (run g ops).
Proof. exact run_holds. Qed.

Lemma m_once : forall g ops,
  (forall t1 p c n a t2 t3, run g ops = t1 ++ VBegin p c n a :: t2 ++ VEnd p :: t3 ->
     forall i, In i (members (view_of t1) c n) ->
               find_live (view_of (t1 ++ VBegin p c n a :: t2)) (i_l i) <> None ->
               exists fa gr, In (VInv p (i_l i) fa gr) t2) /\
  (forall t1 p l a1 g1 t2 a2 g2 t3, run g ops <> t1 ++ VInv p l a1 g1 :: t2 ++ VInv p l a2 g2 :: t3).
Proof.
  intros g ops. split.
  - intros. eapply at_least_once; eauto using run_holds.
  - intros t1 p l a1 g1 t2 a2 g2 t3 E. eapply at_most_once; [apply run_holds | exact E].
Qed.

Lemma m_args : forall g ops t1 p c n a t2 l fa gr t3,
  run g ops = t1 ++ VBegin p c n a :: t2 ++ VInv p l fa gr :: t3 ->
  exists i, find_live (view_of (t1 ++ VBegin p c n a :: t2)) l = Some i /\ fa = i_bound i ++ a.
Proof.
  intros. destruct (inv_in_pub _ _ _ _ _ _ _ _ _ _ _ (run_holds g ops) H) as [i (A & _ & _ & B)]. eauto.
Qed.

Lemma m_names : forall g ops t1 p c n a t2 l fa gr t3,
  run g ops = t1 ++ VBegin p c n a :: t2 ++ VInv p l fa gr :: t3 ->
  exists i, find_live (view_of (t1 ++ VBegin p c n a :: t2)) l = Some i /\ i_c i = c /\ i_n i = n.
Proof.
  intros. destruct (inv_in_pub _ _ _ _ _ _ _ _ _ _ _ (run_holds g ops) H) as [i (A & B & C & _)]. eauto.
Qed.

Lemma m_inv_open : forall g ops pre p l fa gr post,
  run g ops = pre ++ VInv p l fa gr :: post ->
  exists f i, aget p (frames (view_of pre)) = Some f /\ find_live (view_of pre) l = Some i /\
              i_c i = f_c f /\ i_n i = f_n f /\ fa = i_bound i ++ f_args f /\ ~ In l (f_seen f).
Proof.
  intros. destruct (inv_current _ _ _ _ _ _ _ (run_holds g ops) H) as (f & i & A & B & C & D & E & F & _).
  exists f, i. auto 7.
Qed.

Lemma m_unsub : forall g ops t1 c n l t2 p fa gr t3 gl b,
  In (VSub l c n gl b) t1 ->
  run g ops <> t1 ++ VUnsub c n l :: t2 ++ VInv p l fa gr :: t3 /\
  run g ops <> t1 ++ VUnsubCb c n l :: t2 ++ VInv p l fa gr :: t3.
Proof.
  intros. split; intro E; eapply removed_never_again; eauto using run_holds.
Qed.

Lemma m_clear : forall g ops t1 c t2 t3,
  (forall l n gl b p fa gr, In (VSub l c n gl b) t1 ->
     run g ops <> t1 ++ VClear c :: t2 ++ VInv p l fa gr :: t3) /\
  (forall l n gl b, run g ops <> t1 ++ VClear c :: t2 ++ VSub l c n gl b :: t3).
Proof.
  intros. split.
  - intros l n gl b p fa gr Hs E. eapply removed_never_again; eauto using run_holds.
  - intros l n gl b E. eapply no_sub_after_clear; eauto using run_holds.
Qed.

Lemma m_global : forall g ops pre n a k qlens post,
  run g ops = pre ++ VGPub n a k qlens :: post ->
  0 <= k /\
  forall c, In c local_centres ->
    (has_g_live (view_of pre) c n = true ->
       queue_of (view_of (pre ++ [VGPub n a k qlens])) c =
       queue_of (view_of pre) c ++
       repeat (n, a) (Z.to_nat (Z.min QCAP (qlen (view_of pre) c + k) - qlen (view_of pre) c))) /\
    (members (view_of pre) c n = [] ->
       queue_of (view_of (pre ++ [VGPub n a k qlens])) c = queue_of (view_of pre) c).
Proof. intros. eapply gpub_delivery; eauto using run_holds. Qed.

Lemma m_fifo : forall g ops pre c n a post,
  run g ops = pre ++ VDeq c n a :: post ->
  exists r, queue_of (view_of pre) c = (n, a) :: r /\ queue_of (view_of (pre ++ [VDeq c n a])) c = r.
Proof. intros. eapply deq_fifo; eauto using run_holds. Qed.

Lemma m_block : forall g ops pre post,
  run g ops = pre ++ VDeadlock :: post ->
  post = [] /\ exists pre' c n a, pre = pre' ++ [VEnq c n a] /\ QCAP <= qlen (view_of pre') c.
Proof. intros. eapply deadlock_only_full_queue; eauto using run_holds. Qed.

Lemma m_view : forall g ops, vw (final g ops) = view_of (run g ops).
Proof. exact run_view. Qed.

Lemma m_monitor : forall t, holds_b t = true <-> Holds t.
Proof. exact holds_b_spec. Qed.

(* any listener of the snapshot can be the next one visited: the guide covers all map orders *)
Lemma m_any_order : forall p l todo fa gr g s,
  In l todo -> guide s = VInv p l fa gr :: g ->
  pick (hint p s) todo = Some (l, remove_first l todo).
Proof.
  intros p l todo fa gr g s Hin Hg. unfold hint. rewrite Hg, Z.eqb_refl. unfold pick.
  destruct todo as [|x r]; [contradiction|].
  apply zmem_In in Hin. rewrite Hin. reflexivity.
Qed.

(* ---- run services *)
Lemma m_owner : forall g ops pre p l fa gr post,
  run g ops = pre ++ VInv p l fa gr :: post ->
  exists i, find_live (view_of pre) l = Some i /\ gr = owner (view_of pre) (i_c i).
Proof. intros. eapply inv_owner; eauto using run_holds. Qed.

Lemma m_owner_char : forall t c,
  let P := is_svc c = true /\ exists t1 t2, t = t1 ++ VStart c :: t2 /\ ~ In (VLoopEnd c) t2 in
  (owner (view_of t) c = c /\ P) \/ (owner (view_of t) c = 0 /\ ~ P).
Proof. exact owner_char. Qed.

Lemma m_stop : forall g ops t1 c t2 t3,
  (forall l n gl b p fa gr, In (VSub l c n gl b) t1 ->
     run g ops <> t1 ++ VStop c :: t2 ++ VInv p l fa gr :: t3) /\
  (forall e, run g ops = t1 ++ VStop c :: t2 ++ e :: t3 ->
     match e with
     | VDeq c' _ _ | VSkip c' _ | VStop c' | VStart c' | VSub _ c' _ _ _ => c' <> c
     | _ => True
     end).
Proof.
  intros. split.
  - intros l n gl b p fa gr Hs E. eapply removed_never_again; eauto 6 using run_holds.
  - intros e E. eapply stop_final; eauto using run_holds.
Qed.

Lemma m_deq_by_loop : forall g ops pre c n a post,
  run g ops = pre ++ VDeq c n a :: post -> is_svc c = true ->
  loop_alive (view_of pre) c = true /\ ~ In (VStop c) pre.
Proof. intros. eapply deq_by_loop; eauto using run_holds. Qed.

Lemma m_skip : forall g ops pre c k post,
  run g ops = pre ++ VSkip c k :: post ->
  0 < k <= qlen (view_of pre) c /\ loop_alive (view_of pre) c = true /\ ~ In (VStop c) pre /\
  (forall x, In x (firstn (Z.to_nat k) (queue_of (view_of pre) c)) ->
             members (view_of pre) c (fst x) = []) /\
  queue_of (view_of (pre ++ [VSkip c k])) c = skipn (Z.to_nat k) (queue_of (view_of pre) c).
Proof. intros. eapply skip_noone; eauto using run_holds. Qed.

Lemma m_loop_end : forall g ops pre c post,
  run g ops = pre ++ VLoopEnd c :: post ->
  In (VStop c) pre /\ loop_alive (view_of pre) c = true /\
  queue_of (view_of (pre ++ [VLoopEnd c])) c = [] /\ owner (view_of (pre ++ [VLoopEnd c])) c = 0.
Proof. intros. eapply loop_end_after_stop; eauto using run_holds. Qed.

(* ---- probes *)
Lemma m_held_call : forall g ops t1 c n b t2 t3,
  run g ops = t1 ++ VPark c n b :: t2 ++ VDone c :: t3 -> ~ In (VDone c) t2 ->
  pair_mem c n (pr (view_of (t1 ++ VPark c n b :: t2 ++ [VDone c]))) = b /\
  aget c (pp (view_of (t1 ++ VPark c n b :: t2 ++ [VDone c]))) = None.
Proof. intros. eapply held_call_outcome; eauto using run_holds. Qed.

Lemma m_probe : forall g ops pre n a k qlens post,
  run g ops = pre ++ VProbe n a k qlens :: post ->
  forall c, In c probe_centres -> held (view_of pre) c n = false ->
    queue_of (view_of (pre ++ [VProbe n a k qlens])) c =
    queue_of (view_of pre) c ++
    repeat (n, a) (Z.to_nat (if pair_mem c n (pr (view_of pre))
                             then Z.min QCAP (qlen (view_of pre) c + k) - qlen (view_of pre) c else 0)).
Proof. intros. eapply probe_delivery; eauto using run_holds. Qed.
