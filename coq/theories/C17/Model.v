(* C17 - model of utils/event: LocalEventCenter (direct and channel mode), the
   GlobalEventCenter registration of local centres, and utils/event/light.EventCenter,
   AFTER the repairs hooks/C17-fix-{1..4} (dispatch iterates a snapshot, holds no lock while
   a listener runs, re-checks "still subscribed / not cleared" before each call, builds a
   fresh argument slice).  No proofs in this file.

   Go -> model
     centres            fixed set: local 0,1,2,3 (0 starts direct, 1,2,3 start in channel mode),
                        owned by the driver goroutine (it is the one that receives from their
                        channels: ODrain); local 4,5 = the EventCenter of a
                        runservice.StandardRunService (always channel mode), owned by the service's
                        loop goroutine from Start() until the loop has ended; light 10,11 (driver);
                        any other index: the action is not applicable (VNop)
     goroutines         tokens: 0 = the driver, 4 / 5 = the loop goroutine of service 4 / 5.  Every
                        listener invocation records the goroutine it runs on ([VInv .. g]).
                        [owner w c] is the goroutine that owns centre c after history w.
     run service        OStart c: Start(); the loop handles what is queued and is then kept busy
                        inside a scheduler task (that is how events come to be pending); OOwn c a:
                        that task performs a on the loop goroutine; ORun c: the task returns, the loop
                        handles everything queued (VSkip: events nobody listens to, VDeq + dispatch:
                        the others) and is busy again - or, once Stop() was called, ends (VLoopEnd);
                        AStop c: StandardRunService.Stop() (TimerMgr.Stop, EventCenter.Clear,
                        RunService.Stop) called by whoever performs the action: the driver (a foreign
                        goroutine, events still queued), the busy task, or a listener.
     probe centres      6, 7: user implementations of ILocalEventCenter (a queue, no listeners) that
                        call GlobalEventCenter.Subscribe / Unsubscribe themselves (OReg), each on its own
                        goroutine.  Such a call can be held INSIDE the global centre (OPark): after the
                        name's list was looked up, at the GetId() call made on the centre object, i.e.
                        before the Store / Delete; meanwhile the other centres act; ORelease lets it
                        return (VDone).  [pr] = registered probes, [pp] = held calls.  While a call for
                        name n is held, a publication of n may or may not reach that probe; after VDone
                        the outcome must be the sequential one.  VProbe (after VGPub, while any probe is
                        registered or held) reports the probe queue lengths.
                        An action on a centre the acting goroutine does not own is not issued (VNop),
                        except those that are meant to be called from anywhere: GlobalEC.Publish,
                        a channel-mode Publish (a send) and Stop().
     event names, args  Z tokens (the harness maps names injectively to strings)
     listener id        token l = 1,2,3,... in creation order (the harness maps the uint64 the
                        real Subscribe returned to that token; 0 = Subscribe returned 0)
     listener callback  a *program*: list of re-entrant actions the callback performs when it
                        is invoked, looked up by program id at invocation time; a callback
                        nested deeper than DEPTH, or invoked after the trace has reached BUDGET
                        events, does not run its program (the harness' scripted closures have
                        the same cut-offs; they bound the Go stack and re-entrant blow-up)
     code pointer       [code] in 0..3 (four function literals in the harness); receiver token
                        [how >= 2] for SubscribeWithReceiver
     ListenerList.Global / GlobalEventCenter.events   [greg] : (centre, name) pairs
     chanEvent (cap 999)  [queues] FIFO of (name, args) per local centre
     map iteration order  not fixed by Go: the order in which a publication visits its snapshot
                        is a parameter of the model (the [guide]: the model visits first the
                        listeners named by the guide, in that order, then the rest in creation
                        order).  Theorems quantify over all guides; the correspondence check
                        uses the implementation's own trace as guide.
     blocking forever   VDeadlock (terminal): the only source in the repaired code is a
                        channel-mode Publish by the owner on a full queue.

   The state is split in two: [view] is everything that is a function of the emitted trace
   alone (it is updated ONLY by [vstep], one event at a time, so "view = fold vstep trace"
   holds by construction) and the rest (callback attributes, channel modes, global
   registration, programs, guide). *)
From Cell2V Require Import Common.Tac Common.ListX Common.AList.

Definition QCAP : Z := 999.
Definition DEPTH : nat := 2.
Definition REPMAX : Z := 1200.
Definition BUDGET : Z := 300.   (* callbacks stop running their programs once the case's trace
                                   has this many events (bounds re-entrant blow-up; same cut-off
                                   in the harness' scripted closures) *)

(* ---------------------------------------------------------------- operations *)
Inductive action :=
| ASub (c n how code : Z) (bound : list Z) (pid : Z)
    (* local: how = 0 Subscribe, otherwise GSubscribe;
       light: how = 0 Subscribe (refused if the list has a listener with that code pointer),
              how = 1 SubscribeNoCheck, how >= 2 SubscribeWithReceiver(receiver #how) *)
| AUnsub (c n l : Z)          (* local Unsubscribe / light UnsubscribeById, with l's id *)
| AUnsubSelf                  (* the running listener unsubscribes itself *)
| AUnsubCb (c n how code : Z) (* light: how < 2 Unsubscribe(cb), else UnsubscribeWithReceiver *)
| AClear (c : Z)
| APub (c n : Z) (args : list Z)
| AGPub (n : Z) (args : list Z) (k : Z)   (* GetGlobalEC().Publish, k times (k>1: queue filler) *)
| AStop (c : Z).              (* StandardRunService.Stop() of the service of centre c *)

Inductive op :=
| ODef (pid : Z) (prog : list action)   (* (re)define callback program pid *)
| OAct (a : action)                     (* the driver goroutine performs a, outside any listener *)
| ODrain (c k : Z)                      (* owner: up to k times { e, ok := <-chan; DoEvent(e) } *)
| ODiscard (c k : Z)                    (* owner: receive up to k events and throw them away *)
| OSetChan (c : Z) (b : bool)           (* SetLocalUseChan *)
| OStart (c : Z)                        (* driver: Start() of service c; its loop runs until idle *)
| ORun (c : Z)                          (* the loop of c is released and runs until idle / ended *)
| OOwn (c : Z) (a : action)             (* the loop goroutine of c (busy in a task) performs a *)
(* probe centres 6, 7: user implementations of ILocalEventCenter (a queue, no listeners) that talk
   to the global centre directly, each on its own goroutine *)
| OReg (c n : Z) (b : bool)             (* GetGlobalEC().Subscribe (b) / Unsubscribe (~b) (name n, probe c) *)
| OPark (c n : Z) (b : bool)            (* the same call, started on the probe's goroutine and held inside
                                           the global centre: after the lookup of n's list, at the call
                                           the global centre makes on the centre object (GetId) *)
| ORelease (c : Z).                     (* the held call of probe c continues and returns *)

(* ---------------------------------------------------------------- trace events *)
Inductive ev :=
| VOp                                              (* a top-level op starts *)
| VSub (l c n : Z) (g : bool) (bound : list Z)     (* Subscribe returned the id of new listener l *)
| VSubFail                                         (* Subscribe returned 0 *)
| VUnsub (c n l : Z)                               (* Unsubscribe(n, id of l) called on c *)
| VUnsubCb (c n l : Z)                             (* unsubscribe by callback; l = the match, 0 none *)
| VAmbig                                           (* by-callback target ambiguous: call not issued *)
| VClear (c : Z)
| VBegin (p c n : Z) (args : list Z)               (* publication p: direct Publish / DoEvent *)
| VInv (p l : Z) (args : list Z) (g : Z)           (* listener l entered with these arguments, on goroutine g *)
| VRet (l : Z) (kept : bool)                       (* l returns; its arguments are unchanged *)
| VEnd (p : Z)
| VEnq (c n : Z) (args : list Z)                   (* channel-mode Publish about to send *)
| VGPub (n : Z) (args : list Z) (k : Z) (qlens : list Z)  (* after k global publishes: len of queue 0..3 *)
| VDeq (c n : Z) (args : list Z)                   (* owner received this event from c's queue *)
| VDrop (c : Z) (runs : list (Z * (Z * list Z)))   (* owner received these events, in this order,
                                                      written as maximal runs (count, event) *)
| VNop                                             (* action not applicable to that centre *)
| VDeadlock                                        (* the call never returned (watchdog) *)
| VStart (c : Z)                                   (* Start(): the loop goroutine of service c exists *)
| VStop (c : Z)                                    (* Stop() of service c was called and has returned *)
| VSkip (c k : Z)                                  (* the loop of c received the next k events; nobody invoked *)
| VLoopEnd (c : Z)                                 (* the loop goroutine of c has ended; what was left in
                                                      its queue is never received *)
| VReg (c n : Z)                                   (* global Subscribe(n, probe c) returned *)
| VUnreg (c n : Z)                                 (* global Unsubscribe(n, probe c) returned *)
| VPark (c n : Z) (b : bool)                       (* such a call is held inside the global centre *)
| VDone (c : Z)                                    (* the held call of probe c has returned *)
| VProbe (n : Z) (args : list Z) (k : Z) (qlens : list Z).  (* after k global publishes: len of queue 6, 7 *)

(* ---------------------------------------------------------------- the view of a trace *)
Record linfo := LI { i_l : Z; i_c : Z; i_n : Z; i_g : bool; i_bound : list Z }.
Record frame := FR { f_c : Z; f_n : Z; f_args : list Z; f_snap : list Z; f_seen : list Z }.
Definition queue := list (Z * list Z).

Record view := VW {
  live : list linfo;        (* listeners subscribed and not since unsubscribed / cleared *)
  fresh : Z;                (* next listener token *)
  cleared : list Z;         (* centres on which Clear() was called *)
  frames : alist frame;     (* open publications *)
  npub : Z;                 (* next publication number *)
  queues : alist queue;     (* pending events of local centres *)
  lastfull : bool;          (* the last event was a channel send on a full queue *)
  dead : bool;
  alive : list Z;           (* services whose loop goroutine exists (started, not ended) *)
  stopped : list Z;         (* services on which Stop() was called *)
  pr : list (Z * Z);        (* (probe, name): registered at the global centre *)
  pp : alist (Z * bool) }.  (* probe -> (name, subscribe?) of its call held inside the global centre *)

Definition view0 : view := VW [] 1 [] [] 1 [] false false [] [] [] [].

Definition is_probe (c : Z) : bool := (6 <=? c) && (c <=? 7).
Definition probe_centres : list Z := [6; 7].

Definition is_drv (c : Z) : bool := (0 <=? c) && (c <=? 3).
Definition is_svc (c : Z) : bool := (4 <=? c) && (c <=? 5).
Definition is_local (c : Z) : bool := (0 <=? c) && (c <=? 5).
Definition is_light (c : Z) : bool := (10 <=? c) && (c <=? 11).
Definition local_centres : list Z := [0; 1; 2; 3; 4; 5].

(* the goroutine that owns centre c: the loop of its run service while that loop exists, the
   driver otherwise *)
Definition loop_alive (w : view) (c : Z) : bool := is_svc c && zmem c (alive w).
Definition owner (w : view) (c : Z) : Z := if loop_alive w c then c else 0.

Definition at_cn (c n : Z) (i : linfo) : bool := (i_c i =? c) && (i_n i =? n).
Definition members (w : view) (c n : Z) : list linfo := filter (at_cn c n) (live w).
Definition find_live (w : view) (l : Z) : option linfo := find (fun i => i_l i =? l) (live w).
Definition queue_of (w : view) (c : Z) : queue :=
  match aget c (queues w) with Some q => q | None => [] end.
Definition qlen (w : view) (c : Z) : Z := Z.of_nat (length (queue_of w c)).

Definition set_live (w : view) (x : list linfo) : view :=
  VW x (fresh w) (cleared w) (frames w) (npub w) (queues w) (lastfull w) (dead w) (alive w) (stopped w) (pr w) (pp w).
Definition set_fresh (w : view) (x : Z) : view :=
  VW (live w) x (cleared w) (frames w) (npub w) (queues w) (lastfull w) (dead w) (alive w) (stopped w) (pr w) (pp w).
Definition set_cleared (w : view) (x : list Z) : view :=
  VW (live w) (fresh w) x (frames w) (npub w) (queues w) (lastfull w) (dead w) (alive w) (stopped w) (pr w) (pp w).
Definition set_frames (w : view) (x : alist frame) : view :=
  VW (live w) (fresh w) (cleared w) x (npub w) (queues w) (lastfull w) (dead w) (alive w) (stopped w) (pr w) (pp w).
Definition set_npub (w : view) (x : Z) : view :=
  VW (live w) (fresh w) (cleared w) (frames w) x (queues w) (lastfull w) (dead w) (alive w) (stopped w) (pr w) (pp w).
Definition set_queue (w : view) (c : Z) (q : queue) : view :=
  VW (live w) (fresh w) (cleared w) (frames w) (npub w) (aset c q (queues w)) (lastfull w) (dead w)
     (alive w) (stopped w) (pr w) (pp w).
Definition set_lastfull (w : view) (b : bool) : view :=
  VW (live w) (fresh w) (cleared w) (frames w) (npub w) (queues w) b (dead w) (alive w) (stopped w) (pr w) (pp w).
Definition set_dead (w : view) (b : bool) : view :=
  VW (live w) (fresh w) (cleared w) (frames w) (npub w) (queues w) (lastfull w) b (alive w) (stopped w) (pr w) (pp w).
Definition set_alive (w : view) (x : list Z) : view :=
  VW (live w) (fresh w) (cleared w) (frames w) (npub w) (queues w) (lastfull w) (dead w) x (stopped w) (pr w) (pp w).
Definition set_stopped (w : view) (x : list Z) : view :=
  VW (live w) (fresh w) (cleared w) (frames w) (npub w) (queues w) (lastfull w) (dead w) (alive w) x (pr w) (pp w).

Definition set_pr (w : view) (x : list (Z * Z)) : view :=
  VW (live w) (fresh w) (cleared w) (frames w) (npub w) (queues w) (lastfull w) (dead w) (alive w) (stopped w)
     x (pp w).
Definition set_pp (w : view) (x : alist (Z * bool)) : view :=
  VW (live w) (fresh w) (cleared w) (frames w) (npub w) (queues w) (lastfull w) (dead w) (alive w) (stopped w)
     (pr w) x.

Definition repeat_ev (x : Z * list Z) (k : Z) : queue := repeat x (Z.to_nat k).

(* run-length form of a list of events (keeps the trace of a 999-event queue small) *)
Definition qev_eqb (x y : Z * list Z) : bool := (fst x =? fst y) && zlist_eqb (snd x) (snd y).
Fixpoint rle (q : queue) : list (Z * (Z * list Z)) :=
  match q with
  | [] => []
  | x :: r =>
      match rle r with
      | (k, y) :: t => if qev_eqb x y then (k + 1, y) :: t else (1, x) :: (k, y) :: t
      | [] => [(1, x)]
      end
  end.
Fixpoint expand (l : list (Z * (Z * list Z))) : queue :=
  match l with
  | [] => []
  | (k, x) :: t => repeat_ev x k ++ expand t
  end.

(* after a global publication the observed queue lengths say how many copies each centre got *)
Fixpoint grow (w : view) (x : Z * list Z) (cs qlens : list Z) : view :=
  match cs, qlens with
  | c :: cr, q :: qr =>
      grow (set_queue w c (queue_of w c ++ repeat_ev x (q - qlen w c))) x cr qr
  | _, _ => w
  end.

Definition pair_mem (c n : Z) (l : list (Z * Z)) : bool :=
  existsb (fun x => (fst x =? c) && (snd x =? n)) l.
Definition pair_del (c n : Z) (l : list (Z * Z)) : list (Z * Z) :=
  filter (fun x => negb ((fst x =? c) && (snd x =? n))) l.
Definition pair_add (c n : Z) (l : list (Z * Z)) : list (Z * Z) :=
  if pair_mem c n l then l else (c, n) :: l.
(* a probe whose call is held: what the call does to the registration once it returns *)
Definition pr_after (w : view) (c : Z) : list (Z * Z) :=
  match aget c (pp w) with
  | Some (n, true) => pair_add c n (pr w)
  | Some (n, false) => pair_del c n (pr w)
  | None => pr w
  end.
(* probe queues are observed (VProbe after every VGPub) while some probe is registered or held *)
Definition probing (w : view) : bool :=
  match pr w, pp w with [], [] => false | _, _ => true end.

Definition vstep0 (w : view) (e : ev) : view :=
  match e with
  | VSub l c n g b => set_fresh (set_live w (live w ++ [LI l c n g b])) (l + 1)
  | VUnsub c n l | VUnsubCb c n l =>
      set_live w (filter (fun i => negb ((i_l i =? l) && at_cn c n i)) (live w))
  | VClear c =>
      set_cleared (set_live w (filter (fun i => negb (i_c i =? c)) (live w))) (c :: cleared w)
  | VStop c =>
      (* Stop() clears the centre *)
      set_stopped (set_cleared (set_live w (filter (fun i => negb (i_c i =? c)) (live w))) (c :: cleared w))
                  (c :: stopped w)
  | VBegin p c n a =>
      set_npub (set_frames w (aset p (FR c n a (map i_l (members w c n)) []) (frames w))) (p + 1)
  | VInv p l _ _ =>
      match aget p (frames w) with
      | Some f => set_frames w (aset p (FR (f_c f) (f_n f) (f_args f) (f_snap f) (l :: f_seen f)) (frames w))
      | None => w
      end
  | VEnd p => set_frames w (adel p (frames w))
  | VEnq c n a =>
      if qlen w c <? QCAP then set_queue w c (queue_of w c ++ [(n, a)]) else w
  | VGPub n a _ qlens => grow w (n, a) local_centres qlens
  | VDeq c _ _ => set_queue w c (tl (queue_of w c))
  | VDrop c runs => set_queue w c (skipn (length (expand runs)) (queue_of w c))
  | VSkip c k => set_queue w c (skipn (Z.to_nat k) (queue_of w c))
  | VStart c => set_alive w (c :: alive w)
  | VLoopEnd c => set_alive (set_queue w c []) (filter (fun x => negb (x =? c)) (alive w))
  | VReg c n => set_pr w (pair_add c n (pr w))
  | VUnreg c n => set_pr w (pair_del c n (pr w))
  | VPark c n b => set_pp w (aset c (n, b) (pp w))
  | VDone c => set_pp (set_pr w (pr_after w c)) (adel c (pp w))
  | VProbe n a _ qlens => grow w (n, a) probe_centres qlens
  | VDeadlock => set_dead w true
  | VOp | VSubFail | VAmbig | VRet _ _ | VNop => w
  end.

Definition vstep (w : view) (e : ev) : view :=
  let w1 := vstep0 w e in
  set_lastfull w1 (match e with VEnq c _ _ => QCAP <=? qlen w c | _ => false end).

Definition view_of (t : list ev) : view := fold_left vstep t view0.

(* ---------------------------------------------------------------- model state *)
Record st := ST {
  vw : view;
  attrs : alist (Z * Z * Z);   (* per listener token: program id, code pointer, receiver *)
  chanm : list Z;              (* local centres whose localUseChan is true *)
  greg : list (Z * Z);         (* (centre, name): ListenerList.Global = registered globally *)
  progs : alist (list action);
  guide : list ev;             (* rest of the order oracle *)
  log : list ev }.             (* emitted trace, newest first *)

Definition init (g : list ev) : st := ST view0 [] [1; 2; 3; 4; 5] [] [] g [].

Definition set_vw (s : st) (w : view) : st :=
  ST w (attrs s) (chanm s) (greg s) (progs s) (guide s) (log s).
Definition set_attrs (s : st) (x : alist (Z * Z * Z)) : st :=
  ST (vw s) x (chanm s) (greg s) (progs s) (guide s) (log s).
Definition set_chanm (s : st) (x : list Z) : st :=
  ST (vw s) (attrs s) x (greg s) (progs s) (guide s) (log s).
Definition set_greg (s : st) (x : list (Z * Z)) : st :=
  ST (vw s) (attrs s) (chanm s) x (progs s) (guide s) (log s).
Definition set_progs (s : st) (x : alist (list action)) : st :=
  ST (vw s) (attrs s) (chanm s) (greg s) x (guide s) (log s).
Definition set_guide (s : st) (x : list ev) : st :=
  ST (vw s) (attrs s) (chanm s) (greg s) (progs s) x (log s).

(* the ONLY function that changes the view and the log; it also advances the guide *)
Definition emit (e : ev) (s : st) : st :=
  if dead (vw s) then s
  else ST (vstep (vw s) e) (attrs s) (chanm s) (greg s) (progs s) (tl (guide s)) (e :: log s).


Definition cnorm (code : Z) : Z := code mod 4.
Definition attr_of (s : st) (l : Z) : Z * Z * Z :=
  match aget l (attrs s) with Some a => a | None => (0, 0, 0) end.
Definition code_of (s : st) (l : Z) : Z := snd (fst (attr_of s l)).
Definition recv_of (s : st) (l : Z) : Z := snd (attr_of s l).
Definition pid_of (s : st) (l : Z) : Z := fst (fst (attr_of s l)).
Definition prog_of (s : st) (l : Z) : list action :=
  match aget (pid_of s l) (progs s) with Some p => p | None => [] end.

(* light.ListenerList.FindId / FindIdWithReceiver: which listeners of the list match *)
Definition cb_match (s : st) (how code : Z) (i : linfo) : bool :=
  let l := i_l i in
  if how <? 2 then code_of s l =? cnorm code
  else if recv_of s l =? 0 then code_of s l =? cnorm code
       else (code_of s l =? cnorm code) && (recv_of s l =? how).
Definition cb_matches (s : st) (c n how code : Z) : list linfo :=
  filter (cb_match s how code) (members (vw s) c n).

Definition running (s : st) (c : Z) : bool := negb (zmem c (cleared (vw s))).

(* Subscribe / GSubscribe / light Subscribe* *)
Definition do_sub (c n how code : Z) (bound : list Z) (pid : Z) (s : st) : st :=
  if negb (is_local c || is_light c) then emit VNop s
  else if negb (running s c) then emit VSubFail s
  else
    let refused :=
      is_light c && negb (how =? 1) &&
      match cb_matches s c n how code with [] => false | _ => true end in
    if refused then emit VSubFail s
    else
      let l := fresh (vw s) in
      let g := is_local c && negb (how =? 0) in
      let recv := if is_light c && (2 <=? how) then how else 0 in
      let s1 := set_attrs s (aset l (pid, cnorm code, recv) (attrs s)) in
      let s2 := if g && negb (pair_mem c n (greg s1)) then set_greg s1 ((c, n) :: greg s1) else s1 in
      emit (VSub l c n g bound) s2.

(* LocalEventCenter.Unsubscribe: Del, then drop the global registration if the list is empty *)
Definition after_unsub (c n : Z) (s : st) : st :=
  if is_local c && pair_mem c n (greg s) &&
     match members (vw s) c n with [] => true | _ => false end
  then set_greg s (pair_del c n (greg s)) else s.

Definition do_unsub (c n l : Z) (s : st) : st :=
  if negb (is_local c || is_light c) then emit VNop s
  else after_unsub c n (emit (VUnsub c n l) s).

Definition do_unsub_cb (c n how code : Z) (s : st) : st :=
  if negb (is_light c) then emit VNop s
  else match cb_matches s c n how code with
       | [] => emit (VUnsubCb c n 0) s
       | [i] => emit (VUnsubCb c n (i_l i)) s
       | _ => emit VAmbig s
       end.

Definition do_clear (c : Z) (s : st) : st :=
  if negb (is_local c || is_light c) then emit VNop s
  else emit (VClear c) (set_greg s (filter (fun x => negb (fst x =? c)) (greg s))).

(* StandardRunService.Stop(): TimerMgr.Stop(); EventCenter.Clear(); RunService.Stop().  Only a
   service whose loop exists and that was not stopped before (a second Stop() panics on the
   closed channel: not issued). *)
Definition can_stop (w : view) (c : Z) : bool := loop_alive w c && negb (zmem c (stopped w)).
Definition do_stop (c : Z) (s : st) : st :=
  if can_stop (vw s) c
  then emit (VStop c) (set_greg s (filter (fun x => negb (fst x =? c)) (greg s)))
  else emit VNop s.

(* GlobalEventCenter.Publish, k times: non-blocking send to every registered centre *)
Definition gpub_len (s : st) (n k c : Z) : Z :=
  if pair_mem c n (greg s) then Z.min QCAP (qlen (vw s) c + k) else qlen (vw s) c.
Definition clampk (k : Z) : Z := Z.max 0 (Z.min k REPMAX).
(* ... and to every registered probe; a probe whose Subscribe is held inside the global centre
   is not in the list yet, one whose Unsubscribe is held still is *)
Definition pgpub_len (w : view) (n k c : Z) : Z :=
  if pair_mem c n (pr w) then Z.min QCAP (qlen w c + k) else qlen w c.
Definition do_gpub (n : Z) (args : list Z) (k : Z) (s : st) : st :=
  let s1 := emit (VGPub n args (clampk k) (map (gpub_len s n (clampk k)) local_centres)) s in
  if probing (vw s1)
  then emit (VProbe n args (clampk k) (map (pgpub_len (vw s1) n (clampk k)) probe_centres)) s1
  else s1.

(* ---------------------------------------------------------------- one nesting level *)
Definition hint (p : Z) (s : st) : option Z :=
  match guide s with
  | VInv p' l _ _ :: _ => if p' =? p then Some l else None
  | _ => None
  end.

Definition pick (h : option Z) (todo : list Z) : option (Z * list Z) :=
  match todo with
  | [] => None
  | x :: r =>
      match h with
      | Some l => if zmem l todo then Some (l, remove_first l todo) else Some (x, r)
      | None => Some (x, r)
      end
  end.

Section Level.
  (* the goroutine that executes *)
  Variable g : Z.
  (* what invoking a listener (one level deeper) does *)
  Variable invoke_below : Z -> linfo -> list Z -> st -> st.

  (* the executing goroutine owns centre c *)
  Definition mine (s : st) (c : Z) : bool := g =? owner (vw s) c.

  (* the body of the repaired dispatch loop over the snapshot [todo] *)
  Fixpoint visit (k : nat) (p c n : Z) (args : list Z) (todo : list Z) (s : st) : st :=
    match k with
    | O => s
    | S k' =>
        match pick (hint p s) todo with
        | None => s
        | Some (l, rest) =>
            let s1 :=
              if running s c then
                match find_live (vw s) l with
                | Some i => if at_cn c n i then invoke_below p i args s else s
                | None => s
                end
              else s in
            visit k' p c n args rest s1
        end
    end.

  Definition dispatch (c n : Z) (args : list Z) (s : st) : st :=
    let p := npub (vw s) in
    let s1 := emit (VBegin p c n args) s in
    let todo := map i_l (members (vw s) c n) in
    emit (VEnd p) (visit (length todo) p c n args todo s1).

  Definition publish (c n : Z) (args : list Z) (s : st) : st :=
    if is_light c then (if mine s c then dispatch c n args s else emit VNop s)
    else if is_local c then
      if zmem c (chanm s) then
        (* a send: from any goroutine *)
        let s1 := emit (VEnq c n args) s in
        if lastfull (vw s1) then emit VDeadlock s1 else s1
      else if mine s c then dispatch c n args s else emit VNop s
    else emit VNop s.

  Definition exec_act (self : option linfo) (a : action) (s : st) : st :=
    if dead (vw s) then s else
    match a with
    | ASub c n how code bound pid => if mine s c then do_sub c n how code bound pid s else emit VNop s
    | AUnsub c n l => if mine s c then do_unsub c n l s else emit VNop s
    | AUnsubSelf =>
        match self with
        | Some i => if mine s (i_c i) then do_unsub (i_c i) (i_n i) (i_l i) s else emit VNop s
        | None => emit VNop s
        end
    | AUnsubCb c n how code => if mine s c then do_unsub_cb c n how code s else emit VNop s
    | AClear c => if mine s c then do_clear c s else emit VNop s
    | APub c n args => publish c n args s
    | AGPub n args k => do_gpub n args k s
    | AStop c => do_stop c s
    end.

  Definition run_prog (self : option linfo) (acts : list action) (s : st) : st :=
    fold_left (fun s a => exec_act self a s) acts s.
End Level.

Definition in_budget (s : st) : bool := Z.of_nat (length (log s)) <? BUDGET.

Fixpoint invoke (g : Z) (d : nat) (p : Z) (i : linfo) (args : list Z) (s : st) : st :=
  let s1 := emit (VInv p (i_l i) (i_bound i ++ args) g) s in
  let s2 := match d with
            | O => s1
            | S d' =>
                if in_budget s1 then run_prog g (invoke g d') (Some i) (prog_of s1 (i_l i)) s1 else s1
            end in
  emit (VRet (i_l i) true) s2.

(* driver: receive one event and DoEvent it, up to k times, stopping when the queue is empty *)
Fixpoint drain (k : nat) (c : Z) (s : st) : st :=
  match k with
  | O => s
  | S k' =>
      match queue_of (vw s) c with
      | [] => s
      | (n, a) :: _ =>
          if dead (vw s) then s
          else drain k' c (dispatch (invoke 0 DEPTH) c n a (emit (VDeq c n a) s))
      end
  end.

(* ---------------------------------------------------------------- the loop of a run service *)
(* an event nobody at centre c listens to: DoEvent finds no listener list / an empty one *)
Definition noone (w : view) (c : Z) (x : Z * list Z) : bool :=
  match members w c (fst x) with [] => true | _ => false end.
Fixpoint noone_prefix (w : view) (c : Z) (q : queue) : nat :=
  match q with
  | x :: r => if noone w c x then S (noone_prefix w c r) else O
  | [] => O
  end.

Definition LOOPFUEL : nat := Z.to_nat 3000.

(* the "event" selector of StandardRunService: receive, DoEvent - on the loop goroutine c - until
   the queue is empty; once Stop() was called (by a listener) the loop is on its way out *)
Fixpoint loop (k : nat) (c : Z) (s : st) : st :=
  match k with
  | O => s
  | S k' =>
      if dead (vw s) || zmem c (stopped (vw s)) then s
      else
        let sk := noone_prefix (vw s) c (queue_of (vw s) c) in
        let s1 := match sk with O => s | S _ => emit (VSkip c (Z.of_nat sk)) s end in
        match queue_of (vw s1) c with
        | [] => s1
        | (n, a) :: _ => loop k' c (dispatch (invoke c DEPTH) c n a (emit (VDeq c n a) s1))
        end
  end.

Definition run_loop (c : Z) (s : st) : st :=
  let s1 := loop LOOPFUEL c s in
  if zmem c (stopped (vw s1)) then emit (VLoopEnd c) s1 else s1.

Definition can_start (w : view) (c : Z) : bool :=
  is_svc c && negb (zmem c (alive w)) && negb (zmem c (stopped w)).

Fixpoint resync (g : list ev) : list ev :=
  match g with
  | [] => []
  | VOp :: _ => g
  | _ :: r => resync r
  end.

(* probe c exists and its goroutine is not inside a held call *)
Definition probe_free (w : view) (c : Z) : bool :=
  is_probe c && match aget c (pp w) with None => true | Some _ => false end.

Definition exec_op (s : st) (o : op) : st :=
  let s0 := emit VOp (set_guide s (resync (guide s))) in
  match o with
  | ODef pid prog => set_progs s0 (aset pid prog (progs s0))
  | OAct a => exec_act 0 (invoke 0 DEPTH) None a s0
  | ODrain c k => if is_drv c then drain (Z.to_nat (Z.max 0 (Z.min k 50))) c s0 else emit VNop s0
  | ODiscard c k =>
      if is_drv c then emit (VDrop c (rle (firstn (Z.to_nat (clampk k)) (queue_of (vw s0) c)))) s0
      else emit VNop s0
  | OSetChan c b =>
      if is_drv c then
        set_chanm s0 (if b then c :: filter (fun x => negb (x =? c)) (chanm s0)
                      else filter (fun x => negb (x =? c)) (chanm s0))
      else emit VNop s0
  | OStart c => if can_start (vw s0) c then run_loop c (emit (VStart c) s0) else emit VNop s0
  | ORun c => if loop_alive (vw s0) c then run_loop c s0 else emit VNop s0
  | OOwn c a => if loop_alive (vw s0) c then exec_act c (invoke c DEPTH) None a s0 else emit VNop s0
  | OReg c n b =>
      if probe_free (vw s0) c then emit (if b then VReg c n else VUnreg c n) s0 else emit VNop s0
  | OPark c n b => if probe_free (vw s0) c then emit (VPark c n b) s0 else emit VNop s0
  | ORelease c => match aget c (pp (vw s0)) with Some _ => emit (VDone c) s0 | None => emit VNop s0 end
  end.

Definition final (g : list ev) (ops : list op) : st := fold_left exec_op ops (init g).
Definition run (g : list ev) (ops : list op) : list ev := rev (log (final g ops)).
