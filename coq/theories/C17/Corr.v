(* C17 - correspondence entry point.  A case is (ops, trace observed on the real code).
   [agree]   the model, run on the same ops with the observed trace as its order oracle
             (Model.v: the guide only chooses the order in which a publication visits its
             snapshot - Go map order), reproduces the observed trace exactly;
   [monitor] the property itself (Spec.holds_b) evaluated on the observed trace. *)
From Cell2V Require Import Common.Tac Common.ListX Common.AList C17.Model C17.Spec.

Definition ev_eqb (x y : ev) : bool :=
  match x, y with
  | VOp, VOp | VSubFail, VSubFail | VAmbig, VAmbig | VNop, VNop | VDeadlock, VDeadlock => true
  | VSub l c n g b, VSub l' c' n' g' b' =>
      (l =? l') && (c =? c') && (n =? n') && Bool.eqb g g' && zlist_eqb b b'
  | VUnsub c n l, VUnsub c' n' l' | VUnsubCb c n l, VUnsubCb c' n' l' =>
      (c =? c') && (n =? n') && (l =? l')
  | VClear c, VClear c' | VStart c, VStart c' | VStop c, VStop c' | VLoopEnd c, VLoopEnd c' => c =? c'
  | VSkip c k, VSkip c' k' => (c =? c') && (k =? k')
  | VReg c n, VReg c' n' | VUnreg c n, VUnreg c' n' => (c =? c') && (n =? n')
  | VPark c n b, VPark c' n' b' => (c =? c') && (n =? n') && Bool.eqb b b'
  | VDone c, VDone c' => c =? c'
  | VProbe n a k q, VProbe n' a' k' q' => (n =? n') && zlist_eqb a a' && (k =? k') && zlist_eqb q q'
  | VBegin p c n a, VBegin p' c' n' a' => (p =? p') && (c =? c') && (n =? n') && zlist_eqb a a'
  | VInv p l a g, VInv p' l' a' g' => (p =? p') && (l =? l') && zlist_eqb a a' && (g =? g')
  | VRet l k, VRet l' k' => (l =? l') && Bool.eqb k k'
  | VEnd p, VEnd p' => p =? p'
  | VEnq c n a, VEnq c' n' a' | VDeq c n a, VDeq c' n' a' => (c =? c') && (n =? n') && zlist_eqb a a'
  | VDrop c i, VDrop c' i' =>
      (c =? c') && list_eqb (pair_eqb Z.eqb (pair_eqb Z.eqb zlist_eqb)) i i'
  | VGPub n a k q, VGPub n' a' k' q' => (n =? n') && zlist_eqb a a' && (k =? k') && zlist_eqb q q'
  | _, _ => false
  end.

Definition case := (list op * list ev)%type.

Definition agree (c : case) : bool := list_eqb ev_eqb (run (snd c) (fst c)) (snd c).
Definition monitor (c : case) : bool := holds_b (snd c).

Definition disagreeing (cs : list case) : list Z := failing agree cs.
Definition monitor_failing (cs : list case) : list Z := failing monitor cs.

(* what the model does when it follows its own default order (for the replay report) *)
Definition show (ops : list op) : list ev := run [] ops.
