(* C09ring - property theorems only: the two queues under the actor mailbox refine FIFO lists.
   Each is closed by [exact] of a lemma from Proofs.v and followed by Print Assumptions. *)
From Cell2V Require Import Common.Tac Common.ListX C09ring.Model C09ring.Spec C09ring.Proofs.

(* ---- goring (user mailbox): every initial capacity >= 1, every state reachable or not that
        satisfies the representation invariant - in particular every growth step *)
Theorem Ring_new_refines : forall n, 1 <= n -> wf (new n) /\ abs (new n) = [].
Proof. exact ring_new_refines. Qed.
Print Assumptions Ring_new_refines.

Theorem Ring_push_refines : forall r x, wf r -> abs (push r x) = abs r ++ [x] /\ wf (push r x).
Proof. exact ring_push_refines. Qed.
Print Assumptions Ring_push_refines.

Theorem Ring_pop_refines : forall r, wf r ->
  match abs r with
  | [] => pop r = (r, (None, false))
  | x :: t => exists r', pop r = (r', (Some x, true)) /\ abs r' = t /\ wf r'
  end.
Proof. exact ring_pop_refines. Qed.
Print Assumptions Ring_pop_refines.

Theorem Ring_popmany_refines : forall r k, wf r -> 0 <= k ->
  match abs r with
  | [] => pop_many r k = (r, ([], false))
  | _ => exists r', pop_many r k = (r', (map Some (firstn (Z.to_nat k) (abs r)), true)) /\
                    abs r' = skipn (Z.to_nat k) (abs r) /\ wf r'
  end.
Proof. exact ring_popmany_refines. Qed.
Print Assumptions Ring_popmany_refines.

Theorem Ring_len_refines : forall r, wf r -> r_len r = Z.of_nat (length (abs r)).
Proof. exact ring_len_refines. Qed.
Print Assumptions Ring_len_refines.

(* any operation sequence from any well-formed ring: same results as the list, and the final
   ring still represents the list's final contents *)
Theorem Ring_refines_fifo : forall ops r, wf r -> counts_ok ops ->
  snd (qrun ring_step r ops) = snd (qrun fifo_step (abs r) ops) /\
  abs (fst (qrun ring_step r ops)) = fst (qrun fifo_step (abs r) ops) /\
  wf (fst (qrun ring_step r ops)).
Proof. exact ring_refines_fifo. Qed.
Print Assumptions Ring_refines_fifo.

Theorem Ring_refines_fifo_new : forall n ops, 1 <= n -> counts_ok ops ->
  snd (qrun ring_step (new n) ops) = snd (qrun fifo_step [] ops).
Proof. exact ring_refines_fifo_new. Qed.
Print Assumptions Ring_refines_fifo_new.

(* no index-out-of-range / divide-by-zero panic in any method on any well-formed ring *)
Theorem Ring_no_panic : forall r o, wf r -> (forall k, o = QPopMany k -> 0 <= k) ->
  op_inbounds r o = true.
Proof. exact ring_inbounds. Qed.
Print Assumptions Ring_no_panic.

(* Pop/PopMany test Empty() before taking the lock: once the single consumer has seen len > 0,
   whatever pushes run before it gets the lock, the locked part is an atomic Pop there *)
Theorem Ring_pop_split_atomic : forall r xs, wf r -> 0 < r_len r ->
  pop_locked (pushes r xs) = pop (pushes r xs) /\
  forall k, popmany_locked (pushes r xs) k = pop_many (pushes r xs) k.
Proof. exact pop_split_atomic. Qed.
Print Assumptions Ring_pop_split_atomic.

(* ---- mpsc (system mailbox): every schedule of any number of producers (two steps per push)
        and the consumer *)
Theorem Mpsc_refines_fifo : forall sched,
  let s := fst (mrun sched) in
  let out := snd (mrun sched) in
  (* successful pops return exactly the consumed prefix of the swap order: nothing twice,
     nothing out of order, nothing invented *)
  popped out = map val (popped_nodes s) /\
  prefix (popped out) (swap_order s) /\
  length (popped out) = consumed s /\
  (consumed s <= length (chain s))%nat /\
  (* the swap order restricted to one producer is that producer's program order *)
  (forall p, map val (by_owner p (chain s)) = issued p false sched) /\
  (forall p, prefix (map val (by_owner p (popped_nodes s))) (issued p false sched)) /\
  (* Pop returns nil only if nothing is ahead or the next node's producer is mid-push *)
  (next_visible s = None ->
     consumed s = length (chain s) \/ exists p, pfind p (pend s) = Some (consumed s)) /\
  (* once all pushes have completed, everything pushed and not yet popped comes out, in swap
     order, and then the queue is empty *)
  (quiescent s ->
     let k := (length (chain s) - consumed s)%nat in
     snd (mrun_from s (repeat EPop k)) =
       map (fun x => MPopRes (Some x)) (skipn (consumed s) (swap_order s)) /\
     next_visible (fst (mrun_from s (repeat EPop k))) = None /\
     popped out ++ skipn (consumed s) (swap_order s) = swap_order s).
Proof. exact mpsc_refines_fifo. Qed.
Print Assumptions Mpsc_refines_fifo.

(* used from one goroutine the MPSC list is a list FIFO *)
Theorem Mpsc_sequential_fifo : forall ops,
  snd (mrun (flat_map compile ops)) = sfifo [] ops.
Proof. exact (fun ops => mpsc_sequential ops minit [] seq_inv_init). Qed.
Print Assumptions Mpsc_sequential_fifo.

(* ---- what the harness compares: the exact models, run on any operation list, produce the
        observations of two plain lists *)
Theorem C09ring_run_is_fifo : forall ops, run ops = spec_run ops.
Proof. exact run_is_spec. Qed.
Print Assumptions C09ring_run_is_fifo.

(* non-vacuity: capacity 2 grows twice (2 -> 4 -> 8) with a wrapped head; the live items
   survive in order *)
Example Ring_example_growth :
  run [ONew 2; OPush 1; OPop; OPush 2; OPush 3; OPush 4; OPop; OPush 5; OPush 6; OPush 7; OLen;
       OPopMany 2; OPopMany 9; OPop]
  = [BUnit; BUnit; BPop (Some 1) true; BUnit; BUnit; BUnit; BPop (Some 2) true; BUnit; BUnit;
     BUnit; BLen 5; BMany [Some 3; Some 4] true; BMany [Some 5; Some 6; Some 7] true;
     BPop None false]
  /\ r_mod (fst (fst (run_from init
       [ONew 2; OPush 1; OPop; OPush 2; OPush 3; OPush 4; OPop; OPush 5; OPush 6; OPush 7]))) = 8.
Proof. vm_compute. split; reflexivity. Qed.

(* non-vacuity: producer 1 swaps first but links last; the consumer sees nothing until then,
   and then gets the swap order *)
Example Mpsc_example_window :
  snd (mrun [ESwap 1 10; ESwap 2 20; ELink 2; EPop; ELink 1; EPop; EPop; EPop])
  = [MPopRes None; MPopRes (Some 10); MPopRes (Some 20); MPopRes None]
  /\ issued 1 false [ESwap 1 10; ESwap 2 20; ELink 2; EPop; ELink 1; EPop; EPop; EPop] = [10].
Proof. vm_compute. split; reflexivity. Qed.
