(* C09ring - models of the two queues under the actor mailbox (property C09).  No proofs here.

   (1) actorex/queue/goring/queue.go  (user mailbox: mutex-protected growing ring buffer)
   (2) actorex/queue/mpsc/mpsc.go     (system mailbox: Vyukov non-intrusive MPSC list)

   Go -> model, goring:
     Queue{len, content *ringBuffer{buffer, head, tail, mod}}   record [ring], one field each
     []interface{} holding int64 items / nil                    list (option Z)
     int64 arithmetic                                           Z (sizes are far below 2^63;
                                                                 all operands of % are >= 0 under
                                                                 the invariant, so Go's % = mod)
     buffer[i] / buffer[i] = v                                  bget / bset; the indices used are
                                                                 listed by *_inbounds (proved true
                                                                 under the invariant: no index panic)
     for-loops                                                  fuelled loops, fuel = trip count
   Preconditions (ASSUMPTIONS in bin/props/C09ring.py): New(n) with n >= 1 (n = 0 makes the first
   Push divide by zero), PopMany(k) with k >= 0 (k < 0 panics in make() with the lock held).

   Go -> model, mpsc:
     the singly linked chain of nodes after the stub, in the order of the atomic head swaps
                                                                 list node (owner, val, linked)
     linked = "prev.next = n has been stored"  (second step of Push)
     q.tail                                                      [consumed]: how many nodes were popped
     a producer between its two steps                            entry (p, index of its node) in [pend] *)
From Cell2V Require Import Common.Tac Common.ListX.

(* ------------------------------------------------------------------ goring *)
Record ring := mkRing {
  r_buf : list (option Z);   (* content.buffer *)
  r_head : Z;                (* content.head   *)
  r_tail : Z;                (* content.tail   *)
  r_mod : Z;                 (* content.mod    *)
  r_len : Z                  (* Queue.len      *)
}.

Definition bget (b : list (option Z)) (i : Z) : option Z :=
  match nth_error b (Z.to_nat i) with Some v => v | None => None end.

Definition bset (b : list (option Z)) (i : Z) (v : option Z) : list (option Z) :=
  firstn (Z.to_nat i) b ++ v :: skipn (S (Z.to_nat i)) b.

(* Go's bounds check for b[i] *)
Definition inb (b : list (option Z)) (i : Z) : bool := (0 <=? i) && (i <? Z.of_nat (length b)).

(* New(initialSize) *)
Definition new (n : Z) : ring := mkRing (repeat None (Z.to_nat n)) 0 0 n 0.

(* for i := 0; i < c.mod; i++ { newBuff[i] = c.buffer[(c.tail + i) % c.mod] } *)
Fixpoint copy_loop (old : list (option Z)) (t m : Z) (nb : list (option Z)) (i : Z) (fuel : nat)
  : list (option Z) :=
  match fuel with
  | O => nb
  | S f => copy_loop old t m (bset nb i (bget old ((t + i) mod m))) (i + 1) f
  end.

(* newBuff := make([]interface{}, newLen); copy loop *)
Definition grow_buffer (old : list (option Z)) (t m newLen : Z) : list (option Z) :=
  copy_loop old t m (repeat None (Z.to_nat newLen)) 0 (Z.to_nat m).

Definition push (r : ring) (x : Z) : ring :=
  let t := (r_tail r + 1) mod r_mod r in            (* c.tail = (c.tail + 1) % c.mod *)
  if t =? r_head r then                             (* if c.tail == c.head *)
    let newLen := r_mod r * 2 in
    let nb := grow_buffer (r_buf r) t (r_mod r) newLen in
    (* newContent{buffer: newBuff, head: 0, tail: c.mod, mod: newLen}; len++; buffer[tail] = item *)
    mkRing (bset nb (r_mod r) (Some x)) 0 (r_mod r) newLen (r_len r + 1)
  else
    mkRing (bset (r_buf r) t (Some x)) (r_head r) t (r_mod r) (r_len r + 1).

(* the part of Pop after the Empty() test, executed under the lock *)
Definition pop_locked (r : ring) : ring * (option Z * bool) :=
  let h := (r_head r + 1) mod r_mod r in            (* c.head = (c.head + 1) % c.mod *)
  (mkRing (bset (r_buf r) h None) h (r_tail r) (r_mod r) (r_len r - 1),
   (bget (r_buf r) h, true)).

Definition pop (r : ring) : ring * (option Z * bool) :=
  if r_len r =? 0 then (r, (None, false)) else pop_locked r.

(* for i := 0; i < count; i++ { pos := (c.head+1+i) % c.mod; buffer[i] = c.buffer[pos]; c.buffer[pos] = nil } *)
Fixpoint popmany_loop (b : list (option Z)) (h m i : Z) (fuel : nat)
  : list (option Z) * list (option Z) :=
  match fuel with
  | O => (b, [])
  | S f =>
      let pos := (h + 1 + i) mod m in
      let v := bget b pos in
      let '(b', out) := popmany_loop (bset b pos None) h m (i + 1) f in
      (b', v :: out)
  end.

Definition popmany_locked (r : ring) (k : Z) : ring * (list (option Z) * bool) :=
  let count := if k >=? r_len r then r_len r else k in
  let '(b', out) := popmany_loop (r_buf r) (r_head r) (r_mod r) 0 (Z.to_nat count) in
  (mkRing b' ((r_head r + count) mod r_mod r) (r_tail r) (r_mod r) (r_len r - count),
   (out, true)).

Definition pop_many (r : ring) (k : Z) : ring * (list (option Z) * bool) :=
  if r_len r =? 0 then (r, ([], false)) else popmany_locked r k.

(* every index expression evaluated by the Go code is inside its slice, and % has a non-zero
   divisor: "this call does not panic" *)
Definition push_inbounds (r : ring) : bool :=
  let m := r_mod r in
  let t := (r_tail r + 1) mod m in
  negb (m =? 0) &&
  if t =? r_head r then
    forallb (fun i => inb (r_buf r) ((t + Z.of_nat i) mod m)
                      && (Z.of_nat i <? m * 2)) (seq 0 (Z.to_nat m))
    && (m <? m * 2)
  else inb (r_buf r) t.

Definition pop_inbounds (r : ring) : bool :=
  (r_len r =? 0) || (negb (r_mod r =? 0) && inb (r_buf r) ((r_head r + 1) mod r_mod r)).

Definition popmany_inbounds (r : ring) (k : Z) : bool :=
  (r_len r =? 0) ||
  let count := if k >=? r_len r then r_len r else k in
  (0 <=? count) && negb (r_mod r =? 0) &&
  forallb (fun i => inb (r_buf r) ((r_head r + 1 + Z.of_nat i) mod r_mod r))
          (seq 0 (Z.to_nat count)).

(* abstraction: the items from head+1 to tail, wrapping *)
Definition live (r : ring) : Z := (r_tail r - r_head r) mod r_mod r.
Definition slotpos (h m i : Z) : Z := (h + 1 + i) mod m.
Definition unwrap (o : option Z) : Z := match o with Some x => x | None => 0 end.
Definition abs (r : ring) : list Z :=
  map (fun i => unwrap (bget (r_buf r) (slotpos (r_head r) (r_mod r) (Z.of_nat i))))
      (seq 0 (Z.to_nat (live r))).

(* ------------------------------------------------------------------ mpsc *)
Record node := mkNode { owner : Z; val : Z; linked : bool }.

Record mstate := mkM {
  chain : list node;          (* nodes in the order of the atomic swaps of q.head *)
  pend : list (Z * nat);      (* producers between swap and store, with the index of their node *)
  consumed : nat              (* q.tail is the stub (0) or chain[consumed-1] *)
}.

Definition minit : mstate := mkM [] [] 0.

Inductive ev :=
| ESwap (p : Z) (x : Z)   (* producer p: n := &node{val: x}; prev := swap(&q.head, n) *)
| ELink (p : Z)           (* producer p: store(&prev.next, n) *)
| EPop                    (* consumer: Pop() *)
| EEmpty.                 (* consumer: Empty() *)

Inductive mobs :=
| MPopRes (v : option Z)
| MEmptyRes (b : bool).

Fixpoint pfind (p : Z) (l : list (Z * nat)) : option nat :=
  match l with
  | [] => None
  | (q, i) :: r => if Z.eqb p q then Some i else pfind p r
  end.

Fixpoint premove (p : Z) (l : list (Z * nat)) : list (Z * nat) :=
  match l with
  | [] => []
  | (q, i) :: r => if Z.eqb p q then premove p r else (q, i) :: premove p r
  end.

Fixpoint set_linked (i : nat) (c : list node) : list node :=
  match c, i with
  | [], _ => []
  | n :: r, O => mkNode (owner n) (val n) true :: r
  | n :: r, S j => n :: set_linked j r
  end.

(* tail.next as the consumer sees it *)
Definition next_visible (s : mstate) : option Z :=
  match nth_error (chain s) (consumed s) with
  | Some n => if linked n then Some (val n) else None
  | None => None
  end.

Definition mpop (s : mstate) : mstate * option Z :=
  match next_visible s with
  | Some x => (mkM (chain s) (pend s) (S (consumed s)), Some x)   (* q.tail = next *)
  | None => (s, None)
  end.

Definition mempty (s : mstate) : bool :=
  match next_visible s with Some _ => false | None => true end.

(* an event of a producer that is not in the matching phase is a no-op: every list of events is
   a schedule *)
Definition mstep (s : mstate) (e : ev) : mstate * option mobs :=
  match e with
  | ESwap p x =>
      match pfind p (pend s) with
      | Some _ => (s, None)
      | None => (mkM (chain s ++ [mkNode p x false]) ((p, length (chain s)) :: pend s) (consumed s), None)
      end
  | ELink p =>
      match pfind p (pend s) with
      | Some i => (mkM (set_linked i (chain s)) (premove p (pend s)) (consumed s), None)
      | None => (s, None)
      end
  | EPop => let '(s', v) := mpop s in (s', Some (MPopRes v))
  | EEmpty => (s, Some (MEmptyRes (mempty s)))
  end.

Definition mrun_step (acc : mstate * list mobs) (e : ev) : mstate * list mobs :=
  let '(s, out) := acc in
  let '(s', o) := mstep s e in
  (s', match o with Some b => out ++ [b] | None => out end).

Definition mrun_from (s : mstate) (sched : list ev) : mstate * list mobs :=
  fold_left mrun_step sched (s, []).

Definition mrun (sched : list ev) : mstate * list mobs := mrun_from minit sched.

(* ------------------------------------------------------------------ harness-visible operations *)
Inductive op :=
| ONew (n : Z)            (* q = goring.New(n)           (n >= 1, else skipped) *)
| OPush (x : Z)           (* q.Push(x) *)
| OPop                    (* q.Pop() *)
| OPopMany (k : Z)        (* q.PopMany(k)               (k >= 0, else skipped) *)
| OLen                    (* q.Length() *)
| OStress (np nv n0 : Z)  (* np producers x nv values into goring.New(n0), one consumer *)
| MNew                    (* m = mpsc.New() *)
| MPush (x : Z)           (* m.Push(x) *)
| MPop                    (* m.Pop() *)
| MEmpty                  (* m.Empty() *)
| MStress (np nv : Z).    (* np producers x nv values into mpsc.New(), one consumer *)

Inductive obs :=
| BUnit
| BSkip                                   (* outside the preconditions: not executed *)
| BPop (v : option Z) (ok : bool)
| BMany (vs : list (option Z)) (ok : bool)
| BLen (n : Z)
| BMPop (v : option Z)
| BEmpty (b : bool)
| BStress (order_kept nothing_lost : bool)
| BPanic.

Definition st := (ring * mstate)%type.
Definition init : st := (new 10, minit).   (* the mailbox producer uses goring.New(10), mpsc.New() *)

Definition stress_ok (np nv : Z) : bool :=
  (1 <=? np) && (np <=? 16) && (0 <=? nv) && (nv <=? 20000).

(* the sequential harness calls Push from one goroutine: both steps back to back *)
Definition mpush_seq (m : mstate) (x : Z) : mstate :=
  fst (mstep (fst (mstep m (ESwap 0 x))) (ELink 0)).

Definition step (s : st) (o : op) : st * obs :=
  let '(r, m) := s in
  match o with
  | ONew n => if n <? 1 then (s, BSkip) else ((new n, m), BUnit)
  | OPush x => ((push r x, m), BUnit)
  | OPop => let '(r', (v, ok)) := pop r in ((r', m), BPop v ok)
  | OPopMany k =>
      if k <? 0 then (s, BSkip)
      else let '(r', (vs, ok)) := pop_many r k in ((r', m), BMany vs ok)
  | OLen => (s, BLen (r_len r))
  | OStress np nv n0 =>
      (* Ring_refines_fifo + the mutex: nothing lost, producer order kept *)
      (s, if stress_ok np nv && (1 <=? n0) then BStress true true else BSkip)
  | MNew => ((r, minit), BUnit)
  | MPush x => ((r, mpush_seq m x), BUnit)
  | MPop => let '(m', v) := mpop m in ((r, m'), BMPop v)
  | MEmpty => (s, BEmpty (mempty m))
  | MStress np nv =>
      (* Mpsc_refines_fifo: every schedule pops the swap order, which keeps producer order *)
      (s, if stress_ok np nv then BStress true true else BSkip)
  end.

Definition run_step (acc : st * list obs) (o : op) : st * list obs :=
  let '(s, out) := acc in
  let '(s', b) := step s o in
  (s', out ++ [b]).

Definition run_from (s : st) (ops : list op) : st * list obs := fold_left run_step ops (s, []).
Definition run (ops : list op) : list obs := snd (run_from init ops).
