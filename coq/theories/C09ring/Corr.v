(* C09ring - correspondence entry point.  A case is an operation list run against the real
   goring.Queue / mpsc.Queue and what was observed.
     agree   : the exact models (ring buffer with head/tail/mod, two-step MPSC list) say the same
     monitor : two plain FIFO lists say the same (the property itself, on the implementation's trace) *)
From Cell2V Require Import Common.Tac Common.ListX C09ring.Model C09ring.Spec.

Definition oz_eqb : option Z -> option Z -> bool := option_eqb Z.eqb.

Definition obs_eqb (a b : obs) : bool :=
  match a, b with
  | BUnit, BUnit => true
  | BSkip, BSkip => true
  | BPop v ok, BPop v' ok' => oz_eqb v v' && Bool.eqb ok ok'
  | BMany vs ok, BMany vs' ok' => list_eqb oz_eqb vs vs' && Bool.eqb ok ok'
  | BLen n, BLen n' => Z.eqb n n'
  | BMPop v, BMPop v' => oz_eqb v v'
  | BEmpty x, BEmpty y => Bool.eqb x y
  | BStress a1 a2, BStress b1 b2 => Bool.eqb a1 b1 && Bool.eqb a2 b2
  | BPanic, BPanic => true
  | _, _ => false
  end.

Definition case := (list op * list obs)%type.

Definition agree (c : case) : bool := list_eqb obs_eqb (run (fst c)) (snd c).
Definition monitor (c : case) : bool := list_eqb obs_eqb (spec_run (fst c)) (snd c).

Definition disagreeing (cs : list case) : list Z := failing agree cs.
Definition monitor_failing (cs : list case) : list Z := failing monitor cs.
